/-
  SfModel.Abs — L0: the ABSTRACT model of one handle on ANY container, and the contract of properties
  C05 / C06 / C08 as decidable Boolean checkers over one transcript line (`Sf.Abs.check`) and over a whole
  transcript (`Sf.Abs.holdsOn`).

  Nothing here knows bytes, headers or codecs.  A file is a number of frames; what a sequential decode of it
  delivers to a caller of sample type `ty` is a PARAMETER (`St.ref ty`, DESIGN §6 "opaque codecs": the reference
  stream of one sequential read through a separate handle).  The checkers do not compute what a call answers —
  they JUDGE an answer (`Out`, one transcript line of the harness) against the clauses of the property statements
  (quoted from properties.jsonl next to each clause) and return the next abstract state, or the tag of the first
  clause that fails together with a state from which judging can go on.

  The compiled driver (`sfmodel abs`, lean/Driver/Abs.lean) evaluates exactly these definitions on the
  implementation's own transcripts; lean/SfProps/C05Abs.lean, C06Abs.lean, C08Abs.lean prove what an accepted
  transcript means, and that every transcript of the concrete handle model (SfModel/Handle.lean) is accepted.

  Core Lean only (no Mathlib): the driver links this file.
-/
import SfModel.Pcm
namespace Sf.Abs
open Sf

/-- one CELL of a caller buffer: the bit pattern of a 16- or 32-bit host value as the harness prints it; a 64-bit item
    (double) is two cells, high half first.  (Cells of at most 32 bits are unboxed scalars in the compiled driver.) -/
abbrev Item := Nat

/-- cells per item -/
def cells : Ty → Nat | .f64 => 2 | _ => 1

inductive Mode | r | w | rw
deriving Repr, DecidableEq, Inhabited

/-- the cell the harness pre-fills read buffers with (0xA5 bytes) -/
def pat : Ty → Item
  | .s16 => 0xA5A5 | _ => 0xA5A5A5A5

/-- geometry of the container / encoding: everything the contract depends on that is not the data -/
structure Geom where
  ch : Nat                              -- channels (items per frame)
  block : Nat := 1                      -- B: block length of the encoding in frames (1 = sample-granular)
  pad : Nat := 0                        -- pad rule: frames a container may add when it pads odd byte counts (C04)
  seekable : Bool := true               -- SF_INFO.seekable
  bw : Nat := 0                         -- bytes per frame for sf_read_raw / sf_write_raw; 0 = not offered
  canTrunc : Bool := false              -- the route has ftruncate (descriptor routes; not SF_VIRTUAL_IO)
  strictSeek : Bool := false            -- a seek to a frame in [0, frames] must succeed (sample-granular RDWR files)
  ioMayFail : Bool := false             -- the underlying I/O may fail: short writes are inside the contract
  lossless : Ty → Bool := fun _ => false  -- C01: caller types the encoding stores exactly
  holeZero : Ty → Bool := fun _ => false  -- does a frame nobody wrote (seek past the end, extending truncate) read as 0?
  tailClean : Bool := false             -- the reader leaves the rest of the requested region untouched or zero-filled
                                        -- (true of the modelled RAW/AU/WAV readers; NOT of the statement: a reader that finds
                                        -- part of a sample behind the data, e.g. VOC's terminator byte, or a block decoder that
                                        -- stages through the caller's buffer, e.g. DWVW, leaves other bytes there)
  frames0 : Nat := 0                    -- F: frames of the file when the transcript starts
  mode0 : Mode := .r                    -- mode of the handle when the transcript starts

/-- abstract state of a handle -/
structure St where
  mode : Mode
  frames : Nat
  rpos : Nat
  wpos : Nat
  err : Bool := false                   -- the handle's error flag as the last call left it
  ref : Ty → Array Item                 -- the item stream a sequential read of the file delivers, per caller type
  valid : Ty → Bool                     -- is `ref ty` known? (a write through another type makes it unknown)
  raw : Array Item := #[]               -- the bytes of the data section (sf_read_raw), when known
  rawValid : Bool := false

/-- state at the start of a transcript: the file of `g.frames0` frames with the given reference streams -/
def St.init (g : Geom) (ref : Ty → Array Item) (valid : Ty → Bool) (raw : Array Item := #[]) (rawValid : Bool := false) : St :=
  { mode := g.mode0, frames := g.frames0, rpos := 0, wpos := if g.mode0 = .rw then g.frames0 else 0,
    ref := ref, valid := valid, raw := raw, rawValid := rawValid }

/-- one operation line of a script -/
inductive Op
  | read (ty : Ty) (fc : Bool) (n : Int)                        -- sf_read_T (fc = false: items) / sf_readf_T (frames)
  | write (ty : Ty) (fc : Bool) (n : Int) (data : Array Item)   -- sf_write_T / sf_writef_T
  | seek (off : Int) (whence : Int)
  | trunc (n : Int)                                             -- SFC_FILE_TRUNCATE
  | rawRead (n : Int)                                           -- sf_read_raw, n bytes
  | rawWrite (n : Int) (data : Array Item)
  | info                                                        -- SFC_GET_CURRENT_SF_INFO
  | close
  | reopen (mode : Mode)                                        -- a fresh open of the closed file
  | other                                                       -- a call the three statements are silent about

/-- one transcript line: what the call answered -/
structure Out where
  ret : Int := 0
  err : Bool := false            -- sf_error (handle) ≠ 0 after the call
  data : Array Item := #[]       -- the whole requested region of the caller's buffer after a read
  frames : Int := 0              -- SF_INFO.frames (info / open lines)
  null : Bool := false           -- open returned NULL

/-- result of judging one line -/
inductive Res
  | ok (st : St)
  | bad (tag : String) (resume : St)     -- clause `tag` fails; judging may go on from `resume`
  | skip                                 -- the container refuses the open mode: the history says nothing

/-! ## item sequences -/

/-- `a[i+k] = b[j+k]` for every `k < n`, all cells existing -/
def sliceEq (a : Array Item) (i : Nat) (b : Array Item) (j : Nat) : Nat → Bool
  | 0 => true
  | n+1 => if h : i < a.size ∧ j < b.size then a[i]'h.1 == b[j]'h.2 && sliceEq a (i+1) b (j+1) n else false

/-- every cell `a[i+k]`, `k < n`, exists and equals `v` or `w` -/
def allOf (a : Array Item) (v w : Item) (i : Nat) : Nat → Bool
  | 0 => true
  | n+1 => if h : i < a.size then (a[i] == v || a[i] == w) && allOf a v w (i+1) n else false

/-- the frames in front of item `p`; a hole (`p` past the end) reads as `hole` -/
def upTo (hole : Item) (a : Array Item) (p : Nat) : Array Item :=
  a.extract 0 p ++ Array.replicate (p - a.size) hole

/-- overwrite / extend: `d` stored at item `p` -/
def writeAt (hole : Item) (a : Array Item) (p : Nat) (d : Array Item) : Array Item :=
  upTo hole a p ++ d ++ a.extract (p + d.size) a.size

/-! ## requests -/

/-- cells per frame for a caller type -/
def Geom.cpf (g : Geom) (ty : Ty) : Nat := g.ch * cells ty

/-- items a request covers -/
def reqItems (g : Geom) (fc : Bool) (n : Int) : Nat := if fc then n.toNat * g.ch else n.toNat

/-- items a return value stands for -/
def retItems (g : Geom) (fc : Bool) (r : Int) : Nat := if fc then r.toNat * g.ch else r.toNat

/-- a request the read/write wrappers accept (`n = 0` is answered before the handle is looked at) -/
def validReq (g : Geom) (fc : Bool) (n : Int) : Bool := 0 < n && (fc || n % (g.ch : Int) == 0)

/-! ## C05 — read -/

/-- C05: "A read call returns r with 0 <= r <= requested (a whole number of frames), stores exactly the next r items
    of the stream at the start of the caller's buffer, never touches memory outside the requested region, advances the
    read position by exactly r, returns less than requested only when the data ends, and at end of data returns 0,
    zero-fills the requested region and sets no error."
    C06: "reading it in any partition into calls of any sizes, through item or frame call variants, yields the same
    sequence as one sequential read" — the `data` clause against the reference stream. -/
def readOk (g : Geom) (st : St) (ty : Ty) (fc : Bool) (n : Int) (o : Out) : Res :=
  if n = 0 then
    -- a zero-length request: 0, nothing changes
    if o.ret = 0 then .ok st else .bad "count" st
  else if !validReq g fc n || st.mode = .w then
    -- invalid request ⇒ 0 + error + no state change
    if o.ret = 0 ∧ o.err then .ok { st with err := true } else .bad "invalid" st
  else
    let req := reqItems g fc n * cells ty                  -- cells of the requested region
    let items := retItems g fc o.ret
    let k := items / g.ch                                  -- frames delivered
    let got := items * cells ty                            -- cells delivered
    let st' : St := { st with rpos := st.rpos + k, err := false }
    -- "0 <= r <= requested (a whole number of frames)"
    if o.ret < 0 ∨ n < o.ret then .bad "count" st
    else if items % g.ch ≠ 0 then .bad "count" st'
    -- the harness hands over exactly the requested region ("never touches memory outside" is ASan's part)
    else if o.data.size ≠ req then .bad "count" st'
    else if st.frames ≤ st.rpos then
      -- "at end of data returns 0, zero-fills the requested region and sets no error"
      if o.ret ≠ 0 ∨ o.err then .bad "eof" st
      else if !allOf o.data 0 0 0 req then .bad "eof" st
      else .ok { st with err := false }
    -- "stores exactly the next r items of the stream at the start of the caller's buffer"
    else if st.frames < st.rpos + k then .bad "data" { st' with rpos := st.frames }
    else if st.valid ty && !sliceEq o.data 0 (st.ref ty) (st.rpos * g.cpf ty) got then .bad "data" st'
    -- "returns less than requested only when the data ends"
    else if o.ret < n ∧ st.rpos + k ≠ st.frames then .bad "short" st'
    -- a call that delivered what was asked leaves no error
    else if o.err then .bad "error" st'
    -- the rest of the requested region: untouched (0xA5 pre-fill) or zero-filled, as the wrapper dictates
    else if g.tailClean && !allOf o.data (pat ty) 0 got (req - got) then .bad "tail" st'
    -- "advances the read position by exactly r"
    else .ok st'

/-! ## C05 — write -/

/-- C05: "A write call returns w with 0 <= w <= requested, equal to requested unless the underlying I/O fails, never
    reads outside the supplied region and advances the write position and frame count by exactly w."
    C08: "writing inside existing data overwrites it without changing the length, writing at or past the end extends
    the frame count … existing content not overwritten is preserved". -/
def writeOk (g : Geom) (st : St) (ty : Ty) (fc : Bool) (n : Int) (data : Array Item) (o : Out) : Res :=
  if n = 0 then
    if o.ret = 0 then .ok st else .bad "wcount" st
  else if !validReq g fc n || st.mode = .r then
    if o.ret = 0 ∧ o.err then .ok { st with err := true } else .bad "invalid" st
  else
    let req := reqItems g fc n
    let items := retItems g fc o.ret
    let k := items / g.ch
    let wpos' := st.wpos + k
    let keep := g.lossless ty && st.valid ty && (st.wpos ≤ st.frames || g.holeZero ty)
    let st' : St :=
      if k = 0 then { st with err := o.err } else
      { st with wpos := wpos', frames := max st.frames wpos', err := o.err,
                ref := fun t => if t = ty then writeAt 0 (st.ref ty) (st.wpos * g.cpf ty) (data.extract 0 (items * cells ty)) else st.ref t,
                valid := fun t => t = ty && keep,
                rawValid := false }
    if data.size < req * cells ty then .bad "wcount" st            -- the script supplies the whole region
    else if o.ret < 0 ∨ n < o.ret then .bad "wcount" st
    else if items % g.ch ≠ 0 then .bad "wcount" st'
    -- "equal to requested unless the underlying I/O fails"
    else if o.ret < n ∧ !g.ioMayFail then .bad "wshort" st'
    else if o.ret = n ∧ o.err then .bad "error" st'
    -- "advances the write position and frame count by exactly w"
    else .ok st'

/-! ## C06 / C08 — seek -/

/-- whence values sf_seek knows: SEEK_SET / SEEK_CUR / SEEK_END, plain or with SFM_READ (0x10) / SFM_WRITE (0x20);
    SEEK_SET also with SFM_RDWR (0x30).  The frame the offset is relative to — C08: a plain SEEK_CUR on a read/write
    handle is relative to the WRITE position. -/
def seekBase (st : St) (whence : Int) : Option Nat :=
  if whence = 0 ∨ whence = 0x10 ∨ whence = 0x20 ∨ whence = 0x30 then some 0
  else if whence = 1 then some (if st.mode = .r then st.rpos else st.wpos)
  else if whence = 0x11 then some st.rpos
  else if whence = 0x21 then some st.wpos
  else if whence = 2 ∨ whence = 0x12 ∨ whence = 0x22 then some st.frames
  else none

/-- the SFM_ qualifier of a known whence value -/
def seekQual (whence : Int) : Int := whence / 0x10 * 0x10

/-- which pointer(s) a whence value names: its SFM_ qualifier, or the mode of the handle for a plain value -/
def seekPtr (st : St) (whence : Int) : Int :=
  if seekQual whence = 0 then (match st.mode with | .r => 0x10 | .w => 0x20 | .rw => 0x30) else seekQual whence

/-- C08: "whence values combined with SFM_READ or SFM_WRITE move only that pointer while plain whence values move both" -/
def seekMove (st : St) (whence : Int) (t : Nat) : St :=
  if seekPtr st whence = 0x10 then { st with rpos := t, err := false }
  else if seekPtr st whence = 0x20 then { st with wpos := t, err := false }
  else { st with rpos := t, wpos := t, err := false }

/-- the absolute frame a seek asks for, when the request is one sf_seek may accept -/
def seekTarget (st : St) (off whence : Int) : Option Nat :=
  match seekBase st whence with
  | none => none
  | some b =>
    let t : Int := (b : Int) + off
    if (seekQual whence = 0x20 ∧ st.mode = .r) ∨ (seekQual whence = 0x10 ∧ st.mode = .w) then none
    else if t < 0 then none
    else if st.mode = .r ∧ (st.frames : Int) < t then none
    else some t.toNat

/-- C06: "sf_seek returns either the requested absolute position or -1 with an error set, and a zero-offset SEEK_CUR
    always reports the index of the next frame to be delivered."  A refused seek changes no position. -/
def seekOk (g : Geom) (st : St) (off whence : Int) (o : Out) : Res :=
  let tgt := if g.seekable then seekTarget st off whence else none
  if o.ret = -1 then
    if !o.err then .bad "seek" st
    else match tgt with
      | some t =>
        -- "a zero-offset SEEK_CUR ALWAYS reports the index of the next frame to be delivered"
        if off = 0 ∧ whence % 0x10 = 1 then .bad "position" { st with err := true }
        else if g.strictSeek ∧ t ≤ st.frames then .bad "seek-refused" { st with err := true }
        else .ok { st with err := true }
      | none => .ok { st with err := true }
  else match tgt with
    | none => .bad "seek" st                                  -- a request that must be refused was answered
    | some t =>
      if o.ret ≠ (t : Int) then
        .bad (if off = 0 ∧ whence % 0x10 = 1 then "position" else "seek") (if 0 ≤ o.ret then seekMove st whence o.ret.toNat else st)
      else if o.err then .bad "seek" (seekMove st whence t)
      else .ok (seekMove st whence t)

/-! ## C08 — truncate -/

/-- C08: "SFC_FILE_TRUNCATE shortens the file to the requested count."  Where the route has no `ftruncate`
    (SF_VIRTUAL_IO), in read mode, or for a negative count the command is an invalid request: non-zero answer, nothing
    changes. -/
def truncOk (g : Geom) (st : St) (n : Int) (o : Out) : Res :=
  if st.mode = .r ∨ !g.canTrunc ∨ n < 0 then
    if o.ret ≠ 0 then .ok { st with err := o.err } else .bad "trunc-refuse" st
  else
    let m := n.toNat
    let st' : St := { st with frames := m, rpos := m, wpos := m, err := false,
                              ref := fun t => upTo 0 ((st.ref t).extract 0 (m * g.cpf t)) (m * g.cpf t),
                              valid := fun t => st.valid t && (m ≤ st.frames || g.holeZero t),
                              rawValid := st.rawValid && m ≤ st.frames,
                              raw := upTo 0 (st.raw.extract 0 (m * g.bw)) (m * g.bw) }
    if o.ret ≠ 0 ∨ o.err then .bad "trunc" st else .ok st'

/-! ## raw reads and writes (sample-granular encodings) -/

/-- C05: "plus sf_read_raw/sf_write_raw on sample-granular encodings": whole frames only, the same count / position /
    end-of-data clauses in bytes -/
def rawReadOk (g : Geom) (st : St) (n : Int) (o : Out) : Res :=
  if g.bw = 0 then .ok st
  else if st.mode = .w then
    if o.ret = 0 ∧ o.err then .ok { st with err := true } else .bad "invalid" st
  else if 0 ≤ n ∧ st.frames ≤ st.rpos then
    -- sf_read_raw tests end of data before the alignment of the request
    if o.ret = 0 ∧ !o.err then .ok { st with err := false } else .bad "eof" st
  else if n < 0 ∨ n.toNat % g.bw ≠ 0 then
    if o.ret = 0 ∧ o.err then .ok { st with err := true } else .bad "invalid" st
  else
    let want := min (n.toNat / g.bw) (st.frames - st.rpos)
    let st' : St := { st with rpos := st.rpos + want, err := false }
    if o.ret ≠ ((want * g.bw : Nat) : Int) then .bad "count" st'
    else if st.rawValid && !sliceEq o.data 0 st.raw (st.rpos * g.bw) (want * g.bw) then .bad "data" st'
    else if o.err then .bad "error" st'
    else .ok st'

def rawWriteOk (g : Geom) (st : St) (n : Int) (data : Array Item) (o : Out) : Res :=
  if g.bw = 0 then .ok st
  else if st.mode = .r ∨ n < 0 ∨ n.toNat % g.bw ≠ 0 then
    if o.ret = 0 ∧ o.err then .ok { st with err := true } else .bad "invalid" st
  else if n = 0 then (if o.ret = 0 then .ok st else .bad "wcount" st)
  else
    let k := n.toNat / g.bw
    let wpos' := st.wpos + k
    let st' : St := { st with wpos := wpos', frames := max st.frames wpos', err := false, valid := fun _ => false,
                              raw := writeAt 0 st.raw (st.wpos * g.bw) (data.extract 0 n.toNat) }
    if data.size < n.toNat then .bad "wcount" st
    else if o.ret ≠ n then .bad "wshort" st'
    else if o.err then .bad "error" st'
    else .ok st'

/-! ## info, close, re-open -/

def infoOk (st : St) (o : Out) : Res :=
  if o.frames = (st.frames : Int) then .ok st else .bad "frames" st

def closeOk (st : St) (o : Out) : Res :=
  if o.ret = 0 then .ok st else .bad "close" st

/-- C08: "After close, a fresh open sees exactly the final frame sequence and count".  C04: the count a re-open
    reports is `N ≤ F < N + B` (+ the container's pad frames); when it is not `N` the streams are no longer known. -/
def reopenOk (g : Geom) (st : St) (m : Mode) (o : Out) : Res :=
  if o.null then (if m = .rw then .skip else .bad "open" st)
  else if m = .w then
    .ok { st with mode := .w, frames := 0, rpos := 0, wpos := 0, err := false, ref := fun _ => #[], valid := fun _ => true,
                  raw := #[], rawValid := true }
  else
    let fresh (f : Nat) (keep : Bool) : St :=
      { st with mode := m, frames := f, rpos := 0, wpos := if m = .rw then f else 0, err := false,
                valid := fun t => keep && st.valid t, rawValid := keep && st.rawValid }
    if o.frames = (st.frames : Int) then .ok (fresh st.frames true)
    else if (st.frames : Int) ≤ o.frames ∧ o.frames < ((st.frames + max g.block 1 + g.pad : Nat) : Int) then
      .ok (fresh o.frames.toNat false)
    else .bad "reopen-frames" (fresh o.frames.toNat false)

/-! ## one line, a whole transcript -/

def check (g : Geom) (st : St) (op : Op) (o : Out) : Res :=
  match op with
  | .read ty fc n => readOk g st ty fc n o
  | .write ty fc n data => writeOk g st ty fc n data o
  | .seek off whence => seekOk g st off whence o
  | .trunc n => truncOk g st n o
  | .rawRead n => rawReadOk g st n o
  | .rawWrite n data => rawWriteOk g st n data o
  | .info => infoOk st o
  | .close => closeOk st o
  | .reopen m => reopenOk g st m o
  | .other => .ok st

/-- the state after a transcript every line of which is accepted -/
def accepts (g : Geom) : St → List (Op × Out) → Option St
  | st, [] => some st
  | st, (op, o) :: tr =>
    match check g st op o with
    | .ok st' => accepts g st' tr
    | _ => none

inductive Verdict
  | ok (n : Nat)                        -- every one of the `n` lines is accepted
  | bad (k : Nat) (tag : String)        -- line `k` (from 0) fails clause `tag`
  | skip (k : Nat)                      -- line `k` is an open the container refuses
deriving Repr, DecidableEq

def holdsFrom (g : Geom) : Nat → St → List (Op × Out) → Verdict
  | k, _, [] => .ok k
  | k, st, (op, o) :: tr =>
    match check g st op o with
    | .ok st' => holdsFrom g (k + 1) st' tr
    | .bad tag _ => .bad k tag
    | .skip => .skip k

/-- THE PREDICATE: the verdict of properties C05 / C06 / C08 on one transcript of the implementation -/
def holdsOn (g : Geom) (ref : Ty → Array Item) (valid : Ty → Bool) (tr : List (Op × Out)) : Verdict :=
  holdsFrom g 0 (St.init g ref valid) tr

/-- every failing line, judging on from the `resume` state after each (what the driver prints; `limit` bounds the list) -/
def failures (g : Geom) : Nat → Nat → St → List (Op × Out) → List (Nat × String)
  | _, _, _, [] => []
  | 0, _, _, _ => []
  | limit+1, k, st, (op, o) :: tr =>
    match check g st op o with
    | .ok st' => failures g (limit+1) (k + 1) st' tr
    | .bad tag st' => (k, tag) :: failures g limit (k + 1) st' tr
    | .skip => [(k, "skip")]

end Sf.Abs
