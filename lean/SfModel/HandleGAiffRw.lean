/-
  SfModel.HandleGAiffRw — SFM_RDWR on an EXISTING AIFF / AIFF-C file on the generic handle machine.

  `aiff_write_header` does not build a header when the handle is SFM_RDWR, `psf->dataoffset > 0` and the header parser has
  recorded chunks (`psf->rchunks.count > 0`): `aiff_rewrite_header` reads the first `ssnd_offset + 16` bytes of the file back,
  patches the FORM size, the channel and frame fields of COMM and the SSND size in place and writes the bytes up to the SSND
  size field out again; `psf->dataoffset` is left alone, the file position is put back when it was not 0.  A `Spec` cannot say
  that (its header bytes are a function of the handle state only), so AIFF gets a hand-made `Cont`:

  * `aiffCont.writeHeader`   the in-place patch on handles that came through the parser, `aiffSpec.writeHeader` otherwise
  * `aiffCont.closeStore`    aiff_write_tailer, then that header writer
  * `aiffCont.openH`         SFM_RDWR on a non-empty store: the parser, `psf_fseek (dataoffset)`, the patch; everything else is
                             `aiffSpec.openH`

  "came through the parser" (`rchunks.count > 0`) is one bit of handle state `Sf.H` has no field for; the generic machine
  never looks at `H.container`, so the bit is kept there (`parsedTag`).  Described: the header layouts aiff_write_header itself
  produces without a PEAK chunk (AIFF: COMM at 12, SSND at 38, audio at 54; AIFF-C: FVER, COMM at 24, SSND at 56, audio at
  72), files of at least 40 bytes.  Anything else answers `unmodelled`.

  Core Lean only; names live in `Sf.HandleG`.
-/
import SfModel.HandleGInst
namespace Sf.HandleG
open Sf

/-- `H.container` of a handle whose header was parsed (the generic machine does not look at the field) -/
def parsedTag : Container := .wav

/-- offsets of the COMM and SSND chunk headers in a header aiff_write_header wrote (no PEAK chunk), or `none` -/
def aiffLayout (bs : List Byte) (dataoffset : Nat) : Option (Nat × Nat) :=
  let at4 (p : Nat) (m : String) : Bool := (bs.drop p).take 4 == Aiff.mk4 m
  if at4 8 "AIFF" ∧ at4 12 "COMM" ∧ at4 38 "SSND" ∧ dataoffset == 54 ∧ bs.length ≥ 54 then some (12, 38)
  else if at4 8 "AIFC" ∧ at4 12 "FVER" ∧ at4 24 "COMM" ∧ at4 56 "SSND" ∧ dataoffset == 72 ∧ bs.length ≥ 72 then some (24, 56)
  else none

/-- `aiff_rewrite_header` on the bytes of the file: FORM size, COMM channels / frames, SSND size -/
def aiffPatch (bs : List Byte) (comm ssnd : Nat) (h : H) : List Byte :=
  let buf := bs.take (ssnd + 16)
  let buf := writeAt buf 4 (Aiff.be32 (h.filelength - 8))
  let buf := writeAt buf (comm + 8) (Aiff.be16 h.ch ++ Aiff.be32 h.frames)
  let buf := writeAt buf (ssnd + 4) (Aiff.be32 (h.datalength + 8))
  buf.take (ssnd + 8)

/-- `aiff_write_header` on the SFM_RDWR / parsed-header route -/
def aiffRwHeader (h : H) (s : Store) (calcLen : Bool) : H × Store :=
  let cur := s.pos
  let h1 := if calcLen then calcStd true h s.bytes.length else h
  match aiffLayout s.bytes h.dataoffset.toNat with
  | none => (h1, s)                          -- not reached on the files `aiffCont.openH` lets through
  | some (comm, ssnd) =>
    let s1 := (s.seekSet 0).write (aiffPatch s.bytes comm ssnd h1)
    (h1, if cur > 0 then s1.seekSet cur else s1)

def aiffWriteHeader (h : H) (s : Store) (calcLen : Bool) : H × Store :=
  if h.mode == .rw ∧ h.container == parsedTag ∧ h.dataoffset > 0 then aiffRwHeader h s calcLen
  else aiffSpec.writeHeader h s calcLen

def aiffCloseStore (h : H) (s : Store) : Store :=
  if h.mode == .r then s else
  let (h, s) := aiffTailer h s
  (aiffWriteHeader h s true).2

def aiffOpenRw (ix : Nat) (s : Store) : OpenRes :=
  let s := s.seekSet 0
  match aiffParse s.bytes with
  | .err => .fail s
  | .unmodelled => .unmodelled
  | .ok p enc =>
    if p.sr < 1 then .fail s else
    if enc.isFloatData ∨ p.filelength < 40 then .unmodelled else        -- PEAK chunk; the start-afresh route with stale chunk offsets
    match aiffLayout s.bytes p.dataoffset with
    | none => .unmodelled
    | some _ =>
      let fr := initFrames p.dataoffset p.dataend p.filelength (enc.nbytes * p.ch)
      let h : H := { store := ix, mode := .rw, container := parsedTag, enc := enc, big := p.big, ch := p.ch, sr := p.sr,
                     fmtWord := p.fmtWord, frames := fr.2, lastOp := .rw, dataoffset := p.dataoffset, datalength := fr.1,
                     dataend := p.dataend, filelength := p.filelength }
      let (h, s) := aiffWriteHeader h (s.seekSet p.dataoffset) false
      .ok (finishOpen h) s

def aiffCont : Cont :=
  { name := "aiff", hasHeader := true, writeHeader := aiffWriteHeader, closeStore := aiffCloseStore,
    openH := fun ix s mode fmt ch sr stale =>
      if mode == .rw ∧ s.bytes.length > 0 then aiffOpenRw ix s else aiffSpec.openH ix s mode fmt ch sr stale }

/-- the container record the driver runs a `Spec` with -/
def contOf (sp : Spec) : Cont := if sp.name == "aiff" then aiffCont else sp.toCont

end Sf.HandleG
