/-
  SfModel.SdsScan — the block-count scan of sds_read_header (src/sds.c:282), as it is since /repo 62c7950:

      for (blockcount = 0 ; bytesread < psf->filelength ; blockcount++)
      {   int got = (int) psf_fread (&marker, 1, 2, psf) ;
          bytesread += got ;
          if (got != 2 || marker == 0) break ;
          psf_fseek (psf, SDS_BLOCK_SIZE - 2, SEEK_CUR) ;
          bytesread += SDS_BLOCK_SIZE - 2 ;
          }

  and as it was before (`Rule.old`):   bytesread += (int) psf_fread (&marker, 1, 2, psf) ; if (marker == 0) break ;

  The I/O layer is an oracle: the k-th psf_fread delivers `(o k).1` bytes (0, 1 or 2) and leaves
  `(o k).2` in `marker`; when nothing is delivered `marker` keeps its value.  For a pipe
  psf->filelength is SF_COUNT_MAX.  `none` = still running when the fuel is used up.
-/
namespace Sf.SdsScan

def SDS_BLOCK_SIZE : Int := 127
def SF_COUNT_MAX : Int := 9223372036854775807

inductive Rule where
  | old        -- before 62c7950: only `marker == 0` leaves the loop
  | current    -- a short read leaves it too
deriving Repr, DecidableEq, Inhabited

/-- the loop's `break` test -/
def stopNow (r : Rule) (got : Int) (marker : Nat) : Bool :=
  match r with
  | .old => decide (marker = 0)
  | .current => decide (got ≠ 2 ∨ marker = 0)

def scan (r : Rule) (filelength : Int) (o : Nat → Nat × Nat) : Nat → Nat → Int → Nat → Option Nat
  | fuel, k, bytesread, marker =>
    if bytesread < filelength then
      match fuel with
      | 0 => none
      | fuel + 1 =>
        let got : Int := if (o k).1 ≥ 2 then 2 else (o k).1
        let marker' := if (o k).1 = 0 then marker else (o k).2
        if stopNow r got marker' then some k
        else scan r filelength o fuel (k + 1) (bytesread + got + (SDS_BLOCK_SIZE - 2)) marker'
    else some k

/-- end of input: every read delivers nothing -/
def eof : Nat → Nat × Nat := fun _ => (0, 0)

end Sf.SdsScan

/-
  svx_read_header (src/svx.c:148) and, with the same exit test, wav.c:658, rf64.c:379, aiff.c:923:
  `while (! done) { read marker, size ; switch … ;
      if (psf_ftell (psf) >= psf->filelength - 4) break ; }`
  One iteration consumes `(o k).1` bytes of input and the content may set `done` (`(o k).2`).
  The position is the FILE position (psf_ftell), which never moves backwards.
-/
namespace Sf.SvxLoop

def loop (filelength : Int) (o : Nat → Nat × Bool) : Nat → Nat → Int → Option Nat
  | 0, _, _ => none
  | fuel + 1, k, pos =>
    let pos' := pos + (o k).1
    if (o k).2 then some k
    else if pos' ≥ filelength - 4 then some k
    else loop filelength o fuel (k + 1) pos'

/-- end of input: nothing is consumed, nothing new is seen -/
def eof : Nat → Nat × Bool := fun _ => (0, false)

end Sf.SvxLoop
