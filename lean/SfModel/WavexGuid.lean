/-
  SfModel.WavexGuid — the sub-format GUID of a WAVE_FORMAT_EXTENSIBLE `fmt ` chunk: what `wavex_write_fmt_chunk` (src/wav.c) emits
  for every encoding WAVEX carries, with and without the Ambisonic B-format flag (SFC_WAVEX_SET_AMBISONIC), and the GUID chain of
  `wavlike_read_fmt_chunk` (src/wavlike.c) as written.  lean/SfModel/Wavex.lean describes the header bytes WITHOUT the flag; this is
  the part of the format that the command changes.

    `Guid`            the four fields of EXT_SUBFORMAT
    `guidOf amb codec`  the GUID the writer picks: PCM / IEEE_FLOAT / ALAW / MULAW, or the two Ambisonic GUIDs of
                        http://dream.cs.bath.ac.uk/researchdev/wave-ex/bformat.html for PCM / float when the flag is set
                        (u-law / A-law have no Ambisonic GUID: the flag does not change theirs)
    `subformatOf g bytewidth`  the reader: compares `g` with the known GUIDs in the order of the C code; `none` = SFE_UNIMPLEMENTED
    `ambOf g`         the flag the reader sets (SFC_WAVEX_GET_AMBISONIC)
    `subformatMerged` the reader with the two Ambisonic branches folded into the PCM way of deriving the sub-format
                      (seeded/C01-wavex-ambisonic-float-guid-merged), kept for the witness theorem.
  Core Lean only.
-/
import SfModel.Basic
namespace Sf.WavexGuid

structure Guid where
  f1 : Nat
  f2 : Nat
  f3 : Nat
  f4 : List Nat
deriving Repr, DecidableEq

def msTail : List Nat := [0x80, 0x00, 0x00, 0xaa, 0x00, 0x38, 0x9b, 0x71]
def ambTail : List Nat := [0x86, 0x44, 0xc8, 0xc1, 0xca, 0x00, 0x00, 0x00]

def PCM : Guid := ⟨1, 0x0000, 0x0010, msTail⟩
def MS_ADPCM : Guid := ⟨2, 0x0000, 0x0010, msTail⟩
def IEEE_FLOAT : Guid := ⟨3, 0x0000, 0x0010, msTail⟩
def ALAW : Guid := ⟨6, 0x0000, 0x0010, msTail⟩
def MULAW : Guid := ⟨7, 0x0000, 0x0010, msTail⟩
def AMB_PCM : Guid := ⟨1, 0x0721, 0x11d3, ambTail⟩
def AMB_FLOAT : Guid := ⟨3, 0x0721, 0x11d3, ambTail⟩

/-- the encodings wav_open accepts for SF_FORMAT_WAVEX (SF_FORMAT_* sub-type numbers) -/
def codecs : List Nat := [0x05, 0x02, 0x03, 0x04, 0x06, 0x07, 0x10, 0x11]

/-- psf->bytewidth of the encoding -/
def bytewidth : Nat → Nat
  | 0x05 => 1 | 0x02 => 2 | 0x03 => 3 | 0x04 => 4 | 0x06 => 4 | 0x07 => 8 | 0x10 => 1 | 0x11 => 1 | _ => 0

/-- `wavex_write_fmt_chunk`: the GUID written (`amb` = wpriv->wavex_ambisonic != SF_AMBISONIC_NONE) -/
def guidOf (amb : Bool) (codec : Nat) : Option Guid :=
  match codec with
  | 0x05 | 0x02 | 0x03 | 0x04 => some (if amb then AMB_PCM else PCM)
  | 0x06 | 0x07 => some (if amb then AMB_FLOAT else IEEE_FLOAT)
  | 0x10 => some MULAW
  | 0x11 => some ALAW
  | _ => none

/-- `u_bitwidth_to_subformat (bits)` -/
def bitwidthToSubformat (bits : Nat) : Nat :=
  if bits < 8 ∨ bits > 32 then 0 else [0x05, 0x02, 0x03, 0x04].getD ((bits + 7) / 8 - 1) 0

/-- `wavlike_read_fmt_chunk`, WAVE_FORMAT_EXTENSIBLE: the sub-format (SF_FORMAT_* sub-type) of GUID `g` -/
def subformatOf (g : Guid) (bytewidth : Nat) : Option Nat :=
  if g = PCM then some (bitwidthToSubformat (bytewidth * 8))
  else if g = MS_ADPCM then some 0x13
  else if g = IEEE_FLOAT then some (if bytewidth = 8 then 0x07 else 0x06)
  else if g = ALAW then some 0x11
  else if g = MULAW then some 0x10
  else if g = AMB_PCM then some (bitwidthToSubformat (bytewidth * 8))
  else if g = AMB_FLOAT then some (if bytewidth = 8 then 0x07 else 0x06)
  else none

/-- … and the Ambisonic flag it leaves in the handle -/
def ambOf (g : Guid) : Bool := g = AMB_PCM ∨ g = AMB_FLOAT

/-- the chain with the two Ambisonic branches merged into the PCM derivation -/
def subformatMerged (g : Guid) (bytewidth : Nat) : Option Nat :=
  if g = PCM then some (bitwidthToSubformat (bytewidth * 8))
  else if g = MS_ADPCM then some 0x13
  else if g = IEEE_FLOAT then some (if bytewidth = 8 then 0x07 else 0x06)
  else if g = ALAW then some 0x11
  else if g = MULAW then some 0x10
  else if g = AMB_PCM ∨ g = AMB_FLOAT then some (bitwidthToSubformat (bytewidth * 8))
  else none

/-- a sub-format the codec initialisation of wav_open accepts (0 = "unimplemented format") -/
def opens (sub : Option Nat) : Bool := match sub with | some s => s ≠ 0 | none => false

end Sf.WavexGuid
