/-
  SfModel.RoutesLatch — psf->file.seek_failed on the three routes (round 8, repair of KF-C15-HEADER-POSITION).

  `Sf.Routes` (SfModel/Routes.lean) describes psf_fseek / psf_fwrite WHILE THE LATCH IS CLEAR; this file adds the latch on top of it,
  bug for bug with src/file_io.c:
      psf_fseek   virtual I/O:   seek_failed = (callback answer < 0)
                  pipe:          untouched (psf_fseek does nothing on a pipe)
                  whence > 2:    untouched (returns 0 before lseek)
                  descriptor:    seek_failed = (lseek result < 0)          [the result BEFORE fileoffset is subtracted]
      psf_fwrite  after the `bytes == 0 || items == 0` test: transfers nothing and returns 0 while seek_failed is set
      everything else (psf_fread, psf_ftell, psf_get_filelen, psf_ftruncate, psf_fclose) neither reads nor writes the flag.
  `sfmodel routes` runs the `shim` cases on `stepL` (the C14 correspondence is about the repaired code).
  Theorems: lean/SfProps/C14Latch.lean.
-/
import SfModel.Routes
namespace Sf.RoutesLatch
open Sf Sf.Routes

/-- a shim with its latch -/
structure LShim where
  sh : Shim
  seekFailed : Bool := false
deriving Repr, Inhabited

/-- result of a primitive on the latched shim -/
structure LR where
  r : R
  seekFailed : Bool
deriving Repr, Inhabited

def LR.ls (x : LR) : LShim := { sh := x.r.sh, seekFailed := x.seekFailed }

def fseekL (ls : LShim) (w : World) (off : Int) (whence : Nat) : LR :=
  let r := fseek ls.sh w off whence
  if ls.sh.virtualIo then { r := r, seekFailed := decide (r.ret < 0) }
  else if ls.sh.isPipe then { r := r, seekFailed := ls.seekFailed }
  else if 2 < whence then { r := r, seekFailed := ls.seekFailed }
  else { r := r, seekFailed := decide (r.ret + ls.sh.fileoffset < 0) }     -- r.ret = lseek result - fileoffset

def fwriteL (ls : LShim) (w : World) (bytes items : Int) (data : List Byte) : LR :=
  if bytes = 0 ∨ items = 0 then { r := fwrite ls.sh w bytes items data, seekFailed := ls.seekFailed }
  else if ls.seekFailed then { r := { ret := 0, sh := ls.sh, w := w }, seekFailed := true }
  else { r := fwrite ls.sh w bytes items data, seekFailed := false }

def stepL (ls : LShim) (w : World) : Op → LR
  | .seek off wh => fseekL ls w off wh
  | .write b i d => fwriteL ls w b i d
  | op => { r := step ls.sh w op, seekFailed := ls.seekFailed }

def runL : LShim → World → List Op → List Obs × LShim × World
  | ls, w, [] => ([], ls, w)
  | ls, w, op :: ops =>
    let x := stepL ls w op
    let rest := runL x.ls x.r.w ops
    ((x.r.ret, x.r.data) :: rest.1, rest.2)

end Sf.RoutesLatch
