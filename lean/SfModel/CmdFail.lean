/-
  SfModel.CmdFail — THE FAILURE CONVENTION of sf_command, per command id (C09: "fails with its documented failure value, records a
  non-zero error code … every call that succeeds leaves sf_error at 0").

  docs/command.md gives every command its own "Return value" paragraph; two conventions cover the commands whose refusal is not
  already judged by the setter table of vlib/c09twin.py:
    code    "Zero on success, non-zero otherwise": the non-zero value is the error number the handle reports afterwards
    falseE  SF_TRUE / SF_FALSE: SF_FALSE (0) with the error recorded
  `refusedBy` is what vlib/cmdfail.py (`refused`) and vlib/c09twin.py evaluate on a transcript line; the theorems that tie the table
  to the command model `Sf.Command.run` are in lean/SfProps/C09CmdFail.lean.

  Core Lean only.
-/
namespace Sf.CmdFail

inductive Conv
  | code | falseE
deriving Repr, DecidableEq

/-- the rows of vlib/cmdfail.py `table` -/
def convOf (cmd : Int) : Option Conv :=
  if cmd = 0x1040 ∨ cmd = 0x1041 ∨ cmd = 0x1042 ∨ cmd = 0x1043 ∨ cmd = 0x1090 then some .code
  else if cmd = 0x1044 ∨ cmd = 0x1045 then some .falseE
  else none

/-- did the call answer with the failure value of its convention? (`ret` = return value of sf_command, `err` = sf_error afterwards) -/
def refusedBy (c : Conv) (ret : Int) (err : Nat) : Bool :=
  match c with
  | .code => decide (ret ≠ 0) && decide (ret = (err : Int))
  | .falseE => decide (ret = 0) && decide (err ≠ 0)

/-- "every call that succeeds leaves sf_error at 0": the success value of the convention goes with error 0 -/
def successClean (c : Conv) (ret : Int) (err : Nat) : Bool :=
  match c with
  | .code => decide (ret = 0 → err = 0)
  | .falseE => decide (ret ≠ 0 → err = 0)

/-- a refusal never looks like a success -/
theorem refused_not_success (c : Conv) (ret : Int) (err : Nat) (h : refusedBy c ret err = true) :
    (c = .code → ret ≠ 0) ∧ (c = .falseE → ret = 0 ∧ err ≠ 0) := by
  cases c
  · simp only [refusedBy, Bool.and_eq_true, decide_eq_true_eq] at h
    exact ⟨fun _ => h.1, fun hc => (by cases hc)⟩
  · simp only [refusedBy, Bool.and_eq_true, decide_eq_true_eq] at h
    exact ⟨fun hc => (by cases hc), fun _ => h⟩

end Sf.CmdFail
