/-
  SfModel.HandleGInst2 — more instances of the generic handle machine (second group) and the complete tables
  `specOfMajor2` / `specOfBytes2` / `allSpecs2` the driver uses.

  Core Lean only; names live in `Sf.HandleG`.
-/
import SfModel.HandleGInst
namespace Sf.HandleG
open Sf

def allSpecs2 : List Spec := allSpecs

def specOfMajor2 (fmt : Nat) : Option Spec := specOfMajor fmt

def specOfBytes2 (bs : List Byte) : Option Spec :=
  allSpecs2.find? fun sp => match sp.parse 0 0 0 bs with | .unmodelled => false | _ => true

end Sf.HandleG
