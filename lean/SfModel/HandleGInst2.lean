/-
  SfModel.HandleGInst2 — the complete tables `specOfMajor2` / `specOfBytes2` / `allSpecs2` the driver uses: the first
  group of instances (SfModel/HandleGInst.lean: WAV, AU, AIFF, CAF, W64, AVR, IRCAM, PAF, HTK; RAW by the caller's format
  word) and the second (SfModel/HandleGInst3.lean: SVX, MPC2K, WVE, PVF, MAT4, MAT5, NIST, VOC).  `t`: the 124 text bytes
  of a MAT5 header (package version and date — a parameter of the model).

  Core Lean only; names live in `Sf.HandleG`.
-/
import SfModel.HandleGInst
import SfModel.HandleGInst3
namespace Sf.HandleG
open Sf

def allSpecs2 (t : List Byte := mat5Text0) : List Spec := allSpecs ++ allSpecs3 t

def specOfMajor2 (fmt : Nat) (t : List Byte := mat5Text0) : Option Spec :=
  match specOfMajor fmt with
  | some sp => some sp
  | none => specOfMajor3 t fmt

def specOfBytes2 (bs : List Byte) (t : List Byte := mat5Text0) : Option Spec :=
  (allSpecs2 t).find? fun sp => match sp.parse 0 0 0 bs with | .unmodelled => false | _ => true

end Sf.HandleG
