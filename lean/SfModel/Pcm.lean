/-
  SfModel.Pcm — the sample-granular codecs: integer PCM (pcm.c), binary32/binary64 data
  (float32.c / double64.c host paths), µ-law / A-law entry points (ulaw.c / alaw.c).

  A *code* is the signed integer a PCM sample stores (unsigned 8-bit files store code + 128).
  Caller values (`Val`) are `Int` for short/int and bit patterns (`Nat`, carried in an `Int`) for
  float/double.
-/
import SfModel.Basic
import SfModel.Float
import SfModel.G711
namespace Sf
open Sf.Float

inductive Ty | s16 | s32 | f32 | f64
deriving Repr, DecidableEq, Inhabited

def Ty.bits : Ty → Nat | .s16 => 16 | .s32 => 32 | .f32 => 32 | .f64 => 64
def Ty.isFloat : Ty → Bool | .f32 | .f64 => true | _ => false
def Ty.fmt : Ty → Fmt | .f64 => Float.f64 | _ => Float.f32

/-- per-handle conversion settings (SFC_SET_NORM_*, SFC_SET_CLIPPING, SFC_SET_SCALE_*) -/
structure Conv where
  normF   : Bool := true      -- psf->norm_float
  normD   : Bool := true      -- psf->norm_double
  clip    : Bool := false     -- psf->add_clipping
  scaleIF : Bool := false     -- psf->scale_int_float  (SFC_SET_SCALE_INT_FLOAT_WRITE)
  fiMult  : Bool := false     -- psf->float_int_mult   (SFC_SET_SCALE_FLOAT_INT_READ)
  floatMax : Nat := 0         -- psf->float_max (a C float: binary32 bits) — (32768/32767)·max|x| measured when fiMult was set
  variant : Variant := .sse2
deriving Repr, Inhabited

def Conv.norm (c : Conv) : Ty → Bool | .f32 => c.normF | .f64 => c.normD | _ => false

/-! ## integer PCM -/

structure PcmFmt where
  w : Nat              -- 8, 16, 24, 32
  unsigned : Bool      -- only meaningful with w = 8
  big : Bool
deriving Repr, DecidableEq, Inhabited

def PcmFmt.nbytes (p : PcmFmt) : Nat := p.w / 8

/-- bytes stored for a code (any integer: the byte stores truncate) -/
def PcmFmt.encCode (p : PcmFmt) (c : Int) : List Byte :=
  let u := wrapU p.w (if p.unsigned then c + 128 else c)
  if p.big then beBytes p.nbytes u else leBytes p.nbytes u

def PcmFmt.decCode (p : PcmFmt) (bs : List Byte) : Int :=
  let u := if p.big then ofBE bs else ofLE bs
  if p.unsigned then (u : Int) - 128 else sext p.w u

/-- `s2sc_array` … `s2lei_array`: keep the short in the most significant bits -/
def PcmFmt.ofS16 (p : PcmFmt) (x : Int) : Int :=
  if p.w = 8 then asr x 8 else x * 2 ^ (p.w - 16)

/-- `i2sc_array` … `i2lei_array` -/
def PcmFmt.ofS32 (p : PcmFmt) (x : Int) : Int := asr x (32 - p.w)

/-- `f2sc_array`/`f2sc_clip_array` … `d2lei_clip_array`.
    no clipping: `lrint (x * normfact)`, normfact = 2^(w-1) − 1 (converted to the caller's type) or 1;
    clipping   : normfact = 2^(w-1) or 1, saturate when the product is ≥ 2^(w-1) − 1 or ≤ −2^(w-1). -/
def PcmFmt.ofFloat (p : PcmFmt) (f : Fmt) (v : Variant) (norm clip : Bool) (x : Nat) : Int :=
  let xd := f.toDy x
  let maxc : Int := 2 ^ (p.w - 1) - 1
  let minc : Int := - 2 ^ (p.w - 1)
  if !clip then
    let nf : Dy := if norm then f.toDy (f.ofInt maxc) else ⟨false, 1, 0⟩
    lrintInt v (f.toDy (f.ofDy (xd.mul nf)))
  else
    let nf : Dy := if norm then ⟨false, 2 ^ (p.w - 1), 0⟩ else ⟨false, 1, 0⟩
    let sv := f.toDy (f.ofDy (xd.mul nf))
    if (Dy.ofInt maxc).le sv then maxc
    else if sv.le (Dy.ofInt minc) then minc
    -- `d2sc_clip_array` alone calls `psf_lrintf` on the double product: it is narrowed to float first
    else if p.w = 8 ∧ !p.unsigned ∧ f = f64 then lrintInt v (f32.toDy (f64to32 (f.ofDy sv)))
    else lrintInt v sv

def PcmFmt.toS16 (p : PcmFmt) (c : Int) : Int :=
  if p.w = 8 then wrapS 16 (c * 256) else asr c (p.w - 16)

def PcmFmt.toS32 (p : PcmFmt) (c : Int) : Int := wrapS 32 (c * 2 ^ (32 - p.w))

/-- `sc2f_array` … `bei2d_array`: `((T) value) * normfact`; 24-bit samples are first placed in the top
    of an int (value = code·256) and use 1/2^31 or 1/256. -/
def PcmFmt.toFloat (p : PcmFmt) (f : Fmt) (norm : Bool) (c : Int) : Nat :=
  let value : Int := if p.w = 24 then c * 256 else c
  let wv : Nat := if p.w = 24 then 32 else p.w
  let nf : Dy := if norm then ⟨false, 1, - ((wv : Int) - 1)⟩ else (if p.w = 24 then ⟨false, 1, -8⟩ else ⟨false, 1, 0⟩)
  f.ofDy ((f.toDy (f.ofInt value)).mul nf)

/-! ## floating-point data (float32.c / double64.c, host paths) -/

/-- write short/int into float data: `scale * x`, scale = 1/0x8000 resp. 1/2^31 when scale_int_float -/
def floatOfInt (f : Fmt) (scaleIF : Bool) (ty : Ty) (x : Int) : Nat :=
  let k : Int := if !scaleIF then 0 else if ty = .s16 then -15 else -31
  -- `scale * src[i]`: the integer is converted to the file type first (exact for short; int→float rounds)
  f.ofDy ((f.toDy (f.ofInt x)).mul ⟨false, 1, k⟩)

/-- the `scale` of the int read paths: 1.0, or `0x7FFF / psf->float_max`, `2147483648.0f / psf->float_max`.
    `float_max` is a C `float`, so the quotient is a binary32 division in float32.c and double64.c alike
    (double64.c then widens the quotient, exactly). -/
def readScale (c : Conv) (ty : Ty) : Dy :=
  if !c.fiMult then ⟨false, 1, 0⟩ else
  let num : Dy := if ty = .s16 then Dy.ofInt 0x7FFF else ⟨false, 1, 31⟩
  f32.toDy (f32.divDy num (f32.toDy c.floatMax))

/-- `f2s_array`, `f2s_clip_array`, `f2i_array`, `f2i_clip_array` and the double versions
    (note `d2i_clip_array` keeps the product in a `float`). -/
def intOfFloat (f : Fmt) (c : Conv) (ty : Ty) (x : Nat) : Int :=
  let sc := readScale c ty
  let prod := f.ofDy (sc.mul (f.toDy x))
  let pd : Dy :=
    if c.clip ∧ ty = .s32 ∧ f = f64 then f32.toDy (f64to32 prod) else f.toDy prod
  let bits := if ty = .s16 then 16 else 32
  if !c.clip then wrapS bits (lrintInt c.variant pd)
  else if ty = .s16 then
    if (Dy.ofInt 32767).lt pd then 32767
    else if pd.lt (Dy.ofInt (-32768)) then -32768
    else wrapS 16 (lrintInt c.variant pd)
  else
    if (Dy.ofInt 2147483647).lt pd then 2147483647
    else if pd.lt (Dy.ofInt (-2147483647)) then -2147483648
    else lrintInt c.variant pd

/-! ## one sample through a sample-granular codec -/

inductive Enc
  | pcm (p : PcmFmt)
  | flt (big : Bool)       -- binary32 data
  | dbl (big : Bool)       -- binary64 data
  | ulaw | alaw
deriving Repr, DecidableEq, Inhabited

def Enc.nbytes : Enc → Nat
  | .pcm p => p.nbytes | .flt _ => 4 | .dbl _ => 8 | .ulaw => 1 | .alaw => 1

def valBits (ty : Ty) (v : Int) : Nat := wrapU ty.bits v

/-- bytes stored for one caller value -/
def Enc.encode (e : Enc) (c : Conv) (ty : Ty) (v : Int) : List Byte :=
  match e with
  | .pcm p =>
    p.encCode (match ty with
      | .s16 => p.ofS16 v
      | .s32 => p.ofS32 v
      | .f32 => p.ofFloat f32 c.variant c.normF c.clip v.toNat
      | .f64 => p.ofFloat f64 c.variant c.normD c.clip v.toNat)
  | .flt big =>
    let b : Nat := match ty with
      | .s16 | .s32 => floatOfInt f32 c.scaleIF ty v
      | .f32 => v.toNat
      | .f64 => f64to32 v.toNat
    if big then beBytes 4 b else leBytes 4 b
  | .dbl big =>
    let b : Nat := match ty with
      | .s16 | .s32 => floatOfInt f64 c.scaleIF ty v
      | .f32 => f32to64 v.toNat
      | .f64 => v.toNat
    if big then beBytes 8 b else leBytes 8 b
  | .ulaw | .alaw =>
    let l := if e = .ulaw then G711.ulaw else G711.alaw
    [match ty with
      | .s16 => l.encS16 v
      | .s32 => l.encS32 v
      | .f32 => l.encFloat f32 c.variant c.normF v.toNat
      | .f64 => l.encFloat f64 c.variant c.normD v.toNat]

/-- caller value read from one stored sample (bytes has length `nbytes`) -/
def Enc.decode (e : Enc) (c : Conv) (ty : Ty) (bs : List Byte) : Int :=
  match e with
  | .pcm p =>
    let code := p.decCode bs
    match ty with
    | .s16 => p.toS16 code
    | .s32 => p.toS32 code
    | .f32 => p.toFloat f32 c.normF code
    | .f64 => p.toFloat f64 c.normD code
  | .flt big =>
    let b := if big then ofBE bs else ofLE bs
    match ty with
    | .s16 | .s32 => intOfFloat f32 c ty b
    | .f32 => b
    | .f64 => f32to64 b
  | .dbl big =>
    let b := if big then ofBE bs else ofLE bs
    match ty with
    | .s16 | .s32 => intOfFloat f64 c ty b
    | .f32 => f64to32 b
    | .f64 => b
  | .ulaw | .alaw =>
    let l := if e = .ulaw then G711.ulaw else G711.alaw
    let code := bs.headD 0
    match ty with
    | .s16 => l.decS16 code
    | .s32 => l.decS32 code
    | .f32 => l.decFloat f32 c.normF code
    | .f64 => l.decFloat f64 c.normD code

def Enc.encodeAll (e : Enc) (c : Conv) (ty : Ty) (vs : List Int) : List Byte :=
  vs.flatMap (e.encode c ty)

def Enc.decodeAll (e : Enc) (c : Conv) (ty : Ty) (bs : List Byte) : List Int :=
  (groups e.nbytes bs).map (e.decode c ty)

end Sf
