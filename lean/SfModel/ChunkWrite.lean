/-
  SfModel.ChunkWrite — the write entry points as steps of the chunk write handle (`Sf.Chunk.WHandle`).

  sndfile.c has NINE places that let audio out: sf_write_raw and sf_write_T / sf_writef_T for T = short, int, float,
  double.  Each of them, once the call has passed its guards (count not zero, SFM_WRITE / SFM_RDWR, whole frames, an
  installed codec function), writes the header if none was written yet and sets `psf->have_written = SF_TRUE` — the flag
  `sf_set_chunk` (and SFC_SET_BROADCAST_INFO / CART_INFO / CUE / INSTRUMENT / CHANNEL_MAP_INFO) refuses on.  `Sf.Chunk`
  had one anonymous `WHandle.write`; here the entry point is a parameter, so that "a chunk set after audio has been written
  is refused" is stated — and run by `sfmodel chunks` — for EVERY way audio can have been written.

  Core Lean only.
-/
import SfModel.Pcm
import SfModel.Chunk
namespace Sf.ChunkW
open Sf Sf.Chunk

/-- the nine write entry points of sndfile.c -/
inductive WriteFn
  | typed (ty : Ty) (frames : Bool)      -- sf_write_T (items) / sf_writef_T (frames)
  | raw                                  -- sf_write_raw (bytes)
deriving DecidableEq, Repr, Inhabited

def WriteFn.all : List WriteFn :=
  [.typed .s16 false, .typed .s16 true, .typed .s32 false, .typed .s32 true, .typed .f32 false, .typed .f32 true,
   .typed .f64 false, .typed .f64 true, .raw]

/-- geometry the guards look at: channels and bytes per sample of the encoding -/
structure Enc where
  ch : Nat
  bytewidth : Nat

/-- does a call with count `n` (items / frames / bytes) get past the guards in front of `have_written = SF_TRUE`?
    `len == 0` returns at once; items must be whole frames (`len % channels`); raw bytes must be whole frames
    (`len % (channels * bytewidth)`); negative counts are refused -/
def WriteFn.passes (fn : WriteFn) (e : Enc) (n : Int) : Bool :=
  match fn with
  | .typed _ true => 0 < n
  | .typed _ false => 0 < n && n % (e.ch : Int) == 0
  | .raw => 0 < n && n % ((e.ch * e.bytewidth : Nat) : Int) == 0

/-- frames a passing call adds (the store accepts everything) -/
def WriteFn.frames (fn : WriteFn) (e : Enc) (n : Int) : Nat :=
  match fn with
  | .typed _ true => n.toNat
  | .typed _ false => n.toNat / e.ch
  | .raw => n.toNat / (e.ch * e.bytewidth)

/-- bytes of audio a passing call appends to the data section -/
def WriteFn.bytes (fn : WriteFn) (e : Enc) (n : Int) : Nat := fn.frames e n * e.ch * e.bytewidth

/-- one write call on the chunk handle: EVERY entry point sets `have_written` once it is past its guards -/
def writeBy (h : WHandle) (fn : WriteFn) (e : Enc) (n : Int) : WHandle :=
  if fn.passes e n then { h with wrote := true } else h

/-- the rule of a library in which one entry point lost the assignment (`lost`): the seeded regression
    C13-write-raw-have-written is `lost = .raw` -/
def writeByLost (lost : WriteFn) (h : WHandle) (fn : WriteFn) (e : Enc) (n : Int) : WHandle :=
  if fn.passes e n && fn != lost then { h with wrote := true } else h

/-- a history of write calls -/
def writeAll (h : WHandle) (e : Enc) : List (WriteFn × Int) → WHandle
  | [] => h
  | (fn, n) :: cs => writeAll (writeBy h fn e n) e cs

def writeAllLost (lost : WriteFn) (h : WHandle) (e : Enc) : List (WriteFn × Int) → WHandle
  | [] => h
  | (fn, n) :: cs => writeAllLost lost (writeByLost lost h fn e n) e cs

/-- frames / bytes of audio a history stores -/
def framesOf (e : Enc) (cs : List (WriteFn × Int)) : Nat :=
  (cs.map fun c => if c.1.passes e c.2 then c.1.frames e c.2 else 0).foldl (· + ·) 0

def tyOfName (s : String) : Option Ty :=
  if s == "s16" then some .s16 else if s == "s32" then some .s32 else if s == "f32" then some .f32 else if s == "f64" then some .f64 else none

end Sf.ChunkW
