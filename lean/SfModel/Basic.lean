/-
  SfModel.Basic — integers as C sees them, bytes, hex.
  Core Lean only (no Mathlib): the driver executable links against this.
-/
namespace Sf

/-- two's-complement wrap of an integer to a signed `bits`-bit value (C conversion to intN_t) -/
def wrapS (bits : Nat) (x : Int) : Int :=
  let m : Int := 2 ^ bits
  let r := x % m
  if r < m / 2 then r else r - m

/-- the unsigned `bits`-bit residue -/
def wrapU (bits : Nat) (x : Int) : Nat := (x % (2 ^ bits : Int)).toNat

/-- arithmetic shift right (C `>>` on a signed value, as gcc implements it) -/
def asr (x : Int) (k : Nat) : Int := x / (2 ^ k : Int)   -- Int `/` is floor for positive divisors

/-- C truncating division -/
def cdiv (a b : Int) : Int := Int.tdiv a b

abbrev Byte := Nat   -- invariant: < 256 (kept as a side condition, `Nat` keeps goals inside `omega`)

/-- little-endian bytes of the low `n` bytes of `v` -/
def leBytes : Nat → Nat → List Byte
  | 0, _ => []
  | n+1, v => (v % 256) :: leBytes n (v / 256)

def beBytes (n v : Nat) : List Byte := (leBytes n v).reverse

def ofLE : List Byte → Nat
  | [] => 0
  | b :: bs => b + 256 * ofLE bs

def ofBE (bs : List Byte) : Nat := ofLE bs.reverse

/-- sign-extend an unsigned `bits`-bit number -/
def sext (bits : Nat) (u : Nat) : Int :=
  if u < 2 ^ (bits - 1) then (u : Int) else (u : Int) - (2 ^ bits : Int)

/-- split a list into consecutive groups of `n` (the last, incomplete group is dropped).
    `fuel` bounds the recursion; callers pass the list length. -/
def groupsAux (n : Nat) : Nat → List α → List (List α)
  | 0, _ => []
  | fuel+1, l =>
    let g := l.take n
    if g.length < n ∨ n = 0 then [] else g :: groupsAux n fuel (l.drop n)

def groups (n : Nat) (l : List α) : List (List α) := groupsAux n l.length l

/- ---------------- hex ---------------- -/
def hexDigit (n : Nat) : Char :=
  if n < 10 then Char.ofNat (48 + n) else Char.ofNat (87 + n)

def hexVal (c : Char) : Nat :=
  let n := c.toNat
  if 48 ≤ n ∧ n ≤ 57 then n - 48
  else if 97 ≤ n ∧ n ≤ 102 then n - 87
  else if 65 ≤ n ∧ n ≤ 70 then n - 55
  else 0

/-- fixed-width big-endian hex of a natural number (`digits` hex digits) -/
def hexFixed (digits : Nat) (v : Nat) : String :=
  String.ofList ((List.range digits).reverse.map fun i => hexDigit ((v / 16 ^ i) % 16))

def hexBytes (bs : List Byte) : String :=
  String.ofList (bs.flatMap fun b => [hexDigit (b / 16 % 16), hexDigit (b % 16)])

def parseHexNat (cs : List Char) : Nat := cs.foldl (fun a c => a * 16 + hexVal c) 0

def parseHexBytes (s : String) : List Byte :=
  (groups 2 s.toList).map parseHexNat

/-- items of `digits` hex digits each -/
def parseHexItems (digits : Nat) (s : String) : List Nat :=
  (groups digits s.toList).map parseHexNat

end Sf
