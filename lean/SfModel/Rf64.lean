/-
  SfModel.Rf64 — the RF64 container (src/rf64.c: rf64_write_header, rf64_write_fmt_chunk, rf64_write_tailer, rf64_close,
  SFC_RF64_AUTO_DOWNGRADE) for the sample-granular encodings, byte exact on the WRITE side.  Two header forms:
  * RF64: 'RF64' 0xFFFFFFFF 'WAVE', 'ds64' (28: riff size, data size, frame count as 64-bit fields, table length 0),
    'fmt ' (WAVE_FORMAT_EXTENSIBLE), 'data' 0xFFFFFFFF;
  * downgraded (the command was given before the first write and the file is shorter than 0xFFFFFFFF bytes):
    'RIFF' size 'WAVE', 'JUNK' (24 zero bytes), 'fmt ', 'fact', 'data' size — eight bytes longer.
  rf64_open does not reset sf.frames / datalength / dataoffset, so the header written by sf_open carries the caller's
  frames value and the sizes −8 / −1 (the same omission that was repaired in w64_open).
  The reader is not modelled here.
-/
import SfModel.Basic
import SfModel.Wavex
namespace Sf.Rf64
open Sf.Wavex (mk zeros bytewidth chanMask guid u writeAt)

structure Cfg where
  codec : Nat
  ch : Nat
  sr : Nat
  downgrade : Bool       -- SFC_RF64_AUTO_DOWNGRADE given right after sf_open
deriving Repr, DecidableEq, Inhabited

def Cfg.bw (c : Cfg) : Nat := bytewidth c.codec * c.ch
def Cfg.wf (c : Cfg) : Prop := c.codec ∈ Wavex.codecs ∧ 1 ≤ c.ch ∧ c.ch ≤ 1024 ∧ 1 ≤ c.sr ∧ c.sr ≤ 0x7FFFFFFF
instance (c : Cfg) : Decidable c.wf := by unfold Cfg.wf; infer_instance

def le (n : Nat) (v : Int) : List Byte := u false n v

/-- `rf64_write_fmt_chunk`: the WAVEX 'fmt ' chunk without the 'fact' chunk -/
def fmtChunk (c : Cfg) : List Byte := Wavex.fmtChunk false c.codec c.ch c.sr

/-- is the downgraded form written? -/
def riffForm (dg : Bool) (filelength : Int) : Bool := dg && decide (filelength < 0xFFFFFFFF)

def hdrLen (dg : Bool) : Nat := if dg then 12 + 32 + 48 + 12 + 8 else 12 + 36 + 48 + 8

/-- `rf64_write_header` for given downgrade flag, psf->filelength, psf->datalength, psf->sf.frames -/
def hdrRaw (c : Cfg) (dg : Bool) (filelength datalength frames : Int) : List Byte :=
  if riffForm dg filelength then
    mk "RIFF" ++ le 4 (if filelength < 8 then 8 else filelength - 8) ++ mk "WAVE" ++ mk "JUNK" ++ le 4 24 ++ zeros 24 ++
      fmtChunk c ++ (mk "fact" ++ le 4 4 ++ le 4 frames) ++ mk "data" ++ le 4 datalength
  else
    mk "RF64" ++ le 4 0xFFFFFFFF ++ mk "WAVE" ++ mk "ds64" ++ le 4 28 ++ le 8 (filelength - 8) ++ le 8 datalength ++ le 8 frames ++ le 4 0 ++
      fmtChunk c ++ mk "data" ++ le 4 0xFFFFFFFF

def tail (c : Cfg) (frames : Nat) : List Byte := if (hdrLen c.downgrade + frames * c.bw) % 2 == 1 then [0] else []

def hdr (c : Cfg) (frames : Nat) : List Byte :=
  hdrRaw c c.downgrade ((hdrLen c.downgrade + frames * c.bw + (tail c frames).length : Nat) : Int) ((frames * c.bw : Nat) : Int) frames

def image (c : Cfg) (frames : Nat) (data : List Byte) : List Byte := hdr c frames ++ data ++ tail c frames

/-! ## write session -/

structure St where
  bytes : List Byte := []
  pos : Nat := 0
  frames : Int := 0
  wpos : Int := 0
  dataoffset : Int := -1
  datalength : Int := -1
  dataend : Int := 0
  filelength : Int := 0
  dg : Bool := false
  auto : Bool := false
  written : Bool := false
deriving Repr, DecidableEq, Inhabited

def writeHeader (c : Cfg) (s : St) (calcLen : Bool) : St :=
  let cur := s.pos
  let hasData : Bool := s.dataoffset > 0 ∧ (cur : Int) > s.dataoffset
  let s := if calcLen then
      let fl : Int := s.bytes.length
      let dl := fl - s.dataoffset
      let dl := if s.dataend != 0 then dl - (fl - s.dataend) else dl
      { s with filelength := fl, datalength := dl, frames := Int.tdiv dl (c.bw : Int) }
    else s
  let h := hdrRaw c s.dg s.filelength s.datalength s.frames
  let s := { s with bytes := writeAt s.bytes 0 h, dataoffset := h.length }
  { s with pos := if !hasData then h.length else if cur > 0 then cur else h.length }

/-- rf64_open in write mode on an empty store, followed (when the configuration says so) by SFC_RF64_AUTO_DOWNGRADE:
    the header is written in RF64 form with the CALLER's frames value, then the codec's init zeroes the counts -/
def openW (c : Cfg) (staleFrames : Int) : St :=
  let s : St := { frames := staleFrames }
  let s := writeHeader c s false
  { s with datalength := 0, frames := 0, dg := c.downgrade }

inductive Op
  | write (frames : Nat) (data : List Byte)
  | update
  | auto (on : Bool)
deriving Repr, DecidableEq, Inhabited

def step (c : Cfg) (s : St) : Op → St
  | .write k data =>
    if k == 0 then s else
    let s := if !s.written then writeHeader c s false else s
    let s := { s with written := true }
    let s := { s with bytes := writeAt s.bytes s.pos data, pos := s.pos + data.length, wpos := s.wpos + k }
    let s := if s.wpos > s.frames then { s with frames := s.wpos, dataend := 0 } else s
    if s.auto then writeHeader c s true else s
  | .update => writeHeader c s true
  | .auto on => { s with auto := on }

def run (c : Cfg) (s : St) (ops : List Op) : St := ops.foldl (step c) s

def close (c : Cfg) (s : St) : St :=
  let dl : Int := s.frames * bytewidth c.codec * c.ch
  let s := { s with datalength := dl, dataend := s.dataoffset + dl }
  let s := if s.dataend > 0 then { s with pos := s.dataend.toNat } else { s with pos := s.bytes.length, dataend := s.bytes.length }
  let s := if s.dataend % 2 == 1 then { s with bytes := writeAt s.bytes s.pos [0], pos := s.pos + 1 } else s
  writeHeader c s true

def Op.frames : Op → Nat | .write k _ => k | _ => 0
def Op.data : Op → List Byte | .write k d => if k == 0 then [] else d | _ => []
def Op.valid (c : Cfg) : Op → Prop
  | .write k d => d.length = k * c.bw
  | _ => True
instance (c : Cfg) (o : Op) : Decidable (o.valid c) := by cases o <;> unfold Op.valid <;> infer_instance
def sessFrames (ops : List Op) : Nat := (ops.map Op.frames).sum
def sessData (ops : List Op) : List Byte := ops.flatMap Op.data

end Sf.Rf64
