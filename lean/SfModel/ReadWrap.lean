/-
  SfModel.ReadWrap — the eight read wrappers sf_read_{short,int,float,double} / sf_readf_* and
  sf_seek on a handle opened SFM_READ (src/sndfile.c).  The codec (psf->read_X, psf->seek) is an
  oracle: the wrapper's own arithmetic is what is modelled.

  Units are ITEMS of the caller's buffer (the sample type's size is a common factor everywhere).
-/
import SfModel.Basic
namespace Sf.ReadWrap

structure Errs where
  negativeRwLen : Int
  notReadMode : Int
  badReadAlign : Int
  unimplemented : Int
  badSeek : Int
  notSeekable : Int
  wrongSeek : Int
  ambiguousSeek : Int
  seekFailed : Int
deriving Repr, DecidableEq, Inhabited

structure H where
  rc : Int              -- psf->read_current
  frames : Int          -- psf->sf.frames
  ch : Int              -- psf->sf.channels
  seekable : Bool := true
  modeWrite : Bool := false   -- file.mode == SFM_WRITE
  hasCodec : Bool := true     -- psf->read_X != NULL && psf->seek != NULL
  lastOpRead : Bool := true   -- psf->last_op == SFM_READ
  err : Int := 0
deriving Repr, DecidableEq, Inhabited

inductive Kind where
  | items    -- sf_read_X  (ptr, len)
  | frames   -- sf_readf_X (ptr, frames)
deriving Repr, DecidableEq, Inhabited

structure ROut where
  ret : Int
  asked : Option Int := none         -- item count passed to psf->read_X
  zeroed : List (Int × Int) := []    -- psf_memset ranges (offset, length) in items
  h : H
deriving Repr, DecidableEq, Inhabited

/-- how many items the caller's buffer holds, by the API contract -/
def capacity (h : H) (k : Kind) (n : Int) : Int :=
  match k with
  | .items => n
  | .frames => n * h.ch

/-- an early `return 0` with psf->error = e (the VALIDATE macro had reset it to 0) -/
def fail (h : H) (e : Int) : ROut := { ret := 0, h := { h with err := e } }

/-- `whole_frames (psf, count, channels)`: the count rounded down to whole frames -/
def wholeItems (count ch : Int) : Int := if ch ≤ 1 ∨ Int.tmod count ch = 0 then count else count - Int.tmod count ch
/-- … and whether `last_op` stays SFM_READ (it is cleared when the count had to be rounded) -/
def wholeOk (count ch : Int) : Bool := decide (ch ≤ 1 ∨ Int.tmod count ch = 0)

/-- after the codec call: position bookkeeping, clamping to sf.frames, zero fill of the tail -/
def readTail (h : H) (k : Kind) (n : Int) (codecRet : Int) : ROut :=
  let cap := capacity h k n
  let count := codecRet
  -- `if (count <= (psf->sf.frames - psf->read_current) * psf->sf.channels)`  (item counts are compared,
  -- so the clamp also catches an excess smaller than one frame)
  -- since 230abc1 the count handed back is rounded down to whole frames (`whole_frames`: a codec that stopped inside a frame —
  -- a short I/O transfer — no longer makes the call return part of a frame), and `last_op` is cleared then so that the next call seeks
  if count ≤ (h.frames - h.rc) * h.ch then
    { ret := (match k with | .items => wholeItems count h.ch | .frames => Int.tdiv count h.ch),
      asked := some cap, h := { h with rc := h.rc + Int.tdiv count h.ch, lastOpRead := wholeOk count h.ch, err := 0 } }
  else
    let c2 := (h.frames - h.rc) * h.ch
    { ret := (match k with | .items => wholeItems c2 h.ch | .frames => Int.tdiv c2 h.ch),
      asked := some cap, zeroed := [(c2, cap - c2)], h := { h with rc := h.frames, lastOpRead := wholeOk c2 h.ch, err := 0 } }

/-- sf_read_X / sf_readf_X.  `seekRet`: result of psf->seek when last_op was not a read;
    `codecRet`: what psf->read_X returned. -/
def readWrap (E : Errs) (h : H) (k : Kind) (n : Int) (seekRet codecRet : Int) : ROut :=
  if n = 0 then { ret := 0, h := h }
  else if n ≤ 0 then fail h E.negativeRwLen
  else if h.modeWrite then fail h E.notReadMode
  else if k = .items ∧ Int.tmod n h.ch ≠ 0 then fail h E.badReadAlign
  else if h.rc ≥ h.frames then { ret := 0, zeroed := [(0, capacity h k n)], h := { h with err := 0 } }
  else if !h.hasCodec then fail h E.unimplemented
  else if !h.lastOpRead ∧ seekRet < 0 then fail h 0
  else readTail h k n codecRet

/-- whence & SFM_MASK on the int's 32-bit pattern -/
def modeBits (whence : Int) : Nat := (wrapU 32 whence) &&& 0x30

structure SOut where
  ret : Int
  asked : Option Int := none     -- position passed to psf->seek
  h : H
deriving Repr, DecidableEq, Inhabited

/-- sf_seek on a handle whose file.mode is SFM_READ.  `codecRet`: what psf->seek returned. -/
def sfSeekRead (E : Errs) (h : H) (offset whence : Int) (codecRet : Int) : SOut :=
  let h := { h with err := 0 }
  if !h.seekable then { ret := -1, h := { h with err := E.notSeekable } }
  else if modeBits whence = 0x20 then { ret := -1, h := { h with err := E.wrongSeek } }
  else
    -- (early return value, seek_from_start, error)
    let r : Option Int × Int × Int :=
      if whence = 0 ∨ whence = 0x10 ∨ whence = 0x20 ∨ whence = 0x30 then (none, offset, 0)
      else if whence = 1 ∨ whence = 0x11 then
        if offset = 0 then (some h.rc, 0, 0) else (none, wrapS 64 (h.rc + offset), 0)
      else if whence = 0x21 then (none, 0, 0)   -- unreachable: SFM_WRITE bits were rejected above
      else if whence = 2 ∨ whence = 0x12 ∨ whence = 0x22 then (none, wrapS 64 (h.frames + offset), 0)
      else (none, 0, E.badSeek)
    match r with
    | (some v, _, _) => { ret := v, h := h }
    | (none, sfs, e) =>
      if e ≠ 0 then { ret := -1, h := { h with err := e } }
      else if sfs < 0 ∨ sfs > h.frames then { ret := -1, h := { h with err := E.badSeek } }
      else if !h.hasCodec then { ret := -1, h := { h with err := E.ambiguousSeek } }
      else
        let newMode := if modeBits whence ≠ 0 then modeBits whence else 0x10
        -- `if (retval < 0) { if (psf->error == 0) psf->error = SFE_SEEK_FAILED ; return PSF_SEEK_ERROR ; }`
        if codecRet < 0 then { ret := -1, asked := some sfs, h := { h with err := E.seekFailed } }
        else
          let rc' := if newMode = 0x10 ∨ newMode = 0x30 then codecRet else h.rc
          { ret := codecRet, asked := some sfs, h := { h with rc := rc', lastOpRead := true } }

end Sf.ReadWrap
