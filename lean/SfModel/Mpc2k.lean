/-
  SfModel.Mpc2k — stand-alone byte-exact (L1) model of the Akai MPC 2000 container of src/mpc2k.c (42-byte
  little-endian header: 01 04, a 17-character sample name, level / tune / stereo flag, sample start, loop end,
  frame count, loop length, loop mode, beats, 16-bit sample rate; 16-bit little-endian PCM, one or two channels).

  * `quant`        the 16-bit rate field
  * `hdr`, `fmt`   mpc2k_write_header; the write session is `Sf.Small2.run (fmt c)`.  The name field is the
                   parameter `Cfg.name` (snprintf "%-17.17s" of psf->file.name: 17 spaces for a virtual file)
  * `parse`        sf_open (SFM_READ): guess_file_type, mpc2k_read_header, pcm_init, validate_sfinfo
-/
import SfModel.Small2
namespace Sf.Mpc2k
open Sf Sf.Small2

structure Cfg where
  ch : Nat
  sr : Nat
  name : List Byte := List.replicate 17 0x20
deriving Repr, DecidableEq, Inhabited

/-- configurations sf_open (SFM_WRITE) accepts: PCM_16, endian FILE or LITTLE, at most two channels -/
def Cfg.wf (c : Cfg) : Prop := (c.ch = 1 ∨ c.ch = 2) ∧ 1 ≤ c.sr ∧ c.sr ≤ 0x7FFFFFFF ∧ c.name.length = 17
instance (c : Cfg) : Decidable c.wf := by unfold Cfg.wf; infer_instance

/-- `(uint16_t) SF_MIN (psf->sf.samplerate, 0xFFFF)`: rates above 65535 are stored as 65535 -/
def quant (sr : Nat) : Nat := min sr 0xFFFF

/-- the rule before the repair of KF-RATE16-WRAP: `(uint16_t) psf->sf.samplerate` -/
def quantOld (sr : Nat) : Nat := sr % 65536

/-- mpc2k_write_header: "e11b" 1 4 name, "e111" 100 0 ((channels - 1) & 1), "et4888" 0 frames frames frames (the
    three sf_count_t values are cut to 32 bits), "e112" 0 1 (uint16_t) min (samplerate, 0xFFFF) -/
def hdrQ (q : Nat) (c : Cfg) (f : Fields) : List Byte :=
  [1, 4] ++ c.name ++ [100, 0, (c.ch - 1) % 2] ++ le32 0 ++ le32 f.frames ++ le32 f.frames ++ le32 f.frames ++
  [0, 1] ++ le16 q

def hdr (c : Cfg) (f : Fields) : List Byte := hdrQ (quant c.sr) c f

/-- `calc_length`: filelength, dataoffset = 42, datalength, frames = datalength / (bytewidth * channels) -/
def fmtQ (q : Nat → Nat) (c : Cfg) : Fmt :=
  { hdrLen := 42, bw := 2 * c.ch, hdr := hdrQ (q c.sr) c,
    recalc := fun n _ => { filelength := n, datalength := (n : Int) - 42, frames := ((n : Int) - 42) / ((2 * c.ch : Nat) : Int) } }

def fmt (c : Cfg) : Fmt := fmtQ quant c

/-- the writer before the repair of KF-RATE16-WRAP -/
def fmtOld (c : Cfg) : Fmt := fmtQ quantOld c

/-- mpc2k_read_header + pcm_init + validate_sfinfo on a file of at least 42 bytes that `guess_file_type` called MPC2K -/
def readHeader (bs : List Byte) : ParseRes :=
  let (_, r) := cut 2 bs
  let (_, r) := cut 17 r
  let (b3, r) := cut 3 r
  let (_, r) := cut 16 r
  let (_, r) := cut 2 r
  let (srb, _) := cut 2 r
  let ch : Nat := if b3.getD 2 0 ≠ 0 then 2 else 1
  let sr := ofLE srb
  if sr < 1 then .err else                           -- validate_sfinfo
  .ok { ch := ch, fmt := 0x210002, sr := sr, frames := (framesOf bs.length 42 0 ((2 * ch : Nat) : Int)).toNat }

/-- `sf_open_virtual (SFM_READ)` on `bs` -/
def parse (bs : List Byte) : ParseRes :=
  if bs.length < 12 then .err else                    -- guess_file_type: SFE_BAD_FILE_READ
  match guess bs with
  | some (.fmt 0x210000) => if bs.length < 42 then .unmodelled else readHeader bs       -- short header reads: not described
  | _ => .unmodelled

end Sf.Mpc2k
