/-
  SfModel.Aiff — stand-alone byte-exact (L1) model of the AIFF / AIFF-C container of src/aiff.c for the
  sample-granular encodings (PCM S8/U8/16/24/32, FLOAT, DOUBLE, ULAW, ALAW):

  * `int2ten` / `ten2int`      uint2tenbytefloat / tenbytefloat2int (the 80-bit sample rate)
  * `hdrRaw`, `St`, `openW`, `write`, `update`, `close`
                               aiff_write_header (calc_length or not), aiff_write_tailer, aiff_close and the
                               part of sf_write_* that matters to the container (frames, dataend)
  * `parse`                    sf_open (SFM_READ) of a byte string: guess_file_type, aiff_read_header,
                               aiff_read_comm_chunk, the codec init that derives `frames`, validate_sfinfo /
                               validate_psf.  `unmodelled` for everything this file does not describe.

  Core Lean only.  Nothing here depends on SfModel.Handle; names live in `Sf.Aiff`.
-/
import SfModel.Basic
namespace Sf.Aiff
open Sf

def mk4 (s : String) : List Byte := s.toList.map Char.toNat
/-- header_put_be_int of the low 32 bits of a (possibly negative) C integer -/
def be32 (v : Int) : List Byte := beBytes 4 (wrapU 32 v)
def be16 (v : Int) : List Byte := beBytes 2 (wrapU 16 v)

/-! ## the 80-bit sample rate -/

/-- the `for (count = 0 ; count < 32 ; count ++) { if (num & mask) break ; mask >>= 1 ; }` loop -/
def scan (num : Nat) : Nat → Nat → Nat → Nat
  | 0, count, _ => count
  | fuel+1, count, mask => if num / mask % 2 = 1 then count else scan num fuel (count + 1) (mask / 2)

/-- `uint2tenbytefloat (num, bytes)` on a zeroed 10-byte array (num is a uint32_t): the most significant bit is
    shifted up to bit 31 and the exponent byte is 30 - count -/
def int2ten (num : Nat) : List Byte :=
  if num ≤ 1 then [0x3F, 0xFF, 0x80, 0, 0, 0, 0, 0, 0, 0] else
  let count := scan num 32 0 0x80000000
  let sh := (num * 2 ^ count) % 2 ^ 32
  [0x40, wrapU 8 (30 - (count : Int)), sh / 2 ^ 24 % 256, sh / 2 ^ 16 % 256, sh / 2 ^ 8 % 256, sh % 256, 0, 0, 0, 0]

/-- `tenbytefloat2int (bytes)`; the four or-ed fields `b2<<23 | b3<<15 | b4<<7 | b5>>1` occupy disjoint bit
    ranges for byte values, so the or is a sum.  Exponents up to 0x401D (values below 2^31) are converted. -/
def ten2int (b : List Byte) : Int :=
  let b0 := b.getD 0 0
  let b1 := b.getD 1 0
  if b0 ≥ 0x80 then 0 else
  if b0 ≤ 0x3F then 1 else
  if b0 > 0x40 then 0x4000000 else
  if b1 > 0x1D then 800000000 else
  let val := b.getD 2 0 * 2 ^ 23 + b.getD 3 0 * 2 ^ 15 + b.getD 4 0 * 2 ^ 7 + b.getD 5 0 / 2
  ((val / 2 ^ (29 - b1) : Nat) : Int)

/-! ### the rule before the repair of KF-AIFF-RATE-2P30 (kept for the `_old_rule` theorems) -/

/-- the writer gave up at 0x40000000 and stored only the exponent bytes 40 1D -/
def int2tenOld (num : Nat) : List Byte :=
  if num ≤ 1 then [0x3F, 0xFF, 0x80, 0, 0, 0, 0, 0, 0, 0] else
  if num ≥ 0x40000000 then [0x40, 0x1D, 0, 0, 0, 0, 0, 0, 0, 0] else
  let count := scan num 32 0 0x40000000
  let sh := if count < 31 then (num * 2 ^ (count + 1)) % 2 ^ 32 else 0
  [0x40, wrapU 8 (29 - (count : Int)), sh / 2 ^ 24 % 256, sh / 2 ^ 16 % 256, sh / 2 ^ 8 % 256, sh % 256, 0, 0, 0, 0]

/-- the reader answered 800000000 for every exponent above 0x401C -/
def ten2intOld (b : List Byte) : Int :=
  let b0 := b.getD 0 0
  let b1 := b.getD 1 0
  if b0 ≥ 0x80 then 0 else
  if b0 ≤ 0x3F then 1 else
  if b0 > 0x40 then 0x4000000 else
  if b1 > 0x1C then 800000000 else
  let val := b.getD 2 0 * 2 ^ 23 + b.getD 3 0 * 2 ^ 15 + b.getD 4 0 * 2 ^ 7 + b.getD 5 0 / 2
  ((val / 2 ^ (29 - b1) : Nat) : Int)

/-! ## configuration -/

structure Cfg where
  codec : Nat          -- SF_CODEC (format)
  endian : Nat         -- endian bits of the format word: 0 FILE, 1 LITTLE, 2 BIG, 3 CPU
  ch : Nat
  sr : Nat
deriving Repr, DecidableEq, Inhabited

/-- what the switch of `aiff_write_header` on `SF_CODEC | endian` selects -/
structure Kind where
  aifc : Bool
  enc : List Byte      -- compression type (4 bytes), empty for plain AIFF
  little : Bool        -- psf->endian == SF_ENDIAN_LITTLE
deriving Repr, DecidableEq, Inhabited

/-- `psf->bytewidth` as psf_open_file sets it from the codec -/
def bytewidthOf : Nat → Nat
  | 0x01 | 0x05 | 0x10 | 0x11 => 1
  | 0x02 => 2
  | 0x03 => 3
  | 0x04 | 0x06 => 4
  | 0x07 => 8
  | _ => 0

def kindOf (c : Cfg) : Option Kind :=
  let e := if c.endian = 3 then 1 else c.endian          -- CPU_IS_LITTLE_ENDIAN
  match c.codec, e with
  | 0x01, 2 => some ⟨true, mk4 "twos", false⟩
  | 0x01, 1 => some ⟨true, mk4 "sowt", true⟩
  | 0x02, 2 => some ⟨true, mk4 "twos", false⟩
  | 0x02, 1 => some ⟨true, mk4 "sowt", true⟩
  | 0x03, 2 => some ⟨true, mk4 "in24", false⟩
  | 0x03, 1 => some ⟨true, mk4 "42n1", true⟩              -- ni24_MARKER is spelt '4','2','n','1' in aiff.c
  | 0x04, 2 => some ⟨true, mk4 "in32", false⟩
  | 0x04, 1 => some ⟨true, mk4 "23ni", true⟩
  | 0x01, 0 | 0x02, 0 | 0x03, 0 | 0x04, 0 => some ⟨false, [], false⟩
  | 0x06, 0 => some ⟨true, mk4 "FL32", false⟩
  | 0x07, 0 => some ⟨true, mk4 "FL64", false⟩
  | 0x10, 0 => some ⟨true, mk4 "ulaw", false⟩
  | 0x11, 0 => some ⟨true, mk4 "alaw", false⟩
  | 0x05, 0 => some ⟨true, mk4 "raw ", false⟩
  | _, _ => none

/-- `sf_format_check` for SF_FORMAT_AIFF restricted to the sample-granular encodings -/
def accepted (c : Cfg) : Bool :=
  (c.codec = 0x02 ∨ c.codec = 0x03 ∨ c.codec = 0x04) ∧ c.endian < 4 ∨
  c.endian = 0 ∧ (c.codec = 0x01 ∨ c.codec = 0x05 ∨ c.codec = 0x06 ∨ c.codec = 0x07 ∨ c.codec = 0x10 ∨ c.codec = 0x11)

/-- a configuration `sf_open (SFM_WRITE)` accepts -/
def Cfg.wf (c : Cfg) : Prop := accepted c = true ∧ 1 ≤ c.ch ∧ c.ch ≤ 1024 ∧ 1 ≤ c.sr ∧ c.sr ≤ 0x7FFFFFFF

instance (c : Cfg) : Decidable c.wf := by unfold Cfg.wf; infer_instance

def Cfg.isFloat (c : Cfg) : Bool := c.codec = 0x06 ∨ c.codec = 0x07
def Cfg.bw (c : Cfg) : Nat := bytewidthOf c.codec * c.ch        -- blockwidth

/-- the `sf.format` word a reader reports for this configuration -/
def Cfg.fmtWord (c : Cfg) : Nat :=
  match kindOf c with
  | some k => (if k.enc = mk4 "twos" ∨ k.enc = mk4 "in24" ∨ k.enc = mk4 "in32" then 0x20000000
               else if k.little then 0x10000000 else 0) + 0x020000 + c.codec
  | none => 0

/-! ## header writer -/

structure Peak where
  v32 : Nat := 0        -- binary32 bits of `(float) peaks [k].value`
  pos : Nat := 0
deriving Repr, DecidableEq, Inhabited

/-- FLT_MIN as a binary32 pattern: before the repair 71c426d `float32_be_write` returned early below it (`f32beWriteTinyOld`);
    before ec5379c the constant was the double 1e-30, 0x0DA24260 -/
def tinyBits : Nat := 0x00800000

/-- `float32_be_write` of a finite non-negative value: its IEEE bits, subnormals and zero included (since 71c426d;
    SfProps/C20Ieee `ieee_write_finite_f32`) -/
def f32beWrite (v : Nat) : List Byte := beBytes 4 (v % 2 ^ 32)
/-- the rule before 71c426d: patterns below FLT_MIN (zero and subnormals) became 0 -/
def f32beWriteTinyOld (v : Nat) : List Byte := if v % 2 ^ 31 < tinyBits then [0, 0, 0, 0] else beBytes 4 (v % 2 ^ 32)

def peakChunk (ch : Nat) (ps : List Peak) : List Byte :=
  mk4 "PEAK" ++ be32 (8 + 8 * ch) ++ be32 1 ++ be32 1000000000 ++        -- time (NULL), pinned by the harness
    ((List.range ch).flatMap fun k => f32beWrite (ps.getD k {}).v32 ++ be32 (ps.getD k {}).pos)

/-- the bytes `aiff_write_header` puts together from the current fields of SF_PRIVATE -/
def hdrRaw (c : Cfg) (k : Kind) (frames : Nat) (filelength datalength : Int) (peaks : Option (List Peak)) : List Byte :=
  mk4 "FORM" ++ be32 (filelength - 8) ++
  (if k.aifc then mk4 "AIFC" ++ mk4 "FVER" ++ be32 4 ++ be32 0xA2805140 else mk4 "AIFF") ++
  mk4 "COMM" ++ be32 (if k.aifc then 24 else 18) ++ be16 c.ch ++
    be32 (if frames > 0xFFFFFFFF then 0xFFFFFFFF else frames) ++ be16 (bytewidthOf c.codec * 8) ++ int2ten c.sr ++
  (if k.aifc then k.enc ++ [0, 0] else []) ++
  (match peaks with | some ps => peakChunk c.ch ps | none => []) ++
  mk4 "SSND" ++ be32 (datalength + 8) ++ be32 0 ++ be32 0

def hdrLen (c : Cfg) (k : Kind) : Nat :=
  (if k.aifc then 72 else 54) + (if c.isFloat then 16 + 8 * c.ch else 0)

/-! ## the writer as a state machine over the store  `hdr ++ data ++ tail`

  Sequential writing only (no seeks): the data region grows at its end. -/

structure St where
  hdr : List Byte := []          -- bytes 0 … dataoffset of the store
  data : List Byte := []         -- the audio bytes written so far
  tail : List Byte := []         -- what aiff_write_tailer appended
  frames : Nat := 0              -- psf->sf.frames
  filelength : Int := 0
  datalength : Int := 0
  dataend : Int := 0
  peaks : Option (List Peak) := none
deriving Repr, DecidableEq, Inhabited

def St.bytes (s : St) : List Byte := s.hdr ++ s.data ++ s.tail

/-- the `if (calc_length)` block of `aiff_write_header`: (sf.frames, filelength, datalength) recomputed from the store -/
def calcLengths (c : Cfg) (k : Kind) (s : St) : Nat × Int × Int :=
  let fl : Int := s.bytes.length
  let dl0 : Int := fl - hdrLen c k
  let dl : Int := if s.dataend ≠ 0 then dl0 - (fl - s.dataend) else dl0
  (if c.bw > 0 then (dl / (c.bw : Int)).toNat else s.frames, fl, dl)

/-- `aiff_write_header (psf, calc_length)` -/
def writeHeader (c : Cfg) (k : Kind) (s : St) (calcLen : Bool) : St :=
  let r := if calcLen then calcLengths c k s else (s.frames, s.filelength, s.datalength)
  { s with frames := r.1, filelength := r.2.1, datalength := r.2.2, hdr := hdrRaw c k r.1 r.2.1 r.2.2 s.peaks }

/-- `aiff_open` in SFM_WRITE: the caller's `frames` value is discarded, a first header is written -/
def openW (c : Cfg) (k : Kind) (_callerFrames : Nat) : St :=
  let s : St := { frames := 0, filelength := 0, datalength := 0,
                  peaks := if c.isFloat then some (List.replicate c.ch {}) else none }
  writeHeader c k s false

/-- one `sf_write_*` call that stores `enc` (whole frames of encoded audio) and leaves the PEAK table at `peaks`;
    `auto` = SFC_SET_UPDATE_HEADER_AUTO is on.  The first call re-emits the header (have_written latch). -/
def write (c : Cfg) (k : Kind) (s : St) (enc : List Byte) (peaks : Option (List Peak)) (auto : Bool) : St :=
  let s := if s.data.isEmpty then writeHeader c k s false else s
  let s := { s with data := s.data ++ enc, peaks := if c.isFloat then peaks else s.peaks }
  let s := { s with frames := s.data.length / c.bw, dataend := 0 }
  if auto then writeHeader c k s true else s

/-- SFC_UPDATE_HEADER_NOW -/
def update (c : Cfg) (k : Kind) (s : St) : St := writeHeader c k s true

/-- `aiff_write_tailer` for a handle opened with SFM_WRITE (dataend is 0 until here): dataend becomes the end of
    the audio; a pad byte follows when that offset is odd and is NOT part of the SSND chunk
    (PEAK is at the start, no strings) -/
def writeTailer (s : St) : St :=
  let e : Int := (s.hdr ++ s.data).length
  if e % 2 = 1 then { s with tail := [0], dataend := e } else { s with tail := [], dataend := e }

/-- `aiff_close` -/
def close (c : Cfg) (k : Kind) (s : St) : St := writeHeader c k (writeTailer s) true

/-- the tailer before the repair of KF-AIFF-ODD-PAD: dataend was advanced past the pad byte, so the SSND size and
    the COMM frame count written at close included it -/
def writeTailerOld (s : St) : St :=
  let e : Int := (s.hdr ++ s.data).length
  if e % 2 = 1 then { s with tail := [0], dataend := e + 1 } else { s with tail := [], dataend := e }

def closeOld (c : Cfg) (k : Kind) (s : St) : St := writeHeader c k (writeTailerOld s) true

/-! ### closed forms used by the theorems and the driver -/

def padLen (dataLen : Nat) : Nat := dataLen % 2

/-- header of a closed file holding `dataLen` audio bytes: exact frame count and SSND size, FORM counts the pad -/
def closedHdr (c : Cfg) (k : Kind) (dataLen : Nat) (peaks : Option (List Peak)) : List Byte :=
  hdrRaw c k (dataLen / c.bw) (hdrLen c k + dataLen + padLen dataLen : Nat) (dataLen : Nat) peaks

/-- the same under the old tailer rule (pad byte counted as audio) -/
def closedHdrOld (c : Cfg) (k : Kind) (dataLen : Nat) (peaks : Option (List Peak)) : List Byte :=
  hdrRaw c k ((dataLen + padLen dataLen) / c.bw) (hdrLen c k + dataLen + padLen dataLen : Nat) (dataLen + padLen dataLen : Nat) peaks

/-- header after SFC_UPDATE_HEADER_NOW with `dataLen` audio bytes in the store -/
def snapHdr (c : Cfg) (k : Kind) (dataLen : Nat) (peaks : Option (List Peak)) : List Byte :=
  hdrRaw c k (dataLen / c.bw) (hdrLen c k + dataLen : Nat) (dataLen : Nat) peaks

def tailBytes (dataLen : Nat) : List Byte := if dataLen % 2 = 1 then [0] else []

/-! ## reader -/

structure Info where
  ch : Nat
  fmt : Nat
  sr : Nat
  frames : Nat
deriving Repr, DecidableEq, Inhabited

inductive ParseRes
  | ok (i : Info)
  | err                      -- sf_open returns NULL
  | unmodelled               -- outside what this model describes
deriving Repr, DecidableEq, Inhabited

/-- one `header_read` of `n` bytes at file position `pos`: a short read yields zeros (the destination is cleared
    beforehand) and leaves the file position at end of file -/
def rdN (bs : List Byte) (pos n : Nat) : List Byte × Nat :=
  if pos + n ≤ bs.length then ((bs.drop pos).take n, pos + n)
  else (List.replicate n 0, if pos < bs.length then bs.length else pos)

structure Sc where
  pos : Nat                      -- file position = logical header position (nothing is cached ahead after byte 12)
  used : Nat := 12               -- bytes consumed through the header cache (bounded: see `cacheLimit`)
  csize : Nat := 0               -- chunk_size left by the previous iteration
  haveComm : Bool := false
  ch : Nat := 0
  sr : Int := 0
  fmt : Nat := 0
  sampleSize : Int := 0
  dataoffset : Int := -1
  datalength : Int := -1
  dataend : Int := 0
deriving Repr, DecidableEq, Inhabited

inductive Step
  | cont (s : Sc)
  | stop (s : Sc)
  | fail
  | unm
deriving Repr, DecidableEq

/-- the header cache refuses to grow past 100 KiB; below this many cached bytes that cannot happen -/
def cacheLimit : Nat := 30000

def isPrint (b : Nat) : Bool := 0x20 ≤ b ∧ b ≤ 0x7E

/-- chunk kinds `aiff_read_header` interprets that this model does not -/
def unmodelledMarkers : List (List Byte) := [mk4 "basc", mk4 "CHAN", mk4 "NONE"]

/-- the comment records of a COMT chunk: `count` times (time stamp 4, marker id 2, length 2, text).  Result: the
    position after them; `none none` = a text longer than the scratch buffer (SFE_INTERNAL), `none` = a read fell
    short (the byte accounting of the C code then depends on partial counts: not modelled) -/
def comtLoop (bs : List Byte) : Nat → Nat → Option (Option Nat)
  | 0, pos => some (some pos)
  | n+1, pos =>
    if pos + 8 > bs.length then none else
    let len := ofBE ((bs.drop (pos + 6)).take 2)
    if len + 1 > 8192 then some none else
    if pos + 8 + len > bs.length then none else
    comtLoop bs n (pos + 8 + len)

/-- the marker records of a MARK chunk: up to `n` times while fewer than `size` bytes of the chunk were read
    (id 2, position 4, Pascal string: count byte then an odd number of bytes).  none = a read fell short. -/
def markLoop (bs : List Byte) (start size : Nat) : Nat → Nat → Option Nat
  | 0, pos => some pos
  | n+1, pos =>
    if pos - start ≥ size then some pos else
    if pos + 7 > bs.length then none else
    let c := bs.getD (pos + 6) 0
    let plen := if c % 2 = 1 then c else c + 1
    if pos + 7 + plen > bs.length then none else
    markLoop bs start size n (pos + 7 + plen)

def endswap32 (v : Nat) : Nat := ofLE (beBytes 4 v)

/-- the encoding switch of `aiff_read_comm_chunk`: (format word, sampleSize after the fl32 / fl64 repair).
    Format: none = SFE_UNIMPLEMENTED, some none = an encoding outside this model (DWVW, GSM, ima4). -/
def commFmt (enc : List Byte) (ss0 : Int) : Option (Option Nat) × Int :=
  let ss : Int := if (enc = mk4 "fl32" ∨ enc = mk4 "FL32") then 32 else if (enc = mk4 "fl64" ∨ enc = mk4 "FL64") then 64 else ss0
  let sub : Nat := if ss < 8 ∨ ss > 32 then 0 else [0x01, 0x02, 0x03, 0x04].getD (((ss + 7) / 8).toNat - 1) 0
  let fmt : Option (Option Nat) :=
    if enc = mk4 "NONE" then some (some (0x020000 + sub))
    else if enc = mk4 "twos" ∨ enc = mk4 "in24" ∨ enc = mk4 "in32" then some (some (0x20000000 + 0x020000 + sub))
    else if enc = mk4 "sowt" ∨ enc = mk4 "42n1" ∨ enc = mk4 "23ni" then some (some (0x10000000 + 0x020000 + sub))
    else if enc = mk4 "fl32" ∨ enc = mk4 "FL32" then some (some 0x020006)
    else if enc = mk4 "ulaw" ∨ enc = mk4 "ULAW" then some (some 0x020010)
    else if enc = mk4 "alaw" ∨ enc = mk4 "ALAW" then some (some 0x020011)
    else if enc = mk4 "fl64" ∨ enc = mk4 "FL64" then some (some 0x020007)
    else if enc = mk4 "raw " then some (some 0x020005)
    else if enc = mk4 "DWVW" ∨ enc = mk4 "GSM " ∨ enc = mk4 "ima4" then some none
    else none
  (fmt, ss)

/-- `aiff_read_comm_chunk`; `size` is the (evened) chunk size -/
def readComm (bs : List Byte) (s : Sc) (pos size : Nat) : Step :=
  let (f1, p) := rdN bs pos 2
  let (_f2, p) := rdN bs p 4
  let (f3, p) := rdN bs p 2
  let (f4, p) := rdN bs p 10
  let numCh : Int := sext 16 (ofBE f1)
  let ss0 : Int := sext 16 (ofBE f3)
  let size' := if size > 0x10000 ∧ size % 0x10000 = 0 then endswap32 size else size
  let (enc, p, extra) : List Byte × Nat × Nat :=
    if size' = 18 then (mk4 "NONE", p, 0)
    else if size' = 22 then let (e, p) := rdN bs p 4; (e, p, 4)
    else if size' ≥ 24 then
      let (e, p) := rdN bs p 4
      let (_, p) := rdN bs p 1
      let rl := (if size' > 8192 then 8192 else size') - 24 + 1
      let (_, p) := rdN bs p rl
      (e, p, 5 + rl)
    else ([0, 0, 0, 0], p, 0)
  let sr := ten2int f4
  if numCh < 1 ∨ numCh > 1024 then .fail else
  match commFmt enc ss0 with
  | (none, _) => .fail
  | (some none, _) => .unm
  | (some (some w), ss) =>
    .cont { s with pos := p, used := s.used + 18 + extra, csize := size, haveComm := true, ch := numCh.toNat, sr := sr,
                   fmt := w, sampleSize := ss }

/-- the arithmetic of the `SSND` case: (dataoffset, datalength, dataend) from the file length, the chunk size,
    the file position after the offset / blocksize words, the offset word and the previous dataend -/
def ssndCalc (flen size p offset dataend0 : Int) : Int × Int × Int :=
  let dl0 := size - 8
  let dl := if dl0 > flen - p ∨ dl0 < 0 then flen - p else dl0
  let doff := p + offset
  let dl' := dl - offset
  (doff, dl', if dl' + doff < flen then dl' + doff else dataend0)

/-- the `SSND` case -/
def readSsnd (bs : List Byte) (s : Sc) (pos size : Nat) : Step :=
  let (o, p) := rdN bs pos 4
  let (_, p) := rdN bs p 4
  let r := ssndCalc bs.length size p (ofBE o) s.dataend
  .cont { s with pos := (r.1 + r.2.1).toNat, used := s.used + 8, csize := size, dataoffset := r.1, datalength := r.2.1, dataend := r.2.2 }

/-- one iteration of the `while (! done)` loop of `aiff_read_header` (after the FORM chunk) -/
def step (bs : List Byte) (s : Sc) : Step :=
  if s.used > cacheLimit then .unm else
  let flen := bs.length
  let pos := s.pos + s.csize % 2
  let (m, pos) := rdN bs pos 4
  let (szb, pos) := rdN bs pos 4
  let size := ofBE szb
  let s := { s with used := s.used + s.csize % 2 + 8 }
  if m = [0, 0, 0, 0] then .stop s else
  let fin (r : Step) : Step :=
    match r with
    | .cont s' => if s'.csize ≥ flen then .stop s' else if (s'.pos : Int) ≥ (flen : Int) - 8 then .stop s' else .cont s'
    | r => r
  if m = mk4 "FORM" then .fail
  else if m = mk4 "COMM" then fin (readComm bs s pos (size + size % 2))
  else if m = mk4 "PEAK" then
    if !s.haveComm then .fail else
    if size ≠ 8 + 8 * s.ch then .fail else
    let (_, p) := rdN bs pos size
    fin (.cont { s with pos := p, used := s.used + size, csize := size })
  else if m = mk4 "SSND" then fin (readSsnd bs s pos size)
  else if m = mk4 "FVER" ∨ m = mk4 "SFX!" then
    if size ≥ 2 ^ 31 then .unm else fin (.cont { s with pos := pos + size, used := s.used + size, csize := size })
  else if m = mk4 "(c) " ∨ m = mk4 "AUTH" ∨ m = mk4 "NAME" ∨ m = mk4 "ANNO" then
    -- text chunks: the size limits differ by one or two (sizeof (scbuf), - 1, - 2)
    let limit := if m = mk4 "(c) " then 8192 else if m = mk4 "AUTH" then 8191 else 8190
    if size = 0 then fin (.cont { s with pos := pos, csize := 0 })
    else if size ≥ limit then
      -- since cab8acf: an over-long text chunk is logged and skipped like an unknown chunk (it used to fail the open with SFE_INTERNAL)
      if size ≥ 2 ^ 31 then .unm else fin (.cont { s with pos := pos + size, used := s.used + size, csize := size })
    else
      let (_, p) := rdN bs pos (size + size % 2)
      fin (.cont { s with pos := p, used := s.used + size + size % 2, csize := size + size % 2 })
  else if m = mk4 "APPL" then
    if size = 0 then fin (.cont { s with pos := pos, csize := 0 })
    else if size ≥ 8191 ∨ size < 4 then
      -- skipped with chunk_size left odd: the next iteration jumps one more byte
      if size + size % 2 ≥ 2 ^ 31 then .unm else
      fin (.cont { s with pos := pos + size + size % 2, used := s.used + size + size % 2, csize := size })
    else
      let (_, p) := rdN bs pos 4
      let (_, p) := rdN bs p (size + size % 2 - 4)
      fin (.cont { s with pos := p, used := s.used + size + size % 2, csize := size + size % 2 })
  else if m = mk4 "INST" then
    if size ≠ 20 then
      if size ≥ 2 ^ 31 then .unm else fin (.cont { s with pos := pos + size, used := s.used + size, csize := size })
    else
      let (_, p) := rdN bs pos 20          -- 6 + 2 + 6 + 6 bytes in eight reads
      fin (.cont { s with pos := p, used := s.used + 20, csize := size })
  else if m = mk4 "COMT" then
    if size = 0 then fin (.cont { s with pos := pos, csize := 0 })
    else if size ≥ 2 ^ 31 then .unm
    else if pos + 2 > flen then .unm
    else
      let count := ofBE ((bs.drop pos).take 2)
      match comtLoop bs count (pos + 2) with
      | none => .unm
      | some none => .fail
      | some (some p) =>
        if p - pos > size then .unm           -- `bytes` (unsigned) would wrap
        else fin (.cont { s with pos := pos + size, used := s.used + size, csize := size })
  else if m = mk4 "MARK" then
    if size ≥ 2 ^ 31 ∨ size < 2 then .unm
    else if pos + 2 > flen then .unm
    else
      let n := ofBE ((bs.drop pos).take 2)
      if n > 2500 then fin (.cont { s with pos := pos + size, used := s.used + size, csize := size })
      else
        match markLoop bs pos size n (pos + 2) with
        | none => .unm
        | some p =>
          if p - pos > size then .unm         -- chunk_size - bytesread (unsigned) would wrap
          else fin (.cont { s with pos := pos + size, used := s.used + size, csize := size })
  else if unmodelledMarkers.contains m then .unm
  else if size ≥ 0xFFFF0000 then .stop s
  else if m.all isPrint then
    if size ≥ 2 ^ 31 then .unm else fin (.cont { s with pos := pos + size, used := s.used + size, csize := size })
  else if pos % 4 ≠ 0 then .unm            -- "Resynching": steps back inside the header cache
  else .stop s

def walk (bs : List Byte) : Nat → Sc → Option (Option Sc)      -- none: unmodelled, some none: error
  | 0, _ => none
  | fuel+1, s =>
    match step bs s with
    | .cont s' => walk bs fuel s'
    | .stop s' => some (some s')
    | .fail => some none
    | .unm => none

/-- the case labels of the read-mode switch in pcm_init (both byte orders) -/
def pcmKeys : List Int :=
  [0x10000 + 0x20000000 + 200, 0x10000 + 0x10000000 + 200, 0x10000 + 0x20000000 + 201, 0x10000 + 0x10000000 + 201,
   0x20000 + 0x20000000, 0x30000 + 0x20000000, 0x40000 + 0x20000000,
   0x20000 + 0x10000000, 0x30000 + 0x10000000, 0x40000 + 0x10000000]

/-- `psf->blockwidth` after the codec init of aiff_open, or none when the init fails (pcm_init's switch on
    `bytewidth * 0x10000 + psf->endian + chars`, SF_CHARS_SIGNED = 200, SF_CHARS_UNSIGNED = 201; unknown codec) -/
def blockwidthOf (fmt : Nat) (sampleSize : Int) (ch : Nat) : Option Int :=
  let codec := fmt % 0x10000
  let bytewidth : Int := (sampleSize + 7).tdiv 8            -- BITWIDTH2BYTES on the int16 sampleSize
  let e : Int := if fmt / 0x10000000 % 4 = 1 then 0x10000000 else 0x20000000
  let pcmOk (chars : Int) : Bool :=
    bytewidth ≠ 0 ∧ pcmKeys.contains (bytewidth * 0x10000 + e + chars)
  match codec with
  | 0x01 => if pcmOk 200 then some (bytewidth * ch) else none
  | 0x02 | 0x03 | 0x04 => if pcmOk 0 then some (bytewidth * ch) else none
  | 0x05 => if pcmOk 201 then some (bytewidth * ch) else none
  | 0x10 | 0x11 => some (ch : Int)
  | 0x06 => some (4 * (ch : Int))
  | 0x07 => some (8 * (ch : Int))
  | _ => none

/-- what follows the chunk loop: the checks at the end of aiff_read_header, the codec init of aiff_open
    (pcm_init / ulaw_init / alaw_init / float32_init / double64_init), validate_sfinfo and validate_psf -/
def finish (flen : Nat) (s : Sc) : ParseRes :=
  if s.ch < 1 ∨ !s.haveComm then .err else
  match blockwidthOf s.fmt s.sampleSize s.ch with
  | none => .err
  | some bw =>
    let dl : Int := if (flen : Int) > s.dataoffset then (if s.dataend > 0 then s.dataend - s.dataoffset else flen - s.dataoffset) else 0
    let frames : Int := if bw > 0 then dl.tdiv bw else 0
    if s.sr < 1 ∨ frames < 0 ∨ dl < 0 ∨ s.dataoffset < 0 then .err else
    .ok { ch := s.ch, fmt := s.fmt, sr := s.sr.toNat, frames := frames.toNat }

/-- `sf_open_virtual (SFM_READ)` on `bs` -/
def parse (bs : List Byte) : ParseRes :=
  if bs.length < 12 then .err else                              -- guess_file_type: SFE_BAD_FILE_READ
  if bs.take 4 ≠ mk4 "FORM" then .unmodelled else               -- some other container, or none
  let t := (bs.drop 8).take 4
  if t = mk4 "8SVX" ∨ t = mk4 "16SV" then .unmodelled else
  if t ≠ mk4 "AIFF" ∧ t ≠ mk4 "AIFC" then .err else
  -- the FORM iteration: its size field is only logged; chunk_size is reset to 0; the file position is 12
  let s0 : Sc := { pos := 12 }
  if (12 : Int) ≥ (bs.length : Int) - 8 then finish bs.length s0 else
  match walk bs bs.length s0 with
  | none => .unmodelled
  | some none => .err
  | some (some s) => finish bs.length s

end Sf.Aiff
