/-
  SfModel.G72x — the CCITT G.721 / G.723 ADPCM codec core of libsndfile (src/G72x/g72x.c, g721.c, g723_16.c,
  g723_24.c, g723_40.c: Sun Microsystems' reference code as changed for libsndfile), bit-exactly.

  Conventions
  * every C `short` local / struct member is an `Int` that went through `s16` (= `wrapS 16`: gcc's conversion of an
    `int` to `short`) at the point of the C assignment; `int` arithmetic is exact: for a state whose members are in
    `short` range (they always are, being `s16` results) the largest `int` intermediate is `dif * al` < 2^30 in
    `stepSize`, so no `int` ever overflows.  `yl` is a C `long` (64 bit): exact; `g72x_state_inv` (SfProps/C05G72x.lean)
    proves 34816 ≤ yl ≤ 327680 for every reachable state.
  * `x >> k` on a signed value is the arithmetic shift gcc emits (`shr`, floor division), `x << k` of a negative
    value is the two's-complement shift gcc emits (`shl`, multiplication).  A shift count outside [0, 31] is undefined
    in C; `shl`/`shr` clamp a negative count to 0, and `StepSafe` (SfProps/C05G72x.lean) lists the state-dependent counts and table indices with
    the range the C needs: `g72x_encode_safe` / `g72x_decode_safe` prove them for every reachable state.
  * `x & (2^k − 1)` on a two's-complement `int` is `x % 2^k` (Euclidean); `(a ^ b) < 0` is "signs differ".
  * `pk [2]` and `td` only ever hold 0 or 1: they are `Bool`s.
  * `quan (val, table, size)` — "first index with val < table [i], else size" — is `quan val table`.

  Core Lean only.
-/
import SfModel.Basic
namespace Sf.G72x

def s16 (x : Int) : Int := wrapS 16 x
/-- `x << k` (two's complement, as gcc does it for negative `x`) -/
def shl (x : Int) (k : Int) : Int := x * 2 ^ k.toNat
/-- `x >> k` (arithmetic) -/
def shr (x : Int) (k : Int) : Int := x / 2 ^ k.toNat

/-- `static short power2 [15]` -/
def power2 : List Int := [1, 2, 4, 8, 0x10, 0x20, 0x40, 0x80, 0x100, 0x200, 0x400, 0x800, 0x1000, 0x2000, 0x4000]

/-- `quan ()`: linear search, the number of leading table entries that are ≤ val -/
def quan (val : Int) : List Int → Int
  | [] => 0
  | t :: ts => if val < t then 0 else 1 + quan val ts

/-- `struct g72x_state` (the members the codec computes with) -/
structure St where
  yl  : Int := 34816
  yu  : Int := 544
  dms : Int := 0
  dml : Int := 0
  ap  : Int := 0
  a0  : Int := 0
  a1  : Int := 0
  b   : List Int := [0, 0, 0, 0, 0, 0]
  pk0 : Bool := false
  pk1 : Bool := false
  dq  : List Int := [32, 32, 32, 32, 32, 32]
  sr0 : Int := 32
  sr1 : Int := 32
  td  : Bool := false
deriving Repr, DecidableEq, Inhabited

/-- `private_init_state` -/
def St.init : St := {}

/-- `fmult (an, srn)` -/
def fmult (an srn : Int) : Int :=
  let anmag := s16 (if an > 0 then an else (-an) % 8192)
  let anexp := s16 (quan anmag power2 - 6)
  let anmant := s16 (if anmag = 0 then 32 else if anexp ≥ 0 then shr anmag anexp else shl anmag (-anexp))
  let wanexp := s16 (anexp + (shr srn 6) % 16 - 13)
  let wanmant := s16 (shr (anmant * (srn % 64)) 4)
  let retval := s16 (if wanexp ≥ 0 then (shl wanmant wanexp) % 32768 else shr wanmant (-wanexp))
  if (decide (an < 0)) != (decide (srn < 0)) then -retval else retval

/-- Σ fmult (b [i] >> 2, dq [i]) -/
def fmultSum : List Int → List Int → Int
  | b :: bs, d :: ds => fmult (shr b 2) d + fmultSum bs ds
  | _, _ => 0

def predictorZero (st : St) : Int := fmultSum st.b st.dq
def predictorPole (st : St) : Int := fmult (shr st.a1 2) st.sr1 + fmult (shr st.a0 2) st.sr0

/-- `step_size ()` -/
def stepSize (st : St) : Int :=
  if st.ap ≥ 256 then st.yu
  else
    let y := shr st.yl 6
    let dif := st.yu - y
    let al := shr st.ap 2
    if dif > 0 then y + shr (dif * al) 6
    else if dif < 0 then y + shr (dif * al + 0x3F) 6
    else y

/-- `quantize (d, y, table, size)` -/
def quantize (d y : Int) (table : List Int) : Int :=
  let size : Int := table.length
  let dqm := s16 (d.natAbs : Int)
  let expon := s16 (quan (shr dqm 1) power2)
  let mant := s16 ((shr (shl dqm 7) expon) % 128)
  let dl := s16 (shl expon 7 + mant)
  let dln := s16 (dl - shr y 2)
  let i := quan dln table
  if d < 0 then 2 * size + 1 - i
  else if i = 0 then 2 * size + 1
  else i

/-- `reconstruct (sign, dqln, y)` -/
def reconstruct (sign : Bool) (dqln y : Int) : Int :=
  let dql := s16 (dqln + shr y 2)
  if dql < 0 then (if sign then -0x8000 else 0)
  else
    let dex := s16 ((shr dql 7) % 16)
    let dqt := s16 (128 + dql % 128)
    let dq := s16 (shr (shl dqt 7) (14 - dex))
    if sign then dq - 0x8000 else dq

/-- `(expon << 6) + ((mag << 6) >> expon)` with `expon = quan (mag, power2, 15)` -/
def expMant (mag : Int) : Int :=
  let expon := quan mag power2
  shl expon 6 + shr (shl mag 6) expon

/-- UPB: one zero-predictor coefficient -/
def updB (codeSize : Nat) (dq : Int) (b dqk : Int) : Int :=
  let b1 := s16 (b - shr b (if codeSize = 5 then 9 else 8))
  if dq % 32768 ≠ 0 then
    (if (decide (dq < 0)) == (decide (dqk < 0)) then s16 (b1 + 128) else s16 (b1 - 128))
  else b1

def updBs (codeSize : Nat) (dq : Int) : List Int → List Int → List Int
  | b :: bs, d :: ds => updB codeSize dq b d :: updBs codeSize dq bs ds
  | _, _ => []

/-- the new a [1] (`a2p`) when the coefficients are not reset -/
def updA2 (st : St) (pk0 : Bool) (dqsez : Int) : Int :=
  let pks1 := pk0 != st.pk0
  let a2p0 := s16 (st.a1 - shr st.a1 7)
  if dqsez ≠ 0 then
    let fa1 := s16 (if pks1 then st.a0 else -st.a0)
    let a2p1 := s16 (if fa1 < -8191 then a2p0 - 0x100 else if fa1 > 8191 then a2p0 + 0xFF else a2p0 + shr fa1 5)
    if pk0 != st.pk1 then
      (if a2p1 ≤ -12160 then -12288 else if a2p1 ≥ 12416 then 12288 else s16 (a2p1 - 0x80))
    else if a2p1 ≤ -12416 then -12288
    else if a2p1 ≥ 12160 then 12288
    else s16 (a2p1 + 0x80)
  else a2p0

/-- the new a [0] when the coefficients are not reset -/
def updA1 (st : St) (pk0 : Bool) (dqsez a2p : Int) : Int :=
  let pks1 := pk0 != st.pk0
  let a0a := s16 (st.a0 - shr st.a0 8)
  let a0b := if dqsez ≠ 0 then (if !pks1 then s16 (a0a + 192) else s16 (a0a - 192)) else a0a
  let a1ul := s16 (15360 - a2p)
  if a0b < -a1ul then s16 (-a1ul) else if a0b > a1ul then a1ul else a0b

/-- FLOAT A: the new dq [0] -/
def floatA (dq mag : Int) : Int :=
  if mag = 0 then (if dq ≥ 0 then 0x20 else s16 0xFC20)
  else s16 (if dq ≥ 0 then expMant mag else expMant mag - 0x400)

/-- FLOAT B: the new sr [0] -/
def floatB (sr : Int) : Int :=
  if sr = 0 then 0x20
  else if sr > 0 then s16 (expMant sr)
  else if sr > -32768 then s16 (expMant (s16 (-sr)) - 0x400)
  else s16 0xFC20

/-- TRANS: the transition detector `tr` -/
def trans (st : St) (dq : Int) : Bool :=
  let mag := s16 (dq % 32768)
  let ylint := s16 (shr st.yl 15)
  let ylfrac := s16 ((shr st.yl 10) % 32)
  let thr1 := s16 (shl (32 + ylfrac) ylint)
  let thr2 := s16 (if ylint > 9 then 31 * 1024 else thr1)
  let dqthr := s16 (shr (thr2 + shr thr2 1) 1)
  if !st.td then false else if mag ≤ dqthr then false else true

/-- LIMB: the new yu -/
def updYu (y wi : Int) : Int :=
  let yu0 := s16 (y + shr (wi - y) 5)
  if yu0 < 544 then 544 else if yu0 > 5120 then 5120 else yu0

/-- the new ap -/
def updAp (st : St) (tr td : Bool) (y dms dml : Int) : Int :=
  if tr then 256
  else if y < 1536 then s16 (st.ap + shr (0x200 - st.ap) 4)
  else if td then s16 (st.ap + shr (0x200 - st.ap) 4)
  else if ((shl dms 2 - dml).natAbs : Int) ≥ shr dml 3 then s16 (st.ap + shr (0x200 - st.ap) 4)
  else s16 (st.ap + shr (-st.ap) 4)

/-- `update (code_size, y, wi, fi, dq, sr, dqsez, state_ptr)` -/
def update (codeSize : Nat) (y wi fi dq sr dqsez : Int) (st : St) : St :=
  let pk0 : Bool := decide (dqsez < 0)
  let mag := s16 (dq % 32768)
  let tr := trans st dq
  let yu := updYu y wi
  let yl := st.yl + (yu + shr (-st.yl) 6)
  let a2p := if tr then 0 else updA2 st pk0 dqsez
  let a0 := if tr then 0 else updA1 st pk0 dqsez a2p
  let b := if tr then [0, 0, 0, 0, 0, 0] else updBs codeSize dq st.b st.dq
  let td : Bool := if tr then false else decide (a2p < -11776)
  let dms := s16 (st.dms + shr (fi - st.dms) 5)
  let dml := s16 (st.dml + shr (shl fi 2 - st.dml) 7)
  { yl := yl, yu := yu, dms := dms, dml := dml, ap := updAp st tr td y dms dml,
    a0 := a0, a1 := a2p, b := b, pk0 := pk0, pk1 := st.pk0,
    dq := floatA dq mag :: st.dq.take 5, sr0 := floatB sr, sr1 := st.sr0, td := td }

/-! ## the four rates -/

structure Rate where
  bits    : Nat
  qtab    : List Int          -- quantizer decision levels (`qtab_721` …)
  dqlntab : List Int
  witab   : List Int
  fitab   : List Int
  wiShift : Int               -- g721.c: `arith_shift_left (_witab [i], 5)`; the G.723 tables are pre-scaled
  srMask  : Int               -- `dq & 0x3FFF` (0x7FFF in g723_40.c)
  seInt   : Bool              -- g721_encoder BEFORE the repair of KF-G721-ENC-SE: `se = (sezi + predictor_pole ()) >> 1` without the `short sei` in between (`g721Old`); false for every rate of the current tree
  zeroFix : Bool              -- g723_16_encoder: `if (i == 3) if ((d & 0x8000) == 0) i = 0`
deriving Repr

def g721 : Rate :=
  { bits := 4, qtab := [-124, 80, 178, 246, 300, 349, 400],
    dqlntab := [-2048, 4, 135, 213, 273, 323, 373, 425, 425, 373, 323, 273, 213, 135, 4, -2048],
    witab := [-12, 18, 41, 64, 112, 198, 355, 1122, 1122, 355, 198, 112, 64, 41, 18, -12],
    fitab := [0, 0, 0, 0x200, 0x200, 0x200, 0x600, 0xE00, 0xE00, 0x600, 0x200, 0x200, 0x200, 0, 0, 0],
    wiShift := 5, srMask := 16384, seInt := false, zeroFix := false }

/-- G.721 as it was before the repair of KF-G721-ENC-SE: the encoder formed `se` from the `int` sum, the decoder from the
    16-bit `sei` (kept for the `_old_rule` theorems of SfProps/C20G72xTrack.lean) -/
def g721Old : Rate := { g721 with seInt := true }

def g723_16 : Rate :=
  { bits := 2, qtab := [261], dqlntab := [116, 365, 365, 116], witab := [-704, 14048, 14048, -704],
    fitab := [0, 0xE00, 0xE00, 0], wiShift := 0, srMask := 16384, seInt := false, zeroFix := true }

def g723_24 : Rate :=
  { bits := 3, qtab := [8, 218, 331], dqlntab := [-2048, 135, 273, 373, 373, 273, 135, -2048],
    witab := [-128, 960, 4384, 18624, 18624, 4384, 960, -128], fitab := [0, 0x200, 0x400, 0xE00, 0xE00, 0x400, 0x200, 0],
    wiShift := 0, srMask := 16384, seInt := false, zeroFix := false }

def g723_40 : Rate :=
  { bits := 5, qtab := [-122, -16, 68, 139, 198, 250, 298, 339, 378, 413, 445, 475, 502, 528, 553],
    dqlntab := [-2048, -66, 28, 104, 169, 224, 274, 318, 358, 395, 429, 459, 488, 514, 539, 566,
                566, 539, 514, 488, 459, 429, 395, 358, 318, 274, 224, 169, 104, 28, -66, -2048],
    witab := [448, 448, 768, 1248, 1280, 1312, 1856, 3200, 4512, 5728, 7008, 8960, 11456, 14080, 16928, 22272,
              22272, 16928, 14080, 11456, 8960, 7008, 5728, 4512, 3200, 1856, 1312, 1280, 1248, 768, 448, 448],
    fitab := [0, 0, 0, 0, 0, 0x200, 0x200, 0x200, 0x200, 0x200, 0x400, 0x600, 0x800, 0xA00, 0xC00, 0xC00,
              0xC00, 0xC00, 0xA00, 0x800, 0x600, 0x400, 0x200, 0x200, 0x200, 0x200, 0x200, 0, 0, 0, 0, 0],
    wiShift := 0, srMask := 32768, seInt := false, zeroFix := false }

/-- the codec selected by `g72x_reader_init / g72x_writer_init (codec = bits per sample)` -/
def rateOfBits (bits : Nat) : Option Rate :=
  if bits = 2 then some g723_16 else if bits = 3 then some g723_24 else if bits = 4 then some g721
  else if bits = 5 then some g723_40 else none

/-- table look-up `tab [i]` (an index outside the table gives 0 here; `StepSafe.idx` states the range) -/
def tabAt (tab : List Int) (i : Int) : Int := tab.getD i.toNat 0

/-- the part shared by encoder and decoder after the code `i` is known: reconstruct, `sr`, `dqsez`, `update`.
    Returns (new state, sr). -/
def finish (r : Rate) (st : St) (i se sez y : Int) : St × Int :=
  let dq := s16 (reconstruct (decide ((i / 2 ^ (r.bits - 1)) % 2 = 1)) (tabAt r.dqlntab i) y)
  let sr := s16 (if dq < 0 then se - dq % r.srMask else se + dq)
  let dqsez := s16 (sr + sez - se)
  (update r.bits y (shl (tabAt r.witab i) r.wiShift) (tabAt r.fitab i) dq sr dqsez st, sr)

/-- `g721_encoder / g723_16_encoder / g723_24_encoder / g723_40_encoder (sl, state)`: (new state, code) -/
def encode (r : Rate) (st : St) (sample : Int) : St × Int :=
  let sl := shr sample 2
  let sezi := s16 (predictorZero st)
  let sez := s16 (shr sezi 1)
  let se := if r.seInt then s16 (shr (sezi + predictorPole st) 1) else s16 (shr (s16 (sezi + predictorPole st)) 1)
  let d := s16 (sl - se)
  let y := s16 (stepSize st)
  let i0 := s16 (quantize d y r.qtab)
  let i := if r.zeroFix && i0 = 3 && d % 65536 < 32768 then 0 else i0
  ((finish r st i se sez y).1, i)

/-- `g721_decoder / … (i, state)`: (new state, the value stored into `short samples [k]`) -/
def decode (r : Rate) (st : St) (code : Int) : St × Int :=
  let i := code % 2 ^ r.bits
  let sezi := s16 (predictorZero st)
  let sez := s16 (shr sezi 1)
  let se := s16 (shr (s16 (sezi + predictorPole st)) 1)
  let y := s16 (stepSize st)
  let (st', sr) := finish r st i se sez y
  (st', s16 (shl sr 2))

/-! ## blocks of G72x_BLOCK_SIZE = 120 samples -/

def blockSamples : Nat := 120
/-- bytes per block: 120 · bits / 8 -/
def Rate.blockBytes (r : Rate) : Nat := blockSamples * r.bits / 8

/-- `pack_bytes (bits, samples, block)`: `out_buffer |= samples [k] << out_bits`, a byte leaves whenever 8 bits are there -/
def packLoop (bits : Nat) (buf nb : Nat) : List Nat → List Byte
  | [] => []
  | c :: cs =>
    let buf1 := buf ||| (c <<< nb)
    let nb1 := nb + bits
    if nb1 ≥ 8 then (buf1 % 256) :: packLoop bits (buf1 >>> 8) (nb1 - 8) cs
    else packLoop bits buf1 nb1 cs

def pack (bits : Nat) (codes : List Nat) : List Byte := packLoop bits 0 0 codes

/-- `unpack_bytes (bits, blocksize, block, samples)`: `k` codes from the bytes `bs` (a missing byte reads as 0; the C never
    runs out: 120 codes need exactly the block's bytes, `unpack_consumes`) -/
def unpackLoop (bits : Nat) : Nat → Nat → Nat → List Byte → List Nat
  | 0, _, _, _ => []
  | k + 1, buf, nb, bs =>
    let (buf1, nb1, bs1) := if nb < bits then (buf ||| (bs.headD 0 <<< nb), nb + 8, bs.tail) else (buf, nb, bs)
    (buf1 % 2 ^ bits) :: unpackLoop bits k (buf1 >>> bits) (nb1 - bits) bs1

def unpack (bits : Nat) (block : List Byte) : List Nat := unpackLoop bits blockSamples 0 0 block

/-- run the encoder over samples: (state, codes) -/
def encodeList (r : Rate) : St → List Int → St × List Nat
  | st, [] => (st, [])
  | st, x :: xs =>
    let (st1, c) := encode r st x
    let (st2, cs) := encodeList r st1 xs
    (st2, c.toNat :: cs)

/-- run the decoder over codes: (state, samples) -/
def decodeList (r : Rate) : St → List Nat → St × List Int
  | st, [] => (st, [])
  | st, c :: cs =>
    let (st1, v) := decode r st c
    let (st2, vs) := decodeList r st1 cs
    (st2, v :: vs)

/-- `g72x_encode_block (pstate, samples, block)`: 120 samples (shorts) -> the block's bytes -/
def encodeBlock (r : Rate) (st : St) (samples : List Int) : St × List Byte :=
  let (st', codes) := encodeList r st samples
  (st', pack r.bits codes)

/-- `g72x_decode_block (pstate, block, samples)`: the block buffer -> 120 shorts -/
def decodeBlock (r : Rate) (st : St) (block : List Byte) : St × List Int :=
  decodeList r st (unpack r.bits block)

end Sf.G72x
