"""C14, stream F (foreign files), the deterministic slice "a skip that does not fit the header cache".

A header parser steps over what it does not need (an unknown / JUNK / bext chunk in front of `data`, an ANNO chunk or the `offset`
junk in front of the SSND samples, the AU annotation) with psf_binheader_readf "j" = header_seek (SEEK_CUR).  While the target lies
inside the header cache (it grows to at most CAP = 100 KiB) the bytes are READ into the cache on every route.  Beyond the cap the
routes part: seekable routes do psf_fseek (SEEK_CUR), a pipe reads the gap into a 16 KiB scratch buffer piece by piece and throws
it away (lean/SfModel/RoutesBigSkip.lean: `junkReads`; theorems lean/SfProps/C14BigSkip.lean: the loop consumes exactly the gap, so
the first audio read delivers what the logical file delivers).  The library's own writers never put 100 KiB in front of the audio
and the seeded variants of vlib/foreign.py stop at 20 000 bytes, so that loop -- its piece size, its remainder, its end -- was not
reached by any C14 stream (C15's pipe stage reaches it with one size, for containment only).

The slice is DETERMINISTIC (no seed-sampled size or base file): one 16-bit PCM base per container, and for every skippable unit the
sizes that put the end of the skipped unit
   * at CAP - 1, CAP, CAP + 1, CAP + 2           (last cached size / first uncached sizes)
   * k x 16 KiB - 1, k x 16 KiB, k x 16 KiB + 1 bytes of UNCACHED gap for k = 7, 8 (the first multiples of the scratch buffer beyond the cap)
   * 200 001 bytes                               (several pieces and an odd remainder)
Routes: sequential virtual I/O (reference) against pipe (every size), pipe delivered 4096 bytes at a time, path, descriptor and
embedded descriptor (three sizes).  A case counts only if the reference route accepts the file and delivers the base file's samples
(vlib/foreign.py judges; this module only makes the cases)."""
from . import foreign as F

CAP = 100 * 1024
PIECE = 16 * 1024


def _pcm16_job(jobs, major):
    c = [j for j in jobs if j.get("filehex") and j["f"].major == major and j["f"].granular]
    c.sort(key=lambda j: (j["f"].codec != 0x02, j["f"].name))
    return c[0] if c else None


def sizes(start):
    """payload sizes for a unit whose payload begins at file offset `start` (= header.indx when the skip is issued)"""
    room = CAP - start                      # start + S <= CAP: the skip can be cached
    s = [room - 1, room, room + 1, room + 2]
    for k in (7, 8):                        # the first multiples of the scratch buffer beyond the cap
        for d in (-1, 0, 1):
            # uncached remainder = S - (bytes already cached behind indx) = S on a stream read exactly as far as the parser asked
            s.append(k * PIECE + d)
    s.append(200001)
    out = []
    for v in s:
        if v > 0 and v not in out:
            out.append(v)
    return out


def _wav(b, n):
    little = b[:4] == b"RIFF"
    form, ch = F.iff_parse(b, little)
    ids = [c[0] for c in ch]
    if b"data" not in ids:
        return None
    di = ids.index(b"data")
    return F.iff_build(b[:4], form, ch[:di] + [(b"JUNK", F.junk(n, n))] + ch[di:], little)


def _wav_start(b):
    little = b[:4] == b"RIFF"
    p = 12
    while p + 8 <= len(b):
        if b[p:p + 4] == b"data":
            return p + 8
        sz = int.from_bytes(b[p + 4:p + 8], "little" if little else "big")
        p += 8 + sz + (sz & 1)
    return None


def _aiff_start(b, cid):
    p = 12
    while p + 8 <= len(b):
        if b[p:p + 4] == cid:
            return p + 8
        sz = int.from_bytes(b[p + 4:p + 8], "big")
        p += 8 + sz + (sz & 1)
    return None


def _aiff_anno(b, n):
    form, ch = F.iff_parse(b, False)
    ids = [c[0] for c in ch]
    if b"SSND" not in ids:
        return None
    si = ids.index(b"SSND")
    return F.iff_build(b"FORM", form, ch[:si] + [(b"ANNO", F.junk(n, n))] + ch[si:], False)


def _aiff_offset(b, n):
    form, ch = F.iff_parse(b, False)
    ids = [c[0] for c in ch]
    if b"SSND" not in ids:
        return None
    si = ids.index(b"SSND")
    ss = ch[si][1]
    ch2 = list(ch)
    ch2[si] = (b"SSND", F.be32(n) + ss[4:8] + F.junk(n, n) + ss[8:])
    return F.iff_build(b"FORM", form, ch2, False)


def _au(b, n):
    bo = "big" if b[:4] == b".snd" else "little"
    off = int.from_bytes(b[4:8], bo)
    return b[:4] + int(off + n).to_bytes(4, bo) + b[8:off] + F.junk(n, n) + b[off:]


def cases(jobs, quick=True):
    """-> case dicts for foreign.run: j, tag, hex, name, routes (besides the reference), pipes"""
    out = []
    plans = []
    for major in (0x01, 0x13):
        j = _pcm16_job(jobs, major)
        if j:
            b = bytes.fromhex(j["filehex"])
            st = _wav_start(b)
            if st is not None:
                plans.append((j, "bigjunk-before-data", _wav, st, b))
    j = _pcm16_job(jobs, 0x02)
    if j:
        b = bytes.fromhex(j["filehex"])
        st = _aiff_start(b, b"SSND")
        if st is not None:
            plans.append((j, "biganno-before-ssnd", _aiff_anno, st, b))
            plans.append((j, "big-ssnd-offset", _aiff_offset, st + 8, b))
    j = _pcm16_job(jobs, 0x03)
    if j:
        b = bytes.fromhex(j["filehex"])
        if b[:4] in (b".snd", b"dns.") and len(b) >= 24:
            plans.append((j, "bigannotation", _au, int.from_bytes(b[4:8], "big" if b[:4] == b".snd" else "little"), b))
    for (j, tag, make, start, b) in plans:
        ss = sizes(start)
        wide = {ss[2], ss[5] if len(ss) > 5 else ss[-1], ss[-1]}          # first uncached size, one scratch-buffer boundary, the long one
        # the CONTROL of the group comes first: the same transformation with 1000 bytes (inside the cache on every route).  When the reference
        # route reads the base file out of the control but not out of a big member, the big skip itself went wrong on the seekable routes.
        for n in [1000] + ss:
            nb = make(b, n)
            if nb is None:
                continue
            c = dict(j=j, tag="%s%d" % (tag, n), hex=nb.hex(), name="%s+%s%d" % (j["name"], tag, n), bigskip=True, group="%s+%s" % (j["name"], tag), control=(n == 1000))
            c["routes"] = ["vio"] + (["path", "fd1", "fdemb:37:9"] if n in wide and j["f"].major in (0x01, 0x13, 0x02, 0x03) else [])
            c["pipes"] = ["pipe"] + (["pipe:4096"] if n in wide else [])
            out.append(c)
    return out
