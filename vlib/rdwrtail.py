"""C08 (and the RDWR half of C11): read/write handles on files WITH TRAILING CONTENT behind the audio, with raw reads / raw
writes as first-class operations and every read / write entry point right after every other kind of operation.

Why this exists (round 5, seeds C08-readraw-lastop, C11-writef-int-dataend): the RDWR histories of vlib/props/c08.py start from
files that end with their audio, pick ONE caller type per history and never call sf_read_raw / sf_write_raw.  Three things
then stay invisible:
  * a call that leaves the DESCRIPTOR somewhere else than the pointer it stands for (the `last_op` re-seek rule of the 18 read /
    write wrappers): only observable when the next call of the other direction follows WITHOUT an sf_seek, and for reads past
    the end of the audio only when the file has bytes there (pad byte, LIST / INFO, PEAK tailer, AIFF / CAF tail chunks);
  * the end-of-audio mark of a file with chunks behind the audio (`dataend`): every write entry point that grows the file has
    to drop it, visible only on such a file, in SFM_RDWR, after a header update;
  * one entry point of the 8 + 2 behaving differently from its siblings.

What is enumerated (all judged by the LEAN predicate Sf.Abs.check through `sfmodel abs`, from the closed empty store on; raw
calls are judged by rawReadOk / rawWriteOk with `bw` = bytes per frame; theorems: lean/SfProps/C08Raw.lean):
  typed family   file created by the library (w mode, odd frame count, optionally a string set AFTER the audio, optionally made
                 in SFM_RDWR so that PEAK goes to the tailer), re-opened SFM_RDWR; then three deterministic chains
                   A  for EACH of the 9 read entry points R (sf_read_T / sf_readf_T x 4 types, sf_read_raw):
                      seek both pointers; write; R past the end of the audio; write (NO seek); read back what both writes stored
                   B  for EACH write entry point W of the lossless caller types (items / frames):
                      read; W; read; W (no seeks in between); position probes; read back
                   C  for EACH W: write across the old end of the audio; SFC_UPDATE_HEADER_NOW; frame count; read back
                 then close, fresh open, whole-file read.
  raw family     the same three chains with W = sf_write_raw and raw read-back (the byte stream is known: the file is created
                 by sf_write_raw), R over all 9 read entry points.
  seeded         random histories over {typed write, any typed read, rraw incl. past the end and misaligned, wraw (raw family),
                 qualified / plain seeks, probes, header update, string query, close / re-open} on such files.
"""
import struct
from . import scripts as S, kernels as K, geometry as G, readcamp as R, abslean, absreplay

DIG = K.TY_DIGITS
TYS = ["s16", "s32", "f32", "f64"]
READS = [(ty, u) for ty in TYS for u in "if"] + [("raw", "")]
STR_CONTAINERS = (0x01, 0x13, 0x22, 0x02, 0x18)      # WAV, WAVEX, RF64, AIFF, CAF: sf_set_string after the audio puts a chunk behind it


def _vals(rng, ty, n, lowzero):
    v = S.rand_values(rng, ty, n, "unit")
    if ty in ("s16", "s32") and lowzero:
        mask = ((1 << (16 if ty == "s16" else 32)) - 1) ^ ((1 << lowzero) - 1)
        v = [x & mask for x in v]
    return v


def _rawbytes(rng, f, n):
    # any byte pattern is a legal PCM / u-law / A-law frame; float patterns are kept finite (exponent field not all ones)
    return bytes((rng.randrange(256) & 0x7E) if f.codec in (0x06, 0x07) else rng.randrange(256) for _ in range(n)).hex()


class Hist:
    """script builder that keeps the abstract positions (only used to aim the operations; the verdict is Lean's)"""

    def __init__(self, rng, f, ch, ty, lowzero, route, raw_family):
        self.rng, self.f, self.ch, self.ty, self.lowzero, self.raw = rng, f, ch, ty, lowzero, raw_family
        self.bw = R.raw_bw(f, ch)
        self.rt = "" if route == "vio" else " route=%s" % route
        self.L = []
        self.F = self.rpos = self.wpos = 0
        self.hn = 0
        self.h = None

    def open(self, mode):
        self.hn += 1
        self.h = "h%d" % (self.hn % 8)
        if mode == "r" and self.f.major != 0x04:
            self.L.append("open %s s0 r%s" % (self.h, self.rt))
        else:
            self.L.append("open %s s0 %s fmt=%08x ch=%d sr=8000%s" % (self.h, mode, self.f.word, self.ch, self.rt))
        if mode == "w":
            self.F = 0
        self.rpos = 0
        self.wpos = self.F if mode == "rw" else 0

    def close(self):
        self.L.append("close %s" % self.h)

    def write(self, k, unit=None, ty=None):
        """the history's write entry point: typed (lossless type) or sf_write_raw"""
        if self.raw:
            self.L.append("wraw %s %d %s" % (self.h, k * self.bw, _rawbytes(self.rng, self.f, k * self.bw)))
        else:
            unit = unit or self.rng.choice("if")
            v = _vals(self.rng, self.ty, k * self.ch, self.lowzero)
            self.L.append(S.w_line(self.h, self.ty, unit, k if unit == "f" else k * self.ch, v))
        self.wpos += k
        self.F = max(self.F, self.wpos)

    def read(self, fn, k):
        ty, u = fn
        if ty == "raw":
            self.L.append("rraw %s %d" % (self.h, k * self.bw))
        else:
            self.L.append("r %s %s %s %d" % (self.h, ty, u, k if u == "f" else k * self.ch))
        self.rpos = min(self.F, self.rpos + k)

    def readback(self, p, k):
        """what is stored at frames p .. p+k, through the entry point whose stream the predicate knows"""
        self.seek(p, 0x10)
        self.read(("raw", "") if self.raw else (self.ty, "f"), k)

    def seek(self, p, q):
        self.L.append("seek %s %d %d" % (self.h, p, q))
        if q in (0, 0x30):
            self.rpos = self.wpos = p
        elif q == 0x10:
            self.rpos = p
        else:
            self.wpos = p

    def probes(self):
        self.L += ["seek %s 0 17" % self.h, "seek %s 0 33" % self.h]

    def op(self, line):
        self.L.append(line)

    def text(self):
        return "\n".join(self.L) + "\n"


def make_file(H, n0, late_string, via_rdwr):
    """the pre-populated file: n0 frames (odd: a pad byte follows 1- and 3-byte mono samples), optionally a string set after the
    audio (-> LIST / INFO, AIFF text chunk, CAF info behind the audio), optionally created in SFM_RDWR (PEAK in the tailer)"""
    H.open("rw" if via_rdwr else "w")
    H.write(n0, unit="f")
    if late_string:
        H.op("setstr %s 1 %s" % (H.h, b"set after the audio".hex()))
    H.close()


def chains(H, parity):
    rng = H.rng
    writes = ["i", "f"]
    # A: every read entry point past the end of the audio, between two writes that no seek separates
    for j, fn in enumerate(READS):
        k = 1 + (j + parity) % 2
        d = 1 + j % 3
        p = 1 + j % max(1, H.F - 2 * k - 1)
        p = min(p, H.F - 2 * k)
        H.seek(p, 0x20)
        H.seek(H.F - d, 0x10)
        H.write(k, unit=writes[(j + parity) % 2])
        H.read(fn, d + 1 + j % 2)                    # more than is left: clamped at the end of the audio
        H.write(k, unit=writes[(j + parity + 1) % 2])
        if j % 3 == 0:
            H.probes()
        H.readback(p, 2 * k + 1 if p + 2 * k < H.F else 2 * k)
    # B: every write entry point between two reads that no seek separates
    for j, u in enumerate(writes + writes[::-1]):
        fn = READS[(3 * j + parity) % len(READS)]
        q = j % 2
        p = max(0, H.F - 5 - j)
        H.seek(q, 0x10)
        H.seek(p, 0x20)
        H.read(fn, 1)
        H.write(1, unit=u)
        H.read(("raw", "") if H.raw else (H.ty, "if"[j % 2]), 2)      # judged against the stream: must continue at q + 1
        H.write(2, unit=u)
        H.probes()
        H.readback(p, 3)
    # C: every write entry point across the old end of the audio, then a header update: the frame count and the data stand
    for j, u in enumerate(writes):
        p = H.F - 1
        H.seek(p, 0x20)
        H.write(3, unit=u)
        H.op("cmd %s 1060 0 null" % H.h)
        H.op("info %s" % H.h)
        H.readback(p, 4)
        H.op("info %s" % H.h)


def finish(H):
    H.close()
    H.open("r")
    H.read(("raw", "") if H.raw else (H.ty, "i"), H.F + 3)
    H.close()


def det_script(rng, f, ch, ty, lowzero, route, raw_family, tail, parity):
    H = Hist(rng, f, ch, ty, lowzero, route, raw_family)
    make_file(H, rng.choice([9, 11, 15]), "s" in tail, "p" in tail)
    H.open("rw")
    chains(H, parity)
    finish(H)
    return H


def rand_script(rng, f, ch, ty, lowzero, route, raw_family, tail, nops):
    H = Hist(rng, f, ch, ty, lowzero, route, raw_family)
    make_file(H, rng.choice([5, 9, 33, 101]), "s" in tail, "p" in tail)
    H.open("rw")
    for _ in range(nops):
        r = rng.random()
        if r < 0.28:
            H.write(rng.choice([1, 1, 2, 3, 5, 16]))
        elif r < 0.50:
            H.read(rng.choice(READS[:8]), rng.choice([1, 2, 3, 7, 16, H.F + 1]))
        elif r < 0.62:
            k = rng.choice([1, 2, 3, 7, max(H.F - H.rpos, 1) + rng.choice([0, 1, 4])])
            if rng.random() < 0.08 and H.bw > 1:
                H.op("rraw %s %d" % (H.h, k * H.bw + 1))      # not a whole number of frames: refused, nothing moves
            else:
                H.read(("raw", ""), k)
        elif r < 0.82:
            q = rng.choice([0, 0x10, 0x20])
            H.seek(rng.choice([0, 1, H.F // 2, max(H.F - 1, 0), H.F, rng.randrange(0, H.F + 1)]), q)
        elif r < 0.90:
            H.probes()
        elif r < 0.94:
            H.op("cmd %s 1060 0 null" % H.h)
            H.op("info %s" % H.h)
        elif r < 0.97:
            H.op("getstr %s 1" % H.h)
        else:
            H.close()
            H.open("rw")
    finish(H)
    return H


def run_c08(ctx, fs, quick=True):
    """fs: the formats of C08's campaign B (sample-granular, lossless for some caller type, SFM_RDWR capable containers)"""
    rng = ctx.rng
    jobs = []       # (name, f, ch, ty, route, raw_family, Hist)
    main = (0x01, 0x02, 0x03, 0x0B, 0x13, 0x18, 0x22)
    seen_major = set()
    for i, f in enumerate(fs):
        if not R.raw_bw(f, 1):
            continue
        loss = G.lossless_types(f)
        tys = sorted(loss)
        tails = ["s", "", "sp"] if f.major in STR_CONTAINERS else ["", "p"]
        # every container: all lossless types x both tail kinds on its first encoding; the other encodings rotate
        full = f.major not in seen_major and (f.major in main or not quick)
        seen_major.add(f.major)
        combos = [(ty, tl) for ty in tys for tl in tails[:2]] if full else [(tys[i % len(tys)], tails[i % len(tails)])]
        for (ty, tl) in combos:
            ch = 1 if (i + len(tl)) % 3 else min(2, f.maxch)
            route = "fd" if (i + len(ty)) % 2 else "vio"
            H = det_script(rng, f, ch, ty, loss[ty], route, False, tl, i % 2)
            jobs.append(("tail-%s-%s-%s-%d" % (f.name, ty, tl or "0", len(jobs)), f, ch, ty, route, False, H))
        ch = 1 if i % 2 else min(2, f.maxch)
        tl = tails[(i + 1) % len(tails)]
        H = det_script(rng, f, ch, tys[0], loss[tys[0]], "vio" if i % 2 else "fd", True, tl, (i + 1) % 2)
        jobs.append(("tailraw-%s-%s-%d" % (f.name, tl or "0", len(jobs)), f, ch, tys[0], "vio" if i % 2 else "fd", True, H))
    for i, f in enumerate(fs[rng.randrange(2)::2] if quick else fs):
        if not R.raw_bw(f, 1):
            continue
        loss = G.lossless_types(f)
        ty = rng.choice(sorted(loss))
        ch = min(rng.choice([1, 1, 2, 3]), f.maxch)
        rawf = rng.random() < 0.3
        tails = ["s", "", "sp"] if f.major in STR_CONTAINERS else ["", "p"]
        route = rng.choice(["vio", "fd"])
        H = rand_script(rng, f, ch, ty, loss[ty], route, rawf, rng.choice(tails), 25 if quick else 60)
        jobs.append(("tailrand-%s-%d" % (f.name, len(jobs)), f, ch, ty, route, rawf, H))
    return judge_jobs(ctx, "C08", jobs)


def geom_of(f, ch, ty, route, raw_family):
    return abslean.geom_line(ch, 0, "w", bw=R.raw_bw(f, ch) or 0, trunc=(route != "vio"), strict=True, lossless=[] if raw_family else [ty])


def judge_jobs(ctx, prop, jobs, max_reports=4):
    out = ctx.batch([(name, H.text()) for (name, f, ch, ty, route, rawf, H) in jobs], clean=True)
    judge = abslean.Judge(ctx)
    for (name, f, ch, ty, route, rawf, H) in jobs:
        judge.add(name, geom_of(f, ch, ty, route, rawf), {}, None, abslean._alive_pairs(H.L, out.get(name, []), 0))
    verdicts = judge.run()
    st = ctx.notes.setdefault("rdwr_tail", {"histories": 0, "lines": 0, "refused_at_open": 0, "raw_family": 0, "entry_points_after_each_other": 0})
    reported = set()
    found = False
    pairs_seen = set()
    for (name, f, ch, ty, route, rawf, H) in jobs:
        lines = out.get(name, [])
        v = verdicts[name]
        st["histories"] += 1
        st["lines"] += len(H.L)
        st["raw_family"] += 1 if rawf else 0
        ctx.count(len(H.L), tag="rdwr-tail:" + f.name)
        prev = None
        for l in H.L:
            t = l.split()
            kind = (t[0] + ":" + (t[2] + t[3] if t[0] in ("r", "w") else "")) if t[0] in ("r", "w", "rraw", "wraw") else None
            if kind and prev:
                pairs_seen.add((prev, kind))
            prev = kind if kind else (None if t[0] == "seek" and not (t[2] == "0" and t[3] in ("17", "33")) else prev)
        if v.status == "skip":
            st["refused_at_open"] += 1
            continue
        dead = [l for l in lines if l.startswith(abslean.DEAD)]
        prob = None
        if v.first() is not None:
            k, tag, text = v.first()
            prob = (k, tag, "Lean predicate Sf.Abs.check: clause `%s` fails: %s" % (tag, text.strip()))
        elif dead or len(lines) < len(H.L):
            prob = (max(len(lines) - 1, 0), None, "transcript ends early: %s" % (dead[:1] or lines[-1:]))
        if not prob:
            continue
        key = f.name.split("-")[0]
        if key in reported or len(reported) >= max_reports:
            continue
        reported.add(key)
        found = True
        k, tag, text = prob
        body = (absreplay.plain_replay(H.text(), k, geom_of(f, ch, ty, route, rawf), 0, clause=tag) if tag
                else "--- script\n" + "\n".join(H.L[:k + 1]) + "\n")
        ctx.violation("%s-%s" % (prop.lower(), name),
                      "# %s violated on the implementation's own transcript (read/write handle on a file with content behind the audio; %s family)\n"
                      "# format %s, %d channel(s), type %s, route %s\n# at script line %d: %s\n# %s\n%s"
                      % (prop, "raw" if rawf else "typed", f.name, ch, ty, route, k, H.L[k][:100] if k < len(H.L) else "", text, body))
    st["entry_points_after_each_other"] = len(pairs_seen)
    return found


# =====================================================================================================================
# C11: crash-point images of a read/write session on a RE-OPENED file (with and without content behind the audio)
# =====================================================================================================================

WRITES = [(ty, u) for ty in TYS for u in "if"] + [("raw", "")]


def snap_script(rng, f, ch, ty, lowzero, fn, tail, raw_family):
    """returns (Hist, [(index of the `copy` line, [indices of the lines of the image's reader])], index of `close` of the writer,
    [indices of the final reader])
    The writer: re-open SFM_RDWR, move the write pointer to d frames in front of the end, write across the old end with the entry
    point `fn`, SFC_UPDATE_HEADER_NOW, image; auto update on, write again, image; close; every image and the finished file are opened
    read-only and read to their end."""
    H = Hist(rng, f, ch, ty, lowzero, "vio", raw_family)
    make_file(H, rng.choice([7, 9, 30]), "s" in tail, "p" in tail)
    H.open("rw")
    wh = H.h
    fty, fu = fn

    def wr(k):
        if fty == "raw":
            H.L.append("wraw %s %d %s" % (H.h, k * H.bw, _rawbytes(rng, f, k * H.bw)))
        elif fty == H.ty and not H.raw:
            H.write(k, unit=fu)
            return
        else:
            v = _vals(rng, fty, k * ch, 0)
            H.L.append(S.w_line(H.h, fty, fu, k if fu == "f" else k * ch, v))
        H.wpos += k
        H.F = max(H.F, H.wpos)

    snaps = []
    d = rng.choice([0, 1, 2])
    if rng.random() < 0.5:
        H.seek(H.F - d, rng.choice([0, 0x20]))
    else:
        H.L.append("seek %s %d %d" % (H.h, -d, rng.choice([2, 0x22])))
        H.wpos = H.F - d
    wr(d + rng.choice([1, 2, 5, 40]))
    H.op("cmd %s 1060 0 null" % H.h)
    H.op("info %s" % H.h)
    snaps.append([len(H.L), 2])
    H.op("copy s2 s0")
    H.op("cmd %s 1061 1 null" % H.h)
    wr(rng.choice([1, 3, 17]))
    H.op("info %s" % H.h)
    snaps.append([len(H.L), 3])
    H.op("copy s3 s0")
    if rng.random() < 0.5:
        # overwrite inside the data in auto mode: the image keeps its length
        H.seek(1, 0x20)
        wr(2)
        snaps.append([len(H.L), 4])
        H.op("copy s4 s0")
    iclose = len(H.L)
    H.close()
    res = []
    for (ic, st) in snaps:
        i0 = len(H.L)
        hr = st + 1          # reader handles h3.. (h1 made the file, h2 is the writer: a replay runs the reader while the writer is open)
        H.L.append(("open h%d s%d r fmt=%08x ch=%d sr=8000" % (hr, st, f.word, ch)) if f.major == 0x04 else "open h%d s%d r" % (hr, st))
        H.L.append(("rraw h%d %d" % (hr, (H.F + 3) * H.bw)) if raw_family else "r h%d %s i %d" % (hr, H.ty, (H.F + 3) * ch))
        H.L.append("close h%d" % hr)
        res.append((ic, list(range(i0, len(H.L)))))
    i0 = len(H.L)
    H.L.append("open h6 s0 r")
    H.L.append(("rraw h6 %d" % ((H.F + 3) * H.bw)) if raw_family else "r h6 %s i %d" % (H.ty, (H.F + 3) * ch))
    H.L.append("close h6")
    return H, res, iclose, list(range(i0, len(H.L)))


def run_c11(ctx):
    from . import formats
    rng = ctx.rng
    quick = ctx.tier == "quick"
    fs = [f for f in formats.writable_formats(ctx) if f.granular and R.raw_bw(f, 1) and f.major not in (0x04, 0x16, 0x11)]
    main = (0x01, 0x02, 0x03, 0x0B, 0x13, 0x18, 0x22)
    seen = set()
    jobs = []
    for i, f in enumerate(fs):
        loss = G.lossless_types(f)
        tails = ["s", "", "sp"] if f.major in STR_CONTAINERS else ["", "p"]
        full = f.major in main and f.major not in seen
        seen.add(f.major)
        fns = WRITES if (full or not quick) else [WRITES[i % len(WRITES)], WRITES[(i * 5 + 3) % len(WRITES)]]
        for j, fn in enumerate(fns):
            rawf = fn[0] == "raw" or not loss
            ty = fn[0] if fn[0] in loss else (sorted(loss)[(i + j) % len(loss)] if loss else "s16")
            ch = 1 if (i + j) % 3 else min(2, f.maxch)
            H, snaps, iclose, final = snap_script(rng, f, ch, ty, loss.get(ty, 0), fn, tails[(i + j) % len(tails)], rawf)
            jobs.append(("rwsnap-%s-%s%s-%d" % (f.name, fn[0], fn[1], len(jobs)), f, ch, ty, rawf, H, snaps, iclose, final))
    out = ctx.batch([(j[0], j[5].text()) for j in jobs], clean=True)
    judge = abslean.Judge(ctx)
    parts = {}
    for (name, f, ch, ty, rawf, H, snaps, iclose, final) in jobs:
        lines = out.get(name, [])
        if len(lines) < len(H.L) or any(l.startswith(abslean.DEAD) for l in lines):
            continue
        g = geom_of(f, ch, ty, "vio", rawf)
        for k, (ic, idx) in enumerate(snaps):
            sel = list(range(ic + 1)) + idx
            judge.add("%s@%d" % (name, k), g, {}, None, [(H.L[i], lines[i]) for i in sel])
            parts["%s@%d" % (name, k)] = sel
        sel = list(range(iclose + 1)) + final
        judge.add("%s@end" % name, g, {}, None, [(H.L[i], lines[i]) for i in sel])
        parts["%s@end" % name] = sel
    verdicts = judge.run()
    st = ctx.notes.setdefault("rdwr_snap", {"sessions": 0, "images": 0, "refused_at_open": 0, "write_entry_points": 0})
    fnseen = set()
    reported = set()
    found = False
    voc_kf = next((k for k in ctx.known if k["id"] == "KF-VOC-UPDATE" and k.get("status") == "known"), None)
    voc_still = None
    for (name, f, ch, ty, rawf, H, snaps, iclose, final) in jobs:
        lines = out.get(name, [])
        st["sessions"] += 1
        ctx.count(len(H.L), tag="rdwr-snap:" + f.name)
        prob = None
        if len(lines) < len(H.L) or any(l.startswith(abslean.DEAD) for l in lines):
            prob = (max(len(lines) - 1, 0), None, None, "transcript ends early: %s" % lines[-1:])
        else:
            for key in ["%s@%d" % (name, k) for k in range(len(snaps))] + ["%s@end" % name]:
                v = verdicts[key]
                if v.status == "skip":
                    st["refused_at_open"] += 1
                    break
                st["images"] += 1
                fnseen.add(name.split("-")[-2])
                if v.first() is not None:
                    k, tag, text = v.first()
                    sel = parts[key]
                    what = "the finished file" if key.endswith("@end") else "a crash-point image"
                    prob = (sel[k] if k < len(sel) else len(H.L) - 1, tag, key, "%s: Lean predicate Sf.Abs.check, clause `%s`: %s" % (what, tag, text.strip()))
                    break
        if not prob:
            continue
        if f.major == 0x08 and voc_kf is not None:
            if voc_still is None:
                voc_still = bool(ctx.witness_still_fails(voc_kf))
            if voc_still and prob[1] in ("reopen-frames", "open") and prob[2] and not prob[2].endswith("@end"):
                ctx.known_finding(voc_kf)       # class: VOC image after a header update; signature: the image's frame count
                continue
        key = f.name.split("-")[0]
        if key in reported or len(reported) >= 4:
            continue
        reported.add(key)
        found = True
        line, tag, vkey, text = prob
        if tag:
            sel = parts[vkey]
            body = absreplay.header(geom_of(f, ch, ty, "vio", rawf), 0, clause=(tag, len([i for i in sel if i <= line]) - 1)) + "--- script\n" + "\n".join(H.L[i] for i in sel if i <= line) + "\n"
        else:
            body = "--- script\n" + "\n".join(H.L[:line + 1]) + "\n"
        ctx.violation("c11-%s" % name,
                      "# C11 violated on the implementation's own transcript (read/write session on a re-opened file; header update, crash-point image)\n"
                      "# format %s, %d channel(s), type %s, write entry point %s\n# at script line %d: %s\n# %s\n%s"
                      % (f.name, ch, ty, name.split("-")[-2], line, H.L[line][:100] if line < len(H.L) else "", text, body))
    st["write_entry_points"] = len(fnseen)
    return found
