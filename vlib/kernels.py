"""Sample-kernel campaigns through the RAW container: the implementation's conversion of caller values to
stored bytes (and back) versus the Lean model `Sf.Enc.encode/decode` (sfmodel codec …)."""
import struct, concurrent.futures
from fractions import Fraction

LE, BE = 0x10000000, 0x20000000
RAW = 0x040000
# name -> (format word for RAW, bytes per sample)
ENCODINGS = {
    "pcm8s": (RAW | 0x0001, 1), "pcm8u": (RAW | 0x0005, 1),
    "pcm16le": (RAW | 0x0002 | LE, 2), "pcm16be": (RAW | 0x0002 | BE, 2),
    "pcm24le": (RAW | 0x0003 | LE, 3), "pcm24be": (RAW | 0x0003 | BE, 3),
    "pcm32le": (RAW | 0x0004 | LE, 4), "pcm32be": (RAW | 0x0004 | BE, 4),
    "f32le": (RAW | 0x0006 | LE, 4), "f32be": (RAW | 0x0006 | BE, 4),
    "f64le": (RAW | 0x0007 | LE, 8), "f64be": (RAW | 0x0007 | BE, 8),
    "ulaw": (RAW | 0x0010, 1), "alaw": (RAW | 0x0011, 1),
}
TY_DIGITS = {"s16": 4, "s32": 8, "f32": 8, "f64": 16}
CMD = {"normF": "1013", "normD": "1012", "clip": "10c0", "scaleIF": "1015", "fiMult": "1014"}


def f32bits(x):
    return struct.unpack("<I", struct.pack("<f", x))[0]


def f64bits(x):
    return struct.unpack("<Q", struct.pack("<d", x))[0]


def bits_f32(b):
    return struct.unpack("<f", struct.pack("<I", b))[0]


def bits_f64(b):
    return struct.unpack("<d", struct.pack("<Q", b))[0]


def finite32(b):
    return (b >> 23) & 0xFF != 0xFF


def finite64(b):
    return (b >> 52) & 0x7FF != 0x7FF


def hex_items(xs, digits):
    mask = (1 << (4 * digits)) - 1
    fmt = "%%0%dx" % digits
    return "".join(fmt % (x & mask) for x in xs)


def flag_cmds(h, flags):
    out = []
    for k in ("normF", "normD", "clip", "scaleIF"):
        if k in flags:
            out.append("cmd %s %s %d null" % (h, CMD[k], flags[k]))
    return out


def flag_args(flags, variant="sse2"):
    a = ["%s=%s" % (k, v) for k, v in flags.items()]
    a.append("variant=" + variant)
    return a


def enc_script(enc, ty, flags, xs):
    fmt, nb = ENCODINGS[enc]
    lines = ["open h0 s0 w fmt=%08x ch=1 sr=8000" % fmt] + flag_cmds("h0", flags)
    lines += ["w h0 %s i %d %s" % (ty, len(xs), hex_items(xs, TY_DIGITS[ty])), "close h0", "dump s0"]
    return "\n".join(lines) + "\n"


def dec_script(enc, ty, flags, data_hex, n):
    fmt, nb = ENCODINGS[enc]
    lines = ["store s0 " + data_hex, "open h0 s0 r fmt=%08x ch=1 sr=8000" % fmt] + flag_cmds("h0", flags)
    if flags.get("fiMult"):
        lines.append("cmd h0 %s 1 null" % CMD["fiMult"])
    lines += ["r h0 %s i %d" % (ty, n), "close h0"]
    return "\n".join(lines) + "\n"


def float_max_bits(enc, data_hex):
    """psf->float_max as SFC_SET_SCALE_FLOAT_INT_READ computes it: (32768.0/32767.0) * max |sample| (as double)"""
    fmt, nb = ENCODINGS[enc]
    raw = bytes.fromhex(data_hex)
    mx = 0.0
    for k in range(0, len(raw) - nb + 1, nb):
        chunk = raw[k:k + nb]
        if enc.startswith("f32"):
            v = struct.unpack("<f" if enc.endswith("le") else ">f", chunk)[0]
        else:
            v = struct.unpack("<d" if enc.endswith("le") else ">d", chunk)[0]
        t = abs(float(v))
        mx = t if t > mx else mx
    return f32bits((32768.0 / 32767.0) * mx)      # psf->float_max is a C float


class Campaign:
    def __init__(self, direction, enc, ty, flags, inputs, label=""):
        self.dir, self.enc, self.ty, self.flags, self.inputs, self.label = direction, enc, ty, dict(flags), inputs, label
        self.impl = self.model = None
        self.rc = 0
        self.err = ""

    def name(self):
        fl = ",".join("%s=%s" % kv for kv in sorted(self.flags.items()))
        return "%s-%s-%s%s%s" % (self.dir, self.enc, self.ty, ("-" + fl) if fl else "", ("-" + self.label) if self.label else "")

    def out_digits(self):
        return 2 * ENCODINGS[self.enc][1] if self.dir == "enc" else TY_DIGITS[self.ty]

    def data_hex(self):
        # dec: inputs are stored codes (unsigned ints of nb bytes, as they appear in file order, big-endian hex of the byte string)
        nb = ENCODINGS[self.enc][1]
        return hex_items(self.inputs, 2 * nb)

    def script(self):
        if self.dir == "enc":
            return enc_script(self.enc, self.ty, self.flags, self.inputs)
        return dec_script(self.enc, self.ty, self.flags, self.data_hex(), len(self.inputs))

    def single(self, k):
        c = Campaign(self.dir, self.enc, self.ty, self.flags, [self.inputs[k]], self.label)
        if self.flags.get("fiMult"):
            c.forced_float_max = float_max_bits(self.enc, self.data_hex())
        return c

    def run(self, ctx, variant="sse2", libvariant="asan"):
        script = self.script()
        lines, rc, err = ctx.script(script, variant=libvariant)
        self.rc, self.err = rc, err
        margs = flag_args(self.flags, variant)
        if self.dir == "enc":
            self.impl = lines[-1].split("hex=")[1] if lines and "hex=" in lines[-1] else ""
            self.model = ctx.run_model(["codec", "enc", self.enc, self.ty] + margs, hex_items(self.inputs, TY_DIGITS[self.ty]) + "\n").strip()
        else:
            rl = [l for l in lines if l.startswith("ret=") and "data=" in l]
            self.impl = rl[-1].split("data=")[1] if rl else ""
            if self.flags.get("fiMult"):
                margs.append("floatMax=%08x" % float_max_bits(self.enc, self.data_hex()))
            self.model = ctx.run_model(["codec", "dec", self.enc, self.ty] + margs, self.data_hex() + "\n").strip()
        return self

    def diffs(self):
        d = self.out_digits()
        a, b = self.impl, self.model
        n = len(self.inputs)
        out = []
        for k in range(n):
            if a[k * d:(k + 1) * d] != b[k * d:(k + 1) * d]:
                out.append(k)
                if len(out) >= 50:
                    break
        return out

    def out_at(self, which, k):
        d = self.out_digits()
        s = self.impl if which == "impl" else self.model
        return s[k * d:(k + 1) * d]


def run_campaigns(ctx, camps, variant="sse2", libvariant="asan", workers=12):
    with concurrent.futures.ThreadPoolExecutor(max_workers=workers) as ex:
        list(ex.map(lambda c: c.run(ctx, variant, libvariant), camps))
    return camps


# ---------------------------------------------------------------------------------------------------
# value generators
# ---------------------------------------------------------------------------------------------------

def shorts():
    return list(range(-32768, 32768))


def ints_from_shorts(rng):
    lows = [0, 0xFFFF, 0x8000, rng.randrange(65536)]
    out = []
    for lo in lows:
        out += [((x << 16) | lo) for x in range(-32768, 32768)]
    out += [-2**31, 2**31 - 1, -2**31 + 1, 0x7FFFFF00, -0x7FFFFF00]
    return out


def float_boundaries(ty, rng, n_random):
    """bit patterns of finite values: documented boundary points plus seeded random patterns"""
    tobits = f32bits if ty == "f32" else f64bits
    finite = finite32 if ty == "f32" else finite64
    width = 32 if ty == "f32" else 64
    vals = set()
    base = [0.0, -0.0, 1.0, -1.0, 0.5, -0.5, 0.25, 2.0, -2.0, 1e-30, -1e-30, 1e30, -1e30, 32767.0, -32768.0, 32768.0,
            2147483647.0, -2147483648.0, 2147483648.0, 4294967296.0, 9.3e18, -9.3e18, 127.0, -128.0, 8388607.0, -8388608.0]
    for v in base:
        b = tobits(v)
        for d in (-2, -1, 0, 1, 2):
            if 0 <= b + d < (1 << width) and finite(b + d):
                vals.add(b + d)
    # halves for rounding at every PCM width, normalised and not
    for w in (8, 16, 24, 32):
        full = (1 << (w - 1)) - 1
        for k in list(range(0, 40)) + [full // 2, full - 2, full - 1, full, full + 1] + [rng.randrange(full) for _ in range(40)]:
            for sgn in (1, -1):
                for scale in (float(full), float(1 << (w - 1)), 1.0):
                    x = sgn * (k + 0.5) / scale
                    b = tobits(x)
                    for d in (-1, 0, 1):
                        if finite(b + d):
                            vals.add(b + d)
    # x in [-1, 1) dense sample, and full-range random patterns
    for _ in range(n_random // 2):
        vals.add(tobits(rng.uniform(-1.0, 1.0)))
    while len(vals) < n_random + 2000:
        b = rng.getrandbits(width)
        if finite(b):
            vals.add(b)
    return sorted(vals)


def codes_for(enc, rng, n_random):
    """stored codes to decode: exhaustive for 1- and 2-byte samples, boundaries + random otherwise"""
    nb = ENCODINGS[enc][1]
    if nb == 1:
        return list(range(256))
    if nb == 2:
        return list(range(65536))
    if enc.startswith("pcm"):
        top = 1 << (8 * nb)
        s = {0, 1, 2, top - 1, top - 2, top // 2, top // 2 - 1, top // 2 + 1, 0x0000FF % top, 0x00FF00 % top, 0xFF0000 % top}
        for k in range(8 * nb):
            s.add(1 << k)
            s.add((top - 1) ^ (1 << k))
        while len(s) < n_random:
            s.add(rng.getrandbits(8 * nb))
        return sorted(s)
    # float data: the file holds bit patterns in file byte order; generate values then lay out in that order
    ty = "f32" if nb == 4 else "f64"
    vals = float_boundaries(ty, rng, n_random)
    if enc.endswith("le"):
        vals = [int.from_bytes(v.to_bytes(nb, "little"), "big") for v in vals]
    return vals
