"""Late setters after audio written through EVERY write entry point (C13: sf_set_chunk; C12: bext / cart / cues / instrument /
channel map / strings).

Why this exists (round 5, seed C13-write-raw-have-written): "set after audio has been written" was only ever exercised with
`sf_write_short`.  The rule behind the refusal (`psf->have_written`) is set in nine separate places of sndfile.c (the eight typed
writers and sf_write_raw); a file whose audio went out through ONE entry point only is the one history on which a missing
assignment shows: the late chunk is accepted and the next write / the close lays a longer header over the audio.

What is enumerated: containers WAV, RF64, AIFF, CAF (16-bit PCM, mono) x the 9 write entry points x late payload sizes (small; for
CAF also larger than the 'free' padding) :  chunk set early, audio through the entry point, LATE sf_set_chunk, MORE audio through the
same entry point (the damage of an accepted late chunk appears at the next header rewrite), another late call, close, re-open,
full iteration, audio read back.  The scripts run through C13's own pipeline (model `sfmodel chunks` = Sf.ChunkW.writeBy for
the `have_written` rule, Python predicate of vlib/props/c13.py for the round trip and the audio).
For C12 the same histories carry the late SET calls of the metadata kinds; judged by Sf.Abs (frame count and audio of the
re-opened file, `sfmodel abs`) and by comparison of the re-opened metadata with the run that makes no late call.
"""
import struct
from . import chunks as C, kernels as K, abslean, absreplay

TYS = ["s16", "s32", "f32", "f64"]
WRITES = [(ty, u) for ty in TYS for u in "if"] + [("raw", "")]
BIG_ENDIAN = {"wav": False, "rf64": False, "aiff": True, "caf": True, "wavex": False}


def pattern(k0, n):
    """the audio pattern of vlib/chunks.py audio_hex, frames k0 .. k0+n (all values < 0x8000 for k < 127)"""
    return [((k * 257 + 1) & 0xffff) for k in range(k0, k0 + n)]


def write_line(h, cont, fn, k0, n):
    """n mono frames of the pattern through the entry point fn, encoded so that the 16-bit file holds the pattern exactly
    (float / double with normalisation off: the caller's values are the integers themselves)"""
    ty, u = fn
    vals = pattern(k0, n)
    if ty == "raw":
        data = b"".join(struct.pack(">H" if BIG_ENDIAN[cont] else "<H", v) for v in vals)
        return "wraw %s %d %s" % (h, 2 * n, data.hex())
    if ty == "s16":
        hx = "".join("%04x" % v for v in vals)
    elif ty == "s32":
        hx = "".join("%08x" % (v << 16) for v in vals)
    elif ty == "f32":
        hx = "".join("%08x" % K.f32bits(float(v)) for v in vals)
    else:
        hx = "".join("%016x" % K.f64bits(float(v)) for v in vals)
    return "w %s %s %s %d %s" % (h, ty, u, n, hx)


def norm_off(h):
    return ["cmd %s 1012 0 null" % h, "cmd %s 1013 0 null" % h]      # SFC_SET_NORM_FLOAT / SFC_SET_NORM_DOUBLE false


def c13_scripts(rng, payload):
    S = []
    for cont in C.CONTAINERS:
        for j, fn in enumerate(WRITES):
            n1, n2 = rng.choice([3, 5, 8]), rng.choice([1, 4])
            big = cont == "caf" and j % 2 == 0
            late = payload(rng, 5000 if big else rng.choice([0, 2, 9]))
            early = [(b"erly", b"\x01\x02")] if j % 3 else []
            L = ["open h0 s0 w fmt=%s ch=1 sr=8000" % C.FMT[cont]] + norm_off("h0")
            L += ["setchunk h0 %s %s" % (i.hex(), d.hex()) for (i, d) in early]
            L.append(write_line("h0", cont, fn, 0, n1))
            L.append("setchunk h0 %s %s" % (b"late".hex(), late.hex()))
            L.append(write_line("h0", cont, fn, n1, n2))
            L.append("setchunk h0 %s %s" % (b"lat2".hex(), b"\x07".hex()))
            L += ["close h0", "dump s0 sum", "open h1 s0 r fmt=0 ch=0 sr=0 route=path", "chunkall h1 null", "r h1 s16 i %d" % (n1 + n2 + 2), "close h1"]
            S.append(("late-fn-%s-%s%s" % (cont, fn[0], fn[1]), "late", cont, "\n".join(L) + "\n", {"chunks": early, "late": True}))
    return S


# ---------------------------------------------------------------------------------------------------------------------
# C12: the metadata setters that `have_written` guards, after audio written through every entry point
# ---------------------------------------------------------------------------------------------------------------------

def c12_jobs(ctx):
    from . import meta as M
    from .props import c12 as P
    rng = ctx.rng
    jobs = []
    for cont in ("wav", "wavex", "rf64", "aiff", "caf"):
        fmt = M.fmt_hex(cont)
        for j, fn in enumerate(WRITES):
            n1, n2 = rng.choice([3, 5, 8]), rng.choice([1, 4])
            kinds = {"bext": [P.bext_cmd(rng, b"late history\n")], "cart": [P.cart_cmd(rng, b"late")], "cues": [M.setcues_line("h0", P.cues(rng, 2))],
                     "inst": [P.inst_cmd(rng, 1)], "chmap": [P.chmap_cmd((2,))], "str": ["setstr h0 5 %s" % b"a late comment".hex()]}
            order = sorted(kinds)
            pick = [order[(j + d) % len(order)] for d in range(3)]
            late = [x for k in pick for x in kinds[k]]
            head = ["open h0 s0 w fmt=%s ch=1 sr=8000" % fmt] + norm_off("h0") + ["setstr h0 1 %s" % b"early title".hex()]
            tail = ["close h0", "open h1 s0 r", "getmeta h1", "r h1 s16 i %d" % (n1 + n2 + 2), "close h1"]
            w1, w2 = write_line("h0", cont if cont != "wavex" else "wav", fn, 0, n1), write_line("h0", cont if cont != "wavex" else "wav", fn, n1, n2)
            with_late = head + [w1] + late + [w2] + late[:1] + tail
            without = head + [w1, w2] + tail
            jobs.append(("late12-%s-%s%s" % (cont, fn[0], fn[1]), cont, fn, pick, with_late, without))
    return jobs


def run_c12(ctx):
    jobs = c12_jobs(ctx)
    scripts = []
    for (name, cont, fn, pick, a, b) in jobs:
        scripts += [(name + "/late", "\n".join(a) + "\n"), (name + "/plain", "\n".join(b) + "\n")]
    out = ctx.batch(scripts)
    judge = abslean.Judge(ctx)
    geom = lambda fn: abslean.geom_line(1, 0, "w", bw=2, strict=True, lossless=[] if fn[0] == "raw" else ["s16"])
    # the audio is 16-bit throughout: whatever entry point wrote it, the re-opened file must deliver the pattern to sf_read_short.
    # Sf.Abs knows the stream of the type that wrote; the s16 stream is handed over as the reference of the READ handle's transcript.
    for (name, cont, fn, pick, a, b) in jobs:
        lines = out.get(name + "/late", [])
        n = sum(int(l.split()[4]) if l.startswith("w ") else int(l.split()[2]) // 2 for l in a if l.startswith(("w ", "wraw ")))
        i0 = next(i for i, l in enumerate(a) if l.startswith("open h1"))
        ref = "".join("%04x" % v for v in pattern(0, n))
        judge.add(name, abslean.geom_line(1, n, "r", bw=2), {"s16": ref}, None, abslean._alive_pairs(a, lines, i0 + 1))
        judge.add(name + "/w", geom(fn), {}, None, abslean._alive_pairs(a, lines, 0, i0 + 1))
    verdicts = judge.run()
    st = ctx.notes.setdefault("late_setters_after_every_write_entry_point", {"scripts": 0, "late_calls": 0, "late_calls_refused": 0})
    reported = 0
    found = False
    for (name, cont, fn, pick, a, b) in jobs:
        la, lb = out.get(name + "/late", []), out.get(name + "/plain", [])
        st["scripts"] += 1
        ctx.count(len(a), tag="late12:" + cont)
        prob = None
        if len(la) < len(a) or any(l.startswith(abslean.DEAD) for l in la):
            prob = (max(len(la) - 1, 0), "transcript ends early: %s" % la[-1:])
        else:
            i0 = next(i for i, l in enumerate(a) if l.startswith("open h1"))
            n = sum(int(l.split()[4]) if l.startswith("w ") else int(l.split()[2]) // 2 for l in a if l.startswith(("w ", "wraw ")))
            for k, (op, l) in enumerate(zip(a, la)):
                if op.startswith(("w ", "wraw ")) and not l.startswith("ret=%s err=0" % (op.split()[4] if op.startswith("w ") else op.split()[2])):
                    prob = (k, "write after a late metadata call answered '%s'" % l[:60])
                    break
            wrote = False
            accepted = set()
            for k, (op, l) in enumerate(zip(a, la)):
                if op.startswith(("w ", "wraw ")):
                    wrote = True
                elif wrote and op.startswith(("cmd h0 10f1", "cmd h0 1400", "cmd h0 10d1", "cmd h0 1101", "setcues")):
                    st["late_calls"] += 1
                    if l.startswith("ret=0 "):
                        st["late_calls_refused"] += 1
                    else:
                        accepted.add({"10f1": "bext", "1400": "cart", "10d1": "inst", "1101": "chmap"}.get(op.split()[2], "cues") if op.startswith("cmd") else "cues")
            if not prob and " frames=%d " % n not in la[i0]:
                prob = (i0, "%d frames were written, the re-opened file says '%s'" % (n, la[i0][:90]))
            v = verdicts[name]
            if not prob and v.first() is not None:
                k, tag, text = v.first()
                prob = (i0 + 1 + k, "audio of the re-opened file: Lean predicate Sf.Abs.check, clause `%s`: %s" % (tag, text.strip()))
            vw = verdicts[name + "/w"]
            if not prob and vw.first() is not None:
                k, tag, text = vw.first()
                prob = (k, "write handle: Lean predicate Sf.Abs.check, clause `%s`: %s" % (tag, text.strip()))
            if not prob and len(lb) == len(b):
                from . import meta as M
                ma, mb = M.parse_meta(la[i0 + 1]), M.parse_meta(lb[next(i for i, l in enumerate(b) if l.startswith("getmeta"))])
                if ma is not None and mb is not None:
                    for key in sorted(set(ma) | set(mb), key=str):
                        if key in accepted or key == 5 or (key in ("cuecount",) and "cues" in accepted):
                            continue
                        if ma.get(key) != mb.get(key):
                            prob = (i0 + 1, "metadata item %s of the re-opened file differs from the run without the late calls: %s vs %s" % (key, str(ma.get(key))[:80], str(mb.get(key))[:80]))
                            break
        if prob and reported < 4:
            reported += 1
            found = True
            ctx.violation("c12-%s" % name.replace("/", "_"),
                          "# C12 violated: a metadata item set too late (after audio written with %s) is not harmless\n# container %s, late kinds %s\n# at script line %d: %s\n# %s\n--- script\n%s"
                          % ("sf_write_raw" if fn[0] == "raw" else "sf_write%s_%s" % ("f" if fn[1] == "f" else "", {"s16": "short", "s32": "int", "f32": "float", "f64": "double"}[fn[0]]), cont, ",".join(pick), prob[0], a[prob[0]][:100] if prob[0] < len(a) else "", prob[1], "\n".join(a) + "\n"))
    return found
