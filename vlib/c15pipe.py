"""C15 on the non-seekable route: the stream ends early ("truncated pipe"), arrives in short pieces, or makes the parser skip further than
there is input.  The fault enumeration of vlib/props/c15.py goes through SF_VIRTUAL_IO only; here the descriptor is the read end of a pipe
(sf_open_fd, psf->is_pipe): no lseek, filelength = SF_COUNT_MAX, header jumps are done by reading (header_seek's pipe branch).

Per representative format (vlib/c15lib.REPS, the file the library wrote itself):
  cut      the stream stops after n bytes, n = every byte of the first 64, every chunk boundary -1/0/+1/+9 of the IFF family / CAF, a spread over the
           rest of the header and three points inside the audio data;
  bigskip  a chunk the parser skips that is larger than the header cache (120 000 bytes of an unknown chunk in front of the audio chunk; AU: the
           data offset moved 120 000 bytes out), complete and cut at the start / around the 16 KiB skip buffer / 1 byte before its end;
  pieces   the complete stream and two cuts delivered 1 (small files), 7 and 4096 bytes at a time (read () returns short counts).
Workload: open, read everything + 10 items in three calls, close, inside `ledger begin` .. `ledger end`.

Predicate (C15 on the implementation's transcript): every call returns (harness alarm, 3 s: "hang"), no sanitizer report ("memory"); a failed
open sets an error; 0 <= ret <= requested; for sample-granular encodings the items delivered are a PREFIX of what the complete stream delivers
and the calls deliver whole frames; heap / descriptor / temp-file balance.
"""
import re, struct

from . import c15lib as L, c03fuzz, formats

BIG = 120000       # psf_bump_header_allocation refuses to grow the header cache beyond 100 KiB: a jump of this size is never cached


def chunk_bounds(data):
    wk = c03fuzz.walk_chunks(data)
    return [a for (a, e) in wk[1]] + [wk[1][-1][1]] if wk and wk[1] else []


def audio_chunk_start(data):
    wk = c03fuzz.walk_chunks(data)
    if not wk:
        return None
    for (a, e) in wk[1]:
        if data[a:a + 4] in (b"data", b"SSND"):
            return a
    return None


def bigskip(data):
    """the same file with something to skip that does not fit the header cache; None when the container has no skippable unit we know of"""
    a = audio_chunk_start(data)
    filler = bytes((k * 37 + 11) & 0xFF for k in range(BIG))
    if a is not None:
        if data[:4] == b"caff":
            return data[:a] + b"free" + struct.pack(">q", BIG) + filler + data[a:], a, a + 12 + BIG
        be = data[:4] in (b"FORM", b"RIFX")
        return data[:a] + (b"JUNK" if not be else b"junk") + struct.pack(">I" if be else "<I", BIG) + filler + data[a:], a, a + 8 + BIG
    if data[:4] == b".snd":
        off = struct.unpack(">I", data[4:8])[0]
        return data[:4] + struct.pack(">I", off + BIG) + data[8:off] + filler + data[off:], off, off + BIG
    if data[:4] == b"dns.":
        off = struct.unpack("<I", data[4:8])[0]
        return data[:4] + struct.pack("<I", off + BIG) + data[8:off] + filler + data[off:], off, off + BIG
    return None


def cut_points(data, dataoffset):
    n = len(data)
    pts = set(range(0, min(n, 64)))
    for b in chunk_bounds(data):
        for d in (-1, 0, 1, 9):
            if 0 <= b + d < n:
                pts.add(b + d)
    hl = dataoffset if 0 < dataoffset < n else min(n, 512)
    step = max(1, hl // 24)
    pts |= set(range(64, hl, step))
    for d in (0, 1, 3, (n - hl) // 2, n - hl - 1):
        if 0 <= hl + d < n:
            pts.add(hl + d)
    return sorted(pts)


def script(rep, blob, route):
    ch, F = rep.ch, rep.frames
    n1 = max(2, (F // 3) & ~1)
    lines = ["ledger begin", "store s0 %s" % blob.hex(), "open h0 s0 r %s route=%s" % (rep.open_args("r"), route),
             "r h0 s16 i %d" % (n1 * ch), "r h0 s32 f %d" % n1, "r h0 s16 i %d" % ((F - 2 * n1) * ch + 10), "close h0", "ledger end"]
    return "\n".join(lines) + "\n"


def items_of(lines):
    """(items delivered as 16-bit values in order, list of (req, ret, frame-call?)) of the three read calls; s32 items are taken by their high half"""
    out, calls = [], []
    for l in lines:
        m = re.match(r"ret=(-?\d+) err=(-?\d+) data=([0-9a-f]*)", l)
        if not m:
            continue
        calls.append((int(m.group(1)), l))
    return calls


class Job:
    def __init__(self, name, rep, blob, route, kind, cut, full_name):
        self.name, self.rep, self.blob, self.route, self.kind, self.cut, self.full_name = name, rep, blob, route, kind, cut, full_name


def jobs_for(ctx, reps, quick):
    jobs = []
    for ri, r in enumerate(reps):
        data = bytes.fromhex(r.filehex)
        doff = r.dataoffset.get("r", 0)
        full = "%s|full" % r.name
        jobs.append(Job(full, r, data, "pipe", "full", len(data), full))
        pts = cut_points(data, doff)
        svx = data[:4] == b"FORM" and data[8:12] in (b"8SVX", b"16SV")
        if quick and len(pts) > 70:
            pts = pts[:40] + pts[40 + (ctx.seed + ri) % 3::3]
        if svx:
            pts = pts[::12] + pts[-3:]       # KF-C03-pipe-chunk-loop: every cut inside an SVX header spins until the alarm; a handful shows it still does
        for n in pts:
            jobs.append(Job("%s|cut%d" % (r.name, n), r, data[:n], "pipe", "cut", n, full))
        small = len(data) <= 400
        for piece in ((1, 7, 4096) if small else (7, 4096)):
            jobs.append(Job("%s|pieces%d" % (r.name, piece), r, data, "pipe:%d" % piece, "pieces", len(data), full))
            for n in (pts[len(pts) // 2], pts[-2] if len(pts) > 1 else pts[-1]):
                jobs.append(Job("%s|pieces%d-cut%d" % (r.name, piece, n), r, data[:n], "pipe:%d" % piece, "pieces", n, full))
        bs = bigskip(data)
        if bs is not None:
            blob, a, e = bs
            bfull = "%s|bigskip-full" % r.name
            jobs.append(Job(bfull, r, blob, "pipe", "bigskip", len(blob), bfull))
            for n in sorted(set([a, a + 1, a + 8, a + 12, a + 13, a + 100, a + 16383, a + 16384, a + 16385, a + 16400, a + 32768 + 7, a + 65536, e - 16385, e - 1, e, e + 1, e + 9])):
                if 0 <= n < len(blob):
                    jobs.append(Job("%s|bigskip-cut%d" % (r.name, n), r, blob[:n], "pipe", "bigskip", n, bfull))
            jobs.append(Job("%s|bigskip-pieces4096" % r.name, r, blob, "pipe:4096", "bigskip", len(blob), bfull))
    return jobs


def in_known_loop_class(job, lines):
    """KF-C03-pipe-chunk-loop, narrowed to what this campaign can produce of it: an 8SVX/16SV stream that ends inside the header, TIMEOUT at the open"""
    d = job.blob
    if not (len(d) >= 12 and d[:4] == b"FORM" and d[8:12] in (b"8SVX", b"16SV")):
        return False
    if job.kind == "full":
        return False
    return any(l.startswith("TIMEOUT") for l in lines) and not any(l.startswith("open=") for l in lines)


def judge(job, lines, full_lines):
    probs = []
    for l in lines:
        if l.startswith("TIMEOUT"):
            op = "open" if not any(x.startswith("open=") for x in lines) else "read/close"
            return [("hang", "the %s call on a pipe that delivers %d of %d bytes did not return (%s)" % (op, job.cut, len(job.blob), l.strip()))]
        if l.startswith(("CRASH", "ABORT")):
            return [("memory", l.strip())]
    op = next((l for l in lines if l.startswith("open=")), None)
    if op is None:
        return [("transcript", "no answer to the open")]
    if op.startswith("open=NULL"):
        if re.search(r"err=0\b", op):
            probs.append(("open", "sf_open_fd returned NULL with error 0"))
    reads = [l for l in lines if l.startswith("ret=") and "data=" in l]
    want = None
    if full_lines is not None:
        want = [l for l in full_lines if l.startswith("ret=") and "data=" in l]
    reqs = None
    if op.startswith("open=ok"):
        ch = int(re.search(r"ch=(\d+)", op).group(1)) or 1
        for k, l in enumerate(reads):
            ret = int(re.match(r"ret=(-?\d+)", l).group(1))
            if ret < 0:
                probs.append(("range", "read call %d returned %d" % (k, ret)))
        # prefix: what a shortened stream delivers is the beginning of what the whole stream delivers (sample-granular encodings)
        if want is not None and (job.rep.word & 0xFFFF) in formats.SAMPLE_GRANULAR and getattr(job.rep, "blockwidth", 0) > 0 and len(reads) == len(want) == 3:
            def flat(rs):
                out = []
                widths = (4, 8, 4)
                framecall = (False, True, False)
                for (l, w, fc) in zip(rs, widths, framecall):
                    ret = max(0, int(re.match(r"ret=(-?\d+)", l).group(1)))
                    items = ret * (ch if fc else 1)
                    d = l.split("data=")[1].strip()
                    vals = [d[i * w:i * w + 4] for i in range(items)]      # s32 items: the high half is the 16-bit sample
                    out += vals
                return out
            a, b = flat(reads), flat(want)
            if a != b[:len(a)]:
                k = next(i for i in range(len(a)) if i >= len(b) or a[i] != b[i])
                probs.append(("data", "item %d delivered from the shortened stream is %s, the complete stream delivers %s there" % (k, a[k], b[k] if k < len(b) else "nothing")))
            if len(a) % ch != 0:
                probs.append(("partial-frame", "%d items delivered in total with %d channels" % (len(a), ch)))
    # the complete stream in short pieces is the complete stream: same answers as when it arrives in one piece
    if job.kind in ("pieces", "bigskip") and job.route != "pipe" and "-cut" not in job.name and full_lines is not None:
        a = [l.strip() for l in lines if l.startswith(("open=", "ret="))]
        b = [l.strip() for l in full_lines if l.startswith(("open=", "ret="))]
        if a != b:
            k = next((i for i in range(min(len(a), len(b))) if a[i] != b[i]), min(len(a), len(b)))
            probs.append(("pieces", "the complete stream delivered %s bytes at a time answers `%s`, delivered at once `%s`"
                          % (job.route.split(":")[1], a[k][:100] if k < len(a) else "(nothing)", b[k][:100] if k < len(b) else "(nothing)")))
    end = next((l for l in lines if l.startswith("balance=")), None)
    if end is None:
        probs.append(("transcript", "no `ledger end` line"))
    else:
        d = L.kvs(end)
        if d.get("blocks") != "0" or not d.get("fds", "1").startswith("0") or not d.get("tmp", "1").startswith("0"):
            probs.append(("leak", "after the scenario the library still holds resources: " + end.strip()))
    return probs


def run(ctx, reps, known):
    """reps: prepared c15lib.Rep list (filehex, dataoffset filled).  Returns found_input"""
    quick = ctx.tier == "quick"
    jobs = jobs_for(ctx, reps, quick)
    env = {"ASAN_OPTIONS": "exitcode=77:detect_leaks=1:allocator_may_return_null=1:abort_on_error=0:leak_check_at_exit=0"}
    import time
    t0 = time.time()
    out = ctx.batch([(j.name, script(j.rep, j.blob, j.route)) for j in jobs], clean=True, op_timeout=3, env=env, retry_timeouts=False)
    stats = {"jobs": len(jobs), "by_kind": {}, "open_ok": 0, "open_null": 0, "hang": 0, "known_loop": 0}
    viol = []
    kf = known.get("KF-C03-pipe-chunk-loop")
    for j in jobs:
        lines = out.get(j.name, [])
        stats["by_kind"][j.kind] = stats["by_kind"].get(j.kind, 0) + 1
        ctx.count(len(lines), "pipe:%s:%s" % (j.rep.name, j.kind))
        if any(l.startswith("open=ok") for l in lines):
            stats["open_ok"] += 1
        elif any(l.startswith("open=NULL") for l in lines):
            stats["open_null"] += 1
        probs = judge(j, lines, out.get(j.full_name) if j.name != j.full_name else None)
        for (cat, text) in probs:
            if cat == "hang":
                stats["hang"] += 1
            if cat == "hang" and kf is not None and in_known_loop_class(j, lines):
                stats["known_loop"] += 1
                ctx.known_finding(kf)
                continue
            if cat == "partial-frame" and "KF-C15-PARTIAL-FRAME" in known and j.rep.ch >= 2:
                ctx.known_finding(known["KF-C15-PARTIAL-FRAME"])
                continue
            viol.append((j, cat, text, lines))
    stats["wall_s"] = round(time.time() - t0, 1)
    ctx.notes["pipe_route"] = stats
    if jobs:
        j0 = jobs[len(jobs) // 2]
        ctx.sample({"kind": "truncated / short-piece pipe stream", "job": j0.name, "route": j0.route, "bytes_delivered": j0.cut, "transcript": out.get(j0.name, [])[:8]})
    seen = set()
    for (j, cat, text, lines) in viol:
        key = (j.rep.name, cat)
        if key in seen or len(seen) >= 5:
            continue
        seen.add(key)
        ctx.violation("c15-pipe-%s-%s" % (j.name.replace("|", "-"), cat),
                      "# C15 violated on the implementation's own transcript (non-seekable route): %s\n# format %s (%08x, %d ch), %s, the pipe delivers %d bytes (route=%s)\n"
                      "%s\nc15-category %s\n--- script\n%s"
                      % (text, j.rep.name, j.rep.word, j.rep.ch, j.kind, j.cut, j.route, "\n".join("# observed: " + l.strip()[:160] for l in lines if l.startswith(("open=", "ret="))), "hang" if cat == "hang" else "memory" if cat == "memory" else "pipe-" + cat,
                         script(j.rep, j.blob, j.route)))
    return bool(viol)
