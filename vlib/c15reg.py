"""C15: witnesses of repaired findings as regression scripts, run in forked ASan children with a per-operation alarm.

ctx.run_regressions() runs a witness with `sfh script` (no alarm): a repaired HANG that comes back would stall the check
instead of failing it.  Here every `fixed` entry that lists C15 (plus the second witnesses named below) runs through
`sfh batch`; the regression fails when the transcript shows TIMEOUT / CRASH / ABORT or the last transcript line does not
contain the `expect-last` text of the witness file."""
import os
from .core import VERIF

EXTRA = {"KF-C15-SCAN-HANG": ["findings/c15_scan_hang_svx.txt", "findings/c15_scan_hang_caf_at17.txt", "findings/c15_scan_hang_svx_at10.txt"],
         "KF-C15-HEADER-POSITION": ["findings/c15_header_position_paf.txt"],
         "KF-C15-PARTIAL-FRAME": ["findings/c15_partial_frame_write.txt"],
         "KF-C03-pipe-chunk-loop": ["findings/C03-wav-pipe-backjump.txt", "findings/C03-aiff-pipe-backjump.txt", "findings/C03-rf64-pipe-backjump.txt"]}


def run(ctx, op_timeout=3):
    jobs = []
    for kf in ctx.known:
        if kf.get("status") != "fixed" or not kf.get("witness"):
            continue
        for w in [kf["witness"]] + EXTRA.get(kf["id"], []):
            path = w if os.path.isabs(w) else os.path.join(VERIF, w)
            if not os.path.exists(path):
                continue
            text = open(path).read()
            if "--- script" not in text or "expect-last " not in text:
                continue
            head, script = text.split("--- script", 1)
            jobs.append(("reg:%s:%s" % (kf["id"], os.path.basename(w)), kf, head, script.lstrip("\n"), text))
    if not jobs:
        return 0
    out = ctx.batch([(j[0], j[3]) for j in jobs], clean=True, op_timeout=op_timeout, retry_timeouts=False)
    bad = 0
    for (name, kf, head, script, text) in jobs:
        lines = [l for l in out.get(name, []) if l]
        ctx.count(1, "regression:" + kf["id"])
        why = None
        if not lines:
            why = "no transcript"
        elif any(l.startswith(("TIMEOUT", "CRASH", "ABORT")) for l in lines):
            why = next(l for l in lines if l.startswith(("TIMEOUT", "CRASH", "ABORT")))
        else:
            for l in head.split("\n"):
                if l.startswith("expect-last ") and l[len("expect-last "):].strip() not in lines[-1]:
                    why = "last transcript line %r does not contain %r" % (lines[-1][:120], l[len("expect-last "):].strip())
        if why:
            bad += 1
            ctx.violation("regression-" + name.split(":", 1)[1].replace(":", "-").replace(".txt", ""),
                          "# the defect repaired by %s is back: %s\n# now: %s\n%s%s" % (kf.get("commit"), kf.get("text"), why,
                                                                                              "c15-category hang\n" if why.startswith(("TIMEOUT", "CRASH", "ABORT", "no transcript")) else "", text))
    ctx.notes["regression_scripts_run"] = len(jobs)
    ctx.notes["regression_scripts_failed"] = bad
    return bad
