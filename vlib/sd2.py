"""SD2 (src/sd2.c): the resource fork, byte for byte (model lean/SfModel/Sd2.lean, driver `sfmodel sd2`, theorems
lean/SfProps/C04Sd2.lean).  Path route only: the fork is the side file `._<name>` next to the data file.

  A. writer   for every sample size x channels x rate (plus seeded ones) and three file-name shapes (even / odd length, a name
              long enough to run into the fields at 0x50) the library writes an SD2 file; the side file must equal
              `sfmodel sd2 rsrc` byte for byte, the data file must be the big-endian PCM of the samples, and re-opening must report
              the requested parameters and the frames written (C04 on the library's own transcript; model: `sfmodel sd2 open`).
              A second pass writes the same files after other work in the same process (header allocations of other handles):
              the fork must not depend on what the heap held (sd2_rsrc_deterministic).
  B. parser   the library's forks and forks made by this module's own builder (`build`), damaged: every truncation point, byte flips of
              every structural field (header longs, map header, type list, reference list, the data region), every offset / length field set to
              {0, len-1, len, len+1, 2^31-1, 2^32-1, ...}, consistent but hostile layouts (negative data offset, sums that wrap, the 0x52
              MacBinary variant), hostile values (Photoshop, swapped rate / size, overlong / signed / empty numbers, non-printable bytes,
              length bytes beyond the buffer).  Each is opened under ASan (the fork is read into an exact-size calloc block when it is longer
              than 256 bytes) and the outcome -- SF_INFO or the SFE_SD2_* code -- must equal `sfmodel sd2 parse` / `open`; the model's
              own list of byte reads must lie inside the fork (`inb=1`).
"""
import collections, os, shutil, struct, tempfile

MSG_TAG = {
    "Error : bad data offset.": "bad-data-offset", "Error : bad map offset.": "bad-map-offset",
    "Error : bad data length.": "bad-data-length", "Error : bad map length.": "bad-map-length",
    "Error : bad resource fork.": "bad-rsrc", "Error : bad sample size.": "bad-sample-size",
}
GROUP = 24          # damaged forks per harness script


def kv(line):
    return dict(t.split("=", 1) for t in line.split() if "=" in t)


def be32(v):
    return struct.pack(">I", v & 0xFFFFFFFF)


def be16(v):
    return struct.pack(">H", v & 0xFFFF)


def pstr(text):
    return bytes([len(text) & 0xFF]) + text


def build(items, data_offset=0x100, names=None, pad_items=1, fill=0, tail_items=(), tail_pad=0):
    """an independent resource-fork builder: items = [(id, value bytes)], one type 'STR ' holding them all;
    tail_items = [(id, value bytes)]: resources whose length + bytes sit at the very END of the fork (inside the name area, `tail_pad` bytes
    before the end) -- the reference list may point anywhere"""
    data = b""
    offs = []
    for _, v in items:
        offs.append(len(data))
        data += be32(len(v)) + v
    n = len(items) + len(tail_items)
    map_off = data_offset + len(data)
    str_off = 30 + 8 + (n + pad_items) * 12
    strings = b"".join(pstr(b"name%d" % k) for k in range(n)) if names is None else names
    tail_pos = []
    for _, v in tail_items:
        tail_pos.append(map_off + str_off + len(strings) - data_offset)
        strings += be32(len(v)) + v
    strings += bytes(tail_pad)
    m = bytes([fill]) * 16 + bytes([fill]) * 8 + be16(28) + be16(str_off) + be16(0)
    m += b"STR " + be16(n - 1) + be16(10)
    for k, (rid, _) in enumerate(items):
        m += be16(rid) + be16(0) + be32(offs[k]) + bytes(4)
    for k, (rid, _) in enumerate(tail_items):
        m += be16(rid) + be16(0) + be32(tail_pos[k]) + bytes(4)
    m += bytes(12 * pad_items) + strings
    head = be32(data_offset) + be32(map_off) + be32(len(data)) + be32(len(m))
    head += bytes([0xEA]) * (data_offset - 16)
    return head + data + m


def std_items(size=b"2", rate=b"44100.000000", ch=b"2"):
    return [(1000, pstr(size)), (1001, pstr(rate)), (1002, pstr(ch))]


class Errs:
    def __init__(self, ctx, env):
        p = ctx.run_sfh(["script"], "".join("errnum %d\n" % k for k in range(0, 260)), env=env)
        self.tag = {}
        for k, line in enumerate(p.stdout.split("\n")):
            if line.startswith("msg=") and line != "msg=null":
                try:
                    msg = bytes.fromhex(line[4:]).decode("latin-1")
                except ValueError:
                    continue
                if msg in MSG_TAG:
                    self.tag[k] = MSG_TAG[msg]


def items_hex(n):
    return "".join("%04x" % (0x1100 + (k & 0xFF)) for k in range(n))


def expected_data(size, n_items):
    """big-endian PCM bytes of the shorts 0x1100 + k written through sf_write_short"""
    out = bytearray()
    for k in range(n_items):
        v = 0x1100 + (k & 0xFF)
        out += {1: bytes([v >> 8]), 2: struct.pack(">H", v), 3: struct.pack(">H", v) + b"\0", 4: struct.pack(">H", v) + b"\0\0"}[size]
    return bytes(out)


def write_script(size, ch, sr, frames, ext, pre=()):
    L = list(pre)
    L.append("open h0 s0 w fmt=%08x ch=%d sr=%d route=path ext=%s" % (0x160000 + size, ch, sr, ext))
    if frames:
        L.append("w h0 s16 i %d %s" % (frames * ch, items_hex(frames * ch)))
    L += ["close h0", "ledger rsrc s0 %s load:s1" % ext, "dump s1", "dump s0",
          "open h1 s0 r route=path ext=%s" % ext, "r h1 s16 i %d" % (frames * ch + ch), "close h1"]
    return "\n".join(L) + "\n"


# other work in the same process before the SD2 file is written: handles whose headers grow (strings) and shrink again
HISTORY = ("open h5 s5 w fmt=00020002 ch=2 sr=44100", "setstr h5 1 %s" % ("5a" * 700), "setstr h5 5 %s" % ("c3" * 900),
           "w h5 s16 i 4 0001000200030004", "close h5",
           "open h6 s6 w fmt=00180002 ch=1 sr=8000", "setstr h6 2 %s" % ("77" * 1500), "w h6 s16 i 2 00010002", "close h6")


def writer_jobs(ctx, quick):
    rng = ctx.rng
    chans = [1, 2, 3, 8, 255, 1024]
    rates = [1, 8000, 44100, 65536, 0x7FFFFFFF]
    exts = ["sd2", "sd22", "sd2" + "x" * 33]
    jobs = []
    for size in (1, 2, 3, 4):
        for ch in chans:
            for sr in rates:
                jobs.append((size, ch, sr, exts[(size + ch + sr) % 3]))
    for _ in range(12 if quick else 300):
        jobs.append((rng.choice((1, 2, 3, 4)), rng.randrange(1, 1025), rng.choice((rng.randrange(1, 100), rng.randrange(1, 1 << 31), 10 ** rng.randrange(0, 10))),
                     "sd2" + "y" * rng.randrange(0, 60)))
    for ext in exts + ["s" * 100, "t" * 190]:
        jobs.append((2, 2, 44100, ext))
    # fewer than 12 bytes of audio (guess_file_type's probe read comes back short; KF-C04-SD2-SHORT-DATA, repaired), N = 0 included
    for size, ch, fr in ((1, 1, 0), (1, 1, 1), (1, 1, 11), (2, 1, 5), (2, 2, 0), (2, 2, 1), (2, 2, 2), (3, 1, 3), (3, 3, 1), (4, 1, 2), (4, 2, 1), (1, 11, 1), (2, 5, 1),
                         (rng.choice((1, 2, 3, 4)), 1, rng.randrange(0, 3))):
        jobs.append((size, ch, 8000, "sd2", fr))
    return jobs


def frames_for(size, ch):
    return max(1, -(-12 // (size * ch))) + 2


def writer_campaign(ctx, env, stats, pred, corr):
    quick = ctx.tier == "quick"
    jobs = writer_jobs(ctx, quick)
    scripts, meta = [], {}
    for i, job in enumerate(jobs):
        size, ch, sr, ext = job[:4]
        fr = job[4] if len(job) > 4 else frames_for(size, ch)
        for hist in ((False, True) if (i % 5 == 0 or not quick) else (False,)):
            n = "sd2w-%d-s%d-c%d-r%d%s" % (i, size, ch, sr, "-hist" if hist else "")
            scripts.append((n, write_script(size, ch, sr, fr, ext, HISTORY if hist else ())))
            meta[n] = (size, ch, sr, ext, fr, hist)
    impl = ctx.batch(scripts, workers=3, env=env, clean=True)
    reqs, exp = [], []
    for n, sc in scripts:
        size, ch, sr, ext, fr, hist = meta[n]
        lines = impl.get(n, [])
        stats["writer_sessions"] += 1
        ctx.distinct.add("sd2:w:size%d:ch%s:digits%d:name%s" % (size, "1" if ch == 1 else "2" if ch == 2 else "n", len(str(sr)), "odd" if (len(ext) + 3) % 2 else "even"))
        skip = sum(1 for h in HISTORY if h.startswith("open ")) if hist else 0          # the history's own opens come first
        dumps = [l for l in lines if l.startswith("len=") and "hex=" in l]
        opens = [l for l in lines if l.startswith("open=")][skip:]
        reads = [l for l in lines if l.startswith("ret=") and "data=" in l]
        if any(l.startswith(("CRASH", "ABORT", "TIMEOUT")) for l in lines) or len(dumps) != 2 or len(opens) != 2 or len(reads) != 1:
            pred.append((n, sc, "the implementation died or the transcript is incomplete: %s" % (lines[-2:] or "")))
            continue
        fork, data = (bytes.fromhex(kv(d).get("hex", "")) for d in dumps)
        name = ("s0." + ext).encode()
        reqs.append("rsrc size=%d sr=%d ch=%d name=%s" % (size, sr, ch, name.hex()))
        exp.append((n, sc, "fork", fork.hex()))
        reqs.append("file data=%s fork=%s" % (data.hex() or "-", fork.hex() or "-"))
        exp.append((n, sc, "reopen", opens[1]))
        # ---- C04 / C14 on the library's own transcript ----
        want = expected_data(size, fr * ch)
        if data != want:
            pred.append((n, sc, "[C04] the data file is not the big-endian PCM of the %d items written (%d bytes, expected %d)" % (fr * ch, len(data), len(want))))
        o = kv(opens[1])
        if not opens[1].startswith("open=ok"):
            pred.append((n, sc, "[C04] the closed file does not re-open: " + opens[1]))
        elif (int(o["ch"]), int(o["sr"]), int(o["frames"]), int(o["fmt"], 16)) != (ch, sr, fr, 0x160000 + size):
            pred.append((n, sc, "[C04] written ch=%d sr=%d frames=%d fmt=%08x, re-open reports %s" % (ch, sr, fr, 0x160000 + size, opens[1])))
        elif not reads[0].startswith("ret=%d " % (fr * ch)):
            pred.append((n, sc, "[C04] reading to the end delivers %s, %d items were written" % (reads[0][:40], fr * ch)))
    model = ctx.run_model(["sd2"], "".join(r + "\n" for r in reqs)).split("\n")
    for (n, sc, what, got), m in zip(exp, model):
        stats["writer_model_answers"] += 1
        if what == "fork":
            if got != m.strip():
                a, b = bytes.fromhex(got), bytes.fromhex(m.strip()) if m.strip() not in ("unmodelled", "") else b""
                k = next((i for i in range(min(len(a), len(b))) if a[i] != b[i]), min(len(a), len(b)))
                corr.append((n, sc, "resource fork: implementation %d bytes, model %d bytes, first difference at offset 0x%x (implementation %s, model %s)" % (
                    len(a), len(b), k, a[k:k + 8].hex(), b[k:k + 8].hex())))
        else:
            want = "ok ch=%(ch)s sr=%(sr)s frames=%(frames)s fmt=%(fmt)s" % kv(got) if got.startswith("open=ok") else "err"
            if want != m.strip():
                corr.append((n, sc, "re-open: implementation %s, model %s" % (got, m.strip())))


# ---- damaged forks ----

def patch(b, off, new):
    return b[:off] + new + b[off + len(new):]


def damaged(ctx, base, tag, quick):
    """(name, fork bytes) -- structural damage of one well-formed fork"""
    rng = ctx.rng
    L = len(base)
    d_off, m_off, d_len, m_len = struct.unpack(">IIII", base[:16])
    out = []
    step = 1 if (not quick or tag == "lib0") else 7
    for n in list(range(0, L, step)) + [L - 1]:
        out.append(("%s-trunc-%d" % (tag, n), base[:n]))
    struct_offs = list(range(0, 16)) + list(range(d_off, min(L, m_off + 30 + 16 + 72)))
    for off in struct_offs:
        for x in ((0xFF, 0x01) if (not quick or tag == "lib0") else (0xFF,)):
            out.append(("%s-flip-%d-%02x" % (tag, off, x), patch(base, off, bytes([base[off] ^ x]))))
    for off in rng.sample(range(L), min(L, 40 if quick else 200)):
        out.append(("%s-flip-%d-80" % (tag, off), patch(base, off, bytes([base[off] ^ 0x80]))))
    vals32 = [0, 1, L - 1, L, L + 1, 0x7FFFFFFF, 0x80000000, 0xFFFFFFFF, 0xFFFFFFFF - 3, m_off, d_off]
    type_count = struct.unpack(">H", base[m_off + 28:m_off + 30])[0] + 1
    item_off = m_off + 30 + 8 * type_count
    fields32 = [0, 4, 8, 12] + [item_off + 12 * k + 4 for k in range(5)]
    for k in range(4):
        rel = struct.unpack(">I", base[item_off + 12 * k + 4:item_off + 12 * k + 8])[0]
        if d_off + rel + 4 <= L:
            fields32.append(d_off + rel)
    for f in fields32:
        for v in vals32:
            out.append(("%s-set32-%d-%x" % (tag, f, v), patch(base, f, be32(v))))
    for f in (m_off + 26, m_off + 28, item_off, item_off + 12, m_off + 34):
        for v in (0, 1, 2, 105, 106, 107, L - m_off - 1, L - m_off, L - m_off + 1, 0x7FFF, 0x8000, 0xFFFF, 1000, 1001, 1002):
            out.append(("%s-set16-%d-%x" % (tag, f, v), patch(base, f, be16(v))))
    # consistent but hostile layouts: data_offset + data_length == map_offset holds (also through a wrapping sum)
    for k in (1, 16, 0x100, L, 0x7FFFFFFF, 0x80000000):
        out.append(("%s-negdoff-%x" % (tag, k), patch(base, 0, be32(-k) + be32(m_off) + be32(m_off + k))))
    out.append(("%s-wrapsum" % tag, patch(base, 0, be32(0x80000000) + be32(m_off) + be32(0x80000000 + m_off))))
    out.append(("%s-wrapmap" % tag, patch(base, 4, be32(m_off) + be32(d_len) + be32(m_len))))
    # the 0x52 variant: a wrapper whose first longs are 0x51607 / 0x20000 and the real header 0x52 bytes further on
    for fillv in (0, 0xEA):
        wrap = be32(0x51607) + be32(0x20000) + bytes([fillv]) * (0x52 - 8)
        out.append(("%s-macbin-%02x" % (tag, fillv), wrap + base))
        out.append(("%s-macbin-%02x-short" % (tag, fillv), (wrap + base)[:0x52 + 10]))
        for v in (0x7FFFFFFF, 0xFFFFFFAE, 0x7FFFFFAD, 0xFFFFFFFF):
            out.append(("%s-macbin-%02x-%x" % (tag, fillv, v), wrap + patch(base, 0, be32(v))))
            out.append(("%s-macbin-m-%02x-%x" % (tag, fillv, v), wrap + patch(base, 4, be32(v))))
    return out


def value_forks(ctx, quick):
    """forks from this module's own builder with hostile values"""
    rng = ctx.rng
    out = []

    def add(name, items, **kw):
        out.append(("val-" + name, build(items, **kw)))
    add("plain", std_items())
    add("plain-fill-ea", std_items(), fill=0xEA)
    add("no-pad-item", std_items(), pad_items=0)
    add("photoshop-first", [(1000, pstr(b"Adobe Photoshop"))] + std_items())
    add("photoshop-last", std_items() + [(1003, pstr(b"xPhotoshopx"))])
    add("photoshop-mid", std_items()[:2] + [(1005, pstr(b"Photoshop"))] + std_items()[2:])
    add("swapped", std_items(size=b"44100", rate=b"2"))
    add("swapped-not", std_items(size=b"5", rate=b"5"))
    add("swap-edge", std_items(size=b"5", rate=b"4"))
    add("dup-ids", [(1000, pstr(b"2")), (1000, pstr(b"4")), (1001, pstr(b"8000")), (1001, pstr(b"9000")), (1002, pstr(b"1")), (1002, pstr(b"7"))])
    add("zero-then-value", [(1000, pstr(b"0")), (1000, pstr(b"3")), (1001, pstr(b"0")), (1001, pstr(b"11025")), (1002, pstr(b"0")), (1002, pstr(b"2"))])
    for k, txt in enumerate((b" 12", b"+7", b"-3", b"\t2", b"99999999999999999999", b"-99999999999999999999", b"4294967297", b"2147483648", b"4294967295", b"9223372036854775807",
                             b"9223372036854775808", b"12abc", b"", b"abc", b"0x10", b"1e3", b"2.5", b"--2", b"+-2", b" +2", b"00002", b"2 2")):
        add("size-%d" % k, std_items(size=txt))
        add("rate-%d" % k, std_items(rate=txt))
        add("ch-%d" % k, std_items(ch=txt))
    for k, txt in enumerate((b"2\x01", b"\x7f2", b"2\x80", b"4\x004", b"\x1f8")):
        add("np-size-%d" % k, std_items(size=txt))
        add("np-rate-%d" % k, std_items(rate=txt + b"8000"))
    for lb in (0, 1, 2, 30, 31, 32, 33, 127, 128, 255):      # the length byte against the 32-byte buffer and the text really there
        for txt in (b"2", b"2" * 31, b"2" * 40):
            add("lenbyte-%d-%d" % (lb, len(txt)), [(1000, bytes([lb]) + txt), (1001, pstr(b"8000")), (1002, pstr(b"2"))])
            add("lenbyte-last-%d-%d" % (lb, len(txt)), [(1000, pstr(b"2")), (1001, pstr(b"8000")), (1002, bytes([lb]) + txt)], pad_items=0, names=b"")
    # a value whose bytes end 0 / 1 / 2 / 3 bytes before the end of the fork (the guards of read_rsrc_char / _int / _str at the last bytes)
    for pad in (0, 1, 2, 3, 4):
        for txt in (b"2", b"16", b"1024"):
            add("tail-%d-%s" % (pad, txt.decode()), [(1000, pstr(b"2")), (1001, pstr(b"8000"))], tail_items=[(1002, pstr(txt))], tail_pad=pad, pad_items=0)
            add("tail-size-%d-%s" % (pad, txt.decode()), [(1002, pstr(b"2")), (1001, pstr(b"8000"))], tail_items=[(1000, pstr(txt[:1]))], tail_pad=pad)
        add("tail-lenonly-%d" % pad, [(1000, pstr(b"2")), (1001, pstr(b"8000"))], tail_items=[(1002, b"")], tail_pad=pad, pad_items=0)
    for n_items in (1, 2, 4, 20, 200 if quick else 3000):
        add("many-%d" % n_items, [(2000 + k, pstr(b"%d" % k)) for k in range(n_items)] + std_items())
    add("ch-1024", std_items(ch=b"1024"))
    add("ch-1025", std_items(ch=b"1025"))
    add("ch-0", std_items(ch=b"0"))
    add("rate-0", std_items(rate=b"0"))
    add("size-0", std_items(size=b"0"))
    add("size-5", std_items(size=b"5"))
    add("names-long", std_items(), names=bytes([255]) + b"n" * 255 + bytes([255]) + b"m" * 100)
    add("names-np", std_items(), names=bytes([8]) + b"ab\x01cdefg" + bytes([3]) + b"xyz")
    for _ in range(10 if quick else 200):
        its = []
        for rid in rng.sample([1000, 1001, 1002, 1000, 1001, 7, 0], rng.randrange(1, 6)):
            txt = bytes(rng.choice(b"0123456789 +-.\x00\x7fa") for _ in range(rng.randrange(0, 36)))
            its.append((rid, bytes([rng.choice((len(txt), rng.randrange(256)))]) + txt))
        out.append(("val-rand-%d" % len(out), build(its, pad_items=rng.randrange(0, 3), fill=rng.choice((0, 0xEA, 0xFF)))))
    return out


def parser_script(forks):
    L = ["open h0 s0 w fmt=00160002 ch=2 sr=44100 route=path ext=sd2", "w h0 s16 i 8 %s" % items_hex(8), "close h0"]
    for _, f in forks:
        L.append("ledger rsrc s0 sd2 %s" % (f.hex() if f else "trunc:0"))
        L += ["open h1 s0 r route=path ext=sd2", "close h1"]
    return "\n".join(L) + "\n"


def single_replay(name, f):
    return parser_script([(name, f)])


def parser_campaign(ctx, env, stats, pred, corr, errs, lib_forks):
    quick = ctx.tier == "quick"
    cases = []
    for tag, base in lib_forks:
        cases += damaged(ctx, base, tag, quick)
    vf = value_forks(ctx, quick)
    cases += vf
    for name, f in vf[:3]:
        cases += damaged(ctx, f, name, True)
    groups = [cases[i:i + GROUP] for i in range(0, len(cases), GROUP)]
    scripts = [("sd2p-%d" % g, parser_script(grp)) for g, grp in enumerate(groups)]
    impl = ctx.batch(scripts, workers=3, env=env, clean=True)
    reqs, exp = [], []
    for (n, sc), grp in zip(scripts, groups):
        lines = impl.get(n, [])
        opens = [l for l in lines if l.startswith("open=")][1:]
        dead = [l for l in lines if l.startswith(("CRASH", "ABORT", "TIMEOUT"))]
        for k, (name, f) in enumerate(grp):
            stats["parser_cases"] += 1
            ctx.distinct.add("sd2:p:" + name.split("-")[1] if name.count("-") else name)
            if k >= len(opens):
                if k == len(opens) and dead:
                    pred.append((name, single_replay(name, f), "[C03] the library died opening this resource fork: %s" % dead[0]))
                continue
            reqs.append("parse %s" % (f.hex() or "-"))
            exp.append((name, f, "parse", opens[k]))
            reqs.append("open dlen=16 fork=%s" % (f.hex() or "-"))
            exp.append((name, f, "open", opens[k]))
            o = kv(opens[k])
            if opens[k].startswith("open=ok"):
                # C03 on the library's own transcript: sane SF_INFO
                if not (1 <= int(o["ch"]) <= 1024 and int(o["sr"]) >= 1 and int(o["frames"]) >= 0 and int(o["sections"]) >= 1):
                    pred.append((name, single_replay(name, f), "[C03] insane SF_INFO from a damaged resource fork: %s" % opens[k]))
            elif int(o.get("err", "0")) == 0 or int(o.get("msglen", "0")) == 0:
                pred.append((name, single_replay(name, f), "[C03] sf_open returned NULL without an error number / message: %s" % opens[k]))
    model = ctx.run_model(["sd2"], "".join(r + "\n" for r in reqs)).split("\n")
    accepted = 0
    for (name, f, what, got), m in zip(exp, model):
        stats["parser_model_answers"] += 1
        m = m.strip()
        o = kv(got)
        if what == "parse":
            if " inb=1" not in m:
                corr.append((name, single_replay(name, f), "the model's parser reads outside the fork: %s" % m))
            if m.startswith("fuel"):
                corr.append((name, single_replay(name, f), "the model's loop bound was too small: %s" % m))
            if got.startswith("open=NULL") and len(f) > 0:
                tag = errs.tag.get(int(o["err"]))
                mt = m.split()[1] if m.startswith("err ") else None
                if m.startswith("err ") and tag != mt:
                    corr.append((name, single_replay(name, f), "error code: implementation err=%s (%s), model %s" % (o["err"], tag, m)))
        else:
            want = "ok ch=%(ch)s sr=%(sr)s frames=%(frames)s fmt=%(fmt)s" % o if got.startswith("open=ok") else "err"
            accepted += got.startswith("open=ok")
            if want != m:
                corr.append((name, single_replay(name, f), "open: implementation %s, model %s" % (got, m)))
    stats["parser_accepted"] = accepted


def run(ctx, prop="C04", found=False):
    stats = collections.Counter()
    pred, corr = [], []
    tmp = tempfile.mkdtemp(prefix="sd2-", dir=os.environ.get("SFVERIF_TMP", "/var/tmp"))
    env = {"SFH_SCRATCH": tmp, "TMPDIR": tmp}
    try:
        errs = Errs(ctx, env)
        if len(errs.tag) != 6:
            corr.append(("errtable", "errnum 0\n", "only %d of the 6 SFE_SD2_* messages found through sf_error_number" % len(errs.tag)))
        writer_campaign(ctx, env, stats, pred, corr)
        lib_forks = []
        for k, (size, ch, sr) in enumerate(((2, 2, 44100), (4, 1024, 0x7FFFFFFF))):
            m = ctx.run_model(["sd2"], "rsrc size=%d sr=%d ch=%d name=%s\n" % (size, sr, ch, b"s0.sd2".hex())).strip()
            lib_forks.append(("lib%d" % k, bytes.fromhex(m)))
        if not ctx.tier == "quick" or True:
            parser_campaign(ctx, env, stats, pred, corr, errs, lib_forks)
    finally:
        shutil.rmtree(tmp, ignore_errors=True)
    ctx.count(stats["writer_sessions"] + stats["parser_cases"])
    ctx.coverage["traces_validated_against_impl"] += stats["writer_model_answers"] + stats["parser_model_answers"]
    ctx.notes["sd2"] = dict(stats, predicate_failures=len(pred), correspondence_differences=len(corr))
    for n, sc, text in pred[:3]:
        ctx.violation("%s-sd2-%s" % (prop.lower(), n), "# %s violated on the implementation's own transcript (SD2 resource fork)\n# %s\n--- script\n%s" % (prop, text, sc))
    if corr and not pred:
        for n, sc, text in corr[:2]:
            ctx.violation("%s-sd2-correspondence-%s" % (prop.lower(), n),
                          "# correspondence stream 'SD2 resource fork (lean/SfModel/Sd2.lean) vs implementation' no longer agrees: %d of %d answers differ\n# %s\n"
                          "# the %s predicate on the implementation's transcripts found no failing input\n--- script\n%s" % (
                              len(corr), stats["writer_model_answers"] + stats["parser_model_answers"], text, prop, sc), no_input=True)
    return stats
