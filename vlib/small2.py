"""Small containers, group 2 (HTK, WVE, MPC2K, PVF, MAT4, MAT5, XI), L1: the stand-alone Lean models Sf.Htk, Sf.Wve, ...
(lean/SfModel/<Container>.lean over lean/SfModel/Small2.lean, driver `sfmodel small2 <container>`) against the library.

Writer: for every encoding of the container the library accepts (vlib/formats.py) x channels x sample rates x frame
counts, a session  open / dump / write / header update (explicit or auto mode) / dump + copy / write / close / dump /
re-open / read to end of file / re-open of the copied crash image  runs on the library (memory SF_VIRTUAL_IO) and on the
model; EVERY header byte of the three store images is compared, the audio region by length.  A twin session that differs
only in the stale SF_INFO.frames value must leave the same closed bytes.  Independently of the model the C04 / C11
predicates are evaluated on the library's own transcript (re-open info, the container's size fields decoded by an
independent reader here, frames delivered to end of file, the crash image); that decides between
`VIOLATION … replay` and `… no-failing-input-found`.

Reader: the library's files and mutated variants (truncations, every header field edited, junk appended) go to `sf_open`
and to the model's `parse`; verdict (ok / NULL) and the SF_INFO fields must agree.  Cases the model calls `unmodelled`
are skipped and counted.
"""
import collections, struct

from . import formats as FM

BYTEWIDTH = {0x01: 1, 0x05: 1, 0x10: 1, 0x11: 1, 0x02: 2, 0x03: 3, 0x04: 4, 0x06: 4, 0x07: 8, 0x50: 1, 0x51: 2}


def kv(line):
    return dict(t.split("=", 1) for t in line.split() if "=" in t)


# ---------------------------------------------------------------- guess_file_type, re-implemented for the class predicates

def pre_htk(a, b, c):
    """the tests of guess_file_type that run before the HTK test; the name of the first that matches, else None"""
    if a in (b"RIFF", b"RIFX") and c == b"WAVE":
        return "wav"
    if a == b"FORM":
        return "form"
    if a in (b".snd", b"dns."):
        return "au"
    if a in (b"fap ", b" paf"):
        return "paf"
    if a == b"NIST":
        return "nist"
    if a == b"Crea" and b == b"tive":
        return "voc"
    if (a[0] == 0x64 and a[1] == 0xA3 and a[2] < 8 and a[3] == 0) or (a[0] == 0 and a[1] < 8 and a[2] == 0xA3 and a[3] == 0x64):
        return "ircam"
    if a == b"riff":
        return "w64"
    if a == b"\0\0\x03\xe8" and b == b"\0\0\0\1" and c == b"\0\0\0\1":
        return "mat4"
    if a == b"\0\0\0\0" and b == b"\1\0\0\0" and c == b"\1\0\0\0":
        return "mat4"
    if a == b"MATL" and b == b"AB 5":
        return "mat5"
    if a == b"PVF1":
        return "pvf"
    if a == b"Exte" and b == b"nded" and c == b" Ins":
        return "xi"
    if a == b"caff" and c == b"desc":
        return "caf"
    if a == b"OggS":
        return "ogg"
    if a == b"ALaw" and b == b"Soun" and c == b"dFil":
        return "wve"
    if a == b"Diam" and b == b"ondW" and c == b"are ":
        return "dwd"
    if a in (b"LM89", b"53\0\0"):
        return "txw"
    if a[0] == 0xF0 and a[1] == 0x7E and a[2] < 0x80 and a[3] == 1:
        return "sds"
    if a[0] == 1 and a[1] == 4:
        return "mpc2k"
    if a == b"CAT " and c == b"REX2":
        return "rex2"
    if a == b"\x30\x26\xb2\x75" and b == b"\x8e\x66\xcf\x11":
        return "wma"
    return None


# ---------------------------------------------------------------- containers

class Cont:
    name = ""
    major = 0
    rates = [1, 2, 3, 8000, 11025, 44100, 65535, 65536, 2 ** 31 - 1]
    lengths = [0, 1, 2, 3, 5, 8, 4097]
    rewrites = True            # the header holds a length that is rewritten by updates / close
    kf_ids = ()
    driver = "small2"          # the `sfmodel` sub-command that runs the container's model (vlib/small3.py: "small3")

    def formats(self, ctx):
        return [f for f in FM.writable_formats(ctx) if f.major == self.major and f.codec in BYTEWIDTH]

    def channels(self, f):
        return [c for c in (1, 2, 3, 6) if c <= f.maxch]

    def bw(self, f, ch):
        return BYTEWIDTH[f.codec] * ch

    def word(self, f):
        """format word a reader must report"""
        return (self.major << 16) | f.codec

    def quant(self, sr):
        """documented quantisation of the rate field (identity where the field holds the rate exactly)"""
        return sr

    def rate_ok(self, sr, got):
        """what C04 demands of the re-opened rate: exact where the field can hold it, else the documented quantisation"""
        return got == self.quant(sr)

    def cfg(self, j):
        return "codec=%02x endian=%d ch=%d sr=%d" % (j.f.codec, j.f.endian >> 28, j.ch, j.sr)

    def size_problems(self, j, b, frames):
        return []

    def known(self, j, frames_total, probs):
        """id of the known-finding class this session lies in (given that its predicate failed), else None"""
        return None

    def extra_jobs(self, ctx, fmts, rng):
        return []

    def rate_formats(self, fmts):
        """the formats that run once at every listed rate in the quick tier"""
        return fmts

    def hdr_len(self, b):
        return len(b)

    def mutants(self, b, rng):
        return []


class Htk(Cont):
    name, major = "htk", 0x10
    # 3.2 MHz .. 10 MHz: the period is 3, 2 or 1 unit and the quantum is coarser than the rate itself (6 MHz reads back as 10 MHz);
    # the rate clause of the write-side predicate is exact there too (lean/SfModel/AbsWrite.lean `periodQuant`)
    rates = [1, 2, 3, 7, 8000, 11025, 16000, 44100, 65536, 3200000, 3333334, 5000000, 5000001, 6000000, 9999999, 10000000, 10000001, 2 ** 31 - 1]
    kf_ids = ("KF-HTK-MAGIC-CLASH",)

    def quant(self, sr):
        p = 10000000 // sr
        return 10000000 // p if p > 0 else 16000

    def rate_ok(self, sr, got):
        # exact when the rate divides 10^7; otherwise any rate within one of 10^7 / period (a reader may round either way);
        # above 10 MHz the period is 0 and the format leaves the rate undefined (libsndfile guesses 16000)
        p = 10000000 // sr
        if p == 0:
            return got >= 1
        if 10000000 % sr == 0:
            return got == sr
        return got in (10000000 // p, -(-10000000 // p))

    def size_problems(self, j, b, frames):
        out = []
        cnt, per, kind = struct.unpack(">iiI", b[:12])
        if cnt != (len(b) - 12) // 2 or (len(b) - 12) % 2:
            out.append("sample count field %d, file holds %d bytes of audio" % (cnt, len(b) - 12))
        if per != 10000000 // j.sr:
            out.append("sample period field %d for %d Hz" % (per, j.sr))
        if kind != 0x20000:
            out.append("sample size / kind field %08x" % kind)
        return out

    @staticmethod
    def clash(n, sr):
        return pre_htk(struct.pack(">I", n & 0xFFFFFFFF), struct.pack(">I", 10000000 // sr), b"\0\2\0\0")

    def known(self, j, frames_total, probs):
        return "KF-HTK-MAGIC-CLASH" if self.clash(frames_total, j.sr) else None

    def extra_jobs(self, ctx, fmts, rng):
        # the smallest frame counts whose big-endian bytes are the IRCAM marker (00 0x A3 64), and their neighbours
        f = fmts[0]
        k = rng.randrange(8)
        return [Job(self, f, 1, 16000, [41828 + 65536 * k - 1, 0], 0, False, rng), Job(self, f, 1, rng.choice([8000, 16000, 44100]), [20000, 21828 + 65536 * k], 7, False, rng),
                Job(self, f, 1, 16000, [41829, 0], 0, False, rng)]

    def hdr_len(self, b):
        return 12

    def mutants(self, b, rng):
        out = []
        n = (len(b) - 12) // 2
        for per in (0, 1, 2, 624, 625, 10000000, 10000001, 0x7FFFFFFF, 0x80000000, 0xFFFFFFFF, rng.randrange(2 ** 32)):
            out.append(("period=%d" % per, b[:4] + struct.pack(">I", per) + b[8:]))
        for d in (1, 2, 5):
            out.append(("grow+%d" % d, struct.pack(">I", n + d) + b[4:] + bytes(2 * d)))
            out.append(("count+%d" % d, struct.pack(">I", n + d) + b[4:]))
            if n >= d:
                out.append(("shrink-%d" % d, struct.pack(">I", n - d) + b[4:len(b) - 2 * d]))
        out.append(("odd-tail", b + b"\0"))
        for m in (b"\0\2\0\1", b"\0\1\0\0", b"\0\2\1\0", b"\0\0\0\0"):
            out.append(("kind=%s" % m.hex(), b[:8] + m + b[12:]))
        for a in (b"\0\0\xa3\x64", b"\0\7\xa3\x64", b"\x01\x04\0\0", b".snd", b"FORM"):
            k = struct.unpack(">I", a)[0]
            if k < 300000:
                out.append(("count=%s" % a.hex(), a + b[4:12] + bytes(2 * k)))
        return out


class Wve(Cont):
    name, major = "wve", 0x19
    rates = [1, 8000, 8001, 44100, 2 ** 31 - 1]

    def quant(self, sr):
        return 8000

    def size_problems(self, j, b, frames):
        out = []
        if b[:16] != b"ALawSoundFile**\0" or b[16:18] != b"\x0f\x10" or b[22:32] != bytes(10):
            out.append("fixed header fields: %s" % b[:32].hex())
        dl = struct.unpack(">I", b[18:22])[0]
        if dl != (len(b) - 32) % 2 ** 32:
            out.append("data length field %d, file holds %d bytes of audio" % (dl, len(b) - 32))
        return out

    def hdr_len(self, b):
        return 32

    def mutants(self, b, rng):
        out = []
        for v in (0, 1, len(b) - 33, len(b) - 31, 0x7FFFFFFF, 0x80000000, 0xFFFFFFFF):
            out.append(("datalen=%d" % v, b[:18] + struct.pack(">I", v % 2 ** 32) + b[22:]))
        out.append(("version", b[:16] + b"\0\1" + b[18:]))
        return out


class Mpc2k(Cont):
    name, major = "mpc2k", 0x21
    rates = [1, 2, 8000, 44100, 65535, 65536, 65537, 96000, 131072, 2 ** 31 - 65536, 2 ** 31 - 1]

    def quant(self, sr):
        """the 16-bit field saturates (KF-RATE16-WRAP repaired: it used to hold the rate modulo 65536, 0 for multiples of 65536)"""
        return min(sr, 65535)

    def size_problems(self, j, b, frames):
        out = []
        if b[:2] != b"\1\4" or b[19:22] != bytes([100, 0, j.ch - 1]) or b[22:26] != bytes(4) or b[38:40] != b"\0\1":
            out.append("fixed header fields: %s" % b[:42].hex())
        a, c, d = struct.unpack("<III", b[26:38])
        want = ((len(b) - 42) // (2 * j.ch)) % 2 ** 32
        if (a, c, d) != (want, want, want):
            out.append("frame count fields %d/%d/%d, file holds %d frames" % (a, c, d, want))
        if struct.unpack("<H", b[40:42])[0] != min(j.sr, 65535):
            out.append("rate field %d for %d Hz" % (struct.unpack("<H", b[40:42])[0], j.sr))
        return out

    def hdr_len(self, b):
        return 42

    def mutants(self, b, rng):
        out = []
        for v in (0, 1, 2, 3, 0x80, 0xFF):
            out.append(("stereo=%d" % v, b[:21] + bytes([v]) + b[22:]))
        for v in (0, 1, 0xFFFF):
            out.append(("rate=%d" % v, b[:40] + struct.pack("<H", v) + b[42:]))
        out.append(("frames=rnd", b[:26] + bytes(rng.randrange(256) for _ in range(12)) + b[38:]))
        out.append(("odd-tail", b + b"\1"))
        out.append(("name", b[:2] + b"sample name here!" + b[19:]))
        return out


class Pvf(Cont):
    name, major = "pvf", 0x0E
    rates = [1, 2, 9, 10, 99, 100, 8000, 44100, 65536, 999999999, 1000000000, 2 ** 31 - 1]
    rewrites = True     # no length in the header, but header updates are accepted and must leave a valid file
    kf_ids = ()      # KF-PVF-SHORT-HEADER and KF-PVF-TINY-FILE are repaired: the 11-byte header re-opens exactly, with or without audio behind it

    def channels(self, f):
        return [c for c in (1, 2, 3, 9, 10, 11) if c <= f.maxch]

    def text(self, j):
        return b"PVF1\n%d %d %d\n" % (j.ch, j.sr, 8 * BYTEWIDTH[j.f.codec])

    def size_problems(self, j, b, frames):
        t = self.text(j)
        out = []
        if b[:len(t)] != t:
            out.append("text header %r, expected %r" % (b[:len(t) + 2], t))
        if len(b) != len(t) + j.n * j.bw:
            out.append("file length %d, header %d + %d audio bytes" % (len(b), len(t), j.n * j.bw))
        return out

    def hdr_len(self, b):
        return b.index(b"\n", 5) + 1 if b"\n" in b[5:] else len(b)

    def mutants(self, b, rng):
        out = []
        e = self.hdr_len(b)
        rest = b[e:]
        for t in (b"1 8000 16", b" 2  44100\t32", b"+1 -5 8", b"-1 8000 8", b"0 8000 16", b"1025 8000 16", b"1024 1 32", b"1 0 8", b"1 8000 24", b"1 8000 0",
                  b"1 8000", b"1 8000 x", b"x 1 8", b"1 8000 16 99", b"1 2147483647 16", b"1 2147483648 16", b"1 99999999999 8", b"1 8000 16\r", b"01 08000 016",
                  b"1 8000 16 and a very long comment here", b"1 1 8", b"1 1 16", b"9 9 8", b"1 8000 8\x00 16", b"12 12 8 "):
            out.append(("text=%s" % t.decode("latin1").replace("\n", "~")[:14], b"PVF1\n" + t + b"\n" + rest))
            out.append(("text-nonl=%s" % t.decode("latin1")[:14], b"PVF1\n" + t + rest[:3]))
        out.append(("sep", b"PVF1 " + b[5:]))
        out.append(("crlf", b"PVF1\r\n" + b[5:]))
        return out


class Mat4(Cont):
    name, major = "mat4", 0x0C
    rates = [1, 2, 3, 8000, 11025, 44100, 65535, 65536, 2 ** 24 + 1, 2 ** 30, 2 ** 31 - 1]
    TYPES = {0x07: 0, 0x06: 1, 0x04: 2, 0x02: 3}

    def little(self, f):
        return f.endian != FM.BE

    def word(self, f):
        return (0x10000000 if self.little(f) else 0x20000000) | (self.major << 16) | f.codec

    def size_problems(self, j, b, frames):
        out = []
        e = "<" if self.little(j.f) else ">"
        if len(b) < 68:
            return ["file shorter than the 68-byte header"]
        t1, r1, c1, i1, n1 = struct.unpack(e + "iiiiI", b[:20])
        rate = struct.unpack(e + "d", b[31:39])[0]
        t2, r2, c2, i2, n2 = struct.unpack(e + "iiiiI", b[39:59])
        base = 0 if self.little(j.f) else 1000
        if (t1, r1, c1, i1, n1, b[20:31]) != (base, 1, 1, 0, 11, b"samplerate\0") or rate != float(j.sr):
            out.append("samplerate matrix: type %d %dx%d imag %d name %r value %r" % (t1, r1, c1, i1, b[20:31], rate))
        if (t2, r2, i2, n2, b[59:68]) != (base + 10 * self.TYPES[j.f.codec], j.ch, 0, 9, b"wavedata\0"):
            out.append("wavedata matrix: type %d rows %d imag %d name %r" % (t2, r2, i2, b[59:68]))
        if c2 != frames or (len(b) - 68) != r2 * c2 * BYTEWIDTH[j.f.codec]:
            out.append("cols field %d, file holds %d bytes of audio = %d frames reported" % (c2, len(b) - 68, frames))
        return out

    def hdr_len(self, b):
        return 68

    def mutants(self, b, rng):
        out = []
        le = b[:4] == bytes(4)
        e = "<" if le else ">"
        for off, name in ((4, "rows1"), (8, "cols1"), (12, "imag1"), (43, "rows2"), (47, "cols2"), (51, "imag2")):
            for v in (0, 1, 2, 3, 1024, 1025, 0x7FFFFFFF, 0x80000000, 0xFFFFFFFF, 0xFFFFFFFE):
                out.append(("%s=%d" % (name, v), b[:off] + struct.pack(e + "I", v) + b[off + 4:]))
        for v in (0, 1, 10, 12, 63, 64, 65, 0xFFFFFFFF):
            out.append(("ns1=%d" % v, b[:16] + struct.pack(e + "I", v) + b[20:]))
            out.append(("ns2=%d" % v, b[:55] + struct.pack(e + "I", v) + b[59:]))
        for v in (0.0, 1.0, 0.5, 1.5, 2.5, 44100.25, -8000.0, 2147483647.0, 2147483648.0, 1e300, float("inf"), float("nan"), 5e-324):
            out.append(("rate=%r" % v, b[:31] + struct.pack(e + "d", v) + b[39:]))
        for t in (0, 10, 20, 30, 40, 50, 1000, 1010, 1020, 1030, 1050):
            out.append(("type2=%d" % t, b[:39] + struct.pack(e + "I", t) + b[43:]))
            out.append(("type2x=%d" % t, b[:39] + struct.pack(("<" if e == ">" else ">") + "I", t) + b[43:]))
        out.append(("name1", b[:16] + struct.pack(e + "I", 3) + b"sr\0" + b[31:]))
        out.append(("name2", b[:55] + struct.pack(e + "I", 2) + b"x\0" + b[68:]))
        return out


CONTS = [Htk(), Wve(), Mpc2k(), Pvf(), Mat4()]


# ---------------------------------------------------------------- sessions

class Job:
    def __init__(self, cont, f, ch, sr, parts, stale, auto, rng):
        self.c, self.f, self.ch, self.sr, self.parts, self.stale, self.auto = cont, f, ch, sr, list(parts), stale, auto
        self.n = sum(parts)
        self.bw = cont.bw(f, ch)
        self.seed = rng.randrange(1 << 30)

    def name(self, i):
        return "%s-c%d-r%d-n%s-%d" % (self.f.name, self.ch, self.sr, "+".join(map(str, self.parts)), i)

    def hexvals(self, k, count):
        # a cheap deterministic sequence (the audio bytes themselves are the business of C01 / C07)
        x = (self.seed + 977 * k) & 0xFFFF
        out = []
        for _ in range(count):
            x = (x * 75 + 74) % 65537
            out.append("%04x" % (x & 0xFFFF))
        return "".join(out)

    def script(self, stale=None, tail=True):
        st = self.stale if stale is None else stale
        L = ["open h0 s0 w fmt=%08x ch=%d sr=%d frames=%d" % (self.f.word, self.ch, self.sr, st), "dump s0"]
        if self.auto:
            L.append("cmd h0 1061 1 null")
        for i, p in enumerate(self.parts):
            if p > 0:
                L.append("w h0 s16 f %d %s" % (p, self.hexvals(i, p * self.ch)))
            if i == 0:
                if not self.auto:
                    L.append("cmd h0 1060 0 null")
                L += ["dump s0", "copy s1 s0"]
        L += ["close h0", "dump s0"]
        if tail:
            L += ["open h1 s0 r", "r h1 s16 f %d q" % (self.n + 3), "close h1", "open h2 s1 r"]
        return "\n".join(L) + "\n"

    def model_line(self):
        ops = ["d"]
        for i, p in enumerate(self.parts):
            if p > 0:
                ops.append(("W" if self.auto else "w") + str(p * self.bw))
            if i == 0:
                if not self.auto:
                    ops.append("u")
                ops.append("d")
        ops += ["c", "d"]
        return "session %s stale=%d ops=%s" % (self.c.cfg(self), self.stale, ";".join(ops))


def make_jobs(ctx, cont, fmts, quick):
    rng = ctx.rng
    jobs = []
    rates = cont.rates + [rng.randrange(2, 2 ** 31), rng.randrange(2, 70000)]

    def split(n):
        a = rng.randrange(0, n + 1) if n else 0
        return [a, n - a]
    k = rng.randrange(len(rates))
    for f in fmts:
        for ch in cont.channels(f):
            for n in (cont.lengths[:-1] if quick else cont.lengths):
                for sr in ([None] if quick else rates):
                    k += 1
                    jobs.append(Job(cont, f, ch, rates[k % len(rates)] if sr is None else sr, split(n), rng.choice([0, 3, 99999]), rng.random() < 0.3, rng))
        if quick and f in cont.rate_formats(fmts):
            for sr in rates:
                jobs.append(Job(cont, f, rng.choice(cont.channels(f)), sr, split(rng.choice([1, 2, 3, 4, 7])), rng.choice([0, 12345]), rng.random() < 0.3, rng))
            jobs.append(Job(cont, f, rng.choice(cont.channels(f)), rng.choice(rates), split(cont.lengths[-1]), 0, False, rng))
    jobs += cont.extra_jobs(ctx, fmts, rng)
    return jobs


def parse_dump(line):
    d = kv(line)
    return bytes.fromhex(d.get("hex", "")) if line.startswith("len=") else None


def predicate(j, dumps, lines):
    """problems of the library's own transcript against C04 / C11 (empty = holds)"""
    cont = j.c
    cont._job = j              # for rate rules that depend on the session (VOC: which block type holds the rate)
    probs = []
    final, snap = dumps[2], dumps[1]
    reopen, rd, crash = lines[-4], lines[-3], lines[-1]
    want_sr = cont.quant(j.sr)
    if not reopen.startswith("open=ok"):
        probs.append("re-open of the closed file fails: " + reopen)
    else:
        d = kv(reopen)
        if int(d["ch"]) != j.ch:
            probs.append("channels %s, written with %d" % (d["ch"], j.ch))
        if int(d["fmt"], 16) != cont.word(j.f):
            probs.append("format word %s, expected %08x" % (d["fmt"], cont.word(j.f)))
        if not cont.rate_ok(j.sr, int(d["sr"])):
            probs.append("sample rate %s, requested %d (the rate field holds %d)" % (d["sr"], j.sr, want_sr))
        fr = int(d["frames"])
        if fr != j.n:
            probs.append("frames %d, %d written" % (fr, j.n))
        if not rd.startswith("ret=%d " % fr):
            probs.append("reading to end of file: %s, %d frames announced" % (rd[:40], fr))
        probs += cont.size_problems(j, final, fr)
    if cont.rewrites and (j.parts[0] > 0 or not j.auto):      # C11 speaks about the store after an update / after a write call in auto mode
        if not crash.startswith("open=ok"):
            probs.append("[C11] the image left by the header update cannot be opened: " + crash)
        else:
            d = kv(crash)
            if (int(d["ch"]), int(d["fmt"], 16), int(d["frames"])) != (j.ch, cont.word(j.f), j.parts[0]) or not cont.rate_ok(j.sr, int(d["sr"])):
                probs.append("[C11] the image left by the header update reports %s, expected ch=%d fmt=%08x sr=%d frames=%d" % (crash, j.ch, cont.word(j.f), want_sr, j.parts[0]))
    return probs


def replay_tail(ctx, j, probs):
    """the script cut after the operation whose transcript line shows the first problem, with that line as `observed-last`"""
    L = j.script().split("\n")[:-1]
    p = probs[0]
    if p.startswith("[C11]"):
        sc = L
    elif p.startswith("reading to end"):
        sc = L[:-2]
    elif p.startswith(("re-open", "channels", "format word", "sample rate", "frames ")):
        sc = L[:-3]
    else:
        sc = L[:-4] + ["dump s0"]          # a size field or fixed header field: the closed bytes themselves
    text = "\n".join(sc) + "\n"
    lines, rc, err = ctx.script(text)
    obs = "observed-last %s\n" % lines[-1].strip() if lines else ""
    return obs + "--- script\n" + text


def writer_campaign(ctx, cont, fmts, quick):
    jobs = make_jobs(ctx, cont, fmts, quick)
    scripts = [(j.name(i), j.script()) for i, j in enumerate(jobs)]
    twins = [("twin-" + j.name(i), j.script(stale=j.stale + 54321, tail=False)) for i, j in enumerate(jobs)]
    impl = ctx.batch(scripts + twins, workers=4)
    model = ctx.run_model([cont.driver, cont.name], "".join(j.model_line() + "\n" for j in jobs)).split("\n")
    stats = collections.Counter()
    corr, pred, known, files = [], [], [], []
    for i, j in enumerate(jobs):
        name, script = scripts[i]
        lines = impl.get(name, [])
        stats["sessions"] += 1
        ctx.distinct.add("%s:%s:c%d" % (cont.name, j.f.name, j.ch))
        ctx.distinct.add("%s:rate:%d" % (cont.name, j.sr) if j.sr in cont.rates else "%s:rate:seeded" % cont.name)
        dumps = [parse_dump(l) for l in lines if l.startswith("len=") and "hex=" in l]
        if any(l.startswith(("CRASH", "ABORT", "TIMEOUT")) for l in lines) or len(dumps) != 3 or len(lines) < 8:
            pred.append((j, name, script, ["the implementation died or the transcript is incomplete: %s" % (lines[-1:] or "")], ""))
            continue
        reopen = lines[-4]
        mrep = [kv(r) for r in model[i].split(" | ")] if i < len(model) and model[i].startswith("hdr=") else []
        diffs = []
        if len(mrep) != 3:
            diffs.append("model gave no answer: %s" % (model[i][:80] if i < len(model) else "<missing>"))
        else:
            for k, (b, m) in enumerate(zip(dumps, mrep)):
                h, dl = bytes.fromhex(m.get("hdr", "")), int(m["dlen"])
                stats["bytes_compared"] += len(h)
                where = ["after open", "after the header update", "after close"][k]
                if len(b) != len(h) + dl:
                    diffs.append("%s: %d bytes, model %d + %d" % (where, len(b), len(h), dl))
                elif b[:len(h)] != h:
                    x = next(q for q in range(len(h)) if b[q] != h[q])
                    diffs.append("%s: header byte %d is %02x, model %02x (impl %s model %s)" % (where, x, b[x], h[x], b[:len(h)].hex(), h.hex()))
        probs = predicate(j, dumps, lines)
        tl = impl.get("twin-" + name, [])
        td = [parse_dump(l) for l in tl if l.startswith("len=") and "hex=" in l]
        if len(td) != 3 or td[2] != dumps[2]:
            probs.append("the closed bytes depend on the stale SF_INFO.frames value passed at open (%d vs %d)" % (j.stale, j.stale + 54321))
        stats["twins"] += 1
        kf = cont.known(j, j.n, probs) if probs else None
        if probs and kf:
            known.append((j, name, kf, probs))
        elif probs:
            pred.append((j, name, script, probs, reopen))
        elif diffs:
            corr.append((j, name, script, diffs, reopen))
        files.append((j, dumps[1], dumps[2]))
        stats["images"] += 3
    return jobs, files, corr, pred, known, stats


# ---------------------------------------------------------------- reader

def mutants(cont, b, rng, full):
    out = []
    hl = min(cont.hdr_len(b), len(b))
    cuts = list(range(0, min(len(b), hl + 3) + 1))
    if not full and len(cuts) > 24:
        cuts = sorted(set(rng.sample(cuts, 16) + [0, 11, 12, 13, hl - 1, hl, hl + 1]))
    for c in cuts:
        if 0 <= c <= len(b):
            out.append(("trunc@%d" % c, b[:c]))
    pos = list(range(hl))
    if not full and len(pos) > 40:
        pos = rng.sample(pos, 40)
    for p in pos:
        for v in {0, 0xFF, b[p] ^ 1, b[p] ^ 0x80, rng.randrange(256)} - {b[p]}:
            out.append(("byte%d=%02x" % (p, v), b[:p] + bytes([v]) + b[p + 1:]))
    out.append(("append-1", b + b"\x55"))
    out.append(("append-7", b + bytes(range(7))))
    out += cont.mutants(b, rng)
    return out


def reader_campaign(ctx, cont, files, quick):
    rng = ctx.rng
    cases, seen = [], set()
    per_fmt = collections.Counter()
    for (j, snap, final) in files:
        if len(final) > 20000:
            continue
        cases.append(("%s:final" % j.f.name, final))
        cases.append(("%s:snap" % j.f.name, snap))
        key = (j.f.word, min(j.ch, 3))
        if j.n > 16 or per_fmt[key] >= (1 if quick else 3) or (quick and sum(per_fmt.values()) >= getattr(cont, "max_mutated", 10 ** 9)):
            continue
        per_fmt[key] += 1
        for tag, m in mutants(cont, final, rng, full=not quick):
            if m not in seen and len(m) < 700000:
                seen.add(m)
                cases.append(("%s:%s" % (j.f.name, tag), m))
    group = 40
    scripts = []
    for g in range(0, len(cases), group):
        L = []
        for (tag, m) in cases[g:g + group]:
            L += ["store s0 %s" % m.hex(), "open h0 s0 r", "close h0"]
        scripts.append(("%s-parse-%d" % (cont.name, g // group), "\n".join(L) + "\n"))
    impl = ctx.batch(scripts, workers=4)
    model = ctx.run_model([cont.driver, cont.name], "".join("parse %s\n" % (m.hex() or "-") for (_, m) in cases)).split("\n")
    stats = collections.Counter()
    bad = []
    for gi, (name, text) in enumerate(scripts):
        lines = impl.get(name, [])
        for k, (tag, m) in enumerate(cases[gi * group:(gi + 1) * group]):
            ci = gi * group + k
            il = lines[3 * k + 1] if 3 * k + 1 < len(lines) else "<missing>"
            ml = model[ci] if ci < len(model) else "<missing>"
            stats["parse_cases"] += 1
            ctx.distinct.add("%s:parse:%s" % (cont.name, tag.split(":", 1)[1].split("@")[0].split("=")[0][:12].rstrip("0123456789")))
            if ml == "unmodelled":
                stats["parse_unmodelled"] += 1
                continue
            if il.startswith("open=ok"):
                d = kv(il)
                want = "ok ch=%s sr=%s frames=%s fmt=%s" % (d["ch"], d["sr"], d["frames"], d["fmt"])
                stats["parse_ok"] += 1
            elif il.startswith("open=NULL"):
                want = "err"
                stats["parse_err"] += 1
            else:
                want = il
            if want != ml:
                bad.append((tag, m, il, ml))
    return bad, stats


# ---------------------------------------------------------------- entry point

def run(ctx, found=False, only=None, conts=None, key="small2"):
    """called from vlib/props/c04.py after the other C04 campaigns; returns True when it reported a violation"""
    quick = ctx.tier == "quick"
    reported = False
    notes = {}
    for cont in (conts or CONTS):
        if only and cont.name not in only:
            continue
        fmts = cont.formats(ctx)
        if not fmts:
            continue
        jobs, files, corr, pred, known, wstats = writer_campaign(ctx, cont, fmts, quick)
        bad, rstats = reader_campaign(ctx, cont, files, quick)
        rates = sorted(set(cont.rates + [ctx.rng.randrange(1, 2 ** 31) for _ in range(100)] + [ctx.rng.randrange(1, 70000) for _ in range(100)]))
        back = ctx.run_model([cont.driver, cont.name], "".join("quant %d\n" % r for r in rates)).split("\n")
        qbad = [(r, l) for r, l in zip(rates, back) if l != str(cont.quant(r))]
        if cont.name == "htk":
            # the class predicate of KF-HTK-MAGIC-CLASH here against Sf.C04Htk.KF.magicClash (driver `clash`)
            probe = [(16000, 41828 + 65536 * k + d) for k in range(8) for d in (-1, 0, 1)] + [(8000, 0x01040000), (16000, 0x2E736E64), (1, 0x464F524D)] + \
                    [(ctx.rng.choice(cont.rates), ctx.rng.randrange(0, 2 ** 31)) for _ in range(200)] + [(ctx.rng.choice(cont.rates), ctx.rng.randrange(0, 2 ** 20)) for _ in range(200)]
            ans = ctx.run_model(["small2", "htk"], "".join("clash %d %d\n" % p for p in probe)).split("\n")
            qbad += [("clash %d %d" % p, a) for p, a in zip(probe, ans) if a != ("1" if cont.clash(p[1], p[0]) else "0")]
            ctx.count(len(probe))
        ctx.count(wstats["sessions"] * 12 + rstats["parse_cases"] + len(rates))
        ctx.coverage["traces_validated_against_impl"] += wstats["sessions"] + wstats["twins"] + rstats["parse_cases"]
        notes[cont.name] = {"formats": [f.name for f in fmts], "writer": dict(wstats), "reader": dict(rstats), "writer_disagreements": len(corr),
                            "predicate_failures": len(pred), "reader_disagreements": len(bad), "known_class_sessions": len(known),
                            "rates_tabulated": len(rates), "rate_quantiser_disagreements": len(qbad)}
        # known findings: a failure inside a listed class is waived only while the entry exists for this property
        for (j, name, kf, probs) in known:
            ent = next((k for k in ctx.known if k["id"] == kf and k.get("status") == "known"), None)
            if ent:
                ctx.known_finding(ent)
            elif not reported:
                reported = True
                ctx.violation("c04-%s-%s" % (cont.name, name), "# %s: %s\n# (no known-finding entry %s covers it)\n--- script\n%s" % (cont.name.upper(), "; ".join(probs), kf, j.script()))
        for (j, name, script, probs, reopen) in pred[:2]:
            reported = True
            text = "# %s violated on the implementation's own transcript (%s container campaign)\n# format %s, %d channel(s), %d Hz, frames per call %s, stale frames %d\n# %s\n" % (
                "C11" if all(p.startswith("[C11]") for p in probs) else "C04", cont.name.upper(), j.f.name, j.ch, j.sr, j.parts, j.stale, "; ".join(probs))
            ctx.violation("c04-%s-%s" % (cont.name, name), text + replay_tail(ctx, j, probs))
        if not reported and not found:
            if corr:
                j, name, script, diffs, reopen = corr[0]
                reported = True
                ctx.violation("c04-%s-correspondence-%s" % (cont.name, name),
                              "# correspondence stream '%s header writer (Sf.%s.hdr / session) vs %s_write_header' no longer agrees: %d of %d sessions differ\n"
                              "# first: %s\n# %s\n# the C04 / C11 predicates (re-open info, size fields, frames to end of file, crash image) hold on the implementation's own transcripts: no failing input found\n"
                              "observed-last %s\n--- script\n%s" % (cont.name.upper(), cont.name.capitalize(), cont.name, len(corr), wstats["sessions"], name, "; ".join(diffs)[:1500], reopen.strip(), script), no_input=True)
            elif bad:
                tag, m, il, ml = bad[0]
                reported = True
                ctx.violation("c04-%s-parse-%s" % (cont.name, tag),
                              "# correspondence stream '%s reader (Sf.%s.parse) vs sf_open' no longer agrees: %d of %d files differ\n# first: %s\n# implementation: %s\n# model: %s\n"
                              "# these are hand-mutated files; the C04 predicate speaks about files the library wrote and holds on them: no failing input found\n"
                              "observed-last %s\n--- script\nstore s0 %s\nopen h0 s0 r\n" % (cont.name.upper(), cont.name.capitalize(), len(bad), rstats["parse_cases"], tag, il, ml, il.strip(), m.hex()), no_input=True)
            elif qbad:
                reported = True
                ctx.violation("c04-%s-quant" % cont.name, "# the model's rate quantiser of %s disagrees with the documented unit at %d Hz: model %s\n" % (cont.name, qbad[0][0], qbad[0][1]), no_input=True)
        if jobs:
            ctx.sample({"kind": "%s session" % cont.name, "script": jobs[0].script()[:400], "model_request": jobs[0].model_line()[:300]})
    notes["rule"] = ("per container: every accepted (subtype, endian) x channels {1,2,3,6 up to the container's limit} x N {0,1,2,3,5,8,4097} with rotating rates "
                     "(quick) or the full rate list (thorough) plus every listed rate once per format; three store images per session compared byte for byte "
                     "in the header; twin session with another stale frames value; re-open, read to EOF, crash image; library files and their mutants parsed by both sides")
    ctx.notes[key] = notes
    return reported
