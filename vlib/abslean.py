"""The Lean predicate as the deciding oracle of C05 / C06 / C08.

`Sf.Abs.check` / `holdsFrom` (lean/SfModel/Abs.lean) — the L0 abstract model of a handle and the contract of the three
statements as Boolean checkers — is evaluated by the compiled driver (`sfmodel abs`, lean/Driver/Abs.lean) on the
implementation's own transcripts.  This module builds the driver input from a campaign's (script, transcript) pairs,
runs the driver, maps clause tags to the problem categories the property modules speak about, and keeps the books for
the evidence block `abs_predicate` (transcripts judged, lines judged, clause-tag histogram, disagreements with the Python
predicate that still runs beside it, wall time).
"""
import collections, concurrent.futures, re, subprocess, time

# clause tag (Lean) -> problem category (vlib/props/_handle_common.py CATS)
TAG_CAT = {
    "count": "count", "wcount": "count", "wshort": "count", "error": "count", "tail": "count", "close": "count",
    "invalid": "invalid", "eof": "eof", "data": "data", "short": "short",
    "seek": "seek", "seek-refused": "seek", "position": "position",
    "frames": "frames", "reopen-frames": "frames", "open": "open",
    "trunc": "trunc", "trunc-refuse": "trunc",
}


class Verdict:
    def __init__(self, status, n=0, fails=()):
        self.status, self.n, self.fails = status, n, list(fails)      # fails: [(k, tag, text)]

    @property
    def ok(self):
        return self.status != "bad"

    def first(self):
        return self.fails[0] if self.fails else None

    def __repr__(self):
        return "Verdict(%s n=%d %r)" % (self.status, self.n, self.fails[:2])


def geom_line(ch, frames, mode, seekable=True, block=1, pad=0, bw=0, trunc=False, strict=False, iofail=False, lossless=(), holezero=()):
    s = "geom ch=%d frames=%d mode=%s seekable=%d block=%d pad=%d bw=%d trunc=%d strict=%d iofail=%d" % (
        ch, frames, mode, 1 if seekable else 0, block, pad, bw or 0, 1 if trunc else 0, 1 if strict else 0, 1 if iofail else 0)
    if lossless:
        s += " lossless=" + ",".join(sorted(lossless))
    if holezero:
        s += " holezero=" + ",".join(sorted(holezero))
    return s


def transcript_text(name, geom, refs, rawref, pairs):
    """driver input of one transcript; refs: ty -> hex string (all items of the stream), pairs: [(op line, transcript line)]"""
    L = ["== " + name, geom]
    for ty, hx in sorted((refs or {}).items()):
        L.append("ref %s %s" % (ty, hx))
    if rawref is not None:
        L.append("rawref " + rawref)
    for op, out in pairs:
        L.append(op.strip() or "-")
        L.append(out.strip() or "-")
    return "\n".join(L) + "\n"


_LINE = re.compile(r"^(\S+) (ok|bad|skip) ?(.*)$")


def parse_verdicts(stdout):
    res = {}
    for line in stdout.split("\n"):
        m = _LINE.match(line)
        if not m:
            continue
        name, st, rest = m.groups()
        if st == "ok":
            res[name] = Verdict("ok", int(re.search(r"n=(\d+)", rest).group(1)))
        elif st == "skip":
            res[name] = Verdict("skip", int(re.search(r"k=(\d+)", rest).group(1)))
        else:
            fails = []
            for part in rest.split("; "):
                mk = re.match(r"k=(\d+) clause=(\S+) ?(.*)$", part)
                if mk:
                    fails.append((int(mk.group(1)), mk.group(2), mk.group(3)))
                elif part.startswith("skip"):
                    pass
            res[name] = Verdict("bad", 0, fails)
    return res


class Judge:
    """collects transcripts, runs `sfmodel abs` once (a few processes in parallel), hands back the verdicts"""

    def __init__(self, ctx, prop=None):
        self.ctx = ctx
        self.prop = prop or ctx.prop
        self.items = []          # (name, text, nlines)
        self.stats = ctx.notes.setdefault("abs_predicate", {
            "oracle": "Sf.Abs.check / holdsFrom (lean/SfModel/Abs.lean) evaluated by `sfmodel abs`",
            "transcripts_judged": 0, "lines_judged": 0, "clause_tag_histogram": {}, "skipped_rdwr_refused": 0,
            "lean_python_disagreements": 0, "disagreement_examples": [], "wall_s": 0.0, "input_bytes": 0})

    def add(self, name, geom, refs, rawref, pairs):
        self.items.append((name, transcript_text(name, geom, refs, rawref, pairs), len(pairs)))

    def run(self, workers=3):
        if not self.items:
            return {}
        t0 = time.time()
        exe = self.ctx.sfmodel()
        # balance the chunks by size
        order = sorted(self.items, key=lambda it: -len(it[1]))
        chunks = [[] for _ in range(min(workers, len(order)))]
        sizes = [0] * len(chunks)
        for it in order:
            j = sizes.index(min(sizes))
            chunks[j].append(it)
            sizes[j] += len(it[1])

        def one(chunk):
            inp = "".join(t for (_, t, _) in chunk)
            p = subprocess.run([exe, "abs"], input=inp, capture_output=True, text=True, timeout=1800)
            if p.returncode != 0:
                raise RuntimeError("sfmodel abs failed: %s" % p.stderr[-2000:])
            return parse_verdicts(p.stdout)

        out = {}
        with concurrent.futures.ThreadPoolExecutor(max_workers=len(chunks)) as ex:
            for r in ex.map(one, chunks):
                out.update(r)
        st = self.stats
        for (name, text, n) in self.items:
            v = out.get(name)
            if v is None:
                raise RuntimeError("sfmodel abs printed no verdict for %s" % name)
            st["transcripts_judged"] += 1
            st["lines_judged"] += v.n if v.status == "ok" else n
            st["input_bytes"] += len(text)
            if v.status == "skip":
                st["skipped_rdwr_refused"] += 1
            for (_, tag, _) in v.fails:
                st["clause_tag_histogram"][tag] = st["clause_tag_histogram"].get(tag, 0) + 1
        st["wall_s"] = round(st["wall_s"] + time.time() - t0, 3)
        self.items = []
        return out

    def disagreement(self, name, lean, python, script=None):
        """records a case where the Lean verdict and the Python predicate differ on one transcript"""
        st = self.stats
        st["lean_python_disagreements"] += 1
        if len(st["disagreement_examples"]) < 5:
            st["disagreement_examples"].append({"transcript": name, "lean": lean, "python": python})


def agree(lean_fails, py_probs, start=0):
    """do the two predicates tell the same story about one transcript?  Lean reports one clause per failing line, the Python
    checker may report several problems on one line; after the first failure the two resynchronise differently, so only the
    first failing line is compared: same line, and Lean's category among the Python categories of that line.
    lean_fails: [(k, tag, text)] with k counted from script line `start`; py_probs: [(script line, text, cat)]"""
    lp = [(k + start, TAG_CAT.get(tag, tag)) for (k, tag, _) in lean_fails]
    pp = [(k, cat) for (k, _, cat) in py_probs if cat != "crash"]
    if not lp and not pp:
        return True
    if not lp or not pp:
        return False
    k0 = min(k for k, _ in lp)
    k1 = min(k for k, _ in pp)
    if k0 != k1:
        return False
    return any(c in {pc for (k, pc) in pp if k == k1} for (k, c) in lp if k == k0)


# ---------------------------------------------------------------------------------------------------------------------
# glue for the campaigns
# ---------------------------------------------------------------------------------------------------------------------

DEAD = ("CRASH", "ABORT", "TIMEOUT")


def _alive_pairs(sl, lines, start, stop=None):
    pairs = []
    for k in range(start, min(len(sl), len(lines), stop if stop is not None else 10 ** 9)):
        if lines[k].startswith(DEAD):
            break
        pairs.append((sl[k], lines[k]))
    return pairs


def joined_pairs(script, lines, start, stop=None):
    """like _alive_pairs for scripts that hold ops printing SEVERAL transcript lines (chunkall: `it=`, `c …`, `end n=`): those
    lines are joined into one (the predicate does not look inside the answer of a call it treats as `Op.other`)"""
    from . import chunks as C
    sl = [l for l in script.split("\n") if l.strip()]
    if not any(l.startswith("chunkall") for l in sl):
        return _alive_pairs(sl, lines, start, stop)
    out = []
    for k, (opt, ls) in enumerate(C.split_ops(script, lines)):
        if k >= len(sl) or opt[0] == "<trailing>" or (stop is not None and k >= stop):
            break
        if k < start:
            continue
        if not ls or any(l.startswith(DEAD) for l in ls):
            break
        out.append((sl[k], " | ".join(ls) if len(ls) > 1 else ls[0]))
    return out


def add_read_test(judge, name, script, lines, ch, F, ref_items, seekable, bw):
    """all-format read/seek history (vlib/readcamp.py test_phase): reference streams = the sequential reads of the write phase;
    raw reference = the sequential raw read of the prelude.  Returns the script line the judged lines start at."""
    from . import readcamp as R
    sl = script.strip().split("\n")
    start = R.test_start(sl)
    rawref = None
    for i in range(start):
        if sl[i].startswith("rraw h1") and i < len(lines):
            m = re.search(r"ret=(-?\d+) .*data=([0-9a-f]*)", lines[i])
            if m and int(m.group(1)) == F * (bw or 0) and F > 0:
                rawref = m.group(2)[:2 * int(m.group(1))]
    refs = {ty: "".join(items) for ty, items in ref_items.items() if len(items) == F * ch and "?" not in items}
    judge.add(name, geom_line(ch, F, "r", seekable=seekable, bw=bw or 0), refs, rawref, _alive_pairs(sl, lines, start))
    return start


def add_write_phase(judge, name, script, lines, ch):
    """the write calls of a write phase (mode w, fresh file): count / error clauses of C05's write half"""
    sl = script.strip().split("\n")
    stop = next((i for i, l in enumerate(sl) if l.startswith("close")), len(sl)) + 1
    if not lines or "open=ok" not in lines[0]:
        return None
    judge.add(name, geom_line(ch, 0, "w"), {}, None, _alive_pairs(sl, lines, 1, stop))
    return 1


def describe(fail, start, sl):
    k, tag, text = fail
    line = start + k
    return line, "Lean predicate Sf.Abs.check: clause `%s` fails at script line %d (%s): %s" % (
        tag, line, sl[line][:60] if line < len(sl) else "?", text.strip()), TAG_CAT.get(tag, tag)
