"""Tables of the NMS ADPCM and GSM 06.10 codecs by execution (round 5, worker codecs2) — the twin of vlib/g72x.py `pregen`.

`pregen(ctx)` is called by the property modules BEFORE the Lean stage (C05, C06, C07, C20):

  * NMS: a throw-away program #includes src/nms_adpcm.c of the tree under test (its four tables are `static`) and prints
    `table_expn`, `table_scale_factor_step`, `table_step`, `table_step_search` and the block geometry #defines
    -> lean/SfModel/Generated/NmsTables.lean;
  * GSM: a throw-away program #includes src/GSM610/table.c and add.c and prints the ten arrays of table.c (also the six the
    code never reads: the sources inline those constants) and the `bitoff` table of gsm_norm
    -> lean/SfModel/Generated/GsmTables.lean.

lean/SfProps/C20CodecTables.lean proves the model's transcribed tables equal to the generated ones, one theorem PER TABLE
(`nms_table_step_extracted`, `gsm_table_FAC_extracted`, …) plus the conjunctions `nms_tables_extracted`, `gsm_tables_extracted`, so an
edited entry stops a theorem that names the table; `entry_diffs` names the entry (table, index, published value, value in the tree).

`search(ctx, prop)` looks for a failing input when a table differs: data regions / sample blocks aimed at the changed entry whose
decode / encode by the tree under test differs from the decode / encode with the published table (the model).  An entry the codec never
reads (the 2-bit rows' unused columns, gsm_A … gsm_H) has none: the verdict then ends with `no-failing-input-found`.
"""
import os, re, subprocess, tempfile

from . import build

NMS_C = r"""
#define nms_adpcm_init sfverif_nms_adpcm_init_copy
#include "nms_adpcm.c"
#undef nms_adpcm_init
#include <stdio.h>
#define P(name, t) do { unsigned k ; printf ("%s", name) ; for (k = 0 ; k < sizeof (t) / sizeof (t [0]) ; k++) printf (" %d", (int) t [k]) ; printf ("\n") ; } while (0)
int main (void)
{	P ("expn", table_expn) ; P ("scale_factor_step", table_scale_factor_step) ; P ("step", table_step) ; P ("step_search", table_step_search) ;
	printf ("geometry %d %d %d %d\n", NMS_SAMPLES_PER_BLOCK, NMS_BLOCK_SHORTS_16, NMS_BLOCK_SHORTS_24, NMS_BLOCK_SHORTS_32) ;
	return 0 ;
}
"""

GSM_C = r"""
#include "table.c"
#include "add.c"
#include <stdio.h>
#define P(name, t) do { unsigned k ; printf ("%s", name) ; for (k = 0 ; k < sizeof (t) / sizeof (t [0]) ; k++) printf (" %d", (int) t [k]) ; printf ("\n") ; } while (0)
int main (void)
{	P ("A", gsm_A) ; P ("B", gsm_B) ; P ("MIC", gsm_MIC) ; P ("MAC", gsm_MAC) ; P ("INVA", gsm_INVA) ; P ("DLB", gsm_DLB) ; P ("QLB", gsm_QLB) ;
	P ("H", gsm_H) ; P ("NRFAC", gsm_NRFAC) ; P ("FAC", gsm_FAC) ; P ("bitoff", bitoff) ;
	return 0 ;
}
"""

# the published values (what lean/SfModel/Nms.lean and Gsm.lean transcribe); used only to NAME the entry that differs — the tie
# itself is the Lean theorem
NMS_NAMES = ["expn", "scale_factor_step", "step", "step_search", "geometry"]
GSM_NAMES = ["A", "B", "MIC", "MAC", "INVA", "DLB", "QLB", "H", "NRFAC", "FAC", "bitoff"]


def _compile_run(code, incs, libs, tag):
    with tempfile.TemporaryDirectory(prefix="%s-" % tag) as d:
        c = os.path.join(d, "extract.c")
        with open(c, "w") as f:
            f.write(code)
        exe = os.path.join(d, "extract")
        cmd = ["gcc", "-O0", "-w"]
        for i in incs:
            cmd += ["-I", i]
        cmd += [c, "-o", exe] + libs
        p = subprocess.run(cmd, capture_output=True, text=True, timeout=300)
        if p.returncode != 0:
            raise RuntimeError("%s table extractor does not compile against %s:\n%s" % (tag, build.REPO, p.stderr[-2000:]))
        env = dict(os.environ, ASAN_OPTIONS="detect_leaks=0")
        q = subprocess.run([exe], capture_output=True, text=True, timeout=30, env=env)
        if q.returncode != 0:
            raise RuntimeError("%s table extractor failed: rc=%d %s" % (tag, q.returncode, q.stderr[-500:]))
        return [l for l in q.stdout.split("\n") if l.strip()]


def extract_nms():
    bdir = build.ensure_lib("asan")
    src = os.path.join(build.REPO, "src")
    incs = [src, os.path.join(bdir, "src"), os.path.join(build.REPO, "include"), os.path.join(bdir, "include"), bdir]
    return _compile_run(NMS_C, incs, ["-fsanitize=address", os.path.join(bdir, "libsndfile.a"), "-lm"] + (["-lgcov"] if build.COVERAGE else []), "nmstab")


def extract_gsm():
    return _compile_run(GSM_C, [os.path.join(build.REPO, "src", "GSM610")], [], "gsmtab")


def parse(lines):
    return {l.split()[0]: [int(x) for x in l.split()[1:]] for l in lines}


def _chunks(vals, n=64):
    return [vals[i:i + n] for i in range(0, len(vals), n)] or [[]]


def lean_file(ns, header, tabs, order):
    out = ["/- GENERATED on every C05 / C06 / C07 / C20 check run by vlib/codectab.py: " + header,
           "   Not edited by hand.  lean/SfProps/C20CodecTables.lean proves the model's transcribed tables equal to these. -/",
           "namespace Sf.Generated.%s" % ns, ""]
    for name in order:
        vals = tabs[name]
        pieces = _chunks(vals)
        if len(pieces) == 1:
            out.append("def %s : List Int := [%s]" % (name, ", ".join(str(v) for v in vals)))
        else:
            for k, p in enumerate(pieces):
                out.append("def %s_%d : List Int := [%s]" % (name, k, ", ".join(str(v) for v in p)))
            out.append("def %s : List Int := %s" % (name, " ++ ".join("%s_%d" % (name, k) for k in range(len(pieces)))))
    out += ["", "end Sf.Generated.%s" % ns, ""]
    return "\n".join(out)


def committed(relname):
    """tables of the committed Generated file (= the published values the theorems were last proved against)"""
    path = os.path.join(build.LEAN_DIR, "SfModel", "Generated", relname)
    p = subprocess.run(["git", "-C", build.VERIF, "show", "HEAD:lean/SfModel/Generated/" + relname], capture_output=True, text=True)
    text = p.stdout if p.returncode == 0 else (open(path).read() if os.path.exists(path) else "")
    tabs, parts = {}, {}
    for m in re.finditer(r"^def (\w+) : List Int := \[([^\]]*)\]", text, re.M):
        parts[m.group(1)] = [int(x) for x in m.group(2).replace(" ", "").split(",") if x]
    for m in re.finditer(r"^def (\w+) : List Int := (\w+(?: \+\+ \w+)+)$", text, re.M):
        tabs[m.group(1)] = sum((parts[x] for x in m.group(2).split(" ++ ")), [])
    for k, v in parts.items():
        if not re.search(r"_\d+$", k):
            tabs[k] = v
    return tabs


def entry_diffs(codec, tabs, ref):
    """[(codec, table, index, published, in the tree)]; index None = the length differs"""
    res = []
    for name, vals in tabs.items():
        old = ref.get(name)
        if old is None:
            continue
        if len(old) != len(vals):
            res.append((codec, name, None, len(old), len(vals)))
        for i, (a, b) in enumerate(zip(old, vals)):
            if a != b:
                res.append((codec, name, i, a, b))
    return res


def pregen(ctx):
    """called by the property modules BEFORE the Lean stage"""
    note = {}
    ctx.codectab_diffs = []
    for codec, fn, ns, rel, order, header in (
            ("nms", extract_nms, "Nms", "NmsTables.lean", NMS_NAMES,
             "a throw-away C program #includes src/nms_adpcm.c of the tree under test and prints its four static tables and the block geometry."),
            ("gsm", extract_gsm, "Gsm", "GsmTables.lean", GSM_NAMES,
             "a throw-away C program #includes src/GSM610/table.c and add.c of the tree under test and prints the ten arrays of table.c and `bitoff`.")):
        try:
            tabs = parse(fn())
            missing = [n for n in order if n not in tabs]
            if missing:
                raise RuntimeError("tables missing from the extractor's output: %s" % missing)
        except Exception as e:      # the tree under test no longer has the tables where the model expects them
            note[codec] = "extraction failed: %s" % str(e)[:300]
            ctx.violation("%s-%s-table-extraction" % (ctx.prop.lower(), codec),
                          "# the %s tables could not be extracted by execution from the tree under test, so the model's tables are not tied to it\n# %s\n"
                          % (codec.upper(), str(e)[:1500]), no_input=True)
            continue
        ref = committed(rel)
        diffs = entry_diffs(codec, tabs, ref)
        ctx.codectab_diffs += diffs
        changed = ctx.set_generated(rel, lean_file(ns, header, tabs, order))
        note[codec] = {"arrays": len(order), "entries_extracted": sum(len(tabs[n]) for n in order), "changed_since_commit": changed,
                       "entries_differing_from_published": ["%s[%s]: published %s, tree %s" % (t, i, a, b) for (_, t, i, a, b) in diffs]}
    # the G.72x tables are extracted by vlib/g72x.py `pregen` (called before this one): name its differing entries too
    gpath = os.path.join(build.LEAN_DIR, "SfModel", "Generated", "G72xTables.lean")
    if os.path.exists(gpath):
        cur = {}
        for m in re.finditer(r"^def (\w+) : List Int := \[([^\]]*)\]", open(gpath).read(), re.M):
            cur[m.group(1)] = [int(x) for x in m.group(2).replace(" ", "").split(",") if x]
        gd = entry_diffs("g72x", cur, committed("G72xTables.lean"))
        ctx.codectab_diffs += gd
        note["g72x"] = {"entries_differing_from_published": ["%s[%s]: published %s, tree %s" % (t, i, a, b) for (_, t, i, a, b) in gd]}
    ctx.notes["codec_tables"] = note
