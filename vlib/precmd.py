"""C01 — round trips after the format-affecting COMMANDS a writer may issue before the audio (round 9, gap worker gapg).

The all-format write campaign (vlib/writecamp.py) opens, writes, closes.  A writer may first call sf_command: SFC_WAVEX_SET_AMBISONIC
changes the sub-format GUID of a WAVEX file, SFC_SET_ADD_PEAK_CHUNK the chunks of a float file, SFC_RF64_AUTO_DOWNGRADE the container
that comes out, SFC_SET_UPDATE_HEADER_AUTO the moments the header is written, the conversion switches (SFC_SET_CLIPPING, SFC_SET_NORM_*,
SFC_SET_SCALE_*) the state the write kernels look at, the codec parameters (SFC_SET_VBR_ENCODING_QUALITY, SFC_SET_COMPRESSION_LEVEL,
SFC_SET_BITRATE_MODE, SFC_SET_ORIGINAL_SAMPLERATE) are refused by the uncompressed codecs.  None of them is allowed to make a LOSSLESS pair
lossy or the file unreadable (seeded/C01-wavex-ambisonic-float-guid-merged: the reader's branch for the Ambisonic float GUID lost: the
file re-opens as PCM_32 / not at all).

Deterministic matrix (nothing drawn from the seed): every COMMAND of `COMMANDS` x every (container, encoding) that has a lossless
caller type (vlib/geometry.py `lossless_types`; file-default endianness, plus the explicit ones where the container has no default
variant) x one lossless caller type (rotating with the command index, so that every type meets every command over the matrix) x a length
that is not block aligned; channel count 4 for the Ambisonic commands where the container takes it, else 2 / 1.  The jobs are
vlib/writecamp.py jobs with the command inserted behind the open (reference run in one call, split run, stale-frames run) and are decided
by `Sf.AbsWrite.judge` (lean/SfModel/AbsWrite.lean, `sfmodel abs-write`) like the main campaign's.  C01 reads the clauses roundtrip / crash /
reopen ("closing, and re-opening for read yields a file …": a file the library has just written and cannot open is a failed round trip).

Lean side: lean/SfModel/WavexGuid.lean (the sub-format GUIDs `wavlike_write_guid` emits, with and without the Ambisonic flag, and the GUID
chain of `wavlike_read_fmt_chunk`), lean/SfProps/C01WavexGuid.lean (`guid_roundtrip`: every encoding x both flags re-opens as itself).
"""
import collections
from . import writecamp as W, abswrite as AW, geometry as G, formats

F64_HALF = "000000000000e03f"

# (name, script line with %s = handle) — each is issued alone, right behind the open
COMMANDS = [
    ("ambisonic-b", "cmd %s 1200 65 null"),          # SFC_WAVEX_SET_AMBISONIC, SF_AMBISONIC_B_FORMAT
    ("ambisonic-none", "cmd %s 1200 64 null"),       # …, SF_AMBISONIC_NONE
    ("peak-off", "cmd %s 1050 0 null"),              # SFC_SET_ADD_PEAK_CHUNK FALSE
    ("peak-on", "cmd %s 1050 1 null"),
    ("rf64-downgrade", "cmd %s 1210 1 null"),        # SFC_RF64_AUTO_DOWNGRADE TRUE
    ("header-auto", "cmd %s 1061 1 null"),           # SFC_SET_UPDATE_HEADER_AUTO TRUE
    ("pad-chunk", "cmd %s 1051 1 null"),             # SFC_SET_ADD_HEADER_PAD_CHUNK TRUE
    ("clipping-on", "cmd %s 10c0 1 null"),           # SFC_SET_CLIPPING TRUE
    ("norm-float-off", "cmd %s 1013 0 null"),        # SFC_SET_NORM_FLOAT FALSE
    ("norm-double-off", "cmd %s 1012 0 null"),       # SFC_SET_NORM_DOUBLE FALSE
    ("scale-int-float-write", "cmd %s 1015 1 null"), # SFC_SET_SCALE_INT_FLOAT_WRITE TRUE
    ("scale-float-int-read", "cmd %s 1014 1 null"),  # SFC_SET_SCALE_FLOAT_INT_READ TRUE
    ("vbr-quality", "cmd %%s 1300 8 %s" % F64_HALF),       # SFC_SET_VBR_ENCODING_QUALITY 0.5
    ("compression-level", "cmd %%s 1301 8 %s" % F64_HALF), # SFC_SET_COMPRESSION_LEVEL 0.5
    ("bitrate-mode", "cmd %s 1305 4 01000000"),      # SFC_SET_BITRATE_MODE
    ("original-samplerate", "cmd %s 1500 4 44ac0000"),     # SFC_SET_ORIGINAL_SAMPLERATE 44100
]
# commands after which a write of another caller type than the stored one is no longer lossless BY DESIGN (they scale int <-> float
# conversions); a lossless pair never converts, so nothing is excluded for them: the table is empty on purpose
EXCLUDED = {}


class PreJob(W.Job):
    def __init__(self, pre_name, pre_line, *a):
        W.Job.__init__(self, *a)
        self.pre_name, self.pre_line = pre_name, pre_line

    def name(self, i):
        return "pre-%s-%s" % (self.pre_name, W.Job.name(self, i))

    def _ins(self, text):
        sl = text.split("\n")
        h = sl[0].split()[1]
        return "\n".join([sl[0], self.pre_line % h] + sl[1:])

    def script_single(self, rng, garbage=None):
        return self._ins(W.Job.script_single(self, rng, garbage))

    def script_split(self, rng, updates=True):
        return self._ins(W.Job.script_split(self, rng, False))


def pick_formats(ctx):
    fs = [f for f in formats.writable_formats(ctx) if f.major != 0x16 and G.lossless_types(f)]
    have_default = {(f.major, f.codec) for f in fs if f.endian == 0}
    return [f for f in fs if f.endian == 0 or (f.major, f.codec) not in have_default]


def det_vals(ty, n, lowzero, salt):
    out, x = [], (salt * 2654435761 + 99991) & 0xFFFFFFFF
    special = {"s16": [0x7FFF, 0x8000, 0xFFFF, 1], "s32": [0x7FFFFFFF, 0x80000000, 0xFFFFFFFF, 0x12345678],
               "f32": [0x7F7FFFFF, 0xFF7FFFFF, 0x00800000, 0x80000000, 0x3F800000, 0xBF7FFFFF],          # FLT_MAX, -FLT_MAX, FLT_MIN, -0.0, 1.0, -(1 - ulp)
               "f64": [0x7FEFFFFFFFFFFFFF, 0xFFEFFFFFFFFFFFFF, 0x0010000000000000, 0x8000000000000000, 0x3FF0000000000000, 0x3FB999999999999A]}[ty]
    bits = {"s16": 16, "s32": 32, "f32": 32, "f64": 64}[ty]
    for i in range(n):
        if i < len(special):
            v = special[i]
        else:
            x = (x * 1103515245 + 12345) & 0x7FFFFFFF
            if ty in ("s16", "s32"):
                v = (x * 2654435761) & ((1 << bits) - 1)
            elif ty == "f32":
                v = (0x3F000000 - ((x >> 3) % 0x04000000)) | ((x & 1) << 31)          # finite, |v| <= 0.5
            else:
                v = (0x3FE0000000000000 - ((x * 1103515245) % 0x0080000000000000)) | ((x & 1) << 63)
        if ty in ("s16", "s32") and lowzero:
            v &= ((1 << bits) - 1) ^ ((1 << lowzero) - 1)
        out.append(v)
    return out


def make_jobs(ctx, only=None):
    jobs = []
    for ci, (cname, cline) in enumerate(COMMANDS):
        if only and cname not in only:
            continue
        for fi, f in enumerate(pick_formats(ctx)):
            loss = G.lossless_types(f)
            tys = sorted(loss)
            ty = tys[(ci + fi) % len(tys)]
            ch = min(f.maxch, 4) if cname.startswith("ambisonic") else min(f.maxch, 2 if (ci + fi) % 2 else 1)
            B = G.block_frames(f, ch, 8000)
            n = 37 + (ci % 3) if f.codec not in (0x70, 0x71, 0x72, 0x73) else 4096 + 37       # ALAC: beyond one packet
            j = PreJob(cname, cline, f, ch, 8000, n, ty, det_vals(ty, n * ch, loss[ty], f.word + ci), loss[ty])
            j.garbage = 0
            jobs.append(j)
    return jobs


CATS = {"roundtrip", "crash", "reopen"}


def run_jobs(ctx, jobs):
    """reference run + split run of every job, judged by `sfmodel abs-write` ALONE (the Python predicate of vlib/writecamp.py reads fixed line
    positions and is not used here); returns result dicts in the shape vlib/abswrite.py `replay_text` takes"""
    rng = ctx.rng
    s1 = [(j.name(i) + "-one", j.script_single(rng)) for i, j in enumerate(jobs)]
    s2 = [(j.name(i) + "-split", j.script_split(rng)) for i, j in enumerate(jobs)]
    out = ctx.batch(s1 + s2, clean=True)
    res, texts = [], []
    for i, j in enumerate(jobs):
        r = {"job": j, "script1": s1[i][1], "script2": s2[i][1], "script3": "", "lines1": out.get(s1[i][0], []), "lines2": out.get(s2[i][0], [])}
        text, n = AW.record_text("rec%d" % i, AW.job_geom(j), [("one", r["script1"], r["lines1"]), ("split", r["script2"], r["lines2"])])
        texts.append(("rec%d" % i, text))
        res.append(r)
    verd = AW.run_driver(ctx.sfmodel(), texts) if texts else {}
    for i, r in enumerate(res):
        v = verd.get("rec%d" % i)
        if v is None:
            raise RuntimeError("sfmodel abs-write printed no verdict for record %d (%s)" % (i, r["job"].name(i)))
        r["lean"] = v
        r["problems"] = [(AW.TAG_CAT.get(tag, tag), AW.describe(tag, run, idx, detail), run, None) for (tag, run, idx, detail) in v.fails]
    return res


def run(ctx, prop="C01"):
    jobs = make_jobs(ctx)
    res = run_jobs(ctx, jobs)
    ctx.count(sum(len(r["job"].parts) + 4 for r in res), tag="pre-commands")
    ctx.coverage["traces_validated_against_impl"] += len(res)
    stats = collections.Counter(jobs=len(jobs), commands=len(COMMANDS), formats=len(pick_formats(ctx)))
    reported = set()
    n = 0
    for r in res:
        j = r["job"]
        ctx.distinct.add("precmd:%s:%s" % (j.pre_name, j.fmt.name))
        for (cat, text, which, line) in r["problems"]:
            if cat not in CATS:
                stats["failures_of_other_properties"] += 1
                continue
            stats["failures"] += 1
            key = (j.pre_name, j.fmt.major, cat)
            if key in reported or n >= 6:
                continue
            reported.add(key)
            n += 1
            ctx.violation("%s-precmd-%s-%s-%s" % (prop.lower(), j.pre_name, j.fmt.name, cat),
                          AW.replay_text(prop, r, cat, "after `%s` (%s) issued behind the open (vlib/precmd.py): %s" % (j.pre_line % "h0", j.pre_name, text)))
    ctx.notes["pre_commands"] = dict(stats)
    if res:
        r = res[len(res) // 2]
        ctx.sample({"kind": "round trip after a command issued before the audio", "command": r["job"].pre_name, "format": r["job"].fmt.name, "script": r["script1"][:400]})
    return n > 0
