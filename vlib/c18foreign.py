"""C18: FOREIGN-BUT-VALID PEAK PLACEMENTS x SFM_RDWR SESSIONS x close -> re-open.

Why this exists (round 9, seed C18-wavlike-tailer-peak-end-lost): the library's own writer puts the PEAK chunk in front of the audio
(`peak_loc == SF_PEAK_START`, rewritten by `*_write_header`).  The parsers of WAV / WAVEX / RF64 / AIFF also accept a PEAK chunk BEHIND
the audio (`SF_PEAK_END`); for such a file the chunk has to be rewritten by the TAILER of an SFM_RDWR session (`wav_write_tailer`,
`aiff_write_tailer`), a path no library-written file ever takes.  A tailer that forgets the chunk loses it silently: the appended audio
overwrites the old one (or the truncation at close removes it) and SFC_GET_SIGNAL_MAX answers SF_FALSE after re-open.

What is enumerated (deterministic — nothing depends on the seed except sample values):
  containers   WAV, RIFX, WAVEX, RF64 (PEAK enabled), AIFF  x  FLOAT / DOUBLE  x  1 / 2 channels
  placement    front (the library's layout: control) | behind: PEAK right behind the audio | behind+tail: an unknown chunk behind it |
               unknown+behind: an unknown chunk between the audio and PEAK | front+unknown: a 40-byte unknown chunk in front of PEAK
  session      (on ONE SFM_RDWR handle) nothing | read only | append louder | append quieter | overwrite louder (another frame) |
               overwrite quieter (a frame that holds no maximum) | overwrite the loudest frames with quieter ones (stale class)
  then         close, dump, re-open SFM_READ: SFC_GET_MAX_ALL_CHANNELS, SFC_GET_SIGNAL_MAX, SFC_CALC_MAX_ALL_CHANNELS, SFC_CALC_SIGNAL_MAX, read back
THE PREDICATE (on the implementation's own transcript; a placement the unchanged reader does not take as this file + this PEAK is
counted `unusable`, never reported):
  present     the re-opened file still answers the GET commands (it carried PEAK data when it was opened and nothing switched it off)
  chunk       exactly one PEAK chunk in the closed file, and GET == that chunk
  truth       GET value / position per channel == maximum |sample| of the STORED samples and the frame of its first occurrence — for every
              session except the stale class (there: GET == chunk only; the bookkeeping only grows, C18Stale)
  calc        SFC_CALC_* == maxima of the samples read back
Lean: lean/SfModel/PeakLoc.lean + lean/SfProps/C18PeakLoc.lean (`close_keeps_peak`: header writer + tailer of an SFM_RDWR close keep
exactly one PEAK chunk for both locations; `tailer_without_peak_loses_end_peak`: the tailer without the PEAK clause does not)."""
import collections, struct
from . import c18lib as L, abscheck

PLACEMENTS = ["front", "behind", "behind+tail", "unknown+behind", "front+unknown"]
SESSIONS = ["nothing", "read-only", "append-louder", "append-quieter", "overwrite-louder", "overwrite-quieter", "overwrite-loudest"]
CONTS = ["wav", "rifx", "wavex", "rf64", "aiff"]
UNK = b"zzzz"


def _walk(container, data):
    """[(id, payload offset, payload size, chunk start, chunk end incl. pad)] of a library-written RIFF / RF64 / FORM file"""
    flav = L.CONTAINERS[container][1]
    e = "<" if flav == "riff-le" else ">"
    out, pos, ds64_data = [], 12, None
    while pos + 8 <= len(data):
        cid, size = data[pos:pos + 4], struct.unpack(e + "I", data[pos + 4:pos + 8])[0]
        if cid == b"ds64":
            ds64_data = struct.unpack("<Q", data[pos + 16:pos + 24])[0]
        if cid == b"data" and size == 0xFFFFFFFF and ds64_data is not None:
            size = ds64_data
        end = pos + 8 + size + (size & 1)
        out.append((cid, pos + 8, size, pos, min(end, len(data))))
        pos = end
    return out


def _grow(container, data, n):
    """the file's outer size field(s) grown by n bytes"""
    b = bytearray(data)
    flav = L.CONTAINERS[container][1]
    if container == "rf64":
        k = bytes(b).find(b"ds64")
        v = struct.unpack("<Q", b[k + 8:k + 16])[0]
        b[k + 8:k + 16] = struct.pack("<Q", v + n)
    else:
        e = "<" if flav == "riff-le" else ">"
        v = struct.unpack(e + "I", b[4:8])[0]
        b[4:8] = struct.pack(e + "I", v + n)
    return bytes(b)


def _unknown(container, n):
    flav = L.CONTAINERS[container][1]
    e = "<" if flav == "riff-le" else ">"
    return UNK + struct.pack(e + "I", n) + bytes((7 * i + 3) & 0xFF for i in range(n))


def place(container, data, placement):
    """the library-written file with its PEAK chunk moved; None when the base file has no PEAK chunk in front of the audio"""
    if placement == "front":
        return data
    cs = _walk(container, data)
    audio = b"SSND" if container == "aiff" else b"data"
    pk = next((c for c in cs if c[0] == b"PEAK"), None)
    au = next((c for c in cs if c[0] == audio), None)
    if pk is None or au is None or pk[3] > au[3] or au[4] != len(data):
        return None
    peak = data[pk[3]:pk[4]]
    if placement == "front+unknown":
        u = _unknown(container, 40)
        return _grow(container, data[:pk[3]] + u + data[pk[3]:], len(u))
    body = data[:pk[3]] + data[pk[4]:]
    if placement == "behind":
        return body + peak
    if placement == "behind+tail":
        u = _unknown(container, 6)
        return _grow(container, body + peak + u, len(u))
    if placement == "unknown+behind":
        u = _unknown(container, 10)
        return _grow(container, body + u + peak, len(u))
    raise ValueError(placement)


def all_peaks(container, data):
    """every PEAK chunk of the file, wherever it sits: [(chunk bytes, offset)]"""
    return [(data[c[3]:c[3] + 8 + c[2]], c[3]) for c in _walk(container, data) if c[0] == b"PEAK"]


def _items(ty, rows):
    return "".join("%0*x" % (L.DIG[ty], L.f32b(v / 1024.0) if ty == "f32" else L.f64b(v / 1024.0)) for r in rows for v in r)


def gen(rng, quick):
    """jobs: dict(name, container, enc, ch, placement, session, rows, base script)"""
    jobs, k = [], 0
    for container in CONTS:
        for pi, placement in enumerate(PLACEMENTS):
            for si, session in enumerate(SESSIONS):
                for enc in (("f32", "f64") if not quick else (("f32", "f64")[(pi + si + k) % 2],)):
                    k += 1
                    ch = 1 + (k % 2)
                    F = 12 + (k % 5)
                    rows = [[rng.choice([-1, 1]) * rng.randrange(0, 129) for _ in range(ch)] for _ in range(F)]
                    loud = {}
                    for c in range(ch):
                        p = 2 + (3 * c + k) % (F - 4)
                        rows[p][c] = rng.choice([-1, 1]) * 64 * rng.randrange(5, 9)       # 0.3125 .. 0.5, exact in binary32
                        loud[c] = p
                    word = L.CONTAINERS[container][0] | L.ENC[enc]
                    ls = ["open h0 s0 w fmt=%08x ch=%d sr=8000" % (word, ch)]
                    if container == "rf64":
                        ls.append("cmd h0 1050 1 null")
                    ls += ["w h0 %s f %d %s" % (enc, F, _items(enc, rows)), "close h0", "dump s0"]
                    jobs.append({"name": "fp%03d-%s-%s-c%d-%s-%s" % (k, container, enc, ch, placement, session), "container": container, "enc": enc, "ch": ch,
                                 "placement": placement, "session": session, "rows": rows, "loud": loud, "word": word, "base": "\n".join(ls) + "\n"})
    return jobs


def session_lines(rng, job):
    """(script lines on h1, the rows the file must hold afterwards)"""
    ch, rows, loud = job["ch"], [list(r) for r in job["rows"]], job["loud"]
    F, s, ty = len(rows), job["session"], rng.choice(["f32", "f64"])
    ls = []
    quiet = lambda: [rng.choice([-1, 1]) * rng.randrange(0, 129) for _ in range(ch)]
    louder = lambda: [rng.choice([-1, 1]) * 64 * rng.randrange(10, 15) if (c == 0 or rng.random() < 0.6) else rng.randrange(0, 100) for c in range(ch)]
    free = [p for p in range(F) if p not in loud.values()]
    if s == "read-only":
        ls += ["r h1 f64 f 3"]
    elif s in ("append-louder", "append-quieter"):
        new = [quiet(), louder() if s == "append-louder" else quiet(), quiet()]
        ls += ["seek h1 0 34", "w h1 %s f 2 %s" % (ty, _items(ty, new[:2])), "w h1 %s i %d %s" % (ty, ch, _items(ty, new[2:]))]
        rows += new
    elif s in ("overwrite-louder", "overwrite-quieter"):
        p = free[len(free) // 2]
        new = [louder() if s == "overwrite-louder" else quiet()]
        ls += ["seek h1 %d 32" % p, "w h1 %s f 1 %s" % (ty, _items(ty, new))]
        rows[p] = new[0]
    elif s == "overwrite-loudest":
        for p in sorted(set(loud.values())):
            new = [quiet()]
            ls += ["seek h1 %d 32" % p, "w h1 %s f 1 %s" % (ty, _items(ty, new))]
            rows[p] = new[0]
    return ls, rows


def truth(rows, ch):
    """per channel: (maximum |v| as binary32 bits, frame of the first occurrence)"""
    out = []
    for c in range(ch):
        m = max(abs(r[c]) for r in rows)
        out.append((L.f32b(m / 1024.0), next(i for i, r in enumerate(rows) if abs(r[c]) == m)))
    return out


def campaign(ctx, quick=True):
    rng = ctx.rng
    findings, stats = [], collections.Counter()
    jobs = gen(rng, quick)
    out = ctx.batch([(j["name"], j["base"]) for j in jobs], clean=True, workers=4)
    tests = []
    for j in jobs:
        stats["jobs"] += 1
        lines = out.get(j["name"], [])
        d = next((l for l in lines if l.startswith("len=") and "hex=" in l), None)
        if d is None or any(l.startswith(L.DEAD) for l in lines):
            stats["unusable:base"] += 1
            continue
        base = bytes.fromhex(d.split("hex=")[1])
        f = place(j["container"], base, j["placement"])
        if f is None:
            stats["unusable:no-peak-in-base"] += 1
            continue
        ch = j["ch"]
        sl, rows = session_lines(rng, j)
        F2 = len(rows)
        tail = ["cmd %s 1045 %d zero", "cmd %s 1044 8 zero", "cmd %s 1042 %d zero", "cmd %s 1040 8 zero"]
        fill = lambda h: [t % ((h, 8 * ch) if t.count("%") == 2 else (h,)) for t in tail]
        ls = (["store s0 " + f.hex(), "open h8 s0 r fmt=0 ch=0 sr=0"] + fill("h8")[:2] + ["r h8 f64 f %d" % (len(j["rows"]) + 2), "close h8",
              "open h1 s0 rw fmt=%08x ch=%d sr=8000" % (j["word"], ch)] + sl + ["close h1", "dump s0", "open h9 s0 r fmt=0 ch=0 sr=0"] + fill("h9") +
              ["r h9 f64 f %d" % (F2 + 2), "close h9"])
        tests.append((j, "\n".join(ls) + "\n", rows, len(sl)))
    out2 = ctx.batch([(j["name"], sc) for (j, sc, rows, ns) in tests], workers=4)
    for (j, script, rows, ns) in tests:
        name, ch, cont = j["name"], j["ch"], j["container"]
        lines = out2.get(name, [])
        sl = script.strip().split("\n")
        ctx.count(len(sl), "foreign-peak:%s:%s:%s" % (cont, j["placement"], j["session"]))
        ctx.distinct.add("foreign-peak:%s:%s:%s" % (cont, j["placement"], j["session"]))
        stats["ops"] += len(sl)
        dead = [l for l in lines if l.startswith(L.DEAD)]
        if dead:
            findings.append(L.Finding("crash", name, "the process died: %s" % dead[0], script, cat="crash"))
            continue
        if len(lines) < len(sl):
            findings.append(L.Finding("crash", name, "transcript ends early (%d of %d lines)" % (len(lines), len(sl)), script, cat="crash"))
            continue
        # --- is the foreign file usable at all: the unchanged reader must take it as the base file with the base PEAK data ---
        want0 = truth(j["rows"], ch)
        r0, e0, d0 = L.cmd_doubles(lines[2])
        kv0 = abscheck.parse_kv(lines[4])
        exp0 = "".join("%016x" % L.f64b(v / 1024.0) for r in j["rows"] for v in r)
        if "open=ok" not in lines[1] or r0 != 1 or d0 != [L.widen(v) for v, _ in want0] or kv0.get("ret") != str(len(j["rows"])) or not kv0.get("data", "").startswith(exp0):
            stats["unusable:%s" % j["placement"]] += 1
            continue
        k_rw = 6
        if "open=ok" not in lines[k_rw]:
            stats["unusable:rdwr-open-%s" % j["placement"]] += 1
            continue
        k_close = k_rw + 1 + ns
        wbad = [(a, b) for a, b in zip(sl[k_rw + 1:k_close], lines[k_rw + 1:k_close]) if a.startswith("w ") and abscheck.parse_kv(b).get("ret") != a.split()[4]]
        kvr = abscheck.parse_kv(lines[k_close + 7])
        exp = "".join("%016x" % L.f64b(v / 1024.0) for r in rows for v in r)
        if wbad or lines[k_close].strip() != "ret=0" or "open=ok" not in lines[k_close + 2] or kvr.get("ret") != str(len(rows)) or not kvr.get("data", "").startswith(exp):
            # the session itself does not store the audio on this layout: C08 / C14 own that (foreign layouts through SFM_RDWR)
            stats["unusable:audio-%s" % j["placement"]] += 1
            continue
        stats["judged"] += 1
        stats["judged:%s" % j["placement"]] += 1
        probs = []
        data = bytes.fromhex(lines[k_close + 1].split("hex=")[1])
        want = truth(rows, ch)
        ra, ea, da = L.cmd_doubles(lines[k_close + 3])      # 1045
        rs, es, dsg = L.cmd_doubles(lines[k_close + 4])     # 1044
        pks = all_peaks(cont, data)
        if ra != 1 or rs != 1:
            probs.append(("present", "after the SFM_RDWR session (%s) and close the re-opened file has no PEAK information: SFC_GET_MAX_ALL_CHANNELS -> `%s`, SFC_GET_SIGNAL_MAX -> `%s`; "
                          "the file answered both before the session (PEAK chunk placement: %s); PEAK chunks in the closed file: %d"
                          % (j["session"], lines[k_close + 3][:60], lines[k_close + 4][:60], j["placement"], len(pks))))
        elif len(pks) != 1:
            probs.append(("chunk", "the closed file holds %d PEAK chunks (offsets %s)" % (len(pks), [o for _, o in pks])))
        else:
            pp, vals, poss = L.parse_peak(cont, pks[0][0], ch)
            if pp:
                probs.append(("chunk", "; ".join(pp)))
            else:
                if da != [L.widen(v) for v in vals] or dsg != [max(L.widen(v) for v in vals)]:
                    probs.append(("chunk", "SFC_GET_MAX_ALL_CHANNELS / SFC_GET_SIGNAL_MAX [%s / %s] differ from the PEAK chunk in the file [%s]"
                                  % (",".join(map(L.hx64, da)), ",".join(map(L.hx64, dsg)), ",".join(map(L.hx32, vals)))))
                if j["session"] != "overwrite-loudest":
                    for c in range(ch):
                        if (vals[c], poss[c]) != want[c]:
                            probs.append(("truth", "channel %d: PEAK chunk after close says value %s at frame %d; the stored samples have maximum %s first at frame %d (session %s, placement %s)"
                                          % (c, L.hx32(vals[c]), poss[c], L.hx32(want[c][0]), want[c][1], j["session"], j["placement"])))
        rc, ec, dc = L.cmd_doubles(lines[k_close + 5])      # 1042
        r1, e1, d1 = L.cmd_doubles(lines[k_close + 6])      # 1040
        wc = [L.widen(v) for v, _ in want]
        if rc != 0 or dc != wc or r1 != 0 or d1 != [max(wc)]:
            probs.append(("calc", "SFC_CALC_MAX_ALL_CHANNELS / SFC_CALC_SIGNAL_MAX = [%s] / [%s], stored samples have [%s]"
                          % (",".join(map(L.hx64, dc)), ",".join(map(L.hx64, d1)), ",".join(map(L.hx64, wc)))))
        if probs:
            stats["failing"] += 1
            # the replay ends at the first command whose answer shows the failure; `expect-last` = what the property demands there
            cat0 = probs[0][0]
            hexd = lambda bits: b"".join(struct.pack("<Q", b) for b in bits).hex()
            if cat0 == "calc":
                cutk, expect = k_close + 5, ["ret=0 err=0 data=" + hexd(wc)]
            elif cat0 == "present" or j["session"] == "overwrite-loudest":
                cutk, expect = k_close + 3, ["ret=1 err=0"]
            elif cat0 == "truth":
                # values AND positions: the PEAK chunk the closed file must hold, as bytes of the dump
                e = "<" if L.CONTAINERS[cont][1] == "riff-le" else ">"
                chunk = b"PEAK" + struct.pack(e + "III", 8 + 8 * ch, 1, L.TIMESTAMP) + b"".join(struct.pack(e + "II", v, p_) for (v, p_) in want)
                cutk, expect = k_close + 1, [chunk.hex()]
            else:
                cutk, expect = k_close + 3, ["ret=1 err=0 data=" + hexd(wc)]
            f_ = L.Finding("truth", name, "; ".join(t for _, t in probs[:4]), "\n".join(sl[:cutk + 1]) + "\n", cat="foreign-" + cat0)
            f_.expect = expect
            findings.append(f_)
    return findings, stats
