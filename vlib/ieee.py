"""C20, IEEE part — the portable IEEE-754 serialisers (float32.c / double64.c) and the byte-order helpers (sfendian.h).

What runs here (called from vlib/props/c20.py):
 1. regressions: the witness of the repaired defect KF-C20-ieee-flush (writers flushed |x| < 1e-30 to zero) is replayed by
    ctx.run_regressions(); the class is no longer waived anywhere;
 2. kernel streams: the eight routines float32_{be,le}_{read,write}, double64_{be,le}_{read,write} are called directly
    (`sfh ieee <routine>`; the *_be_* routines are not reachable with arbitrary data through the public API on a
    little-endian host) on a boundary dictionary and on seeded patterns stratified by exponent field, and compared
      (a) with the native representation          -> the property predicate (every finite normal value),
      (b) with the lib-shaped model `sfmodel ieee` -> the correspondence (every pattern: subnormals, +-0, Inf, NaN too);
 3. API streams: RAW files, SF_FORMAT_FLOAT / SF_FORMAT_DOUBLE, both file byte orders, with SFC_TEST_IEEE_FLOAT_REPLACE
    switched on before the first transfer: sf_write_float/double -> file bytes, crafted file bytes -> sf_read_float/double,
    compared with the same script run WITHOUT the command (the native path of the same library: that comparison is the
    C20 statement) and with the model (`replaceWriteF32` &c.: f2bf_array / bf2f_array + endswap_*_array);
 4. byte-order helpers: ENDSWAP_16 and psf_put_be16 / psf_get_be16 exhaustively, the 24/32/64-bit ones on a dictionary and
    seeded values; involution and put/get round trip are evaluated on the implementation's own answers.
 5. the *_be_* routines through the public API: AIFF PEAK values (float32_be_write on close, float32_be_read on open, read back
    with SFC_GET_MAX_ALL_CHANNELS; 1024 channels per file) and the MAT4 big-endian sample-rate field (double64_be_write /
    double64_be_read).
C01 (run_c01_replace, called from vlib/props/c01.py): write -> close -> re-open -> read through the portable path for both types and
both file byte orders; bit-exact for EVERY finite value (KF-C01-ieee-tiny is repaired: the writers encode exponent field 0 and -0.0; its
witness is a regression test now).  Every stream carries `tiny_patterns`: exponent field 0 heavily (random, single-bit, all-ones-prefix
mantissas, the neighbours of the smallest normal number, both signs, both zeros).
A value where the implementation differs from the native representation on a normal number outside the known class is a
VIOLATION whose replay holds that one value; a disagreement with the model that falsifies nothing is reported with
no-failing-input-found.
"""
import array, concurrent.futures, os, random, struct, subprocess, time

FLUSH32 = 0x0DA24260            # old rule (before the fix: commit): smallest binary32 magnitude with (double) x >= 1e-30
FLUSH64 = 0x39B4484BFEEBC2A0    # the double 1e-30 itself; both stay in the dictionary as regression points
KF_TINY = "KF-C01-ieee-tiny"

FLOAT_ROUTINES = ["f32-be-read", "f32-le-read", "f32-be-write", "f32-le-write",
                  "f64-be-read", "f64-le-read", "f64-be-write", "f64-le-write"]


# ------------------------------------------------------------------------------------------------ small helpers
def width_of(rt):
    return 8 if rt.startswith("f32") or "32" in rt else 16


def swap_items(hexline, digits):
    """byte-reverse every fixed-width item of a hex line"""
    a = array.array("I" if digits == 8 else "Q", bytes.fromhex(hexline))
    a.byteswap()
    return a.tobytes().hex()


def is_normal(v, digits):
    if digits == 8:
        e = (v >> 23) & 0xFF
        return e != 0 and e != 0xFF
    e = (v >> 52) & 0x7FF
    return e != 0 and e != 0x7FF


def is_finite(v, digits):
    return ((v >> 23) & 0xFF) != 0xFF if digits == 8 else ((v >> 52) & 0x7FF) != 0x7FF


def is_tiny(v, digits):
    """KF.ieeeTiny: exponent field 0 and not +0 (subnormal or -0)"""
    e = (v >> 23) & 0xFF if digits == 8 else (v >> 52) & 0x7FF
    return e == 0 and v != 0


def tiny_patterns(digits, rnd, n):
    """exponent field 0, heavily (the class of the repaired KF-C01-ieee-tiny / KF-C18-PEAK-SUBNORMAL): both zeros, every single-bit
    mantissa, every all-ones prefix / suffix, the neighbours of the smallest normal number, then n seeded mantissas of random
    length; both signs throughout"""
    mb, eb = (23, 8) if digits == 8 else (52, 11)
    full = (1 << mb) - 1
    sign = 1 << (mb + eb)
    pos = [0, 1, 2, 3, full, full - 1, full + 1, full + 2, (1 << mb) | full, 2 << mb]      # ... smallest normal, its successor, end of binade 1
    for k in range(mb):
        pos += [1 << k, (1 << k) - 1, (1 << k) + 1, full ^ (1 << k), full >> k, (full >> k) << k & full, (full << k) & full]
    out = [p for p in pos] + [p | sign for p in pos]
    for _ in range(n):
        m = rnd.getrandbits(rnd.randrange(1, mb + 1))
        if rnd.randrange(4) == 0:
            m = (m << rnd.randrange(mb)) & full
        out.append((rnd.getrandbits(1) << (mb + eb)) | m)
    return out


def dictionary(digits):
    """boundary patterns (values), both signs"""
    if digits == 8:
        mb, eb, fl = 23, 8, FLUSH32
    else:
        mb, eb, fl = 52, 11, FLUSH64
    emax = (1 << eb) - 1
    full = (1 << mb) - 1
    pos = [0, 1, 2, full - 1, full, 1 << (mb - 1),                               # zero, subnormals
           1 << mb, (1 << mb) + 1, (1 << mb) | full, 2 << mb,                     # smallest normals
           fl - 2, fl - 1, fl, fl + 1, fl + 2,                                    # 1e-30 neighbours as exact patterns
           (emax - 1) << mb | full, (emax - 1) << mb, ((emax - 1) << mb | full) - 1,   # largest finite
           emax << mb, emax << mb | 1, emax << mb | (1 << (mb - 1)), emax << mb | full]  # Inf, sNaN, qNaN, all ones
    bias = (1 << (eb - 1)) - 1
    for k in (-30, -10, -2, -1, 0, 1, 2, 10, 23, 24, 30, 52, 53, 100):             # powers of two, 1 +- ulp, all-ones mantissas
        e = bias + k
        if 0 < e < emax:
            pos += [e << mb, e << mb | 1, e << mb | full, (e << mb | full) - 1, e << mb | (1 << (mb - 1)), e << mb | 0x555555 & full]
    for e in range(1, emax):                                                       # one value in every binade
        pos.append(e << mb | ((e * 0x9E3779B97F4A7C15) & full))
    sign = 1 << (mb + eb)
    return pos + [p | sign for p in pos]


def hexline(vals, digits):
    fmt = "%%0%dx" % digits
    return "".join(fmt % v for v in vals)


def items_of(line, digits):
    return [line[k:k + digits] for k in range(0, len(line) - digits + 1, digits)]


# ------------------------------------------------------------------------------------------------ running both sides
def sfh_ieee(ctx, args, inp=None):
    e = dict(os.environ)
    e["ASAN_OPTIONS"] = "exitcode=77:detect_leaks=0:abort_on_error=0"
    p = subprocess.run([ctx.sfh()] + ["ieee"] + args, input=inp, capture_output=True, text=True, timeout=900, env=e)
    return p


def model_lines(ctx, routine, lines):
    out = ctx.run_model(["ieee", routine], "\n".join(lines) + "\n", timeout=900)
    res = out.split("\n")
    if res and res[-1] == "":
        res.pop()
    return res


def model_name(rt):
    return rt[:-1] if rt in ("swap16c", "swap32c", "swap64c") else rt


# ------------------------------------------------------------------------------------------------ predicate
def native_expected(rt, in_line, digits):
    """what 'agrees bit for bit with the native representation' demands for every item of the line"""
    if rt.endswith("be-read") or rt.endswith("be-write"):
        return in_line
    return swap_items(in_line, digits)


def value_of_item(rt, item_hex, digits):
    """the floating value pattern an input item denotes"""
    if rt.endswith("le-read"):
        return int(swap_items(item_hex, digits), 16)
    return int(item_hex, 16)


def judge_line(rt, digits, in_line, out_line, stats):
    """-> list of (item_hex, got, want, kind) for items that falsify the property; counts the known class in stats"""
    exp = native_expected(rt, in_line, digits)
    if exp == out_line:
        return []
    bad = []
    for k in range(0, len(in_line), digits):
        got = out_line[k:k + digits]
        want = exp[k:k + digits]
        if got == want:
            continue
        item = in_line[k:k + digits]
        v = value_of_item(rt, item, digits)
        if not is_normal(v, digits):
            stats["outside_statement"] += 1          # subnormal, zero, Inf, NaN: the statement says "finite normal value"
            continue
        bad.append((item, got, want, "normal"))
    return bad


# ------------------------------------------------------------------------------------------------ replay files
def replay_text(rt, item, got, want, model, note):
    return ("# C20 (IEEE serialisers): %s\n# routine %s, input item %s: implementation %s, native representation %s, model %s\n"
            "c20-ieee %s %s %s\n" % (note, rt, item, got, want, model, rt, item, want))


def api_script(fmt, ty, replace, write_hex=None, n=0, store_hex=None):
    lines = []
    if store_hex is not None:
        lines.append("store s0 " + store_hex)
        lines.append("open h0 s0 r fmt=%s ch=1 sr=8000" % fmt)
    else:
        lines.append("open h0 s0 w fmt=%s ch=1 sr=8000" % fmt)
    if replace:
        lines.append("cmd h0 6001 1 null")
    digits = 8 if ty == "f32" else 16
    if store_hex is not None:
        done = 0
        while done < n:
            c = min(65536, n - done)
            lines.append("r h0 %s i %d" % (ty, c))
            done += c
        lines.append("close h0")
    else:
        for k in range(0, n, 65536):
            c = min(65536, n - k)
            lines.append("w h0 %s i %d %s" % (ty, c, write_hex[k * digits:(k + c) * digits]))
        lines.append("close h0")
        lines.append("dump s0")
    return "\n".join(lines) + "\n"


def is_ieee_replay(path):
    try:
        return any(l.startswith("c20-ieee ") for l in open(path))
    except OSError:
        return False


def replay(ctx, path):
    """`bin/check C20 --replay f` for a kernel-stream replay: `c20-ieee <routine> <item> <expected>`"""
    text = open(path).read()
    print(text)
    for l in text.split("\n"):
        if l.startswith("c20-ieee "):
            _, rt, item, want = l.split()[:4]
            p = sfh_ieee(ctx, [rt], item + "\n")
            got = p.stdout.strip()
            print("sfh ieee %s %s -> %s (expected %s)" % (rt, item, got, want))
            if p.returncode != 0 or got != want:
                ctx.report(path)
            else:
                print("replay: expectation met (no violation on this tree)")
            return
    ctx.report(path, no_input=True)


# ------------------------------------------------------------------------------------------------ the campaign
def kernel_stream(ctx, rt, n_rand, seed):
    """-> dict(routine, n, bad=[...], diff=(item, impl, model) or None, stats)"""
    digits = width_of(rt)
    stats = {"outside_statement": 0}
    vals = dictionary(digits)
    if rt.endswith("le-read"):
        dline = swap_items(hexline(vals, digits), digits)
    else:
        dline = hexline(vals, digits)
    p = sfh_ieee(ctx, [rt], dline + "\n")
    if p.returncode != 0:
        return {"routine": rt, "crash": "sfh ieee %s (dictionary) exit %d\n%s" % (rt, p.returncode, p.stderr[-2000:])}
    ins, outs = [dline], [p.stdout.split("\n")[0]]
    p = sfh_ieee(ctx, [rt, "rand", str(seed), str(n_rand)])
    if p.returncode != 0:
        return {"routine": rt, "crash": "sfh ieee %s rand exit %d\n%s" % (rt, p.returncode, p.stderr[-2000:])}
    for l in p.stdout.split("\n"):
        if l.startswith("in "):
            ins.append(l[3:])
        elif l.startswith("out "):
            outs.append(l[4:])
    # exponent field 0, heavily (the seeded sweep above gives it 1/256 resp. 1/2048 of the patterns)
    tv = tiny_patterns(digits, random.Random(seed * 1000003 + 77), max(4096, n_rand // 16))
    tlines = [hexline(tv[k:k + 4096], digits) for k in range(0, len(tv), 4096)]
    if rt.endswith("le-read"):
        tlines = [swap_items(t, digits) for t in tlines]
    p = sfh_ieee(ctx, [rt], "".join(t + "\n" for t in tlines))
    touts = p.stdout.split("\n")[:len(tlines)]
    if p.returncode != 0 or len(touts) != len(tlines):
        return {"routine": rt, "crash": "sfh ieee %s (exponent field 0 patterns) exit %d\n%s" % (rt, p.returncode, p.stderr[-2000:])}
    ins += tlines
    outs += touts
    stats["exponent_field_0_patterns"] = len(tv)
    mods = model_lines(ctx, rt, ins)
    bad, diff = [], None
    n = 0
    for i, (a, o) in enumerate(zip(ins, outs)):
        n += len(a) // digits
        m = mods[i] if i < len(mods) else ""
        for (item, got, want, kind) in judge_line(rt, digits, a, o, stats):
            k = a.find(item)
            while k % digits:
                k = a.find(item, k + 1)
            bad.append((item, got, want, kind, m[k:k + digits]))
        if diff is None and m != o:
            for k in range(0, len(a), digits):
                if o[k:k + digits] != m[k:k + digits]:
                    diff = (a[k:k + digits], o[k:k + digits], m[k:k + digits])
                    break
    return {"routine": rt, "n": n, "bad": bad, "diff": diff, "stats": stats, "sample_in": ins[1][:64] if len(ins) > 1 else ""}


def api_stream(ctx, ty, file_be, direction, values_hex, n):
    """RAW file through the public API, replace mode vs native mode vs model"""
    digits = 8 if ty == "f32" else 16
    fmt = "%x" % ((0x20000000 if file_be else 0x10000000) | 0x040000 | (6 if ty == "f32" else 7))
    name = "api-%s-%s-%s" % (direction, ty, "be" if file_be else "le")
    stats = {"outside_statement": 0}
    res = {"routine": name, "n": n, "bad": [], "diff": None, "stats": stats}
    if direction == "w":
        outs = []
        for replace in (True, False):
            lines, rc, err = ctx.script(api_script(fmt, ty, replace, write_hex=values_hex, n=n))
            if rc != 0 or not lines or "hex=" not in lines[-1]:
                res["crash"] = "%s (replace=%s): harness exit %d, last line %r\n%s" % (name, replace, rc, lines[-1][:200] if lines else None, err[-2000:])
                return res
            outs.append(lines[-1].split("hex=")[1].strip())
        rep, nat = outs
        model = "".join(model_lines(ctx, "replace-w%s-%s" % (digits * 4, "be" if file_be else "le"),
                                    [values_hex[k:k + 4096 * digits] for k in range(0, len(values_hex), 4096 * digits)]))
        inputs = values_hex
    else:
        # file bytes = the patterns in file order
        store = values_hex if file_be else swap_items(values_hex, digits)
        outs = []
        for replace in (True, False):
            lines, rc, err = ctx.script(api_script(fmt, ty, replace, n=n, store_hex=store))
            data = "".join(l.split("data=")[1].strip() for l in lines if l.startswith("ret=") and "data=" in l and "data=null" not in l)
            if rc != 0 or len(data) != n * digits:
                res["crash"] = "%s (replace=%s): harness exit %d, %d of %d items read\n%s" % (name, replace, rc, len(data) // digits, n, err[-2000:])
                return res
            outs.append(data)
        rep, nat = outs
        model = "".join(model_lines(ctx, "replace-r%s-%s" % (digits * 4, "be" if file_be else "le"),
                                    [store[k:k + 4096 * digits] for k in range(0, len(store), 4096 * digits)]))
        inputs = values_hex
    zero = "0" * digits
    if rep != nat:
        for k in range(0, n * digits, digits):
            g, w = rep[k:k + digits], nat[k:k + digits]
            if g == w:
                continue
            v = int(inputs[k:k + digits], 16)
            if not is_normal(v, digits):
                stats["outside_statement"] += 1
            else:
                res["bad"].append((inputs[k:k + digits], g, w, "normal"))
    if model != rep:
        for k in range(0, n * digits, digits):
            if model[k:k + digits] != rep[k:k + digits]:
                res["diff"] = (inputs[k:k + digits], rep[k:k + digits], model[k:k + digits])
                break
        else:
            res["diff"] = ("(length)", str(len(rep)), str(len(model)))
    res["fmt"], res["ty"], res["dir"], res["be"] = fmt, ty, direction, file_be
    return res


def api_replay_text(r, item, got, want, model, note):
    ty, fmt = r["ty"], r["fmt"]
    digits = 8 if ty == "f32" else 16
    if r["dir"] == "w":
        script = api_script(fmt, ty, True, write_hex=item, n=1)
        expect = "hex=" + want
    else:
        store = item if r["be"] else swap_items(item, digits)
        script = ("store s0 %s\nopen h0 s0 r fmt=%s ch=1 sr=8000\ncmd h0 6001 1 null\nr h0 %s i 1\n" % (store, fmt, ty))
        expect = "data=" + want
    return ("# C20 (IEEE serialisers through the API, SFC_TEST_IEEE_FLOAT_REPLACE on): %s\n"
            "# stream %s, value %s: replace path gives %s, native path of the same library gives %s, model %s\n"
            "expect-last %s\n--- script\n%s" % (note, r["routine"], item, got, want, model, expect, script))


def helper_streams(ctx):
    """byte-order helpers; returns list of (name, n, problem-or-None)"""
    rng = ctx.rng
    res = []

    def run(rt, line):
        p = sfh_ieee(ctx, [rt], line + "\n")
        return p.stdout.split("\n")[0] if p.returncode == 0 else None

    edge32 = [0, 1, 0xFF, 0x100, 0xFFFF, 0x10000, 0x7FFFFFFF, 0x80000000, 0xFFFFFFFF, 0x12345678, 0x80, 0x8000, 0x800000, 0x00FF00FF, 0xFF00FF00]
    edge64 = edge32 + [0x7FFFFFFFFFFFFFFF, 0x8000000000000000, 0xFFFFFFFFFFFFFFFF, 0x0102030405060708, 0x100000000, 0xFFFFFFFF00000000, 0x00FF00FF00FF00FF]
    n_rand = 65536 if ctx.tier == "quick" else 1 << 20
    sets = {4: list(range(65536)),
            6: [v & 0xFFFFFF for v in edge32] + [rng.getrandbits(24) for _ in range(n_rand)],
            8: edge32 + [rng.getrandbits(32) for _ in range(n_rand)],
            16: edge64 + [rng.getrandbits(64) for _ in range(n_rand)]}
    plan = [("swap16", 4), ("swap16c", 4), ("swap32", 8), ("swap32c", 8), ("swap64", 16), ("swap64c", 16),
            ("put-be16", 4), ("put-be32", 8), ("put-be64", 16), ("get-be16", 4), ("get-be24", 6), ("get-le24", 6),
            ("get-be32", 8), ("get-le32", 8), ("get-be64", 16), ("get-le64", 16)]
    outs = {}
    for rt, d in plan:
        line = hexline(sets[d], d)
        impl = run(rt, line)
        model = model_lines(ctx, model_name(rt), [line])[0]
        n = len(sets[d])
        problem = None
        if impl is None:
            problem = ("crash", None, None, None)
        elif impl != model:
            od = len(model) // n
            for k in range(n):
                if impl[k * od:(k + 1) * od] != model[k * od:(k + 1) * od]:
                    problem = ("model", line[k * d:(k + 1) * d], impl[k * od:(k + 1) * od], model[k * od:(k + 1) * od])
                    break
        outs[rt] = (line, impl, model)
        res.append([rt, n, problem, None])
    # predicate on the implementation's own answers: involution, put/get round trip
    for rt, d in (("swap16", 4), ("swap32", 8), ("swap64", 16)):
        line, impl, model = outs[rt]
        if impl is None:
            continue
        back = run(rt, impl)
        if back != line:
            for k in range(0, len(line), d):
                if back is None or back[k:k + d] != line[k:k + d]:
                    item = line[k:k + d]
                    for r in res:
                        if r[0] == rt:
                            r[3] = ("involution", item, impl[k:k + d], (back or "")[k:k + d], model[k:k + d])
                    break
    for put, get, d in (("put-be16", "get-be16", 4), ("put-be32", "get-be32", 8), ("put-be64", "get-be64", 16)):
        line, impl, model = outs[put]
        if impl is None:
            continue
        back = run(get, impl)
        if back != line:
            for k in range(0, len(line), d):
                if back is None or back[k:k + d] != line[k:k + d]:
                    for r in res:
                        if r[0] == put:
                            r[3] = ("get-after-put", line[k:k + d], impl[k:k + d], (back or "")[k:k + d], model[k:k + d])
                    break
    return res


# ------------------------------------------------------------------------------------------------ *_be_* through the API
AIFF_CH = 1024


def _finite32(v):
    return v if ((v >> 23) & 0xFF) != 0xFF else v & ~(1 << 23)


def _hdr_result(name, n):
    return {"routine": name, "n": n, "bad": [], "diff": None, "stats": {"outside_statement": 0}, "header": True}


def aiff_peak_write_stream(ctx, vals):
    """float32_be_write through aiff_write_header: one frame of 1024 channels per file, PEAK value k = be_write (fabs (v_k))"""
    name = "api-aiff-peak-w"
    vals = [_finite32(v) for v in vals]
    vals = vals[:len(vals) // AIFF_CH * AIFF_CH]
    res = _hdr_result(name, len(vals))
    scripts = []
    for k in range(0, len(vals), AIFF_CH):
        scripts.append(("f%d" % (k // AIFF_CH), "open h0 s0 w fmt=20006 ch=%d sr=8000\nw h0 f32 f 1 %s\nclose h0\ndump s0\n"
                        % (AIFF_CH, hexline(vals[k:k + AIFF_CH], 8))))
    out = ctx.batch(scripts, workers=4, clean=True)
    got = []
    for nm, _ in scripts:
        lines = out.get(nm, [])
        hx = lines[-1].split("hex=")[1].strip() if lines and "hex=" in lines[-1] else ""
        if len(hx) < 2 * (72 + 8 * AIFF_CH) or hx[112:120] != "5045414b":
            res["crash"] = "%s: file %s has no PEAK chunk where aiff_write_header puts it; transcript %r" % (name, nm, lines[-2:])
            return res
        got += [hx[2 * (72 + 8 * j):2 * (72 + 8 * j) + 8] for j in range(AIFF_CH)]
    mags = [v & 0x7FFFFFFF for v in vals]
    model = items_of("".join(model_lines(ctx, "f32-be-write", [hexline(mags[k:k + 4096], 8) for k in range(0, len(mags), 4096)])), 8)
    for v, m, g, mo in zip(vals, mags, got, model):
        want = "%08x" % m
        if g != want:
            if is_normal(m, 8):
                res["bad"].append(("%08x" % v, g, want, "normal", mo))
            else:
                res["stats"]["outside_statement"] += 1
        if g != mo and res["diff"] is None:
            res["diff"] = ("%08x" % v, g, mo)
    res["replay_fn"] = lambda item, got_, want, model_, note: (
        "# C20 (float32_be_write through the AIFF PEAK chunk): %s\n# sample value %s: PEAK value bytes %s, native representation of |value| %s, model %s\n"
        "# the PEAK chunk starts at byte 56 of the file, its first value at byte 72\n--- script\nopen h0 s0 w fmt=20006 ch=1 sr=8000\nw h0 f32 f 1 %s\nclose h0\ndump s0\n"
        % (note, item, got_, want, model_, item))
    return res


def aiff_file_with_peaks(patterns):
    ch = len(patterns)
    comm = struct.pack(">hIh", ch, 1, 32) + bytes.fromhex("400bfa00000000000000") + b"FL32" + b"\0\0"
    peak = struct.pack(">II", 1, 1000000000) + b"".join(struct.pack(">II", p, 0) for p in patterns)
    ssnd = struct.pack(">II", 0, 0) + b"\0" * (4 * ch)
    body = (b"AIFC" + b"FVER" + struct.pack(">II", 4, 0xA2805140) + b"COMM" + struct.pack(">I", len(comm)) + comm
            + b"PEAK" + struct.pack(">I", len(peak)) + peak + b"SSND" + struct.pack(">I", len(ssnd)) + ssnd)
    return b"FORM" + struct.pack(">I", len(body)) + body


def aiff_peak_read_stream(ctx, vals):
    """float32_be_read through aiff_read_header: crafted PEAK values, read back as doubles with SFC_GET_MAX_ALL_CHANNELS"""
    name = "api-aiff-peak-r"
    vals = vals[:len(vals) // AIFF_CH * AIFF_CH]
    res = _hdr_result(name, len(vals))
    scripts = []
    for k in range(0, len(vals), AIFF_CH):
        scripts.append(("f%d" % (k // AIFF_CH), "store s0 %s\nopen h0 s0 r fmt=0 ch=0 sr=0\ncmd h0 1045 %d zero\n"
                        % (aiff_file_with_peaks(vals[k:k + AIFF_CH]).hex(), 8 * AIFF_CH)))
    out = ctx.batch(scripts, workers=4, clean=True)
    got = []
    for nm, _ in scripts:
        lines = out.get(nm, [])
        hx = lines[-1].split("data=")[1].strip() if lines and "data=" in lines[-1] and "data=null" not in lines[-1] else ""
        if len(hx) != 16 * AIFF_CH:
            res["crash"] = "%s: file %s: SFC_GET_MAX_ALL_CHANNELS did not answer; transcript %r" % (name, nm, [l[:200] for l in lines[-2:]])
            return res
        got += items_of(swap_items(hx, 16), 16)
    model = items_of("".join(model_lines(ctx, "peak-be-read", [hexline(vals[k:k + 4096], 8) for k in range(0, len(vals), 4096)])), 16)
    for v, g, mo in zip(vals, got, model):
        if is_normal(v, 8):
            want = struct.pack(">d", struct.unpack(">f", struct.pack(">I", v))[0]).hex()
            if g != want:
                res["bad"].append(("%08x" % v, g, want, "normal", mo))
        elif g != mo:
            res["stats"]["outside_statement"] += 1
        if g != mo and res["diff"] is None:
            res["diff"] = ("%08x" % v, g, mo)

    def rp(item, got_, want, model_, note):
        f = aiff_file_with_peaks([int(item, 16)])
        return ("# C20 (float32_be_read through the AIFF PEAK chunk): %s\n# PEAK value bytes %s: SFC_GET_MAX_ALL_CHANNELS reports the double %s, native widening gives %s, model %s\n"
                "expect-last data=%s\n--- script\nstore s0 %s\nopen h0 s0 r fmt=0 ch=0 sr=0\ncmd h0 1045 8 zero\n"
                % (note, item, got_, want, model_, swap_items(want, 16), f.hex()))
    res["replay_fn"] = rp
    return res


MAT4_HEAD = bytes.fromhex("000003e80000000100000001000000000000000b73616d706c6572617465" "00")
MAT4_TAIL = bytes.fromhex("0000040600000001000000010000000000000009" "776176656461746100" "0001")


def mat4_write_stream(ctx, rates):
    """double64_be_write through mat4_write_header: the sample rate is stored as a big-endian double"""
    name = "api-mat4-rate-w"
    res = _hdr_result(name, len(rates))
    script = "".join("store s0\nopen h0 s0 w fmt=200c0002 ch=1 sr=%d\nclose h0\ndump s0\n" % r for r in rates)
    lines, rc, err = ctx.script(script)
    dumps = [l.split("hex=")[1].strip() for l in lines if l.startswith("len=") and "hex=" in l]
    if rc != 0 or len(dumps) != len(rates):
        res["crash"] = "%s: harness exit %d, %d of %d headers\n%s" % (name, rc, len(dumps), len(rates), err[-1500:])
        return res
    pats = [struct.pack(">d", float(r)).hex() for r in rates]
    model = items_of("".join(model_lines(ctx, "f64-be-write", ["".join(pats[k:k + 2048]) for k in range(0, len(pats), 2048)])), 16)
    for r, want, d, mo in zip(rates, pats, dumps, model):
        g = d[62:78]
        if g != want:
            res["bad"].append((str(r), g, want, "normal", mo))
        if g != mo and res["diff"] is None:
            res["diff"] = (str(r), g, mo)
    res["replay_fn"] = lambda item, got_, want, model_, note: (
        "# C20 (double64_be_write through the MAT4 header): %s\n# sample rate %s: bytes 31..38 of the header are %s, the native double is %s, model %s\n"
        "--- script\nopen h0 s0 w fmt=200c0002 ch=1 sr=%s\nclose h0\ndump s0\n" % (note, item, got_, want, model_, item))
    return res


def mat4_read_stream(ctx, pats):
    """double64_be_read through mat4_read_header: samplerate = psf_lrint (value)"""
    name = "api-mat4-rate-r"
    res = _hdr_result(name, len(pats))
    script = "".join("store s0 %s\nopen h0 s0 r fmt=0 ch=0 sr=0\nclose h0\n" % (MAT4_HEAD + bytes.fromhex("%016x" % p) + MAT4_TAIL).hex() for p in pats)
    lines, rc, err = ctx.script(script)
    opens = [l for l in lines if l.startswith("open=")]
    if rc != 0 or len(opens) != len(pats):
        res["crash"] = "%s: harness exit %d, %d of %d opens\n%s" % (name, rc, len(opens), len(pats), err[-1500:])
        return res
    model = items_of("".join(model_lines(ctx, "mat4-be-read", [hexline(pats[k:k + 2048], 16) for k in range(0, len(pats), 2048)])), 8)
    for p, l, mo in zip(pats, opens, model):
        g = None
        for t in l.split():
            if t.startswith("sr="):
                g = int(t[3:])
        want = round(struct.unpack(">d", struct.pack(">Q", p))[0])      # round-half-even, as cvtsd2si does
        mi = int(mo, 16)
        if g != want:
            res["bad"].append(("%016x" % p, str(g), str(want), "normal", str(mi)))
        if g != mi and res["diff"] is None:
            res["diff"] = ("%016x" % p, str(g), str(mi))

    def rp(item, got_, want, model_, note):
        f = MAT4_HEAD + bytes.fromhex(item) + MAT4_TAIL
        return ("# C20 (double64_be_read through the MAT4 header): %s\n# sample-rate field %s: the library reports %s Hz, lrint of the native double is %s, model %s\n"
                "expect-last sr=%s \n--- script\nstore s0 %s\nopen h0 s0 r fmt=0 ch=0 sr=0\n" % (note, item, got_, want, model_, want, f.hex()))
    res["replay_fn"] = rp
    return res


def header_streams(ctx):
    rng = ctx.rng
    quick = ctx.tier == "quick"
    n32 = (1 << 16) if quick else (1 << 20)
    d32 = dictionary(8)
    t32 = tiny_patterns(8, rng, 2048 if quick else 65536)          # subnormal / zero PEAK values (float32_be_write / _read, exponent field 0)
    d32 = d32 + t32
    d32 += d32[:(-len(d32)) % AIFF_CH]                              # whole files of AIFF_CH channels
    v32 = d32 + [(rng.getrandbits(1) << 31) | ((k % 255) << 23) | rng.getrandbits(23) for k in range(n32)]
    r32 = d32 + [(rng.getrandbits(1) << 31) | ((k % 256) << 23) | rng.getrandbits(23) for k in range(n32)]
    nr = 2048 if quick else 32768
    rates = [1, 2, 3, 7, 8000, 44100, 48000, 65535, 65536, 65537, (1 << 24) - 1, 1 << 24, (1 << 24) + 1, (1 << 30) - 1, 1 << 30,
             (1 << 31) - 1, (1 << 31) - 2, 0x55555555, 0x7FFFFFF0, 123456789]
    rates += [rng.randrange(1, 1 << rng.randrange(1, 32)) for _ in range(nr)]
    pats = [struct.unpack(">Q", struct.pack(">d", x))[0] for x in (1.0, 1.5, 2.5, 3.5, 0.5 + 8000, 44100.49999, 2147483646.5, 2147483647.0, 1.0000000000000002, 16777216.5)]
    pats += [((1023 + (k % 31)) << 52) | rng.getrandbits(52) for k in range(nr)]
    pats += [((1023 + (k % 31)) << 52) | (rng.getrandbits(k % 31 + 1) << (52 - (k % 31) - 1)) for k in range(nr // 4)]      # exact halves and integers
    pats = [p for p in pats if 1 <= round(struct.unpack(">d", struct.pack(">Q", p))[0]) < (1 << 31)]
    return [aiff_peak_write_stream(ctx, v32), aiff_peak_read_stream(ctx, r32), mat4_write_stream(ctx, rates), mat4_read_stream(ctx, pats)]


# ------------------------------------------------------------------------------------------------ C01 through the portable path
def c01_script(fmt, ty, hexvals, n):
    return ("open h0 s0 w fmt=%s ch=1 sr=8000\ncmd h0 6001 1 null\nw h0 %s i %d %s\nclose h0\n"
            "open h1 s0 r fmt=%s ch=1 sr=8000\ncmd h1 6001 1 null\nr h1 %s i %d\n" % (fmt, ty, n, hexvals, fmt, ty, n))


def run_c01_replace(ctx):
    """C01 for RAW float/double files written and read with the portable serialisers (SFC_TEST_IEEE_FLOAT_REPLACE):
    every finite value, incl. subnormals and both zeros (KF-C01-ieee-tiny is repaired; its witness runs with ctx.run_regressions)."""
    rng = ctx.rng
    n_rand = 16384 if ctx.tier == "quick" else 1 << 20
    tiny_seen = 0
    for ty, digits in (("f32", 8), ("f64", 16)):
        mb, eb = (23, 8) if digits == 8 else (52, 11)
        vals = [v for v in dictionary(digits) if is_finite(v, digits)]
        vals += tiny_patterns(digits, rng, n_rand // 4)
        vals += [(rng.getrandbits(1) << (mb + eb)) | ((k % ((1 << eb) - 1)) << mb) | rng.getrandbits(mb) for k in range(n_rand)]
        tiny_seen += sum(1 for v in vals if is_tiny(v, digits))
        for file_be in (False, True):
            fmt = "%x" % ((0x20000000 if file_be else 0x10000000) | 0x040000 | (6 if ty == "f32" else 7))
            name = "c01-replace-%s-%s" % (ty, "be" if file_be else "le")
            lines, rc, err = ctx.script(c01_script(fmt, ty, hexline(vals, digits), len(vals)))
            rl = [l for l in lines if l.startswith("ret=") and "data=" in l and "data=null" not in l]
            data = rl[-1].split("data=")[1].strip() if rl else ""
            ctx.count(len(vals), tag=name)
            ctx.coverage["traces_validated_against_impl"] += 1
            if rc != 0 or len(data) != digits * len(vals):
                ctx.violation(name + "-crash", "# C01 (portable IEEE path): the write/read script did not complete (exit %d, %d of %d items)\n%s\n"
                              % (rc, len(data) // digits, len(vals), err[-2000:]))
                continue
            bad = None
            for k, v in enumerate(vals):
                g = data[k * digits:(k + 1) * digits]
                if int(g, 16) != v:
                    bad = (v, g)
                    break
            if bad:
                v, g = bad
                one = "%0*x" % (digits, v)
                ctx.violation(name, "# C01 (portable IEEE path, SFC_TEST_IEEE_FLOAT_REPLACE on): the finite value %s is read back as %s after write, close, re-open%s\n"
                              "expect-last data=%s\n--- script\n%s" % (one, g, "" if not is_tiny(v, digits) else " (exponent field 0: a subnormal or -0.0, the class of the repaired %s)" % KF_TINY,
                                                                    one, c01_script(fmt, ty, one, 1)))
    ctx.notes["ieee_c01"] = {"values_with_exponent_field_0_per_type_pair": tiny_seen, "patterns_per_stream": n_rand}


def run_ieee(ctx):
    t0 = time.time()
    quick = ctx.tier == "quick"
    ctx.run_regressions()
    n_full = (1 << 20) if quick else (1 << 22)
    n_small = (1 << 18) if quick else (1 << 20)
    seed = ctx.seed * 7919 + 17
    found_input = False
    broken = []          # correspondence streams that stopped checking without a falsifying input
    outside = 0

    # value patterns for the API streams come from the same stratified generator (values = inputs of the be-write stream)
    def values(rt, n, sd):
        p = sfh_ieee(ctx, [rt, "rand", str(sd), str(n)])
        return "".join(l[3:] for l in p.stdout.split("\n") if l.startswith("in "))

    jobs = []
    # *_be_* only exist as kernels here: full volume; *_le_* get their full volume through the API below
    for rt in FLOAT_ROUTINES:
        jobs.append(("kernel", rt, n_full if "-be-" in rt else n_small))
    for ty, rt in (("f32", "f32-be-write"), ("f64", "f64-be-write")):
        digits = 8 if ty == "f32" else 16
        for file_be in (False, True):
            n = n_small if file_be else n_full
            for direction in ("w", "r"):
                jobs.append(("api", (ty, file_be, direction, rt, n, digits), n))

    def do(job):
        kind, what, n = job
        if kind == "kernel":
            return kernel_stream(ctx, what, n, seed + FLOAT_ROUTINES.index(what))
        ty, file_be, direction, rt, n, digits = what
        sd = seed + 100 + (1 if file_be else 0) + (2 if direction == "r" else 0)
        vals = (hexline(dictionary(digits), digits) + hexline(tiny_patterns(digits, random.Random(sd), max(4096, n // 16)), digits)
                + values(rt, n, sd))
        return api_stream(ctx, ty, file_be, direction, vals, len(vals) // digits)

    with concurrent.futures.ThreadPoolExecutor(max_workers=4) as ex:
        results = list(ex.map(do, jobs))
    results += header_streams(ctx)

    for r in results:
        name = r["routine"]
        if "crash" in r:
            found_input = True
            ctx.violation("ieee-%s-crash" % name, "# C20 (IEEE serialisers): stream %s did not complete\n%s" % (name, r["crash"]))
            continue
        ctx.count(r["n"], tag="ieee-" + name)
        ctx.coverage["traces_validated_against_impl"] += 1
        outside += r["stats"]["outside_statement"]
        is_api = name.startswith("api-")
        model_of = {}
        if r["diff"]:
            model_of[r["diff"][0]] = r["diff"][2]
        if r["bad"]:
            found_input = True
            item, got, want, kind = r["bad"][0][:4]
            if len(r["bad"][0]) > 4:
                model_of[item] = r["bad"][0][4]
            note = ("a finite normal value is not serialised to its native bit pattern (%d such values in this stream, class: %s)" % (len(r["bad"]), kind))
            if "replay_fn" in r:
                ctx.violation("ieee-%s" % name, r["replay_fn"](item, got, want, model_of.get(item, "?"), note))
            elif is_api:
                ctx.violation("ieee-%s" % name, api_replay_text(r, item, got, want, model_of.get(item, "(not the first differing value of the model comparison)"), note))
            else:
                ctx.violation("ieee-%s" % name, replay_text(name, item, got, want, model_of.get(item, "(not the first differing value of the model comparison)"), note))
        elif r["diff"]:
            broken.append((name, r["diff"], r))
    if results and "sample_in" in results[0]:
        ctx.sample({"campaign": "ieee kernel f32-be-read", "inputs": "dictionary + seeded patterns, exponent field swept", "first_items": results[0].get("sample_in", "")})

    # byte-order helpers
    for rt, n, problem, pred in helper_streams(ctx):
        ctx.count(n, tag="ieee-" + rt)
        ctx.coverage["traces_validated_against_impl"] += 1
        if pred:
            found_input = True
            what, item, once, twice, want = pred
            ctx.violation("ieee-%s-%s" % (rt, what), "# C20 (byte-order helpers): %s fails on the implementation: %s(%s) = %s, applying the inverse gives %s; the definition gives %s\n"
                          "c20-ieee %s %s %s\n" % (what, rt, item, once, twice, want, rt, item, want))
        elif problem:
            if problem[0] == "crash":
                found_input = True
                ctx.violation("ieee-%s-crash" % rt, "# C20 (byte-order helpers): sfh ieee %s failed\n" % rt)
            else:
                _, item, got, want = problem
                # the model is the definition of a byte swap / of the big-endian two's-complement layout (theorems endswap_reverses_bytes,
                # put_be_layout), so a disagreement with it falsifies "exact" for this input
                found_input = True
                ctx.violation("ieee-%s" % rt, "# C20 (byte-order helpers): %s(%s) = %s on the implementation, the definition gives %s\nc20-ieee %s %s %s\n"
                              % (rt, item, got, want, rt, item, want))

    for (name, diff, r) in broken:
        item, got, model = diff
        text = ("# C20 (IEEE serialisers): correspondence stream %s stopped checking: input %s, implementation %s, model %s\n"
                "# the value is outside 'finite normal', so the property statement is not falsified by it;\n"
                "# no normal value in the dictionary or in the %d seeded patterns of this stream differs from the native representation\n"
                % (name, item, got, model, r["n"]))
        if name.startswith("api-"):
            text += "c20-note api stream, first differing value shown above\n"
        else:
            text += "c20-ieee %s %s %s\n" % (name, item, model)
        ctx.violation("ieee-%s-model" % name, text, no_input=True)

    ctx.notes["ieee"] = {"values_outside_statement_differing": outside,
                         "kernel_patterns_per_be_routine": n_full, "kernel_patterns_per_le_routine": n_small,
                         "api_patterns_le_file": n_full, "api_patterns_be_file": n_small,
                         "wall_s": round(time.time() - t0, 1)}
    ctx.coverage["rule"] += ("; IEEE serialisers: boundary dictionary (zeros, subnormals, smallest normals, the 1e-30 neighbours as exact patterns, one value per binade, "
                             "1+-ulp, all-ones mantissas, largest finite, Inf, NaNs; both signs) + seeded patterns with the exponent field swept through every value, "
                             "per routine, direct kernel calls and RAW float/double files of both byte orders with SFC_TEST_IEEE_FLOAT_REPLACE, replace path compared with "
                             "the native path and with the model; float32_be_write / float32_be_read through AIFF PEAK chunks (1024 channels per file), double64_be_write / double64_be_read "
                             "through the MAT4 big-endian sample-rate field; ENDSWAP_16, psf_put_be16, psf_get_be16 exhaustive, wider helpers on a dictionary + seeded values")
    return found_input
