"""C05 / C06 / C20 — the DETERMINISTIC block-seek matrix (round 9, gap worker gapg).

The all-format read / seek campaign (vlib/readcamp.py) draws its histories at random and aims them at `BLOCK_HINT`, a table of
approximate block lengths (505 for every IMA file -- an AIFF ima4 file has 64-frame blocks).  The elementary sequence
"read into block c, sf_seek into another block t, read" for a given (codec, container, channel count, c, t) is therefore present
only when the seed happens to draw it, and a regression that needs ONE such pair (a fast path keyed on the block counter, a
counter kept in per-channel units, an off-by-one on the loaded block) passes.

Here the class is enumerated, not drawn:
  every block codec the library writes (IMA / MS ADPCM, GSM 06.10, G.72x, NMS, PAF 24-bit, SDS, ALAC, DWVW -- the codecs whose
  reader decodes a block into a buffer and serves reads from it) x every container that carries it x EVERY channel count the pair
  accepts (up to 8) x the two ways of standing in block L (reached by a read that crossed into it; standing at its end with the
  NEXT block not yet decoded -- the lazily decoding readers still hold block L there) x every target block of
        { L+1, L+2, L+3, 2L+1, 2L+2, L, L-1, 0, last }            (forward to each of the next three, the per-channel-unit aliases, back)
  for L = 0 .. 4: `seek` (SEEK_SET / SEEK_CUR / SEEK_END in turn, so that the three entry forms of sf_seek run), position probe, a read of
  B + 3 frames (it crosses into the block after the target: a seek that does not move the FILE position shows there), probe.
The block length B is the format's own (vlib/geometry.py `block_frames`, SDS 60 / 40 / 30, ALAC 4096), not a hint.

Judged by `Sf.Abs.holdsOn` (lean/SfModel/Abs.lean, `sfmodel abs`) against the sequential reference reads of a SEPARATE handle
(one per caller type).  For C20 the IMA (WAV / W64 / AIFF layouts) and MS ADPCM files get a second, independent reference: the data
region of the library's file is cut out by the campaign's own chunk walker and decoded by the Lean REFERENCE decoders
(`sfmodel adpcm … ref`, lean/SfModel/AdpcmSpec.lean) -- "the sample values of the reference algorithms" at every position a seek can
reach, not only in one sequential pass.
The Lean side of the class: lean/SfModel/ImaSeek.lean (`aiff_ima_seek` / `wavlike_ima_seek` / `ima_read_block` as written, block counter
in the C code's own units) and lean/SfProps/C06ImaSeek.lean (`seek_then_read`: for every channel count, loaded block and target).

No harness additions (open / w / close / dump / store / r / seek)."""
import collections, re
from . import readcamp as R, scripts as S, kernels as K, abslean, absreplay, formats, geometry as G

ALAC = (0x70, 0x71, 0x72, 0x73)
DWVW = (0x40, 0x41, 0x42)
SDS_B = {0x01: 60, 0x02: 40, 0x03: 30}
ADPCM_KIND = {0x12: "ima", 0x13: "ms"}


def block_of(f, ch, sr=8000):
    """frames per codec block by the format's definition; None = not a block codec (sample-granular: vlib/readcamp.py covers it)"""
    if f.major == 0x11:
        return SDS_B.get(f.codec)
    if f.codec in ALAC:
        return 4096
    if f.codec in DWVW:
        return 50          # a bit stream without blocks: sf_seek is refused except to 0; any length does
    b = G.block_frames(f, ch, sr)
    return b if b > 1 and f.codec != 0x21 else None     # (VOX: 2 samples per byte, no decoded block buffer)


def channel_counts(f, quick):
    top = min(f.maxch, 8)
    if f.codec in ALAC and quick:
        # one width per channel count (deterministic, seed-independent): 16 -> 1,5  20 -> 2,6  24 -> 3,7  32 -> 4,8
        k = ALAC.index(f.codec)
        return [c for c in range(1, top + 1) if (c - 1) % 4 == k]
    if top > 4 and quick:
        return [1, 2, 3, 4, top]
    return list(range(1, top + 1))


def pick_jobs(ctx, quick):
    jobs = []
    for f in formats.writable_formats(ctx):
        if f.major == 0x16:      # SD2 needs its resource-fork side file (route=path)
            continue
        for ch in channel_counts(f, quick):
            b = block_of(f, ch)
            if b is None:
                continue
            nb = (11 if quick else 19) if b <= 1024 else (7 if quick else 11)
            jobs.append((f, ch, b, nb * b - b // 3))          # the last block is a partial one
    return jobs


def det_values(n, salt):
    """a fixed pseudo-random walk (lossy coders track it; no seed involved)"""
    out, x, v = [], (salt * 2654435761 + 12345) & 0xFFFFFFFF, 0
    for _ in range(n):
        x = (x * 1103515245 + 12345) & 0x7FFFFFFF
        v = max(-30000, min(30000, v + (x >> 8) % 2001 - 1000))
        out.append(v & 0xFFFF)
    return out


def ref_types(f, ch, n):
    """caller types that get a sequential reference stream (big files: two of the four)"""
    if n * ch > 60000:
        return ["s16", "s32"]
    return list(R.TYS)


def base_script(f, ch, n, tys, B=0):
    vals = det_values(n * ch, f.word + ch)
    L = ["open h0 s0 w fmt=%08x ch=%d sr=8000" % (f.word, ch)]
    step = 4096 * ch
    for i in range(0, len(vals), step):
        L.append(S.w_line("h0", "s16", "i", len(vals[i:i + step]), vals[i:i + step]))
    L += ["close h0", "dump s0"]
    raw = f.major == 0x04
    for j, ty in enumerate(tys):
        h = "h%d" % (j + 1)
        L += [("open %s s0 r fmt=%08x ch=%d sr=8000" % (h, f.word, ch)) if raw else ("open %s s0 r" % h),
              "r %s %s i %d" % (h, ty, (n + B + 64) * ch), "r %s %s i %d" % (h, ty, ch), "close %s" % h]
    return "\n".join(L) + "\n"


def targets(L, last):
    out = []
    for t in (L + 1, L + 2, L + 3, 2 * L + 1, 2 * L + 2, L, L - 1, 0, last):
        if 0 <= t <= last and t not in out:
            out.append(t)
    return out


def matrix_script(f, ch, B, F, filehex, tys, maxL=4):
    """the matrix on ONE handle; returns the script"""
    raw = f.major == 0x04
    L_ = ["store s0 " + filehex, ("open h0 s0 r fmt=%08x ch=%d sr=8000" % (f.word, ch)) if raw else "open h0 s0 r"]
    last = (F - 1) // B if F > 0 else 0
    k = 0
    for L in range(0, min(maxL, last) + 1):
        for how in ("in", "edge"):
            for t in targets(L, last):
                ty = tys[k % len(tys)]
                ty2 = tys[(k // 2 + 1) % len(tys)]
                a = (3 + 5 * k) % max(B - 4, 1)
                # --- stand in block L ---
                if how == "in":
                    if L == 0:
                        L_ += ["seek h0 0 0", "r h0 %s f %d" % (ty, 1 + a % 7)]
                    else:
                        L_ += ["seek h0 %d 0" % (L * B - 2), "r h0 %s f %d" % (ty, 3 + a % 7)]
                    pos = (0 if L == 0 else L * B - 2) + (1 + a % 7 if L == 0 else 3 + a % 7)
                else:
                    # at the END of block L: the next block is not decoded yet
                    start = (L + 1) * B - 1 - a % 5
                    if start + 1 + a % 5 > F:
                        continue
                    L_ += ["seek h0 %d 0" % start, "r h0 %s f %d" % (ty, 1 + a % 5)]
                    pos = (L + 1) * B
                L_.append("seek h0 0 1")
                # --- seek into block t, read across its end ---
                tgt = min(t * B + (a if k % 4 else 0), max(F - 1, 0))
                if k % 3 == 0:
                    L_.append("seek h0 %d 0" % tgt)
                elif k % 3 == 1:
                    L_.append("seek h0 %d 1" % (tgt - pos))
                else:
                    L_.append("seek h0 %d 2" % (tgt - F))
                L_ += ["seek h0 0 1", "r h0 %s %s %d" % (ty2, "f" if k % 4 else "i", (B + 3) if k % 4 else (B + 3) * ch), "seek h0 0 1"]
                k += 1
    L_.append("close h0")
    return "\n".join(L_) + "\n"


# ---- the independent reference for IMA / MS ADPCM (C20): data region by the campaign's own walkers, decoded by `sfmodel adpcm … ref` -------------

def _riff_data(b):
    if b[:4] != b"RIFF" or b[8:12] != b"WAVE":
        return None
    p, ba, spb = 12, None, None
    while p + 8 <= len(b):
        cid, sz = b[p:p + 4], int.from_bytes(b[p + 4:p + 8], "little")
        if cid == b"fmt ":
            ba = int.from_bytes(b[p + 20:p + 22], "little")
            spb = int.from_bytes(b[p + 26:p + 28], "little") if sz >= 20 else None
        if cid == b"data":
            return b[p + 8:p + 8 + sz], ba, spb
        p += 8 + sz + (sz & 1)
    return None


def _w64_data(b):
    if b[:4] != b"riff" or len(b) < 40:
        return None
    p, ba, spb = 40, None, None
    while p + 24 <= len(b):
        cid, sz = b[p:p + 4], int.from_bytes(b[p + 16:p + 24], "little")
        if sz < 24:
            return None
        if cid == b"fmt ":
            ba = int.from_bytes(b[p + 36:p + 38], "little")
            spb = int.from_bytes(b[p + 42:p + 44], "little")
        if cid == b"data":
            return b[p + 24:p + sz], ba, spb
        p += (sz + 7) // 8 * 8
    return None


def _aiff_data(b):
    if b[:4] != b"FORM":
        return None
    p = 12
    while p + 8 <= len(b):
        cid, sz = b[p:p + 4], int.from_bytes(b[p + 4:p + 8], "big")
        if cid == b"SSND":
            off = int.from_bytes(b[p + 8:p + 12], "big")
            return b[p + 16 + off:p + 8 + sz], 34, 64
        p += 8 + sz + (sz & 1)
    return None


def adpcm_reference(ctx, f, ch, filehex):
    """-> (hex of the s16 stream the REFERENCE decoder gives for the file's blocks, frames) or None (container not walked / codec not ADPCM)"""
    kind = ADPCM_KIND.get(f.codec)
    if kind is None:
        return None
    b = bytes.fromhex(filehex)
    if f.major == 0x02 and kind == "ima":
        cut, name = _aiff_data(b), "ima-aiff"
    elif f.major in (0x01, 0x13):
        cut, name = _riff_data(b), ("ima-wav" if kind == "ima" else "ms")
    elif f.major == 0x0B:
        cut, name = _w64_data(b), ("ima-wav" if kind == "ima" else "ms")
    else:
        return None
    if not cut or not cut[1] or not cut[2]:
        return None
    data, ba, spb = cut
    per = ba * ch if name == "ima-aiff" else ba
    nb = len(data) // per
    if nb == 0:
        return None
    blocks = [data[i * per:(i + 1) * per] for i in range(nb)]
    out = ctx.run_model(["adpcm", name, str(ch), str(ba), str(spb), "ref"], "".join(x.hex() + "\n" for x in blocks)).split("\n")[:nb]
    if len(out) != nb or any(len(o) != spb * ch * 4 for o in out):
        return None
    return "".join(out), spb * nb


# ---- C20: hand-built files of ADVERSARIAL blocks ("for any block bytes") through the same matrix ------------------------------------------------

FOREIGN_GEOS = [("ima-wav", "wav", 1, 256), ("ima-wav", "wav", 2, 256), ("ima-wav", "w64", 2, 512), ("ima-wav", "wav", 1, 33), ("ima-wav", "w64", 1, 1024),
                ("ms", "wav", 1, 256), ("ms", "wav", 2, 256), ("ms", "w64", 2, 70), ("ms", "wav", 1, 32), ("ms", "w64", 1, 1024),
                ("ima-aiff", "aifc", 1, 34), ("ima-aiff", "aifc", 2, 34)]


class _Stub:
    """what matrix_script / the reports need of a format object"""
    def __init__(self, name):
        self.name, self.major, self.codec, self.word = name, 0x01, 0, 0


def foreign_adpcm_tests(ctx):
    """files the campaign builds itself (vlib/c20_adpcm.py: invalid step indices, extreme predictors, random nibbles; a fixed generator, no seed):
    the reference stream is the REFERENCE decoder's output for the blocks the campaign made"""
    import random
    from . import c20_adpcm as A
    rng = random.Random(20260930)
    tests = []
    for (kind, cont, ch, ba) in FOREIGN_GEOS:
        blocks = {"ima-wav": lambda: A.ima_wav_blocks(rng, ch, ba, 10), "ms": lambda: A.ms_blocks(rng, ch, ba, 10), "ima-aiff": lambda: A.ima_aiff_blocks(rng, ch, 10)}[kind]()
        blocks = blocks[:24]
        if len(blocks) < 4:
            continue
        spb = A.spb_of(kind, ch, ba)
        ref = A.model_lines(ctx, kind, ch, ba, blocks, True)
        if len(ref) != len(blocks) or any(len(r) != spb * ch * 4 for r in ref):
            continue
        fb = A.build_file(kind, cont, ch, ba, b"".join(blocks), len(blocks))
        F = spb * len(blocks)
        f = _Stub("foreign-%s-%s-ba%d" % (kind, cont, ba))
        t = dict(name="smf-%s-%s-c%d-ba%d" % (kind, cont, ch, ba), f=f, ch=ch, B=spb, F=F, tys=["s16"], refs={"s16": "".join(ref)}, seekable=True,
                 filehex=fb.hex(), seqref=None, foreign=True)
        t["script"] = matrix_script(f, ch, spb, F, t["filehex"], ["s16"], maxL=4)
        tests.append(t)
    return tests


# ---- campaign -----------------------------------------------------------------------------------------------------------------------------

def campaign(ctx, prop, quick=None):
    quick = (ctx.tier == "quick") if quick is None else quick
    stats = collections.Counter()
    jobs = pick_jobs(ctx, quick)
    bs = []
    for i, (f, ch, B, n) in enumerate(jobs):
        tys = ref_types(f, ch, n)
        bs.append(("sm%d-%s-c%d" % (i, f.name, ch), base_script(f, ch, n, tys, B), tys))
    out = ctx.batch([(n_, s) for (n_, s, _) in bs], clean=True, op_timeout=40)
    tests = []
    for (name, sc, tys), (f, ch, B, n) in zip(bs, jobs):
        lines = out.get(name, [])
        sl = sc.strip().split("\n")
        info = {"problems": ["no transcript"]}
        if len(lines) >= len(sl):
            # (parse_write_phase wants all four reference reads: do it here for the types this job reads)
            info = {"problems": [], "ref": {}, "ret": {}, "after": {}}
            for k, (op, o) in enumerate(zip(sl, lines)):
                t = op.split()
                if o.startswith(abslean.DEAD) or (t[0] == "open" and "open=NULL" in o):
                    info["problems"].append("line %d: %s -> %s" % (k, op[:50], o[:100]))
                    break
                if t[0] == "dump":
                    info["filehex"] = o.split("hex=")[1] if "hex=" in o else ""
                if t[0] == "open" and t[3] == "r":
                    m = re.search(r"frames=(-?\d+)", o)
                    info["frames"] = int(m.group(1)) if m else -1
                    info["seekable"] = "seekable=1" in o
                if t[0] == "r" and sl[k + 1].startswith("r "):
                    m = re.search(r"ret=(-?\d+)", o)
                    ret = int(m.group(1)) if m else -1
                    d = o.split("data=")[1].strip() if "data=" in o else ""
                    info["ref"][t[2]] = d[:max(ret, 0) * K.TY_DIGITS[t[2]]]
                    info["ret"][t[2]] = ret
        F = info.get("frames", -1)
        if info["problems"] or F < n or not info.get("filehex") or any(info["ret"].get(ty) != F * ch for ty in tys):
            stats["bases_not_usable"] += 1      # a format the library cannot write / re-read sequentially: the main campaigns' business
            continue
        stats["files"] += 1
        t = dict(name=name, f=f, ch=ch, B=B, F=F, tys=tys, refs=dict(info["ref"]), seekable=info.get("seekable", True), filehex=info["filehex"])
        t["script"] = matrix_script(f, ch, B, F, info["filehex"], tys, maxL=(4 if quick else 8) if B <= 1024 else (2 if quick else 4))
        if prop == "C20":
            ar = adpcm_reference(ctx, f, ch, info["filehex"])
            if ar is None:
                continue                     # C20 speaks about the IMA / MS decoders only
            hx, fr = ar
            stats["adpcm_reference_files"] += 1
            if fr >= F:
                t["seqref"] = info["ref"].get("s16")
                t["refs"] = {"s16": hx[:F * ch * 4]}       # the reference ALGORITHM's stream; the other caller types are tied to it by C02
                t["tys"] = ["s16"]
                t["script"] = matrix_script(f, ch, B, F, info["filehex"], ["s16"], maxL=4)
        tests.append(t)
    if prop == "C20":
        ft = foreign_adpcm_tests(ctx)
        stats["adpcm_foreign_files"] = len(ft)
        tests += ft
    res = ctx.batch([(t["name"], t["script"]) for t in tests], clean=True, op_timeout=40)
    judge = abslean.Judge(ctx, prop)
    for t in tests:
        sl = t["script"].strip().split("\n")
        lines = res.get(t["name"], [])
        t["lines"], t["start"] = lines, 2
        t["geom"] = abslean.geom_line(t["ch"], t["F"], "r", seekable=t["seekable"], bw=0)
        t["opened"] = len(lines) > 1 and lines[1].startswith("open=ok") and ("frames=%d " % t["F"] in lines[1] + " " or not t.get("foreign"))
        if t["opened"]:
            judge.add(t["name"], t["geom"], t["refs"], None, abslean._alive_pairs(sl, lines, 2))
    verdicts = judge.run() if judge.items else {}
    findings = []
    for t in tests:
        f, ch = t["f"], t["ch"]
        sl = t["script"].strip().split("\n")
        dead = [l for l in t["lines"] if l.startswith(abslean.DEAD)]
        hdr = lambda k, tag: absreplay.header(t["geom"], t["start"], refs=t["refs"], rawref=None, clause=(tag, k))
        if not t["opened"]:
            findings.append((t["name"], f, ch, 1, "open", "crash" if dead else "open", "the file the sequential handles just read cannot be opened: %s"
                             % (dead or t["lines"][1:2] or ["(no transcript)"])[0][:200], hdr(1, "open") + "--- script\n" + "\n".join(sl[:2]) + "\n"))
            continue
        stats["histories"] += 1
        stats["ops"] += len(sl) - 2
        stats["seeks"] += sum(1 for l in sl if l.startswith("seek") and l != "seek h0 0 1")
        ctx.distinct.add("seekmatrix:%s:c%d" % (f.name, ch))
        v = verdicts[t["name"]]
        for (k, tag, tx) in v.fails[:4]:
            line = t["start"] + k
            cat = abslean.TAG_CAT.get(tag, tag)
            # context: the last `stand in block L` / `seek` lines before the failing one
            ctxl = [l for l in sl[max(2, line - 6):line + 1]]
            which = ("the sample values of the REFERENCE decoder (`sfmodel adpcm … ref` on the file's own blocks)" if "seqref" in t
                     else "the sequential reference read of a separate handle")
            text = ("block-seek matrix, %s, %d channel(s), block = %d frames: clause `%s` of Sf.Abs.holdsOn fails at script line %d (%s) against %s: %s | history just before: %s"
                    % (f.name, ch, t["B"], tag, line, sl[line][:60] if line < len(sl) else "?", which, tx.strip()[:300], " ; ".join(ctxl)))
            findings.append((t["name"], f, ch, line, tag, cat, text, hdr(line, tag) + "--- script\n" + "\n".join(shrink(sl, line)) + "\n"))
        if dead and not v.fails:
            findings.append((t["name"], f, ch, len(t["lines"]) - 1, "crash", "crash", "implementation died: " + dead[0][:200],
                             hdr(len(t["lines"]) - 1, "crash") + "--- script\n" + "\n".join(sl[:len(t["lines"])]) + "\n"))
        if "seqref" in t and t["seqref"] is not None and t["seqref"] != t["refs"]["s16"] and not v.fails:
            # the sequential read itself is not the reference algorithm's stream (c20_adpcm.py's business on hand-made blocks; here on the library's own file)
            a, b_ = t["seqref"], t["refs"]["s16"]
            d = next((i for i in range(0, min(len(a), len(b_)), 4) if a[i:i + 4] != b_[i:i + 4]), min(len(a), len(b_))) // 4
            findings.append((t["name"], f, ch, 2, "data", "data", "one sequential sf_read_short of the library's own %s file differs from the REFERENCE decoder at item %d (%s vs %s)"
                             % (f.name, d, a[4 * d:4 * d + 4], b_[4 * d:4 * d + 4]),
                             "expect-last data=%s\n--- script\n%s\nopen h0 s0 r\nr h0 s16 i %d\n" % (b_[:4 * (d + 1)], sl[0], d + 1)))
    return findings, stats, tests


def shrink(sl, line):
    """store + open + the last group (stand in block L; probe; seek; probe; read; probe) that contains the failing line: the state of a block reader
    after an absolute seek does not depend on what came before (that is the theorem), so the group alone reproduces the failure"""
    g = line
    # a group starts with a `seek … 0` that is followed by an `r` line
    while g > 2 and not (sl[g].startswith("seek h0") and sl[g].endswith(" 0") and g + 1 < len(sl) and sl[g + 1].startswith("r ")):
        g -= 1
    return sl[:2] + sl[g:line + 1]


CATS = {"C05": {"count", "short", "eof", "invalid", "position", "data", "frames", "crash", "open"},
        "C06": {"seek", "data", "position", "crash"},
        "C20": {"data", "crash"}}


def run(ctx, prop):
    findings, stats, tests = campaign(ctx, prop)
    ctx.count(stats["ops"], tag="seek-matrix")
    ctx.coverage["traces_validated_against_impl"] += stats["histories"]
    reported = collections.Counter()
    nrep = 0
    for (name, f, ch, line, tag, cat, text, replay) in findings:
        if cat not in CATS[prop]:
            stats["failures_of_other_properties"] += 1
            continue
        stats["failures"] += 1
        key = (f.major, f.codec, cat)
        reported[key] += 1
        if reported[key] > 1 or nrep >= 6:
            continue
        nrep += 1
        ctx.violation("%s-seekmatrix-%s-%s" % (prop.lower(), name, cat), "# %s, deterministic block-seek matrix (vlib/seekmatrix.py): %s\n%s" % (prop, text, replay))
    ctx.coverage.setdefault("seek_matrix", {}).update(dict(stats))
    if tests:
        t = tests[len(tests) // 2]
        ctx.sample({"kind": "block-seek matrix (read into block L, seek into block t, read across its end)", "name": t["name"], "frames": t["F"], "block": t["B"],
                    "script_head": "\n".join(t["script"].strip().split("\n")[1:14])[:600], "transcript_head": [l[:120] for l in t["lines"][1:6]]})
    return stats
