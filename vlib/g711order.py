"""C20 — G.711 through every entry point in ONE process, in permuted orders (round 8, gap worker gapd).

The exhaustive G.711 streams of vlib/props/c20.py run one harness process per (direction, law, entry point): a kernel that keeps
PROCESS-WIDE state (a decode table built on first use with the first caller's scale, a cached normalisation factor, an
"initialised" flag shared by the laws) gives the right answer in every one of those processes.  G.711 says what a code decodes to;
it does not depend on what the process decoded before.  This pass runs, per law and per order, ONE process that

  * decodes all 256 codes through the six read entry points (short, int, float / double with normalisation on and off) on a
    fresh handle each, in a seeded permutation and in the reversed permutation (so every float setting is once the FIRST float
    read of the process and once a later one), interleaved with the other law;
  * then keeps ONE handle open and toggles SFC_SET_NORM_FLOAT / SFC_SET_NORM_DOUBLE between reads of the same 256 codes
    (off, on, off / on, off, on), with int and short reads in between;
  * encodes a vector of floats / doubles (exact grid points k / 32768 resp. k) under both settings, both orders;

and compares every line with the answer of the G.711 model (`sfmodel g711 dec|enc`, the tables proved in SfProps/C20.lean) —
the answers the one-process-per-entry-point streams have just confirmed on this very library.  A difference is a violation
whose replay is the shortest prefix of the process's history that still shows it (`expect-last` = the definition's answer).
Lean: SfProps/C20Order.lean (`g711_decode_own_flag_only`, `g711_float_read_order_independent`, `g711_encode_order_independent`).
"""
import random, time
from . import g711

TY = {"s16": ("s16", 4, None), "s32": ("s32", 8, None), "f32": ("f32", 8, 0), "f32n": ("f32", 8, 1), "f64": ("f64", 16, 0), "f64n": ("f64", 16, 1)}
NORM_CMD = {"f32": "1013", "f64": "1012"}
CODES = "".join("%02x" % c for c in range(256))


def _hex(xs, digits):
    m = (1 << (4 * digits)) - 1
    return "".join("%0*x" % (digits, x & m) for x in xs)


def _enc_inputs(ty):
    import struct
    ks = list(range(-32768, 32768, 61)) + [32767, -32768, 0, 1, -1]
    api, digits, norm = TY[ty]
    if api == "f32":
        return [struct.unpack("<I", struct.pack("<f", k / 32768.0 if norm else float(k)))[0] for k in ks]
    return [struct.unpack("<Q", struct.pack("<d", k / 32768.0 if norm else float(k)))[0] for k in ks]


class Proc:
    """one process: script lines + (line index, law, direction, ty) of every judged line"""

    def __init__(self, name):
        self.name, self.lines, self.judged, self.nh = name, [], [], 0

    def fresh_read(self, law, ty):
        api, digits, norm = TY[ty]
        h = "h%d" % (self.nh % 8)
        self.nh += 1
        self.lines += ["store s%d %s" % (0 if law == "ulaw" else 1, CODES), "open %s s%d r fmt=%s ch=1 sr=8000" % (h, 0 if law == "ulaw" else 1, g711.LAWS[law][0])]
        if norm is not None:
            self.lines.append("cmd %s %s %d null" % (h, NORM_CMD[api], norm))
        self.lines.append("r %s %s i 256" % (h, api))
        self.judged.append((len(self.lines) - 1, law, "dec", ty))
        self.lines.append("close " + h)

    def toggling(self, law, order):
        """one handle, the settings toggled between reads of the same 256 codes"""
        h = "h%d" % (self.nh % 8)
        self.nh += 1
        self.lines += ["store s%d %s" % (0 if law == "ulaw" else 1, CODES), "open %s s%d r fmt=%s ch=1 sr=8000" % (h, 0 if law == "ulaw" else 1, g711.LAWS[law][0])]
        for ty in order:
            api, digits, norm = TY[ty]
            self.lines.append("seek %s 0 0" % h)
            if norm is not None:
                self.lines.append("cmd %s %s %d null" % (h, NORM_CMD[api], norm))
            self.lines.append("r %s %s i 256" % (h, api))
            self.judged.append((len(self.lines) - 1, law, "dec", ty))
        self.lines.append("close " + h)

    def write(self, law, ty):
        api, digits, norm = TY[ty]
        h = "h%d" % (self.nh % 8)
        self.nh += 1
        xs = _enc_inputs(ty)
        self.lines += ["open %s s2 w fmt=%s ch=1 sr=8000" % (h, g711.LAWS[law][0]), "cmd %s %s %d null" % (h, NORM_CMD[api], norm),
                       "w %s %s i %d %s" % (h, api, len(xs), _hex(xs, digits)), "close " + h, "dump s2"]
        self.judged.append((len(self.lines) - 1, law, "enc", ty))

    def script(self, upto=None):
        return "\n".join(self.lines[:upto]) + "\n"


def build(seed):
    rng = random.Random(seed * 7727 + 3)
    procs = []
    entries = [(law, ty) for law in ("ulaw", "alaw") for ty in TY]
    perm = entries[:]
    rng.shuffle(perm)
    toggles = [["f32", "f32n", "s32", "f32", "f64n", "f64", "s16", "f64n"], ["f32n", "f32", "s16", "f32n", "f64", "f64n", "s32", "f64"]]
    wr = [(law, ty) for law in ("ulaw", "alaw") for ty in ("f32n", "f32", "f64n", "f64")]
    for k, order in enumerate((perm, perm[::-1])):
        p = Proc("g711-order-%d" % k)
        for (law, ty) in order:
            p.fresh_read(law, ty)
        for law in (("ulaw", "alaw") if k == 0 else ("alaw", "ulaw")):
            p.toggling(law, toggles[k])
            p.toggling(law, toggles[1 - k])
        for (law, ty) in (wr if k == 0 else wr[::-1]):
            p.write(law, ty)
        procs.append(p)
    # normalisation OFF is the first float / double read of the process, for each law alone (the smallest history of the class)
    for k, law in enumerate(("ulaw", "alaw")):
        p = Proc("g711-order-off-first-%s" % law)
        for ty in ("f32", "f32n", "f64", "f64n", "f32", "f64"):
            p.fresh_read(law, ty)
        procs.append(p)
    return procs


def run(ctx):
    """-> (found_input, stats)"""
    t0 = time.time()
    procs = build(ctx.seed)
    want = {}
    stats = {"processes": len(procs), "judged_lines": 0, "items": 0, "differing_lines": 0}
    found = False
    res = ctx.batch([(p.name, p.script()) for p in procs], op_timeout=30, clean=True, workers=4)
    reported = set()
    for p in procs:
        lines = res.get(p.name, [])
        if len(lines) < len(p.lines) or any(l.startswith(("CRASH", "ABORT", "TIMEOUT")) for l in lines):
            found = True
            ctx.violation("g711-order-%s-run" % p.name, "# C20 (G.711 entry points in one process): the process did not complete (%d of %d lines): %r\n--- script\n%s"
                          % (len(lines), len(p.lines), lines[-1:], p.script()[:200000]))
            continue
        for (k, law, d, ty) in p.judged:
            api, digits, norm = TY[ty]
            if (law, d, ty) not in want:
                if d == "dec":
                    want[(law, d, ty)] = ctx.run_model(["g711", "dec", law, ty], CODES + "\n").strip()
                else:
                    want[(law, d, ty)] = ctx.run_model(["g711", "enc", law, ty, "sse2"], _hex(_enc_inputs(ty), digits) + "\n").strip()
            w = want[(law, d, ty)]
            got = lines[k].split("data=" if d == "dec" else "hex=", 1)[1].strip() if ("data=" if d == "dec" else "hex=") in lines[k] else ""
            stats["judged_lines"] += 1
            n = 256 if d == "dec" else len(w) // 2
            stats["items"] += n
            ctx.count(n, tag="g711-order-%s-%s-%s" % (d, law, ty))
            if got == w:
                continue
            stats["differing_lines"] += 1
            found = True
            if (law, d, ty) in reported:
                continue
            reported.add((law, d, ty))
            od = digits if d == "dec" else 2
            i = next((j for j in range(min(len(got), len(w)) // od) if got[j * od:(j + 1) * od] != w[j * od:(j + 1) * od]), 0)
            rp = _shrink(ctx, p, k, d, w)
            ctx.violation("g711-order-%s-%s-%s" % (d, law, ty),
                          "# C20: G.711 %s %s through the %s entry point%s gives a different answer when other reads / writes came before it in the same process\n"
                          "# process %s, line %d: item %d is %s, the G.711 definition (sfmodel g711, the answer of the same call in a fresh process) gives %s\n"
                          "expect-last %s\n--- script\n%s"
                          % (law, "decoding" if d == "dec" else "encoding", api, "" if norm is None else " (normalisation %s)" % ("on" if norm else "off"),
                             p.name, k, i, got[i * od:(i + 1) * od], w[i * od:(i + 1) * od], ("data=" if d == "dec" else "hex=") + w, rp))
    ctx.coverage["traces_validated_against_impl"] += stats["judged_lines"]
    stats["wall_s"] = round(time.time() - t0, 1)
    ctx.notes["g711_order"] = stats
    ctx.coverage["rule"] += ("; G.711 order pass (vlib/g711order.py): all 256 codes x 6 read entry points x 2 laws in ONE process, seeded permutation and its reverse, one handle with the "
                             "normalisation switches toggled between reads, float / double encoders under both settings in both orders, every line against sfmodel g711")
    return found, stats


def _shrink(ctx, p, k, d, want):
    """shortest history: the block of the failing line preceded by ONE earlier block, else the whole prefix"""
    key = "data=" if d == "dec" else "hex="

    def fails(script):
        lines, rc, err = ctx.script(script)
        return bool(lines) and key in lines[-1] and lines[-1].split(key, 1)[1].strip() != want

    # blocks = maximal runs that start with `store` / `open … w`
    starts = [i for i, l in enumerate(p.lines[:k + 1]) if l.startswith("store ") or (l.startswith("open ") and " w " in l)]
    last = starts[-1]
    tail = p.lines[last:k + 1]
    # inside a toggling block: keep only the lines up to k (already so); try dropping earlier reads of the block pairwise is not needed
    for s in starts[:-1]:
        e = starts[starts.index(s) + 1]
        cand = "\n".join(p.lines[s:e] + tail) + "\n"
        if fails(cand):
            return cand
    cand = "\n".join(tail) + "\n"
    if fails(cand):
        return cand
    return p.script(k + 1)
