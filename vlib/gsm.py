"""GSM 06.10 campaign (C05 / C06 / C07 extension): RAW, AIFF (33-byte frames of 160) and WAV, W64 (WAV49: 65-byte blocks
of 320) against the bit-exact Lean model (lean/SfModel/Gsm.lean decoder, GsmEnc.lean encoder, GsmFile.lean wrapper;
`sfmodel gsm script`).

Job kinds
  bytes    the data region is made by the campaign — noise, all-ones, all-zeros, parameter-level extremes (LARc / xmaxc /
           Nc / bc at their limits packed by an independent packer for both layouts), long runs of one extreme frame (the
           filter state saturates), wrong magic nibbles, a truncated last block — put behind a hand-built WAV header, a
           library-written W64 / AIFF header, or stored as a RAW file, and decoded by the library;
  written  the library writes caller values (noise, full scale, silence, ramps, sines; lengths around 160 k and 320 k) in
           calls of mixed sizes / types / item-frame variants, the file is dumped and re-opened;
  twin     the same caller values in one call per run of equal type (C07 partition predicate).
Every file is read three ways: one call of frames+5 items (the reference), in pieces with refused seeks in between, and
through a second caller type.

Correspondence ('corr'): every write return value, the data region the library wrote (model encoder), frames at
re-open (blocks rule of gsm610_init incl. the pad / truncation cases and the AIFF clamp), every read's return value and
the whole caller buffer (written cells, zero fill, untouched 0xA5 cells), every seek result.

Predicates on the implementation's own transcript ('pred'):
  count      (C05) a write returns the count asked
  position   (C05) a read returns min (asked, frames - position); beyond the end 0 and an all-zero buffer
  stream     (C06) pieces deliver the slice of the one-call reference read at their position (any caller type, converted)
  seek       (C06) the handle reports seekable = 0 and refuses every seek (-1, error set) without disturbing the stream
  partition  (C07) same caller values, different call partition: same file bytes
  crash      no crash / sanitizer report / timeout on any input
"""
import collections, concurrent.futures, math, struct

from . import scripts as S, kernels as K

DIG = K.TY_DIGITS
TYS = ["s16", "s32", "f32", "f64"]
WAV, AIFF, RAW, W64 = 0x010000, 0x020000, 0x040000, 0x0B0000
GSM = 0x0020
CONTAINERS = {"wav": WAV, "w64": W64, "aiff": AIFF, "raw": RAW}
OWN_KIND = {"C05": "bytes", "C06": "bytes", "C07": "written"}
WIDTHS = [6, 6, 5, 5, 4, 4, 3, 3] + [7, 2, 2, 6] + [3] * 13 + [7, 2, 2, 6] + [3] * 13 + [7, 2, 2, 6] + [3] * 13 + [7, 2, 2, 6] + [3] * 13


def is_wav(cont):
    return cont in ("wav", "w64")


def geom(cont):
    return (65, 320) if is_wav(cont) else (33, 160)


# ---------------------------------------------------------------------------------------------------
# independent packers of the two frame layouts (bit strings, not the shift-register code of gsm_encode.c)
# ---------------------------------------------------------------------------------------------------

def pack33(params, magic=0xD):
    bits = "{:04b}".format(magic & 15) + "".join("{:0{w}b}".format(v & ((1 << w) - 1), w=w) for v, w in zip(params, WIDTHS))
    return bytes(int(bits[i:i + 8], 2) for i in range(0, 264, 8))


def pack49(p1, p2):
    bits = ""
    for params in (p1, p2):
        bits += "".join("{:0{w}b}".format(v & ((1 << w) - 1), w=w)[::-1] for v, w in zip(params, WIDTHS))
    return bytes(int(bits[i:i + 8][::-1], 2) for i in range(0, 520, 8))


def rand_params(rng, style):
    if style == "max":
        return [(1 << w) - 1 for w in WIDTHS]
    if style == "zero":
        return [0] * 76
    out = []
    for i, w in enumerate(WIDTHS):
        top = (1 << w) - 1
        if style == "loud":           # xmaxc 63, gain 3, extreme pulses
            v = top if w in (6, 2) else rng.choice([0, top]) if w == 3 else rng.getrandbits(w)
        elif style == "lag":          # lags at and beyond the legal range 40..120
            v = rng.choice([0, 39, 40, 41, 119, 120, 121, 127]) if w == 7 else rng.getrandbits(w)
        elif style == "lar":          # log-area ratios at their limits
            v = rng.choice([0, top]) if i < 8 else rng.getrandbits(w)
        else:
            v = rng.choice([0, top, rng.getrandbits(w)])
        out.append(v)
    return out


def make_region(rng, cont, nblocks, style):
    """bytes of a data region of `nblocks` blocks"""
    bs, _ = geom(cont)
    wav = is_wav(cont)

    def one(st):
        if st == "noise":
            b = bytearray(rng.getrandbits(8) for _ in range(bs))
            if not wav:
                b[0] = 0xD0 | (b[0] & 15)
            return bytes(b)
        if st == "ones":
            return (b"\xff" * bs) if wav else (b"\xdf" + b"\xff" * 32)
        if st == "zeros":
            return (b"\0" * bs) if wav else (b"\xd0" + b"\0" * 32)
        if st == "badmagic":
            return bytes([rng.choice([0, 0x10, 0xC5, 0xE0, 0xFF, rng.getrandbits(8)])] + [rng.getrandbits(8) for _ in range(bs - 1)])
        return pack49(rand_params(rng, st), rand_params(rng, st)) if wav else pack33(rand_params(rng, st))
    out = b""
    if style == "saturate":
        blk = one(rng.choice(["max", "loud", "ones", "lar"]))
        alt = one(rng.choice(["max", "loud", "zero", "noise"]))
        for k in range(nblocks):
            out += blk if rng.random() < 0.9 else alt
        return out
    if style == "mixture":
        pool = ["noise", "noise", "ones", "zeros", "max", "zero", "loud", "lag", "lar", "mix"] + ([] if wav else ["badmagic"])
        return b"".join(one(rng.choice(pool)) for _ in range(nblocks))
    return b"".join(one(style) for _ in range(nblocks))


# ---------------------------------------------------------------------------------------------------
# containers: a hand-built WAV header, library-written templates for W64 / AIFF; the parser-side geometry
# ---------------------------------------------------------------------------------------------------

def wav_file(data, sr=8000, frames=None):
    n = len(data)
    fmt = struct.pack("<HHIIHHHH", 0x31, 1, sr, sr * 65 // 320, 65, 0, 2, 320)
    fact = struct.pack("<I", (n // 65 * 320) if frames is None else frames)
    body = b"WAVEfmt " + struct.pack("<I", len(fmt)) + fmt + b"fact" + struct.pack("<I", 4) + fact + b"data" + struct.pack("<I", n) + data + (b"\0" if n & 1 else b"")
    return b"RIFF" + struct.pack("<I", len(body)) + body


def geometry(cont, f):
    """(data offset, psf->datalength as the container's parser leaves it, numSampleFrames or None) of file bytes f"""
    if cont == "raw":
        return 0, len(f), None
    if cont == "wav":
        pos = 12
        while pos + 8 <= len(f):
            cid, size = f[pos:pos + 4], struct.unpack("<I", f[pos + 4:pos + 8])[0]
            if cid == b"data":
                off = pos + 8
                dl = min(size, len(f) - off)
                return off, dl + (size & 1), None
            pos += 8 + size + (size & 1)
        return None
    if cont == "w64":
        pos = 40
        while pos + 24 <= len(f):
            cid, size = f[pos:pos + 4], struct.unpack("<Q", f[pos + 16:pos + 24])[0]
            if cid == b"data":
                off = pos + 24
                return off, min(size - 24, len(f) - off), None
            pos += size + (-size % 8)
        return None
    pos, hdr = 12, None
    while pos + 8 <= len(f):
        cid, size = f[pos:pos + 4], struct.unpack(">I", f[pos + 4:pos + 8])[0]
        if cid == b"COMM":
            hdr = struct.unpack(">I", f[pos + 10:pos + 14])[0]
        if cid == b"SSND":
            off = pos + 16
            return off, min(size - 8, len(f) - off), hdr
        pos += 8 + size + (size & 1)
    return None


def splice(cont, template, data):
    """put `data` (same length as the template's data region or shorter = truncated file) into a library-written file"""
    off, _, _ = geometry(cont, template)
    return template[:off] + data + (template[off + len(data):] if len(data) < len(template) - off else b"")


# ---------------------------------------------------------------------------------------------------
# caller values
# ---------------------------------------------------------------------------------------------------

CONTENTS = ["noise", "fullscale", "silence", "ramp", "sine", "quiet", "steps", "mixture"]
LENGTHS = [0, 1, 2, 159, 160, 161, 319, 320, 321, 479, 480, 481, 639, 640, 641, 799, 800, 959, 960, 961, 1280, 1600, 4095, 4096, 4097]


def content(rng, kind, n):
    """signed 16-bit codec values"""
    if n == 0:
        return []
    if kind == "noise":
        return [rng.randrange(-32768, 32768) for _ in range(n)]
    if kind == "fullscale":
        a, b = rng.choice([(32767, -32768), (-32768, 32767), (32767, 32767), (-32768, -32768), (32760, -32760)])
        p = rng.choice([1, 2, 3, 20, 40, 80])
        return [a if (i // p) % 2 == 0 else b for i in range(n)]
    if kind == "silence":
        return [0] * n
    if kind == "ramp":
        x0, inc = rng.choice([-32768, 0, 32767, rng.randrange(-32768, 32768)]), rng.choice([1, -1, 7, -7, 129, 1023, -2049, 8])
        return [((x0 + i * inc + 32768) & 0xFFFF) - 32768 for i in range(n)]
    if kind == "sine":
        amp, per = rng.choice([32767, 30000, 12000, 800, 9]), rng.choice([4.0, 13.7, 40.0, 57.3, 120.0, 333.0])
        return [int(round(amp * math.sin(2 * math.pi * i / per))) for i in range(n)]
    if kind == "quiet":
        a = rng.choice([1, 3, 7, 8, 15, 16])
        return [rng.randrange(-a, a + 1) for _ in range(n)]
    if kind == "steps":
        out, v = [], 0
        while len(out) < n:
            v = rng.choice([0, 32767, -32768, 8, -8, 16384, -16384, rng.randrange(-32768, 32768)])
            out += [v] * rng.choice([1, 2, 5, 39, 40, 41, 120, 160])
        return out[:n]
    out = []
    while len(out) < n:
        out += content(rng, rng.choice(CONTENTS[:-1]), min(n - len(out), rng.choice([1, 7, 40, 160, 161, 500])))
    return out


def to_caller(ty, x, flags):
    """bit pattern of the caller value of type `ty` that stands for the 16-bit codec value x"""
    if ty == "s16":
        return x & 0xFFFF
    if ty == "s32":
        return (x << 16) & 0xFFFFFFFF
    if ty == "f32":
        return K.f32bits(x / 32767.0 if flags.get("normF", 1) else float(x))
    return K.f64bits(x / 32767.0 if flags.get("normD", 1) else float(x))


def from_short(ty, v, flags):
    """what `gsm610_read_*` makes of the decoded short v (exact in every type)"""
    if ty == "s16":
        return v & 0xFFFF
    if ty == "s32":
        return (v << 16) & 0xFFFFFFFF
    if ty == "f32":
        return K.f32bits(v / 32768.0 if flags.get("normF", 1) else float(v))
    return K.f64bits(v / 32768.0 if flags.get("normD", 1) else float(v))


def sx16(u):
    return u - 65536 if u & 0x8000 else u


# ---------------------------------------------------------------------------------------------------
# jobs
# ---------------------------------------------------------------------------------------------------

class Job:
    def __init__(self, name, cont, sr, flags, kind, cont_kind, n):
        self.name, self.cont, self.sr, self.flags, self.kind, self.cont_kind, self.n = name, cont, sr, flags, kind, cont_kind, n
        self.word = CONTAINERS[cont] | GSM
        self.calls = []           # written / twin: (ty, unit, count, values)
        self.file = None          # bytes jobs: the whole file
        self.rty2 = "s32"
        self.pieces = []
        self.twin = None
        self.lines, self.mk = None, None

    def stored(self):
        return self.kind == "bytes"

    def open_r(self, h, s):
        return ("open %s %s r fmt=%08x ch=1 sr=%d" % (h, s, self.word, self.sr)) if self.cont == "raw" else "open %s %s r" % (h, s)

    def harness_script(self):
        lines, mk = [], []

        def add(l, m=None):
            lines.append(l)
            mk.append(m)
        if self.stored():
            add("store s0 " + self.file.hex())
        else:
            add("open h1 s0 w fmt=%08x ch=1 sr=%d" % (self.word, self.sr))
            for l in K.flag_cmds("h1", self.flags):
                add(l)
            for (ty, unit, cnt, vals) in self.calls:
                add(S.w_line("h1", ty, unit, cnt, vals), "w")
            add("close h1")
            add("dump s0", "close")
        add("copy s1 s0")
        add("copy s2 s0")
        # handle A: the one-call reference
        add(self.open_r("h2", "s0"), "load")
        add("r h2 s16 i %d" % (self.nref,), "r")
        add("r h2 s16 i 3", "r")
        add("seek h2 0 1", "seek")
        add("close h2")
        # handle B: pieces, seeks in between
        add(self.open_r("h3", "s1"), "load")
        for l in K.flag_cmds("h3", self.flags):
            add(l)
        for op in self.pieces:
            if op[0] == "r":
                add("r h3 %s %s %d" % (op[1], op[3], op[2]), "r")
            else:
                add("seek h3 %d %d" % (op[1], op[2]), "seek")
        add("close h3")
        # handle C: another caller type, pieces of 4096 +- 1 (the staging buffer of gsm610_read_i/f/d)
        add(self.open_r("h4", "s2"), "load")
        for l in K.flag_cmds("h4", self.flags):
            add(l)
        for k in self.pieces2:
            add("r h4 %s i %d" % (self.rty2, k), "r")
        add("close h4")
        self.lines, self.mk = lines, mk
        return "\n".join(lines) + "\n"

    def model_script(self, filebytes, enc_modelled):
        """filebytes: the library's file (written jobs) or the stored file"""
        g = geometry(self.cont, filebytes) if filebytes is not None else None
        head = "codec gsm wav=%d" % (1 if is_wav(self.cont) else 0) + "".join(" %s=%d" % (k, v) for k, v in sorted(self.flags.items()))
        lines = [head]
        if not self.stored():
            if enc_modelled:
                for (ty, unit, cnt, vals) in self.calls:
                    lines.append("w %s %s %d %s" % (ty, unit, cnt, K.hex_items(vals, DIG[ty])))
                lines.append("close")
            else:
                lines += ["skip"] * len(self.calls) + ["skip"]
        if g is None:
            load = "load dlen=0"
        else:
            off, dlen, hdr = g
            load = "load %s dlen=%d%s" % (filebytes[off:].hex(), dlen, "" if hdr is None else " hdr=%d" % hdr)
        body = ["r s16 i %d" % self.nref, "r s16 i 3", "seek 0 1"]
        lines += [load] + body + [load]
        for op in self.pieces:
            lines.append("r %s %s %d" % (op[1], op[3], op[2]) if op[0] == "r" else "seek %d %d" % (op[1], op[2]))
        lines.append(load)
        lines += ["r %s i %d" % (self.rty2, k) for k in self.pieces2]
        return "\n".join(lines) + "\n"


def split_calls(rng, n):
    out, left = [], n
    sizes = [1, 2, 7, 159, 160, 161, 320, 321, 4095, 4096, 4097, n, n] if rng.random() < 0.7 else [1, 1, 2, 3, 7, 29, 100, 160]
    while left > 0:
        k = min(left, rng.choice(sizes))
        if len(out) > 40:
            k = left
        out.append(k)
        left -= k
    return out


def read_pieces(rng, total, ty):
    """reads of `total` items cut into calls, with refused seeks in between"""
    ops, left = [], total
    sizes = [1, 2, 3, 159, 160, 161, 319, 320, 321, 4095, 4096, 4097, 5000] if total > 700 or rng.random() < 0.3 else [1, 1, 2, 3, 7, 100, 159, 160, 161]
    nreads = 0
    while left > 0:
        k = min(left, rng.choice(sizes))
        if nreads > 60:
            k = left
        ops.append(("r", ty, k, rng.choice("if")))
        nreads += 1
        left -= k
        if rng.random() < 0.25:
            ops.append(("seek",) + rng.choice([(0, 1), (0, 0), (1, 1), (-1, 1), (160, 0), (320, 0), (0, 2), (-1, 2), (total, 0), (17, 0)]))
    ops.append(("r", ty, 4, "i"))
    ops.append(("seek", 0, 1))
    return ops


def plan_reads(rng, j, frames_guess):
    j.nref = frames_guess + 5
    j.pieces = read_pieces(rng, frames_guess + 5, rng.choice(TYS))
    j.rty2 = rng.choice(["s32", "f32", "f64"])
    total, out = frames_guess + 5, []
    while total > 0:
        k = min(total, rng.choice([4095, 4096, 4097, 8192, 8193, 100, total]))
        out.append(k)
        total -= k
    j.pieces2 = out


BYTE_STYLES = ["noise", "noise", "mixture", "mixture", "saturate", "saturate", "ones", "zeros", "max", "zero", "loud", "lag", "lar", "mix", "badmagic"]
ANCHORS = [   # (container, kind, blocks or frames, style / content, extra bytes after the last whole block)
    ("wav", "bytes", 1, "noise", 0), ("wav", "bytes", 2, "max", 0), ("raw", "bytes", 3, "badmagic", 0), ("raw", "bytes", 2, "noise", 1),
    ("raw", "bytes", 2, "noise", 17), ("wav", "bytes", 2, "noise", 30), ("raw", "bytes", 60, "saturate", 0), ("wav", "bytes", 40, "saturate", 0),
    ("aiff", "bytes", 3, "noise", 0), ("w64", "bytes", 3, "ones", 0), ("raw", "bytes", 0, "noise", 0), ("wav", "bytes", 0, "noise", 0),
]


def make_jobs(ctx, njobs, prop, templates):
    rng = ctx.rng
    quick = ctx.tier == "quick"
    own = OWN_KIND[prop]
    jobs, k = [], 0
    budget = (180 if quick else 600) * njobs          # blocks of 160 frames over all jobs
    spent = 0
    conts = ["raw", "wav", "aiff", "w64"]
    while k < njobs:
        extra = 0
        if k < len(ANCHORS) and own == "bytes":
            cont, kind, size, style, extra = ANCHORS[k]
        else:
            cont = conts[k % 4]
            kind = own if rng.random() < 0.6 else rng.choice(["bytes", "written"])
            style = rng.choice(BYTE_STYLES if kind == "bytes" else CONTENTS)
            if kind == "bytes":
                r = rng.random()
                size = rng.choice([0, 1, 2, 3, 4, 5]) if r < 0.4 else rng.randrange(1, 30) if r < 0.85 else rng.randrange(30, 120 if quick else 600)
                if style == "saturate":
                    size = max(size, rng.randrange(20, 80))
                if cont in ("raw", "wav") and rng.random() < 0.25:
                    extra = rng.choice([1, 2, 16, 32, 33, 34, 64])
            else:
                r = rng.random()
                size = rng.choice(LENGTHS) if r < 0.55 else rng.randrange(0, 700) if r < 0.85 else rng.randrange(700, 6000 if quick else 30000)
        bs, spb = geom(cont)
        cost = size * (spb // 160) if kind == "bytes" else size // 160 + 1
        if spent + cost > budget * (k + 1) // njobs + 150:
            size = rng.choice([0, 1, 2, 3]) if kind == "bytes" else rng.choice(LENGTHS[:12])
            cost = size * (spb // 160) if kind == "bytes" else size // 160 + 1
        spent += cost
        sr = rng.choice([8000, 8000, 44100, 11025, 1])
        flags = {}
        if rng.random() < 0.25:
            flags = {"normF": rng.choice([0, 1]), "normD": rng.choice([0, 1])}
        name = "%s-%s-%d-%s-%d" % (cont, kind, size, style, k)
        k += 1
        if kind == "bytes":
            if cont in ("aiff", "w64") and (size not in templates.get(cont, {})):
                cont = "wav" if cont == "w64" else "raw"
                name = "%s-%s-%d-%s-%d" % (cont, kind, size, style, k - 1)
                bs, spb = geom(cont)
            j = Job(name, cont, sr, flags, "bytes", style, size * spb)
            region = make_region(rng, cont, size, style)
            if extra:
                extra = min(extra, bs - 1)
                region += bytes(rng.getrandbits(8) for _ in range(extra))
            if cont == "raw":
                j.file = region
            elif cont == "wav":
                j.file = wav_file(region, sr, frames=rng.choice([None, None, 0, 7, size * 320 + 320]))
            else:
                j.file = splice(cont, templates[cont][size], region)
            g = geometry(cont, j.file)
            frames = spb * (g[1] // bs + (0 if g[1] % bs == 0 or (g[1] % bs == 1 and bs == 33) else 1))
            if g[2] is not None:
                frames = min(frames, g[2])
            plan_reads(rng, j, frames)
            jobs.append(j)
            continue
        xs = content(rng, style, size)
        j = Job(name, cont, sr, flags, "written", style, size)
        tys = TYS if rng.random() < 0.5 else [rng.choice(TYS)]
        i = 0
        for c in split_calls(rng, size):
            ty = rng.choice(tys)
            j.calls.append((ty, rng.choice("if"), c, [to_caller(ty, x, flags) for x in xs[i:i + c]]))
            i += c
        frames = -(-size // spb) * spb if cont != "aiff" else size
        plan_reads(rng, j, frames + (spb if cont == "wav" else 0))
        jobs.append(j)
        if size > 0 and (prop == "C07" or rng.random() < 0.3):
            merged = []
            for (ty, unit, cnt, vals) in j.calls:
                if merged and merged[-1][0] == ty:
                    merged[-1] = (ty, "i", merged[-1][2] + cnt, merged[-1][3] + vals)
                else:
                    merged.append((ty, "i", cnt, list(vals)))
            t = Job(name + "-twin", cont, sr, flags, "twin", style, size)
            t.calls = merged
            t.nref, t.pieces, t.rty2, t.pieces2 = j.nref, [("r", "s16", 7, "i")], j.rty2, [5]
            j.twin = t.name
            jobs.append(t)
            spent += cost
    return jobs


def make_templates(ctx, quick):
    """library-written W64 and AIFF files of 0 .. N blocks of silence: the headers the `bytes` jobs splice their data into"""
    sizes = list(range(0, 31)) + ([] if quick else list(range(31, 121, 3)))
    scripts = []
    for cont in ("w64", "aiff"):
        bs, spb = geom(cont)
        for nb in sizes:
            lines = ["open h0 s0 w fmt=%08x ch=1 sr=8000" % (CONTAINERS[cont] | GSM)]
            if nb:
                lines.append("w h0 s16 i %d %s" % (nb * spb, "0000" * (nb * spb)))
            lines += ["close h0", "dump s0"]
            scripts.append(("%s|%d" % (cont, nb), "\n".join(lines) + "\n"))
    out = ctx.batch(scripts, workers=4, clean=True)
    res = {"w64": {}, "aiff": {}}
    for name, lines in out.items():
        cont, nb = name.split("|")
        h = dump_hex(lines)
        if h:
            res[cont][int(nb)] = bytes.fromhex(h)
    return res


# ---------------------------------------------------------------------------------------------------
# running the model, analysis
# ---------------------------------------------------------------------------------------------------

def run_model(ctx, scripts, workers=3):
    chunks = [scripts[i::workers] for i in range(workers)]
    chunks = [c for c in chunks if c]

    def one(chunk):
        inp = "".join("== %s\n%s" % (n, t) for (n, t) in chunk)
        out = ctx.run_model(["gsm", "script"], inp, timeout=3600)
        res, cur = {}, None
        for line in out.split("\n"):
            if line.startswith("== "):
                cur = line[3:]
                res[cur] = []
            elif cur is not None and line:
                res[cur].append(line)
        return res

    out = {}
    with concurrent.futures.ThreadPoolExecutor(max_workers=len(chunks) or 1) as ex:
        for r in ex.map(one, chunks):
            out.update(r)
    return out


def kv(line):
    d = {}
    for t in line.split():
        if "=" in t:
            a, b = t.split("=", 1)
            d[a] = b
    return d


def items_of(hexs, ty):
    w = DIG[ty]
    return [hexs[i:i + w] for i in range(0, len(hexs) - w + 1, w)]


def dump_hex(lines):
    l = next((l for l in lines if l.startswith("len=") and "hex=" in l), None)
    return l.split("hex=")[1].strip() if l is not None else ""


class Problem:
    def __init__(self, job, kind, cat, text, line=None, impl=None, model=None, expect=None):
        self.job, self.kind, self.cat, self.text, self.line, self.impl, self.model, self.expect = job, kind, cat, text, line, impl, model, expect
        self.twin_script = None


def analyse(job, impl, model, enc_modelled):
    probs = []
    sl, mk = job.lines, job.mk
    info = {"filehex": None, "items": 0, "reads": 0, "seeks": 0, "bytes": 0, "frames": None}
    died = next((l for l in impl if l.startswith(("CRASH", "ABORT", "TIMEOUT"))), None)
    if died is not None:
        k = max(0, min(len(impl), len(sl)) - 1)
        return [Problem(job, "pred", "crash", "implementation died: " + died, k)], info
    if len(impl) < len(sl):
        return [Problem(job, "pred", "crash", "transcript ends early (%d of %d lines)" % (len(impl), len(sl)), len(impl))], info
    mi = 0
    F, pos, ref, handle, flags_of = 0, 0, None, None, {}
    broken = False
    for k, (op, out) in enumerate(zip(sl, impl)):
        t = op.split()
        m = None
        if mk[k] is not None:
            m = model[mi] if mi < len(model) else "<missing>"
            mi += 1
        if t[0] == "open":
            if "open=ok" not in out:
                probs.append(Problem(job, "pred", "open", "open failed: %s" % out[:200], k))
                return probs, info
            if t[3] == "r":
                a = kv(out)
                F, pos, handle, broken = int(a.get("frames", -1)), 0, t[1], False
                info["frames"] = F
                if m.strip() != "frames=%d" % F:
                    probs.append(Problem(job, "corr", "frames", "frames after open", k, out, m))
                # C04 / C05 on the implementation's own transcript (round 5): N frames written re-open as N <= F < N + samplesperblock
                if not job.stored() and job.calls:
                    nw = sum(c[2] for c in job.calls)
                    spb = 320 if job.cont in ("wav", "w64") else 160
                    if not (nw <= F < nw + spb):
                        probs.append(Problem(job, "pred", "frames", "%d frames written, the file re-opens with %d frames (not in [N, N + %d))" % (nw, F, spb), k,
                                             expect="frames=%d " % (((nw + spb - 1) // spb) * spb)))
                if a.get("seekable") != "0":
                    probs.append(Problem(job, "pred", "seek", "a GSM handle reports seekable=%s" % a.get("seekable"), k, expect="seekable=0"))
        elif t[0] == "w":
            if enc_modelled and S.normalise(out) != S.normalise(m):
                probs.append(Problem(job, "corr", "write", "write return value", k, out, m))
            if kv(out).get("ret") != t[4]:
                probs.append(Problem(job, "pred", "count", "write of %s items returned %s" % (t[4], kv(out).get("ret")), k, expect="ret=%s " % t[4]))
        elif t[0] == "dump":
            fh = out.split("hex=")[1].strip() if "hex=" in out else ""
            info["filehex"] = fh
            if enc_modelled:
                f = bytes.fromhex(fh)
                g = geometry(job.cont, f)
                bs, spb = geom(job.cont)
                nbytes = -(-job.n // spb) * bs
                data = f[g[0]:g[0] + nbytes].hex() if g else ""
                md = m.split("data=")[1].strip() if "data=" in m else "?"
                info["bytes"] = len(data) // 2
                if data != md:
                    d = next((i for i in range(0, min(len(data), len(md)), 2) if data[i:i + 2] != md[i:i + 2]), min(len(data), len(md)))
                    probs.append(Problem(job, "corr", "bytes", "data region differs from byte %d (block %d; lengths %d / %d): implementation …%s model …%s"
                                         % (d // 2, d // 2 // bs, len(data) // 2, len(md) // 2, data[max(0, d - 8):d + 24], md[max(0, d - 8):d + 24]), k,
                                         "len=%d" % (len(data) // 2), "len=%d" % (len(md) // 2)))
        elif t[0] == "r":
            ty, req = t[2], int(t[4])
            a, b = kv(out), kv(m)
            ret = int(a.get("ret", -1))
            if a.get("ret") != b.get("ret") or a.get("data", "") != b.get("data", "") or (a.get("err") == "0") != (b.get("err") == "0"):
                da, db = a.get("data", ""), b.get("data", "")
                d = next((i for i in range(0, min(len(da), len(db)), DIG[ty]) if da[i:i + DIG[ty]] != db[i:i + DIG[ty]]), min(len(da), len(db)))
                probs.append(Problem(job, "corr", "read", "read result (ret %s / %s, buffers differ from item %d: %s / %s)"
                                     % (a.get("ret"), b.get("ret"), d // DIG[ty], da[d:d + 32], db[d:d + 32]), k, out[:300], m[:300]))
            info["reads"] += 1
            info["items"] += max(ret, 0)
            got = items_of(a.get("data", ""), ty)
            exp = min(req, max(F - pos, 0))
            if handle == "h2" and ref is None:
                ref = [sx16(int(x, 16)) for x in got[:max(ret, 0)]]
            elif ref is not None and not broken:
                fl = job.flags if handle in ("h3", "h4") else {}
                want = [("%0" + str(DIG[ty]) + "x") % from_short(ty, v, fl) for v in ref[pos:pos + max(ret, 0)]]
                c = min(len(want), len(got))
                d = next((i for i in range(c) if got[i] != want[i]), None)
                if d is not None:
                    probs.append(Problem(job, "pred", "stream", "read of %d %s items at frame %d: item %d is %s, the one-call reference read delivered %s there"
                                         % (req, ty, pos, d, got[d], want[d]), k, expect="data=" + "".join(want)))
                    broken = True
            if ret != exp and not broken:
                probs.append(Problem(job, "pred", "position", "read of %d items at frame %d of %d returned %d" % (req, pos, F, ret), k, expect="ret=%d " % exp))
                broken = True
            elif ret == exp and not broken and req > 0:
                tail = got[max(ret, 0):]
                if pos >= F and any(int(x, 16) != 0 for x in tail):
                    probs.append(Problem(job, "pred", "position", "read of %d items at the end of the data (frame %d of %d): the buffer is not zero-filled" % (req, pos, F), k))
            pos += max(ret, 0)
        elif t[0] == "seek":
            a, b = kv(out), kv(m)
            if a.get("ret") != b.get("ret") or (a.get("err") == "0") != (b.get("err") == "0"):
                probs.append(Problem(job, "corr", "seek", "seek result", k, out, m))
            info["seeks"] += 1
            if a.get("ret") != "-1" or a.get("err") == "0":
                probs.append(Problem(job, "pred", "seek", "sf_seek (%s, %s) on a handle that reports seekable=0 returned %s err=%s" % (t[2], t[3], a.get("ret"), a.get("err")), k, expect="ret=-1 "))
    return probs, info


def campaign(ctx, njobs, prop, enc_modelled):
    quick = ctx.tier == "quick"
    templates = make_templates(ctx, quick)
    ctx.gsm_templates = templates
    jobs = make_jobs(ctx, njobs, prop, templates)
    hs = {j.name: j.harness_script() for j in jobs}
    impl = ctx.batch([(j.name, hs[j.name]) for j in jobs], workers=4, clean=True)
    ms = []
    for j in jobs:
        if j.stored():
            f = j.file
        else:
            h = dump_hex(impl.get(j.name, []))
            f = bytes.fromhex(h) if h else None
        ms.append((j.name, j.model_script(f, enc_modelled)))
    model = run_model(ctx, ms)
    stats = collections.Counter()
    probs, infos = [], {}
    for j in jobs:
        p, info = analyse(j, impl.get(j.name, []), model.get(j.name, []), enc_modelled)
        infos[j.name] = info
        probs += p
        bs, spb = geom(j.cont)
        stats["jobs"] += 1
        stats["ops"] += len(j.lines)
        stats["frames_written"] += 0 if j.stored() else j.n
        stats["items_read_and_compared"] += info["items"]
        stats["reads_compared"] += info["reads"]
        stats["seeks_compared"] += info["seeks"]
        stats["encoded_bytes_compared"] += info["bytes"]
        stats["cont:" + j.cont] += 1
        stats["kind:" + j.kind] += 1
        if j.stored():
            stats["campaign_made_blocks_decoded"] += (info["frames"] or 0) // spb
            stats["campaign_made_frames_of_160_decoded"] += (info["frames"] or 0) // 160
        ctx.distinct.add("gsm:%s:%s:%s" % (j.cont, j.kind, j.cont_kind))
    byname = {j.name: j for j in jobs}
    for j in jobs:
        if not j.twin:
            continue
        a, b = infos.get(j.name, {}).get("filehex"), infos.get(j.twin, {}).get("filehex")
        if a is None or b is None:
            continue
        stats["twins_compared"] += 1
        if a != b:
            d = next((i for i in range(0, min(len(a), len(b)), 2) if a[i:i + 2] != b[i:i + 2]), min(len(a), len(b)))
            pr = Problem(j, "pred", "partition", "the same caller values written in %d calls and in %d calls give files that differ from byte %d (lengths %d / %d)"
                         % (len(j.calls), len(byname[j.twin].calls), d // 2, len(a) // 2, len(b) // 2), None)
            pr.twin_script = hs[j.twin]
            probs.append(pr)
    return jobs, hs, probs, stats


# ---------------------------------------------------------------------------------------------------
# gsm610_seek, called directly (`cseek`, harness/gsmx.c): model-tie stream for code the public API cannot reach
# ---------------------------------------------------------------------------------------------------

def cseek_stream(ctx, templates, nfiles):
    """-> (problems as (name, text, script), stats). Files of campaign-made blocks; reads, direct codec seeks to block starts,
    mid-block frames, 0, the end, beyond the end and negative offsets, reads again; `Sf.Gsm.CHandle` answers the same script."""
    rng = ctx.rng
    jobs = []
    for k in range(nfiles):
        cont = ["raw", "wav", "aiff", "w64"][k % 4]      # (WAVEX + GSM 06.10 cannot be written or parsed: that arm of gsm610_init is dead)
        base = "wav" if cont == "wavex" else cont
        bs, spb = geom(base)
        nb = rng.choice([1, 2, 3, 4, 6, 9])
        region = make_region(rng, base, nb, rng.choice(["noise", "mixture", "loud"]))
        if cont == "raw":
            f = region
        elif cont == "wav":
            f = wav_file(region)
        else:
            if nb not in templates.get(cont, {}):
                continue
            f = splice(base, templates[cont][nb], region)
        g = geometry(base, f)
        F = spb * (g[1] // bs + (0 if g[1] % bs == 0 or (g[1] % bs == 1 and bs == 33) else 1))
        if g[2] is not None:
            F = min(F, g[2])
        ops = []
        for _ in range(rng.choice([3, 5, 8])):
            ops.append(("cr", rng.choice([1, 7, spb - 1, spb, spb + 1, 2 * spb + 3, 40])))
            t = rng.choice([0, 0, spb, 2 * spb, spb // 2, spb + 1, spb - 1, F, F - 1, F + 1, -1, rng.randrange(0, F + 2), 3 * spb])
            ops.append(("cseek", t))
        ops.append(("cr", spb + 5))
        hl = ["store s0 " + f.hex(), ("open h0 s0 r fmt=%08x ch=1 sr=8000" % (RAW | GSM)) if cont == "raw" else "open h0 s0 r"]
        ml = ["codec gsm wav=%d wavex=%d" % (1 if is_wav(base) else 0, 1 if cont == "wavex" else 0),
              "cload %s dlen=%d%s" % (f[g[0]:].hex(), g[1], "" if g[2] is None else " hdr=%d" % g[2])]
        for op in ops:
            hl.append("r h0 s16 i %d" % op[1] if op[0] == "cr" else "cseek h0 %d" % op[1])
            ml.append("%s %d" % op)
        hl.append("close h0")
        jobs.append(("cseek-%s-%d-%d" % (cont, nb, k), hl, ml))
    impl = ctx.batch([(n, "\n".join(hl) + "\n") for (n, hl, ml) in jobs], workers=3, clean=True)
    model = run_model(ctx, [(n, "\n".join(ml) + "\n") for (n, hl, ml) in jobs], workers=2)
    probs, stats = [], collections.Counter()
    for (n, hl, ml) in jobs:
        a, b = impl.get(n, []), model.get(n, [])
        stats["files"] += 1
        for k in range(1, len(hl) - 1):
            x, y = kv(a[k]) if k < len(a) else {}, kv(b[k - 1]) if k - 1 < len(b) else {}
            if hl[k].startswith("open"):
                ok = x.get("frames") == y.get("frames")
            elif hl[k].startswith("cseek"):
                ok = x.get("ret") == y.get("ret")
                stats["codec_seeks_compared"] += 1
            else:
                ok = x.get("ret") == y.get("ret") and x.get("data") == y.get("data")
                stats["reads_after_codec_seeks_compared"] += 1
            if not ok:
                probs.append((n, "line %d `%s`: implementation %s / model %s" % (k, hl[k][:60], (a[k] if k < len(a) else "<missing>")[:200], (b[k - 1] if k - 1 < len(b) else "<missing>")[:200]),
                              "\n".join(hl[:k + 1]) + "\n"))
                break
    return probs, stats


CATS = {
    "C05": {"count", "frames", "position", "crash", "open"},
    "C06": {"stream", "position", "seek", "crash", "open"},
    "C07": {"partition", "count", "crash", "open"},
}
ENC_MODELLED = True


def run(ctx, prop, njobs):
    """called from the property's run(): reports violations; returns True if something was reported"""
    jobs, hs, probs, stats = campaign(ctx, njobs, prop, ENC_MODELLED)
    ctx.count(stats["ops"])
    ctx.coverage["traces_validated_against_impl"] += stats["jobs"]
    corr = [p for p in probs if p.kind == "corr"]
    corr_jobs = {p.job.name for p in corr}
    found = False
    reported = set()
    for p in probs:
        if p.kind != "pred" or p.cat not in CATS[prop]:
            continue
        j = p.job
        key = (j.cont, p.cat)
        if key in reported or len(reported) >= 3:
            continue
        reported.add(key)
        found = True
        sl = j.lines
        script = "\n".join(sl[:p.line + 1] if p.line is not None else sl) + "\n"
        if p.twin_script:
            script = hs[j.name] + "# --- the same caller values, one call per run of equal type:\n" + p.twin_script
        head = "expect-last %s\n" % p.expect if p.expect and p.line is not None and len(p.expect) < 4000 else ""
        ctx.violation("%s-gsm-%s-%s" % (prop.lower(), j.cont, p.cat),
                      "# %s violated on the implementation's own transcript (GSM 06.10 campaign, predicate '%s')\n# container %s (%08x), %d frames, job kind %s, content %s\n# %s\n%s--- script\n%s"
                      % (prop, p.cat, j.cont, j.word, j.n, j.kind, j.cont_kind, p.text, head, script))
    if corr and not found:
        p = corr[0]
        j = p.job
        ln = p.line or 0
        ctx.violation("%s-gsm-correspondence-%s" % (prop.lower(), j.cont),
                      "# correspondence stream 'GSM 06.10 model (Sf.Gsm) vs implementation' no longer agrees: %d differences in %d of %d jobs\n"
                      "# first: %s (%s), script line %d: %s\n# %s\n# implementation: %s\n# model: %s\n"
                      "# the %s predicates on the implementation's transcripts found no failing input\n--- script\n%s"
                      % (len(corr), len(corr_jobs), stats["jobs"], j.name, p.cat, ln, j.lines[ln][:100], p.text[:400], (p.impl or "")[:300], (p.model or "")[:300], prop,
                         "\n".join(j.lines[:ln + 1]) + "\n"), no_input=True)
        found = True
    cstats = {}
    if prop == "C06":
        cprobs, cstats = cseek_stream(ctx, ctx.gsm_templates, 40 if ctx.tier == "quick" else 400)
        ctx.count(cstats.get("codec_seeks_compared", 0) + cstats.get("reads_after_codec_seeks_compared", 0))
        if cprobs and not found:
            n, text, script = cprobs[0]
            ctx.violation("c06-gsm-codec-seek-stream",
                          "# correspondence stream 'gsm610_seek called directly (psf->seek) vs Sf.Gsm.seekAsWritten' no longer agrees: %d of %d files differ\n"
                          "# first: %s, %s\n# (sf_seek never reaches this function on a GSM handle - sf.seekable = 0 -, so no public-API history shows the difference)\n--- script\n%s"
                          % (len(cprobs), cstats["files"], n, text, script), no_input=True)
            found = True
        cstats = dict(cstats)
        cstats["differences"] = len(cprobs)
    note = {k: v for k, v in sorted(stats.items())}
    note["codec_seek_direct_call_stream"] = cstats
    note["correspondence_differences"] = len(corr)
    note["encoder_modelled"] = ENC_MODELLED
    note["predicate_failures_by_category"] = dict(collections.Counter(p.cat for p in probs if p.kind == "pred"))
    ctx.notes["gsm"] = note
    ctx.sample({"kind": "GSM job (%s)" % prop, "jobs": stats["jobs"], "example": next((t for t in hs.values() if len(t) < 900), next(iter(hs.values()))[:900])})
    ctx.coverage["rule"] = (ctx.coverage.get("rule", "") + " | gsm: RAW / AIFF (33-byte frames) and WAV / W64 (WAV49 65-byte blocks) x GSM 06.10: campaign-made data regions {noise, all-ones, all-zeros, "
                            "parameter-level extremes of LARc / Nc / bc / xmaxc / xMc through an independent packer, long runs of one extreme frame, wrong magic nibbles, truncated last block, 0..600 blocks} and "
                            "library-written files {noise, full scale, silence, ramps, sines, quiet, steps; lengths around 160 k and 320 k and up to 30000 frames; calls of {1,2,7,159..161,320,321,4095..4097,whole} items, "
                            "mixed caller types and item / frame variants}; every file read in one call, in pieces of {1,2,3,159..161,319..321,4095..4097,5000} with refused seeks in between, and through a second caller type; "
                            "frames at open, return values, whole caller buffers and (encoder) data bytes compared with the Lean model (sampled, not exhaustive)")
    return found
