"""C12 helpers: metadata structs as the public headers lay them out, script generation, parsing of `getmeta` lines,
and the expected value after close + re-open (`normalise`: exactly the documented normalisations)."""
import struct

CONT = {"wav": 0x010000, "wavex": 0x130000, "rf64": 0x220000, "aiff": 0x020000, "caf": 0x180000, "w64": 0x0B0000,
        "au": 0x030000, "rifx": 0x20010000}
PCM16 = 2
STR_TYPES = (1, 2, 3, 4, 5, 6, 7, 8, 9, 16)
STR_NAMES = {1: "title", 2: "copyright", 3: "software", 4: "artist", 5: "comment", 6: "date", 7: "album", 8: "license", 9: "tracknumber", 16: "genre"}

SFC_GET_CUE_COUNT, SFC_GET_CUE, SFC_SET_CUE = 0x10CD, 0x10CE, 0x10CF
SFC_GET_INSTRUMENT, SFC_SET_INSTRUMENT = 0x10D0, 0x10D1
SFC_GET_BROADCAST_INFO, SFC_SET_BROADCAST_INFO = 0x10F0, 0x10F1
SFC_GET_CHANNEL_MAP_INFO, SFC_SET_CHANNEL_MAP_INFO = 0x1100, 0x1101
SFC_SET_CART_INFO, SFC_GET_CART_INFO = 0x1400, 0x1401

BEXT_FIXED = 608          # offsetof (SF_BROADCAST_INFO, coding_history)
BEXT_FIELDS = [("description", 256), ("originator", 32), ("originator_reference", 32), ("origination_date", 10), ("origination_time", 8),
               ("_pad", 2), ("time_reference_low", 4), ("time_reference_high", 4), ("version", 2), ("umid", 64), ("loudness_value", 2), ("loudness_range", 2),
               ("max_true_peak_level", 2), ("max_momentary_loudness", 2), ("max_shortterm_loudness", 2), ("reserved", 180),
               ("coding_history_size", 4)]
CART_FIXED = 2052         # offsetof (SF_CART_INFO, tag_text)
CART_FIELDS = [("version", 4), ("title", 64), ("artist", 64), ("cut_id", 64), ("client_id", 64), ("category", 64), ("classification", 64),
               ("out_cue", 64), ("start_date", 10), ("start_time", 8), ("end_date", 10), ("end_time", 8), ("producer_app_id", 64),
               ("producer_app_version", 64), ("user_def", 64), ("level_reference", 4), ("post_timers", 64), ("reserved", 276), ("url", 1024),
               ("tag_text_size", 4)]
INST_SIZE = 272
CUE_SIZE = 280
LOOP_NONE, LOOP_FORWARD, LOOP_BACKWARD, LOOP_ALTERNATING = 800, 801, 802, 803

assert sum(n for _, n in BEXT_FIELDS) == BEXT_FIXED and sum(n for _, n in CART_FIELDS) == CART_FIXED


def fmt_hex(cont, sub=PCM16):
    return "%x" % (CONT[cont] | sub)


def pack_fields(layout, values, size_field, var):
    out = b""
    for name, n in layout:
        v = values.get(name, b"")
        if name == size_field:
            v = struct.pack("<I", values.get(size_field, len(var)) if isinstance(values.get(size_field, 0), int) else 0)
        if isinstance(v, int):
            v = v.to_bytes(n, "little", signed=v < 0)
        assert len(v) <= n, (name, len(v), n)
        out += v + bytes(n - len(v))
    return out + var


def bext_bytes(values, history):
    """SF_BROADCAST_INFO_VAR (len (history)) as the caller would hand it to SFC_SET_BROADCAST_INFO"""
    return pack_fields(BEXT_FIELDS, values, "coding_history_size", history)


def cart_bytes(values, tag_text):
    return pack_fields(CART_FIELDS, values, "tag_text_size", tag_text)


def unpack_fields(layout, blob):
    d, o = {}, 0
    for name, n in layout:
        d[name] = blob[o:o + n]
        o += n
    d["_var"] = blob[o:]
    return d


def inst_bytes(gain=1, basenote=60, detune=0, vel=(0, 127), key=(0, 127), loops=()):
    b = struct.pack("<ibbbbbbxxi", gain, basenote, detune, vel[0], vel[1], key[0], key[1], len(loops))
    for k in range(16):
        mode, start, end, count = loops[k] if k < len(loops) else (0, 0, 0, 0)
        b += struct.pack("<iIII", mode, start, end, count)
    assert len(b) == INST_SIZE
    return b


def inst_parse(b):
    gain, basenote, detune, vlo, vhi, klo, khi, lc = struct.unpack("<ibbbbbbxxi", b[:16])
    loops = [struct.unpack("<iIII", b[16 + 16 * k:32 + 16 * k]) for k in range(16)]
    return {"gain": gain, "basenote": basenote, "detune": detune, "vel": (vlo, vhi), "key": (klo, khi), "loop_count": lc, "loops": loops}


def cue_tok(c):
    """c = (indx, position, fcc, chunk_start, block_start, sample_offset, name bytes)"""
    return "".join("%08x" % (v & 0xffffffff) for v in c[:6]) + "/" + c[6].hex()


def setcues_line(h, cues, declared=None):
    return "setcues %s %d %s" % (h, len(cues) if declared is None else declared, ",".join(cue_tok(c) for c in cues))


def cmd_line(h, cmd, blob, size=None):
    return "cmd %s %x %d %s" % (h, cmd, len(blob) if size is None else size, blob.hex() if blob else "null")


def parse_meta(line):
    """'meta s1=… bext=1:… …' -> dict (strings: bytes or None; bext/cart/inst/chmap: (ret, bytes); cues: (ret, count, [cue tuples]))"""
    if not line.startswith("meta "):
        return None
    d = {}
    for tok in line.split()[1:]:
        k, v = tok.split("=", 1)
        if k[0] == "s" and k[1:].isdigit():
            d[int(k[1:])] = None if v == "null" else bytes.fromhex(v)
        elif k in ("bext", "cart", "inst", "chmap"):
            r, h = v.split(":", 1)
            d[k] = (int(r), bytes.fromhex(h))
        elif k == "cuecount":
            r, n = v.split(":")
            d[k] = (int(r), int(n))
        elif k == "cues":
            parts = v.split(":")
            r = int(parts[0])
            if not r:
                d[k] = (0, 0, [])
            else:
                cues = []
                for t in (parts[2].split(",") if parts[2] else []):
                    nums, name = t.split("/")
                    cues.append(tuple(int(nums[8 * i:8 * i + 8], 16) for i in range(6)) + (bytes.fromhex(name),))
                d[k] = (r, int(parts[1]), cues)
        elif k == "err":
            d[k] = int(v)
    return d


AUDIO = "0001000200030004fffe7fff80000000"      # 8 items


def audio_items(ch, frames=4):
    n = ch * frames
    return "".join("%04x" % ((k * 2749 + 17) & 0xffff) for k in range(n)), n


def mk_script(cont, sets, ch=2, sr=44100, late=(), frames=4, route="vio", sub=PCM16):
    """sets/late: op lines using handle h0 (before / after the audio).  The re-opened handle is h1."""
    hexs, n = audio_items(ch, frames)
    L = ["open h0 s0 w fmt=%s ch=%d sr=%d route=%s" % (fmt_hex(cont, sub), ch, sr, route)]
    L += list(sets)
    L.append("w h0 s16 i %d %s" % (n, hexs))
    L += list(late)
    L += ["close h0", "dump s0 sum", "open h1 s0 r fmt=0 ch=0 sr=0 route=%s" % route, "getmeta h1", "r h1 s16 i %d" % (n + ch), "close h1"]
    return "\n".join(L) + "\n"


# ---- the documented normalisations -------------------------------------------------------------------------------------

def crlf(b):
    """psf_strlcpy_crlf on the text up to the first NUL: CR LF, LF CR, lone CR, lone LF all become CR LF"""
    out, i = bytearray(), 0
    while i < len(b):
        c = b[i]
        if c in (13, 10):
            if i + 1 < len(b) and b[i + 1] in (13, 10) and b[i + 1] != c:
                i += 1
            out += b"\r\n"
        else:
            out.append(c)
        i += 1
    return bytes(out)


def cstr(b):
    k = b.find(b"\0")
    return b if k < 0 else b[:k]


def history_line(sr, ch, sub, package):
    width = {1: 8, 5: 8, 2: 16, 3: 24, 4: 32, 6: 24, 7: 53, 0x10: 12, 0x11: 12}.get(sub, 42)
    chn = "mono" if ch == 1 else "stereo" if ch == 2 else "%dchn" % ch
    return ("A=PCM,F=%d,W=%d,M=%s,T=%s\r\n" % (sr, width, chn, package)).encode()


def norm_history(h, sr, ch, sub, package):
    """coding history after SFC_SET_BROADCAST_INFO in SFM_WRITE and a re-open: CR/LF line ends, a line end added when missing,
    the library's own line appended, even length"""
    t = crlf(cstr(h))
    if t and not t.endswith(b"\n"):
        t += b"\r\n"
    t += history_line(sr, ch, sub, package)
    return t + (b"\0" if len(t) & 1 else b"")


def norm_tag_text(t):
    """cart tag text: CR/LF line ends, a line end added when missing, then NUL padding to an even length (1 or 2 NULs)"""
    x = crlf(cstr(t))
    if x and not x.endswith(b"\n"):
        x += b"\r\n"
    return x


def norm_software(s, package, limit=None):
    if b"libsndfile" in s:
        return s
    return package.encode() if not s else s + b" (" + package.encode() + b")"


def summary(d):
    """compact rendering of a parsed getmeta line (for replays and probing)"""
    if d is None:
        return "<no meta line>"
    out = []
    for t in STR_TYPES:
        if d.get(t) is not None:
            out.append("s%d=%r" % (t, d[t] if len(d[t]) < 40 else d[t][:16] + b"..%d" % len(d[t])))
    r, b = d.get("bext", (0, b""))
    if r:
        f = unpack_fields(BEXT_FIELDS, b)
        out.append("bext{desc=%r orig=%r ver=%d res=%s chsize=%d hist=%r}" % (cstr(f["description"])[:20], cstr(f["originator"]), int.from_bytes(f["version"], "little"),
                   f["reserved"].strip(b"\0").hex()[:8], int.from_bytes(f["coding_history_size"], "little"), f["_var"] if len(f["_var"]) < 90 else f["_var"][:30] + b"..%d" % len(f["_var"])))
    r, b = d.get("cart", (0, b""))
    if r:
        f = unpack_fields(CART_FIELDS, b)
        out.append("cart{ver=%r title=%r res=%s url=%r ttsize=%d tag=%r}" % (f["version"], cstr(f["title"]), f["reserved"].strip(b"\0").hex()[:8], cstr(f["url"]),
                   int.from_bytes(f["tag_text_size"], "little"), f["_var"] if len(f["_var"]) < 90 else f["_var"][:30] + b"..%d" % len(f["_var"])))
    out.append("cuecount=%s" % (d.get("cuecount"),))
    r, n, cues = d.get("cues", (0, 0, []))
    if r:
        out.append("cues[%d]=%s" % (n, cues[:4]))
    r, b = d.get("inst", (0, b""))
    if r:
        p = inst_parse(b)
        out.append("inst{gain=%d note=%d det=%d vel=%s key=%s loops[%d]=%s}" % (p["gain"], p["basenote"], p["detune"], p["vel"], p["key"], p["loop_count"], p["loops"][:max(0, min(16, p["loop_count"]))]))
    r, b = d.get("chmap", (0, b""))
    if r:
        out.append("chmap=%s" % [int.from_bytes(b[4 * i:4 * i + 4], "little") for i in range(len(b) // 4)])
    return " ".join(out)
