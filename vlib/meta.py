"""C12 helpers: metadata structs as the public headers lay them out, script generation, parsing of `getmeta` lines,
and the expected value after close + re-open (`normalise`: exactly the documented normalisations)."""
import struct

CONT = {"wav": 0x010000, "wavex": 0x130000, "rf64": 0x220000, "aiff": 0x020000, "caf": 0x180000, "w64": 0x0B0000,
        "au": 0x030000, "rifx": 0x20010000}
PCM16 = 2
STR_TYPES = (1, 2, 3, 4, 5, 6, 7, 8, 9, 16)
STR_NAMES = {1: "title", 2: "copyright", 3: "software", 4: "artist", 5: "comment", 6: "date", 7: "album", 8: "license", 9: "tracknumber", 16: "genre"}

SFC_GET_CUE_COUNT, SFC_GET_CUE, SFC_SET_CUE = 0x10CD, 0x10CE, 0x10CF
SFC_GET_INSTRUMENT, SFC_SET_INSTRUMENT = 0x10D0, 0x10D1
SFC_GET_BROADCAST_INFO, SFC_SET_BROADCAST_INFO = 0x10F0, 0x10F1
SFC_GET_CHANNEL_MAP_INFO, SFC_SET_CHANNEL_MAP_INFO = 0x1100, 0x1101
SFC_SET_CART_INFO, SFC_GET_CART_INFO = 0x1400, 0x1401

BEXT_FIXED = 608          # offsetof (SF_BROADCAST_INFO, coding_history)
BEXT_FIELDS = [("description", 256), ("originator", 32), ("originator_reference", 32), ("origination_date", 10), ("origination_time", 8),
               ("_pad", 2), ("time_reference_low", 4), ("time_reference_high", 4), ("version", 2), ("umid", 64), ("loudness_value", 2), ("loudness_range", 2),
               ("max_true_peak_level", 2), ("max_momentary_loudness", 2), ("max_shortterm_loudness", 2), ("reserved", 180),
               ("coding_history_size", 4)]
CART_FIXED = 2052         # offsetof (SF_CART_INFO, tag_text)
CART_FIELDS = [("version", 4), ("title", 64), ("artist", 64), ("cut_id", 64), ("client_id", 64), ("category", 64), ("classification", 64),
               ("out_cue", 64), ("start_date", 10), ("start_time", 8), ("end_date", 10), ("end_time", 8), ("producer_app_id", 64),
               ("producer_app_version", 64), ("user_def", 64), ("level_reference", 4), ("post_timers", 64), ("reserved", 276), ("url", 1024),
               ("tag_text_size", 4)]
INST_SIZE = 272
CUE_SIZE = 280
LOOP_NONE, LOOP_FORWARD, LOOP_BACKWARD, LOOP_ALTERNATING = 800, 801, 802, 803

assert sum(n for _, n in BEXT_FIELDS) == BEXT_FIXED and sum(n for _, n in CART_FIELDS) == CART_FIXED


def fmt_hex(cont, sub=PCM16):
    return "%x" % (CONT[cont] | sub)


def pack_fields(layout, values, size_field, var):
    out = b""
    for name, n in layout:
        v = values.get(name, b"")
        if name == size_field:
            v = struct.pack("<I", values.get(size_field, len(var)) if isinstance(values.get(size_field, 0), int) else 0)
        if isinstance(v, int):
            v = v.to_bytes(n, "little", signed=v < 0)
        assert len(v) <= n, (name, len(v), n)
        out += v + bytes(n - len(v))
    return out + var


def bext_bytes(values, history):
    """SF_BROADCAST_INFO_VAR (len (history)) as the caller would hand it to SFC_SET_BROADCAST_INFO"""
    return pack_fields(BEXT_FIELDS, values, "coding_history_size", history)


def cart_bytes(values, tag_text):
    return pack_fields(CART_FIELDS, values, "tag_text_size", tag_text)


def unpack_fields(layout, blob):
    d, o = {}, 0
    for name, n in layout:
        d[name] = blob[o:o + n]
        o += n
    d["_var"] = blob[o:]
    return d


def inst_bytes(gain=1, basenote=60, detune=0, vel=(0, 127), key=(0, 127), loops=()):
    b = struct.pack("<ibbbbbbxxi", gain, basenote, detune, vel[0], vel[1], key[0], key[1], len(loops))
    for k in range(16):
        mode, start, end, count = loops[k] if k < len(loops) else (0, 0, 0, 0)
        b += struct.pack("<iIII", mode, start, end, count)
    assert len(b) == INST_SIZE
    return b


def inst_parse(b):
    gain, basenote, detune, vlo, vhi, klo, khi, lc = struct.unpack("<ibbbbbbxxi", b[:16])
    loops = [struct.unpack("<iIII", b[16 + 16 * k:32 + 16 * k]) for k in range(16)]
    return {"gain": gain, "basenote": basenote, "detune": detune, "vel": (vlo, vhi), "key": (klo, khi), "loop_count": lc, "loops": loops}


def cue_tok(c):
    """c = (indx, position, fcc, chunk_start, block_start, sample_offset, name bytes)"""
    return "".join("%08x" % (v & 0xffffffff) for v in c[:6]) + "/" + c[6].hex()


def setcues_line(h, cues, declared=None):
    return "setcues %s %d %s" % (h, len(cues) if declared is None else declared, ",".join(cue_tok(c) for c in cues))


def cmd_line(h, cmd, blob, size=None):
    return "cmd %s %x %d %s" % (h, cmd, len(blob) if size is None else size, blob.hex() if blob else "null")


def parse_meta(line):
    """'meta s1=… bext=1:… …' -> dict (strings: bytes or None; bext/cart/inst/chmap: (ret, bytes); cues: (ret, count, [cue tuples]))"""
    if not line.startswith("meta "):
        return None
    d = {}
    for tok in line.split()[1:]:
        k, v = tok.split("=", 1)
        if k[0] == "s" and k[1:].isdigit():
            d[int(k[1:])] = None if v == "null" else bytes.fromhex(v)
        elif k in ("bext", "cart", "inst", "chmap"):
            r, h = v.split(":", 1)
            d[k] = (int(r), bytes.fromhex(h))
        elif k == "cuecount":
            r, n = v.split(":")
            d[k] = (int(r), int(n))
        elif k == "cues":
            parts = v.split(":")
            r = int(parts[0])
            if not r:
                d[k] = (0, 0, [])
            else:
                cues = []
                for t in (parts[2].split(",") if parts[2] else []):
                    nums, name = t.split("/")
                    cues.append(tuple(int(nums[8 * i:8 * i + 8], 16) for i in range(6)) + (bytes.fromhex(name),))
                d[k] = (r, int(parts[1]), cues)
        elif k == "err":
            d[k] = int(v)
    return d


AUDIO = "0001000200030004fffe7fff80000000"      # 8 items


def audio_items(ch, frames=4):
    n = ch * frames
    return "".join("%04x" % ((k * 2749 + 17) & 0xffff) for k in range(n)), n


def mk_script(cont, sets, ch=2, sr=44100, late=(), frames=4, route="vio", sub=PCM16):
    """sets/late: op lines using handle h0 (before / after the audio).  The re-opened handle is h1."""
    hexs, n = audio_items(ch, frames)
    L = ["open h0 s0 w fmt=%s ch=%d sr=%d route=%s" % (fmt_hex(cont, sub), ch, sr, route)]
    L += list(sets)
    L.append("w h0 s16 i %d %s" % (n, hexs))
    L += list(late)
    L += ["close h0", "dump s0 sum", "open h1 s0 r fmt=0 ch=0 sr=0 route=%s" % route, "getmeta h1", "r h1 s16 i %d" % (n + ch), "close h1"]
    return "\n".join(L) + "\n"


# ---- the documented normalisations -------------------------------------------------------------------------------------

def crlf(b):
    """psf_strlcpy_crlf on the text up to the first NUL: CR LF, LF CR, lone CR, lone LF all become CR LF"""
    out, i = bytearray(), 0
    while i < len(b):
        c = b[i]
        if c in (13, 10):
            if i + 1 < len(b) and b[i + 1] in (13, 10) and b[i + 1] != c:
                i += 1
            out += b"\r\n"
        else:
            out.append(c)
        i += 1
    return bytes(out)


def crlf_copy(b, room=16382):
    """psf_strlcpy_crlf into a 16 KiB field, exactly: every source byte is visited (NULs included) while fewer than `room` bytes have
    been written; the text is what precedes the first NUL"""
    out, i = bytearray(), 0
    while len(out) < room and i < len(b):
        c = b[i]
        if i + 1 < len(b) and ((c == 13 and b[i + 1] == 10) or (c == 10 and b[i + 1] == 13)):
            out += b"\r\n"
            i += 2
        elif c in (13, 10):
            out += b"\r\n"
            i += 1
        else:
            out.append(c)
            i += 1
    return cstr(bytes(out))


def strlcat(d, s, n=16384):
    return d + s[:max(0, n - len(d) - 1)]


def cstr(b):
    k = b.find(b"\0")
    return b if k < 0 else b[:k]


def history_line(sr, ch, sub, package):
    width = {1: 8, 5: 8, 2: 16, 3: 24, 4: 32, 6: 24, 7: 53, 0x10: 12, 0x11: 12}.get(sub, 42)
    chn = "mono" if ch == 1 else "stereo" if ch == 2 else "%dchn" % ch
    return ("A=PCM,F=%d,W=%d,M=%s,T=%s\r\n" % (sr, width, chn, package)).encode()


def norm_history(h, sr, ch, sub, package):
    """coding history after SFC_SET_BROADCAST_INFO in SFM_WRITE and a re-open: CR/LF line ends, a line end added when missing,
    the library's own line appended, even length"""
    t = crlf_copy(h)
    if t and not t.endswith(b"\n"):
        t = strlcat(t, b"\r\n")
    t = strlcat(t, history_line(sr, ch, sub, package))
    return t + (b"\0" if len(t) & 1 else b"")


def norm_tag_text(t):
    """cart tag text: CR/LF line ends, a line end added when missing, then NUL padding to an even length (1 or 2 NULs)"""
    x = crlf_copy(t)
    if x and not x.endswith(b"\n"):
        x = strlcat(x, b"\r\n")
    return x


def norm_software(s, package, limit=None):
    if b"libsndfile" in s:
        return s
    return package.encode() if not s else s + b" (" + package.encode() + b")"


def summary(d):
    """compact rendering of a parsed getmeta line (for replays and probing)"""
    if d is None:
        return "<no meta line>"
    out = []
    for t in STR_TYPES:
        if d.get(t) is not None:
            out.append("s%d=%r" % (t, d[t] if len(d[t]) < 40 else d[t][:16] + b"..%d" % len(d[t])))
    r, b = d.get("bext", (0, b""))
    if r:
        f = unpack_fields(BEXT_FIELDS, b)
        out.append("bext{desc=%r orig=%r ver=%d res=%s chsize=%d hist=%r}" % (cstr(f["description"])[:20], cstr(f["originator"]), int.from_bytes(f["version"], "little"),
                   f["reserved"].strip(b"\0").hex()[:8], int.from_bytes(f["coding_history_size"], "little"), f["_var"] if len(f["_var"]) < 90 else f["_var"][:30] + b"..%d" % len(f["_var"])))
    r, b = d.get("cart", (0, b""))
    if r:
        f = unpack_fields(CART_FIELDS, b)
        out.append("cart{ver=%r title=%r res=%s url=%r ttsize=%d tag=%r}" % (f["version"], cstr(f["title"]), f["reserved"].strip(b"\0").hex()[:8], cstr(f["url"]),
                   int.from_bytes(f["tag_text_size"], "little"), f["_var"] if len(f["_var"]) < 90 else f["_var"][:30] + b"..%d" % len(f["_var"])))
    out.append("cuecount=%s" % (d.get("cuecount"),))
    r, n, cues = d.get("cues", (0, 0, []))
    if r:
        out.append("cues[%d]=%s" % (n, cues[:4]))
    r, b = d.get("inst", (0, b""))
    if r:
        p = inst_parse(b)
        out.append("inst{gain=%d note=%d det=%d vel=%s key=%s loops[%d]=%s}" % (p["gain"], p["basenote"], p["detune"], p["vel"], p["key"], p["loop_count"], p["loops"][:max(0, min(16, p["loop_count"]))]))
    r, b = d.get("chmap", (0, b""))
    if r:
        out.append("chmap=%s" % [int.from_bytes(b[4 * i:4 * i + 4], "little") for i in range(len(b) // 4)])
    return " ".join(out)


# ---- analysis of a script + transcript: what was set, what must come back, which known-finding classes the script is in -----

WAVLIKE = ("wav", "wavex", "rf64", "rifx")
STR_SUPPORT = {"wav": (1, 2, 3, 4, 5, 6, 7, 9, 16), "wavex": (1, 2, 3, 4, 5, 6, 7, 9, 16), "rf64": (1, 2, 3, 4, 5, 6, 7, 9, 16),
               "rifx": (1, 2, 3, 4, 5, 6, 7, 9, 16), "aiff": (1, 2, 3, 4, 5), "caf": STR_TYPES}
BEXT_SUPPORT = ("wav", "wavex", "rf64", "rifx")
CART_SUPPORT = ("wav", "rf64", "rifx")
CUE_SUPPORT = ("wav", "wavex", "rifx", "aiff")
INST_SUPPORT = ("wav", "wavex", "rifx", "aiff")
CHMAP_SUPPORT = ("wavex", "rf64", "aiff", "caf")
CAF_KEYS = {1: b"title", 2: b"copyright", 3: b"software", 4: b"artist", 5: b"comment", 6: b"date", 7: b"album", 8: b"license", 9: b"tracknumber", 16: b"genre"}
HEADER_CAP = 100 * 1024    # psf_bump_header_allocation: the header (and every string read through it) must fit
# how many bytes below the cap the estimate of a script's header counts as "within the limits" (the fixed chunks of the
# container -- RIFF/fmt/fact/PEAK/ds64/COMM/desc --, the CAF 'free' padding and the 16 bytes of head room psf_binheader_writef wants)
HEADER_MARGIN = 6400


def cont_of(fmt):
    if (fmt >> 28) & 3 == 2 and (fmt >> 16) & 0xfff == 0x01:
        return "rifx"
    for k, v in CONT.items():
        if k != "rifx" and (fmt >> 16) & 0xfff == v >> 16:
            return k
    return "other"


class Setup:
    """what a script did on its write handle"""
    def __init__(self):
        self.cont, self.ch, self.sr, self.sub = "other", 0, 0, 0
        self.calls = []          # (kind, late, ret_ok, value, raw ret)   kind: ('str', ty) | 'bext' | 'cart' | 'cues' | 'inst' | 'chmap'
        self.wrote = None        # (n items, hex)
        self.wret = None
        self.close_ret = None
        self.reopen = None
        self.meta = None
        self.read = None
        self.crash = None
        self.nstr_calls = 0


def analyse(script, lines):
    s = Setup()
    ops = [l.split() for l in script.split("\n") if l.strip() and not l.startswith("#")]
    late = False
    for k, t in enumerate(ops):
        l = lines[k] if k < len(lines) else ""
        if l.startswith(("CRASH", "ABORT", "TIMEOUT")) or (k < len(lines) and l == "" and k + 1 < len(lines) and lines[k + 1].startswith(("CRASH", "ABORT", "TIMEOUT"))):
            s.crash = l or lines[k + 1]
            break
        if t[0] == "open" and t[1] == "h0":
            kv = dict(x.split("=", 1) for x in t[4:] if "=" in x)
            fmt = int(kv.get("fmt", "0"), 16)
            s.cont, s.ch, s.sr, s.sub = cont_of(fmt), int(kv.get("ch", 0)), int(kv.get("sr", 0)), fmt & 0xffff
            s.open_ok = l.startswith("open=ok")
        elif t[0] == "setstr" and t[1] == "h0":
            ty = int(t[2], 0)
            val = cstr(bytes.fromhex(t[3])) if len(t) > 3 and t[3] != "null" else None
            s.nstr_calls += 1
            s.calls.append((("str", ty), late, l.startswith("ret=0 "), val, l, s.nstr_calls))
        elif t[0] == "cmd" and t[1] == "h0":
            cid = int(t[2], 16)
            blob = bytes.fromhex(t[4]) if len(t) > 4 and t[4] not in ("null", "zero") else b""
            kind = {SFC_SET_BROADCAST_INFO: "bext", SFC_SET_CART_INFO: "cart", SFC_SET_INSTRUMENT: "inst", SFC_SET_CHANNEL_MAP_INFO: "chmap"}.get(cid)
            if kind:
                s.calls.append((kind, late, l.startswith("ret=1 "), blob[:int(t[3])], l, 0))
        elif t[0] == "setcues" and t[1] == "h0":
            cues = []
            for tok in (t[3].split(",") if len(t) > 3 and t[3] else []):
                nums, name = tok.split("/")
                cues.append(tuple(int(nums[8 * i:8 * i + 8], 16) for i in range(6)) + (cstr(bytes.fromhex(name))[:255],))
            s.calls.append(("cues", late, l.startswith("ret=1 "), cues, l, 0))
        elif t[0] == "w" and t[1] == "h0":
            late = True
            s.wrote = (int(t[4]), t[5] if len(t) > 5 else "")
            s.wret = l
        elif t[0] == "close" and t[1] == "h0":
            s.close_ret = l
        elif t[0] == "open" and t[1] == "h1":
            s.reopen = l
        elif t[0] == "getmeta" and t[1] == "h1":
            s.meta = parse_meta(l)
        elif t[0] == "r" and t[1] == "h1":
            s.read = l
    if s.crash is None:
        for l in lines:
            if l.startswith(("CRASH", "ABORT", "TIMEOUT")):
                s.crash = l
    return s


def printable(b):
    return all(0x20 <= c <= 0x7e for c in b)


def expected(s, package):
    """(expected values after re-open, classes of the script).  expected: dict kind -> value, only for kinds the container
    stores (the support matrix of the property); strings: dict type -> bytes."""
    c = s.cont
    classes = set()
    exp = {"str": {}}
    pkgname = package.split("-")[0].encode()
    # strings
    slots = []                  # (type, text, late) in slot order; replaced ones removed
    for (kind, late, ok, val, raw, n) in s.calls:
        if kind[0] != "str":
            continue
        ty = kind[1]
        if ty not in STR_TYPES:
            continue
        if not ok or val is None:
            continue
        if ty == 3:
            val = val if pkgname in val else (package.encode() if not val else val + b" (" + package.encode() + b")")
        if late and any(t == ty and not l for (t, v, l) in slots):
            classes.add("late-replace")
        slots = [(t, v, l) for (t, v, l) in slots if t != ty] + [(ty, val, late)]
    if c in STR_SUPPORT:
        sup = STR_SUPPORT[c]
        for (ty, v, l) in slots:
            if ty in sup:
                exp["str"][ty] = v
                if l:
                    exp.setdefault("late_str", set()).add(ty)      # set after the audio: may be ignored, must not come back altered
        stored = [(ty, v) for (ty, v, l) in slots if ty in sup]
        # no per-item limits any more (the readers take their buffers from the chunk sizes, the CAF writer from the string storage):
        # the only limit left is the header cache, below
        if c == "aiff":
            if any(ty in (2, 3) and not printable(v) for ty, v in stored):
                classes.add("aiff-sanitize")
    total = sum(len(v) + 14 for (ty, v, l) in slots)       # id + size + NUL + pad; CAF: key of at most 11 bytes + 2 NULs
    # bext / cart
    for kind, sup, fixed in (("bext", BEXT_SUPPORT, BEXT_FIXED), ("cart", CART_SUPPORT, CART_FIXED)):
        acc = [(late, val) for (k, late, ok, val, raw, n) in s.calls if k == kind and ok]
        if not acc or c not in sup:
            continue
        val = acc[-1][1]
        if kind == "bext":
            f = unpack_fields(BEXT_FIELDS, val)
            hist = norm_history(f["_var"], s.sr, s.ch, s.sub, package)
            f.update({"version": 2, "reserved": b"", "_pad": b"", "coding_history_size": len(hist)})
            exp["bext"] = bext_bytes({k: v for k, v in f.items() if k != "_var"}, hist)
            total += 610 + len(hist)
        else:
            f = unpack_fields(CART_FIELDS, val)
            t = norm_tag_text(f["_var"])
            size = len(t) + (1 if len(t) & 1 else 2)
            f.update({"reserved": b"", "tag_text_size": size})
            exp["cart"] = cart_bytes({k: v for k, v in f.items() if k != "_var"}, t + bytes(size - len(t)))
            total += 2056 + size
    # cues
    acc = [val for (k, late, ok, val, raw, n) in s.calls if k == "cues" and ok]
    if acc and c in CUE_SUPPORT:
        cues = acc[-1]
        if c == "aiff":
            exp["cues"] = [(q[0] & 0xffff, 0, 0x61746164, 0, 0, q[5], q[6]) for q in cues]
        else:
            # the name comes back as a C string of at most 255 bytes (SF_CUE_POINT.name [256]); labels are attached by cue
            # point id, which RIFF requires to be unique: with duplicate ids the names are outside the statement
            exp["cues"] = [tuple(q[:6]) + (q[6].split(b"\0")[0][:255],) for q in cues]
            if len({q[0] for q in cues}) != len(cues):
                exp["cue_names_unchecked"] = True
        # WAV: the names travel in a LIST/adtl chunk, one labl entry (id, size, cue id, text, NUL, pad) per named cue point
        total += 12 + (sum(8 + len(q[6]) for q in cues) if c == "aiff" else 24 * len(cues) + sum(14 + len(q[6]) for q in cues if q[6]))
    # instrument
    acc = [val for (k, late, ok, val, raw, n) in s.calls if k == "inst" and ok]
    if acc and c in INST_SUPPORT:
        p = inst_parse(acc[-1])
        if c == "aiff":
            classes.add("aiff-inst")
        lc = max(0, min(16, p["loop_count"]))
        loops = [(m if m in (801, 802, 803) else 800, st, en, cnt) for (m, st, en, cnt) in p["loops"][:lc]]
        exp["inst"] = inst_bytes(p["gain"], p["basenote"], p["detune"], p["vel"], p["key"], loops)
        if p["gain"] != 1 or p["vel"] != (0, 127) or p["key"] != (0, 127):
            classes.add("smpl-ranges")
        if not 0 <= p["detune"] <= 99:
            classes.add("smpl-detune")
        total += 44 + 24 * lc
    acc = [val for (k, late, ok, val, raw, n) in s.calls if k == "chmap" and ok]
    if acc and c in CHMAP_SUPPORT:
        exp["chmap"] = acc[-1]
    if total >= HEADER_CAP - HEADER_MARGIN:
        classes.add("header-cache")
    return exp, classes


def mask_cart(b):
    """the byte after the terminator of an even-length tag text is never written by cart_var_set (malloc'ed block)"""
    if len(b) >= CART_FIXED + 2 and b[-2] == 0:
        return b[:-1] + b"\0"
    return b


def judge(s, package):
    """the property predicate on one implementation transcript.  Returns (failures, classes); failure = (signature key, text)"""
    exp, classes = expected(s, package)
    F = []
    if s.crash:
        return [("crash", "the script ends with %s" % s.crash)], classes
    if not getattr(s, "open_ok", False):
        return [("open-write", "the write handle did not open")], classes
    n, hexs = s.wrote if s.wrote else (0, "")
    if s.wret is not None and not s.wret.startswith("ret=%d err=0" % n):
        F.append(("write", "write of %d items answered '%s'" % (n, s.wret)))
    if s.close_ret is not None and not s.close_ret.startswith("ret=0"):
        F.append(("close", "sf_close answered '%s'" % s.close_ret))
    if s.reopen is None or not s.reopen.startswith("open=ok"):
        F.append(("reopen-null", "the closed file cannot be re-opened: %s" % s.reopen))
        return F, classes
    if (" frames=%d " % (n // max(1, s.ch))) not in s.reopen:
        F.append(("audio", "%d frames were written, re-open says '%s'" % (n // max(1, s.ch), s.reopen)))
    if s.read is not None and not s.read.startswith("ret=%d err=0 data=%s" % (n, hexs)):
        F.append(("audio", "audio read back differs from what was written: '%s'" % s.read[:100]))
    # a valid item set before the audio on a container that stores the kind must be accepted
    for (kind, late, ok, val, raw, nth) in s.calls:
        if late or ok:
            continue
        if kind[0] == "str":
            if s.cont in STR_SUPPORT and kind[1] in STR_TYPES and val is not None and (val or kind[1] == 3) and nth <= 32:
                F.append(("refused-valid", "sf_set_string (%s, %d bytes) before the audio answered '%s'" % (STR_NAMES[kind[1]], len(val), raw)))
        elif kind in ("bext", "cart", "cues", "inst"):
            sup = {"bext": BEXT_SUPPORT, "cart": CART_SUPPORT, "cues": CUE_SUPPORT, "inst": INST_SUPPORT}[kind]
            if s.cont in sup:
                F.append(("refused-valid", "the SET call for %s before the audio answered '%s'" % (kind, raw.split(" data=")[0])))
    m = s.meta or {}
    for ty, v in exp["str"].items():
        if ty in exp.get("late_str", ()) and m.get(ty) is None:
            s.late_ignored = getattr(s, "late_ignored", 0) + 1
            continue
        if m.get(ty) != v:
            stale = ty == 3 and m.get(ty) is not None and m[ty].startswith(v) and len(m[ty]) - len(v) <= 4
            F.append(("str-3-stale-suffix" if stale else "str-%d" % ty, "string %s: set %r, re-opened file returns %r" % (STR_NAMES.get(ty, ty), v[:60] + (b"..%d" % len(v) if len(v) > 60 else b""), m.get(ty) if m.get(ty) is None else m.get(ty)[:60])))
    if "bext" in exp:
        r, b = m.get("bext", (0, b""))
        if not r:
            F.append(("bext-missing", "broadcast info was set (ret=1) but the re-opened file has none"))
        elif b != exp["bext"]:
            d = next((i for i in range(min(len(b), len(exp["bext"]))) if b[i] != exp["bext"][i]), min(len(b), len(exp["bext"])))
            F.append(("bext-differs", "broadcast info differs from normalise(set) at struct offset %d (got %d bytes, expected %d)" % (d, len(b), len(exp["bext"]))))
    if "cart" in exp:
        r, b = m.get("cart", (0, b""))
        if not r:
            F.append(("cart-missing", "cart info was set (ret=1) but the re-opened file has none"))
        elif mask_cart(b) != mask_cart(exp["cart"]):
            d = next((i for i in range(min(len(b), len(exp["cart"]))) if b[i] != exp["cart"][i]), min(len(b), len(exp["cart"])))
            F.append(("cart-differs", "cart info differs from normalise(set) at struct offset %d (got %d bytes, expected %d)" % (d, len(b), len(exp["cart"]))))
    if "cues" in exp:
        r, cnt, cues = m.get("cues", (0, 0, []))
        want = exp["cues"]
        if not r:
            F.append(("cues-missing", "%d cue points were set (ret=1) but the re-opened file has none" % len(want)))
        elif [q[:6] for q in cues] != [q[:6] for q in want] or cnt != len(want) or m.get("cuecount") != (1, len(want)):
            F.append(("cues-differ", "cue points differ: set %s…, got %s… (count %d)" % (want[:3], cues[:3], cnt)))
        elif [q[6] for q in cues] != [q[6] for q in want] and not exp.get("cue_names_unchecked"):
            F.append(("cue-names-empty" if all(q[6] == b"" for q in cues) else "cue-names-differ", "cue names differ: set %s, got %s" % ([q[6] for q in want][:4], [q[6] for q in cues][:4])))
    if "inst" in exp:
        r, b = m.get("inst", (0, b""))
        if not r:
            F.append(("inst-missing", "an instrument was set (ret=1) but the re-opened file has none"))
        elif b != exp["inst"]:
            g, w = inst_parse(b), inst_parse(exp["inst"])
            diff = sorted(k for k in g if g[k] != w[k])
            key = "inst-ranges-default" if set(diff) <= {"gain", "vel", "key"} and g["gain"] == 1 and g["vel"] == (0, 127) and g["key"] == (0, 127) else \
                  "inst-detune" if diff == ["detune"] else \
                  "inst-ranges-detune" if set(diff) <= {"gain", "vel", "key", "detune"} else "inst-differs"
            F.append((key, "instrument differs in %s: set %s, got %s" % (",".join(diff), {k: w[k] for k in diff}, {k: g[k] for k in diff})))
    if "chmap" in exp:
        r, b = m.get("chmap", (0, b""))
        if not r or b != exp["chmap"]:
            F.append(("chmap", "channel map set %s (ret=1), re-opened file returns %s" % (exp["chmap"].hex(), b.hex() if r else None)))
    return F, classes
