"""C09 twin campaign (round 5): a refused call has NO effect on anything observable LATER.

For every writable format a write history (SFM_WRITE, and SFM_RDWR on a new file where the container allows it) is run with
calls of every invalid class interleaved at four places -- before anything, after the valid metadata, BETWEEN the audio writes
(frame counts that leave a partial codec block pending) and before the close:

  positions   seeks behind the end / before the start / with an unknown or mode-contradicting whence (a block codec refuses the
              first kind in its own seek function, after the generic range check let it through)
  audio       reads on a write-only handle, misaligned and negative counts, misaligned raw writes
  metadata    SFC_SET_BROADCAST_INFO / SFC_SET_CART_INFO too big (>= the internal 16k struct), too small, with a length field that
              lies, NULL; SFC_SET_CUE too small / count larger than the block / NULL; SFC_SET_INSTRUMENT and
              SFC_SET_CHANNEL_MAP_INFO with a wrong size or an invalid entry; sf_set_string with NULL / an unknown type;
              every setter LATE (after audio has been written); sf_set_chunk late; SFC_SET_ADD_PEAK_CHUNK late;
              SFC_WAVEX_SET_AMBISONIC with an undefined value; SFC_SET_RAW_START_OFFSET on a non-RAW file; SFC_FILE_TRUNCATE
              through SF_VIRTUAL_IO; an undefined command id

The twin transcript decides which of the inserted calls were REFUSED (failure value of the call's kind); the base history is the
twin without exactly those (a call of a "maybe" class that the library accepts stays in both, it is a valid call).  Then
  * a call of a class that the documentation makes invalid must have been refused, with a non-zero error and a non-empty message;
  * every other line of the twin -- later calls, `getmeta` on the write handle (all metadata getters), the close, the BYTES of the
    closed file, and after re-opening it: info, all metadata getters, the audio -- must equal the base run.
The verdict is `Sf.AbsTwin.twinOk` (lean/SfModel/AbsTwin.lean), evaluated by `sfmodel abs-twin`; for the handle model the property is
the theorem `invalid_calls_do_not_change_closed_file` (lean/SfProps/C09Twin.lean).
"""
import re, struct, subprocess
from . import scripts as S, formats, abscheck, meta as M

KEEP = ("ret=", "open=", "len=", "err=", "msg=", "bad-", "meta ", "CRASH", "ABORT", "TIMEOUT")
WAVLIKE = (0x01, 0x13, 0x22)
SETTER_FALSE = {0x10F1, 0x1400, 0x10CF, 0x10D1, 0x1101, 0x1050, 0x1200}
# KF-C09-CHMAP-REFUSED-KEPT is repaired (a refused SFC_SET_CHANNEL_MAP_INFO leaves no map behind): nothing is waived for it any more,
# SF_FALSE from SFC_SET_CHANNEL_MAP_INFO is a refusal like that of every other setter (see also vlib/chmapfix.py, Sf.ChmapVerdict)


class Ins:
    """an inserted call: script line, kind, documented failure value (text), must = the class is invalid by the documentation"""
    def __init__(self, line, kind, fail, must, desc, late=False):
        self.line, self.kind, self.fail, self.must, self.desc, self.late = line, kind, fail, must, desc, late


def refused(ins, out):
    """did the call report failure? (by the failure convention of its kind)"""
    kv = abscheck.parse_kv(out)
    ret, err = kv.get("ret"), kv.get("err")
    if ins.kind in ("r", "w", "rraw", "wraw"):
        return ret == "0"
    if ins.kind == "seek":
        return ret == "-1"
    if ins.kind in ("setstr", "setchunk"):
        return ret not in ("0", None)
    if ins.kind == "cmd":
        cid = int(ins.line.split()[2], 16)
        if cid in SETTER_FALSE:
            return ret == "0"
        if cid == 0x1080:
            return ret not in ("0", None)
        if cid in (0x1040, 0x1041, 0x1042, 0x1043):             # zero on success, non-zero otherwise (vlib/cmdfail.py, Sf.CmdFail.convOf)
            return ret not in ("0", None)
        return err not in ("0", None)
    return False


def _bext(hist=b"A=PCM,F=8000\r\n", **kw):
    v = {"description": b"twin description", "originator": b"twin", "originator_reference": b"ref-1", "origination_date": b"2020-01-02",
         "origination_time": b"03:04:05", "time_reference_low": 1234, "version": 1, "umid": b"umid-of-the-twin"}
    v.update(kw)
    return M.bext_bytes(v, hist)


def _cart(tag=b"tag\r\n", **kw):
    v = {"version": b"0101", "title": b"twin cart", "artist": b"nobody"}
    v.update(kw)
    return M.cart_bytes(v, tag)


def _cues(n, declared=None):
    b = struct.pack("<I", n if declared is None else declared)
    for k in range(n):
        b += struct.pack("<iIiIII", k + 1, 2 * k + 1, 0x61746164, 0, 0, 2 * k + 1) + (b"twin%d" % k).ljust(256, b"\0")
    return b


def valid_metadata(rng, f, ch):
    """valid setters (part of base and twin alike)"""
    ls = []
    if rng.random() < 0.6:
        ls.append("setstr h0 1 %s" % b"first title".hex())
    if f.major in WAVLIKE and rng.random() < 0.6:
        ls.append(M.cmd_line("h0", 0x10F1, _bext(description=b"FIRST description", originator=b"FIRST")))
    if f.major in (0x01, 0x22) and rng.random() < 0.4:
        ls.append(M.cmd_line("h0", 0x1400, _cart(title=b"FIRST cart")))
    if rng.random() < 0.4:
        ls.append(M.cmd_line("h0", 0x10CF, _cues(2)))
    if rng.random() < 0.4:
        ls.append(M.cmd_line("h0", 0x10D1, M.inst_bytes(loops=[(M.LOOP_FORWARD, 1, 5, 0)])))
    return ls


def invalid_calls(rng, f, ch, mode, late, ty):
    """candidate calls for one slot; late = audio has been written"""
    h = "h0"
    c = []
    wav = f.major in WAVLIKE
    # ---- positions ----
    c.append(Ins("seek %s %d 0" % (h, rng.choice([41, 97, 1000, 5000])), "seek", "-1", False, "seek behind the end (SEEK_SET)"))
    c.append(Ins("seek %s %d 1" % (h, rng.choice([1, 3, 64])), "seek", "-1", False, "seek behind the end (SEEK_CUR)"))
    c.append(Ins("seek %s %d 2" % (h, rng.choice([1, 2, 9])), "seek", "-1", False, "seek behind the end (SEEK_END)"))
    c.append(Ins("seek %s -%d 0" % (h, rng.choice([1, 2, 7])), "seek", "-1", True, "seek before the start"))
    c.append(Ins("seek %s 0 %d" % (h, rng.choice([3, 7, 0x40, 0x43, 0x100])), "seek", "-1", True, "unknown whence"))
    if mode == "w":
        c.append(Ins("seek %s 0 %d" % (h, 0x10), "seek", "-1", True, "SFM_READ seek on a write-only handle"))
        c.append(Ins("r %s %s i %d" % (h, ty, ch), "r", "0", True, "read on a write-only handle"))
    # ---- audio ----
    if ch > 1:
        c.append(Ins(S.w_line(h, ty, "i", ch + 1, S.rand_values(rng, ty, ch + 1, "unit")), "w", "0", True, "item count not divisible by channels"))
        c.append(Ins("wraw %s %d %s" % (h, ch + 1, "00" * (ch + 1)), "wraw", "0", True, "raw byte count not divisible by channels"))
    c.append(Ins("w %s %s %s -%d " % (h, ty, rng.choice("if"), ch), "w", "0", True, "negative count"))
    # ---- metadata, invalid whenever issued ----
    big = _bext(hist=b"H" * (16992 - 608 + rng.choice([0, 1, 300])), description=b"SECOND description (refused)", originator=b"SECOND", umid=b"SECOND umid")
    c.append(Ins(M.cmd_line(h, 0x10F1, big), "cmd", "0", wav, "SFC_SET_BROADCAST_INFO as big as the internal struct or bigger"))
    c.append(Ins(M.cmd_line(h, 0x10F1, _bext(description=b"SECOND small")[:rng.choice([4, 600, 607])]), "cmd", "0", wav, "SFC_SET_BROADCAST_INFO smaller than the fixed part"))
    c.append(Ins(M.cmd_line(h, 0x10F1, _bext(hist=b"xy", description=b"SECOND lying", coding_history_size=5000)), "cmd", "0", wav, "SFC_SET_BROADCAST_INFO whose coding_history_size exceeds the block"))
    c.append(Ins("cmd %s 10f1 864 null" % h, "cmd", "0", False, "SFC_SET_BROADCAST_INFO with NULL"))
    cw = f.major in (0x01, 0x22)
    bigc = _cart(tag=b"T" * (18436 - 2052 + rng.choice([0, 2, 100])), title=b"SECOND cart (refused)")
    c.append(Ins(M.cmd_line(h, 0x1400, bigc), "cmd", "0", cw, "SFC_SET_CART_INFO as big as the internal struct or bigger"))
    c.append(Ins(M.cmd_line(h, 0x1400, _cart(title=b"SECOND small")[:rng.choice([100, 2051])]), "cmd", "0", cw, "SFC_SET_CART_INFO smaller than the fixed part"))
    c.append(Ins(M.cmd_line(h, 0x1400, _cart(tag=b"ab", title=b"SECOND lying", tag_text_size=70000)), "cmd", "0", cw, "SFC_SET_CART_INFO whose tag_text_size exceeds the block"))
    c.append(Ins(M.cmd_line(h, 0x10CF, _cues(1)[:3]), "cmd", "0", True, "SFC_SET_CUE smaller than its count field"))
    c.append(Ins(M.cmd_line(h, 0x10CF, _cues(2, declared=rng.choice([3, 100, 0x7fffffff]))), "cmd", "0", True, "SFC_SET_CUE whose count exceeds the block"))
    c.append(Ins("cmd %s 10cf 284 null" % h, "cmd", "0", True, "SFC_SET_CUE with NULL"))
    ib = M.inst_bytes(gain=7, basenote=33, loops=[(M.LOOP_BACKWARD, 2, 3, 1)])
    c.append(Ins(M.cmd_line(h, 0x10D1, ib[:271]), "cmd", "0", True, "SFC_SET_INSTRUMENT one byte short"))
    c.append(Ins(M.cmd_line(h, 0x10D1, ib + b"\0"), "cmd", "0", True, "SFC_SET_INSTRUMENT one byte long"))
    c.append(Ins("cmd %s 10d1 272 null" % h, "cmd", "0", True, "SFC_SET_INSTRUMENT with NULL"))
    good_map = struct.pack("<%di" % ch, *[(3 + k) % 20 + 1 for k in range(ch)])
    c.append(Ins(M.cmd_line(h, 0x1101, good_map + b"\0\0\0\0"), "cmd", "0", True, "SFC_SET_CHANNEL_MAP_INFO of the wrong size"))
    c.append(Ins(M.cmd_line(h, 0x1101, struct.pack("<%di" % ch, *([rng.choice([0, -1, 27, 99])] + [1] * (ch - 1)))), "cmd", "0", True, "SFC_SET_CHANNEL_MAP_INFO with an invalid entry"))
    if not late:
        c.append(Ins(M.cmd_line(h, 0x1101, good_map), "cmd", "0", False, "SFC_SET_CHANNEL_MAP_INFO with a valid map (refused where the container cannot store it)"))
    c.append(Ins("setstr %s 1 null" % h, "setstr", "!0", False, "sf_set_string with NULL"))
    c.append(Ins("setstr %s %d %s" % (h, rng.choice([0, 11, 15, 99]), b"refused".hex()), "setstr", "!0", False, "sf_set_string with an unknown type"))
    c.append(Ins("cmd %s 1200 %d null" % (h, rng.choice([5, 0x42, 1000])), "cmd", "0", False, "SFC_WAVEX_SET_AMBISONIC with an undefined value"))
    c.append(Ins("cmd %s 1080 8 %s" % (h, struct.pack("<q", rng.choice([0, 1, 3])).hex()), "cmd", "!0", False, "SFC_FILE_TRUNCATE through SF_VIRTUAL_IO"))
    c.append(Ins("cmd %s %x 0 null" % (h, rng.choice([0x1003, 0x1029, 0x6002, 0x7fffffff])), "cmd", "err", False, "undefined command id"))
    if f.major != 0x04:
        c.append(Ins("cmd %s 1090 8 %s" % (h, struct.pack("<q", rng.choice([0, 2, 16])).hex()), "cmd", "err", True, "SFC_SET_RAW_START_OFFSET on a non-RAW file"))
    # ---- late: valid arguments, but audio has been written ----
    if late:
        c.append(Ins(M.cmd_line(h, 0x10CF, _cues(3)), "cmd", "0", True, "SFC_SET_CUE after audio", late=True))
        c.append(Ins(M.cmd_line(h, 0x10D1, ib), "cmd", "0", True, "SFC_SET_INSTRUMENT after audio", late=True))
        c.append(Ins(M.cmd_line(h, 0x1101, good_map), "cmd", "0", True, "SFC_SET_CHANNEL_MAP_INFO after audio", late=True))
        c.append(Ins(M.cmd_line(h, 0x10F1, _bext(hist=b"A=late,F=1\r\n", description=b"LATE description")), "cmd", "0", False, "SFC_SET_BROADCAST_INFO after audio"))
        c.append(Ins(M.cmd_line(h, 0x1400, _cart(tag=b"late tag text", title=b"LATE cart")), "cmd", "0", False, "SFC_SET_CART_INFO after audio"))
        c.append(Ins("setstr %s %d %s" % (h, rng.choice([1, 2, 4, 5]), b"late string".hex()), "setstr", "!0", False, "sf_set_string after audio"))
        c.append(Ins("setchunk %s %s %s" % (h, b"twin".hex(), b"late chunk".hex()), "setchunk", "!0", False, "sf_set_chunk after audio"))
        c.append(Ins("cmd %s 1050 1 null" % h, "cmd", "0", False, "SFC_SET_ADD_PEAK_CHUNK after audio"))
    return c


def group_of(ins):
    """class family of an inserted call (slots draw one call per family, so that every family meets every format at every place)"""
    d = ins.desc
    if d.startswith("seek behind"):
        return "pos-behind"
    if ins.kind == "seek":
        return "pos-bad"
    if ins.kind in ("r", "w", "wraw", "rraw"):
        return "audio"
    if "after audio" in d:
        return "late"
    for key, g in (("BROADCAST", "bext"), ("CART", "cart"), ("SET_CUE", "cue"), ("INSTRUMENT", "inst"), ("CHANNEL_MAP", "chmap"), ("sf_set_string", "str")):
        if key in d:
            return g
    return "misc"


SLOTS = [("pos-behind", "pos-bad", "audio", "bext", "cart", "cue", "inst", "chmap", "str", "misc"),      # before anything
         ("bext", "cart", "cue", "inst", "chmap", "str", "pos-behind"),                                 # after the valid metadata
         ("pos-behind", "pos-bad", "audio", "late", "late", "bext", "cue", "misc"),                     # between the writes (partial block pending)
         ("pos-behind", "late", "late", "str", "inst", "cart", "misc")]                                 # before the close


def gen_twin(rng, f, ch, mode, route="vio"):
    """-> (twin lines, {line index: Ins})"""
    ty = "s16" if f.codec not in (0x06, 0x07) else "f32"
    A, B = rng.choice([1, 5, 7, 25, 33]), rng.choice([1, 6, 25, 70])
    L, marks = ["open h0 s0 %s fmt=%08x ch=%d sr=8000%s" % (mode, f.word, ch, "" if route == "vio" else " route=" + route)], {}

    def slot(late, k):
        cands = invalid_calls(rng, f, ch, mode, late, ty)
        picks = []
        for g in SLOTS[k]:
            pool = [c for c in cands if group_of(c) == g and c not in picks]
            if pool:
                picks.append(rng.choice(pool))
        rng.shuffle(picks)
        for ins in picks:
            marks[len(L)] = ins
            L.append(ins.line)
            L.append("strerror h0")

    slot(False, 0)
    L.extend(valid_metadata(rng, f, ch))
    # an ACCEPTED channel map, then a map of valid ids the container cannot express (round 9: the handler keeps its own mask / tag next
    # to psf->channel_map; a refusal must leave both alone) -- every container with a command handler, every run; verdicts by Sf.ChmapVerdict
    if f.major in (0x01, 0x13, 0x22, 0x02, 0x18):
        from . import chmapfix
        cands = [chmapfix.MASK_IDS[:ch], [1] * ch, [2, 3, 4, 11, 9, 10, 12, 13][:ch], [2, 3, 9, 10][:ch]]
        good = next((m for m in cands if len(m) == ch and chmapfix.verdict(f.word, ch, m) == 1), None)
        bad = next((m for m in ([1] * ch, list(reversed(good or [])), [5] * ch, [26] * ch) if len(m) == ch and chmapfix.verdict(f.word, ch, m) == 0), None)
        if good is not None and bad is not None:
            L.append(M.cmd_line("h0", 0x1101, struct.pack("<%di" % ch, *good)))
            marks[len(L)] = Ins(M.cmd_line("h0", 0x1101, struct.pack("<%di" % ch, *bad)), "cmd", "0", False, "SFC_SET_CHANNEL_MAP_INFO with a map the container cannot express, behind an accepted map")
            L.append(marks[len(L)].line)
            L.append("strerror h0")
    slot(False, 1)
    L.append(S.w_line("h0", ty, "f", A, S.rand_values(rng, ty, A * ch, "unit")))
    slot(True, 2)
    L.append(S.w_line("h0", ty, "f", B, S.rand_values(rng, ty, B * ch, "unit")))
    slot(True, 3)
    L += ["seek h0 0 1", "getmeta h0", "close h0", "dump s0"]
    raw = f.major == 0x04
    L += [("open h1 s0 r fmt=%08x ch=%d sr=8000" % (f.word, ch)) if raw else "open h1 s0 r fmt=0 ch=0 sr=0", "info h1", "getmeta h1",
          "r h1 %s f %d" % (ty, A + B + 5000), "close h1"]
    return L, marks


def _filter(lines):
    return [l for l in lines if l.startswith(KEEP)]


def _ess(op, line, ch):
    line = S.normalise(line)
    t = op.split()
    if t[0] == "r" and "data=" in line:
        kv = abscheck.parse_kv(line)
        try:
            ret = int(kv.get("ret", "0"))
        except ValueError:
            return line
        items = max(ret, 0) * (ch if t[3] == "f" else 1)
        return "ret=%s err=%s data=%s" % (kv.get("ret"), kv.get("err"), kv.get("data", "")[:items * S.DIG[t[2]]])
    return line


def phase_of(ops, k):
    """state: before the close; file: the dump of the closed store; reopen: behind it"""
    d = next((i for i, o in enumerate(ops) if o.startswith("dump ")), len(ops))
    return "state" if k < d else "file" if k == d else "reopen"


def written_before(twin, tout, marks, k):
    """has audio really been written before twin line k? (a valid write call returned its count)"""
    for j in range(k):
        t = twin[j].split()
        if j not in marks and t[0] == "w" and abscheck.parse_kv(tout[j]).get("ret") == t[4]:
            return True
    return False


def must_fail(twin, tout, marks, k):
    ins = marks[k]
    return ins.must and (not ins.late or written_before(twin, tout, marks, k))


def driver_input(name, twin, tout, base, bout, marks, kept, ch):
    """`sfmodel abs-twin` record: the inserted calls as observed, then the pairs (base line, twin line) of the common lines"""
    ls = ["== " + name]
    for k in sorted(marks):
        ins = marks[k]
        kv, kv2 = abscheck.parse_kv(tout[k]), abscheck.parse_kv(tout[k + 1])
        ls.append("ins k=%d must=%d refused=%d err=%s msglen=%s" % (k, 1 if must_fail(twin, tout, marks, k) else 0, 1 if refused(ins, tout[k]) else 0,
                                                                    kv.get("err", "0") or "0", kv2.get("msglen", "-1") or "-1"))
    bi = 0
    for k in kept:
        ls.append("pair k=%d phase=%s" % (k, phase_of(twin, k)))
        ls.append(_ess(twin[k], bout[bi], ch))
        ls.append(_ess(twin[k], tout[k], ch))
        bi += 1
    return "\n".join(ls) + "\n"


def run_driver(ctx, text):
    p = subprocess.run([ctx.sfmodel(), "abs-twin"], input=text, capture_output=True, text=True, timeout=1800)
    res = {}
    for l in p.stdout.split("\n"):
        t = l.split(" ", 2)
        if len(t) >= 2:
            res[t[0]] = (t[1], t[2] if len(t) > 2 else "")
    return res, p.returncode, p.stderr[-400:]


def run(ctx, quick=True):
    """returns True if a violation was reported"""
    rng = ctx.rng
    fs = [f for f in formats.writable_formats(ctx) if f.major != 0x16]
    if quick:
        # one byte-order variant (seeded) of every (container, codec) pair; the thorough tier runs them all
        groups = {}
        for f in fs:
            groups.setdefault((f.major, f.codec), []).append(f)
        fs = [rng.choice(v) for k, v in sorted(groups.items())]
    jobs = []
    for i, f in enumerate(fs):
        ch = min(rng.choice([1, 2, 2, 3]), f.maxch)
        jobs.append((f, ch, "w"))
        if rng.random() < (0.3 if quick else 1.0):
            jobs.append((f, min(rng.choice([1, 2]), f.maxch), "rw"))
        # the same on a real file (sf_open on a path): a seek the memory SF_VIRTUAL_IO refuses goes through there, SFC_FILE_TRUNCATE is a
        # valid call -- always for the block codecs (pending partial blocks), for a quarter of the others
        block = (not f.granular) or (f.major == 0x05 and f.codec == 0x03) or f.major == 0x11
        if block or rng.random() < (0.25 if quick else 1.0):
            jobs.append((f, min(rng.choice([1, 2]), f.maxch), "w@path"))
    built = []
    for i, (f, ch, mode) in enumerate(jobs):
        route = "path" if mode.endswith("@path") else "vio"
        mode = mode.split("@")[0]
        L, marks = gen_twin(rng, f, ch, mode, route)
        built.append(("%s-%s%s-%d" % (f.name, mode, "" if route == "vio" else "_" + route, i), f, ch, mode, L, marks))
    tw = ctx.batch([(n + "-twin", "\n".join(L) + "\n") for (n, f, ch, mode, L, marks) in built], workers=6)
    stage2, found, reported = [], False, set()
    marks_of = dict((n, marks) for (n, f, ch, mode, L, marks) in built)
    ch_of = dict((n, ch) for (n, f, ch, mode, L, marks) in built)
    stats = {"twins": 0, "inserted": 0, "refused": 0, "accepted_maybe": 0, "open_refused": 0, "classes": set(), "must_classes": set()}

    def report(name, f, kind, text, script):
        nonlocal found
        key = (f.name.split("-")[0], kind)
        if key in reported or len(reported) >= 8:
            return
        reported.add(key)
        found = True
        n = script.count("\n")
        m = marks_of.get(name, {})
        ctx.violation("c09twin-%s-%s" % (name, re.sub(r"\W+", "_", kind)[:40]),
                      "# C09 (twin run): %s\n# format %s\n# %s\n# re-run: bin/check C09 --replay <this file> (runs the script, then the same script without the calls it saw refused, and compares)\n"
                      "c09-twin ch=%d\ntwin-inserted %s\ntwin-must %s\n--- script\n%s"
                      % (kind, f.name, text, ch_of.get(name, 1), ",".join(str(k) for k in sorted(m) if k < n), ",".join(str(k) for k in sorted(m) if k < n and m[k].must and not m[k].late), script))

    for (name, f, ch, mode, L, marks) in built:
        out = _filter(tw.get(name + "-twin", []))
        if out and out[0].startswith("open=NULL"):
            stats["open_refused"] += 1          # e.g. a container that cannot be opened SFM_RDWR
            continue
        ctx.distinct.add("twin:%s:%s" % (f.name, mode))
        if len(out) < len(L) or any(l.startswith(("CRASH", "ABORT", "TIMEOUT")) for l in out):
            dead = [l for l in out if l.startswith(("CRASH", "ABORT", "TIMEOUT"))]
            k = min(len(out), len(L)) - 1
            report(name, f, "crash", "script died: %s" % (dead[:1] or "transcript short"), "\n".join(L[:k + 1]) + "\n")
            continue
        drop = set()
        for k, ins in marks.items():
            stats["inserted"] += 1
            stats["classes"].add(ins.desc)
            if refused(ins, out[k]):
                stats["refused"] += 1
                drop |= {k, k + 1}
            else:
                stats["accepted_maybe"] += 1
        kept = [k for k in range(len(L)) if k not in drop]
        stage2.append((name, f, ch, mode, L, marks, out, kept))
    bs = ctx.batch([(n + "-base", "\n".join(L[k] for k in kept) + "\n") for (n, f, ch, mode, L, marks, out, kept) in stage2], workers=6)
    recs, who = [], {}
    for (name, f, ch, mode, L, marks, out, kept) in stage2:
        bout = _filter(bs.get(name + "-base", []))
        stats["twins"] += 1
        ctx.count(len(L))
        if len(bout) < len(kept):
            report(name, f, "crash", "the base history (the twin without its refused calls) died or ended early: %s" % bout[-1:], "\n".join(L[k] for k in kept) + "\n")
            continue
        recs.append(driver_input(name, L, out, [L[k] for k in kept], bout, marks, kept, ch))
        who[name] = (f, ch, mode, L, marks, out, kept, bout)
    verdicts, rc, err = run_driver(ctx, "".join(recs))
    if rc != 0 or len(verdicts) != len(who):
        ctx.violation("c09twin-driver", "sfmodel abs-twin failed: rc=%d, %d verdicts for %d records; %s" % (rc, len(verdicts), len(who), err), no_input=True)
        return True
    nbad = 0
    for name, (status, detail) in verdicts.items():
        if status == "ok":
            continue
        nbad += 1
        f, ch, mode, L, marks, out, kept, bout = who[name]
        kv = abscheck.parse_kv(detail)
        clause, k = kv.get("clause", "?"), int(kv.get("k", "0"))
        if clause in ("fail-value", "error-code"):
            ins = marks[k]
            stats["must_classes"].add(ins.desc)
            text = ("invalid call `%s` (%s) answered `%s`, then sf_strerror `%s`: %s" % (ins.line[:90], ins.desc, out[k][:100], out[k + 1],
                    "it must fail (failure value %s)" % ins.fail if clause == "fail-value" else "a refused call must record a non-zero error with a non-empty message"))
            report(name, f, ins.desc + " (" + clause + ")", text, "\n".join(L[:k + 2]) + "\n")
            continue
        bi = kept.index(k)
        refd = [marks[j] for j in sorted(marks) if j < k and j not in kept]
        if clause == "file":
            a, b = bout[bi], out[k]
            ha, hb = a.split("hex=")[-1], b.split("hex=")[-1]
            d = next((i for i in range(0, min(len(ha), len(hb)), 2) if ha[i:i + 2] != hb[i:i + 2]), min(len(ha), len(hb)))
            what = "the closed file differs: %d bytes without the refused calls, %d bytes with them, first difference at byte %d" % (len(ha) // 2, len(hb) // 2, d // 2)
        else:
            what = "line `%s` answers `%s` with the refused calls, `%s` without them" % (L[k][:60], out[k][:220], bout[bi][:220])
        text = "%s\n# refused calls before it: %s" % (what, "; ".join("`%s` (%s)" % (i.line[:70], i.desc) for i in refd[-8:]))
        report(name, f, "a refused call changed the %s" % {"state": "handle state", "file": "closed file", "reopen": "re-opened file"}.get(clause, clause), text,
               "\n".join(L[:k + 1]) + "\n")
    ctx.notes["twin_runs"] = {"twins": stats["twins"], "inserted_calls": stats["inserted"], "refused": stats["refused"], "accepted_as_valid": stats["accepted_maybe"],
                              "open_refused": stats["open_refused"], "classes": len(stats["classes"]), "rejected_by_lean_predicate": nbad,
                              "formats": len([t for t in ctx.distinct if t.startswith("twin:")])}
    return found


def is_replay(text):
    return "\nc09-twin " in text or text.startswith("c09-twin ")


def replay(ctx, path):
    """re-run a twin replay: the script as it is, then without the inserted calls that were refused; every common line must agree"""
    text = open(path).read()
    head, script = text.split("--- script", 1)
    L = [l for l in script.strip().split("\n") if l.strip()]
    kv = dict(l.split(" ", 1) for l in head.split("\n") if l.startswith(("c09-twin", "twin-inserted", "twin-must")))
    ch = int(abscheck.parse_kv(kv.get("c09-twin", "ch=1")).get("ch", "1"))
    ins_at = [int(x) for x in kv.get("twin-inserted", "").split(",") if x.strip()]
    must = set(int(x) for x in kv.get("twin-must", "").split(",") if x.strip())
    out = _filter(ctx.batch([("twin", "\n".join(L) + "\n")], workers=1).get("twin", []))
    bad = []
    if len(out) < len(L):
        bad.append("the script dies at line %d `%s`: %s" % (len(out), L[min(len(out), len(L) - 1)][:80], out[-1:] or ""))
    drop = set()
    for k in ins_at:
        if k >= len(out):
            continue
        ins = Ins(L[k], L[k].split()[0], "", k in must, "inserted call")
        if refused(ins, out[k]):
            drop |= {k, k + 1}
            kv2 = abscheck.parse_kv(out[k + 1]) if k + 1 < len(out) else {}
            if k in must and (abscheck.parse_kv(out[k]).get("err") in ("0", None) or kv2.get("msglen") in (None, "0", "-1")):
                bad.append("line %d `%s`: refused without an error code / message: %s | %s" % (k, L[k][:70], out[k][:80], out[k + 1] if k + 1 < len(out) else ""))
        elif k in must:
            bad.append("line %d `%s`: an invalid call was not refused: %s" % (k, L[k][:70], out[k][:100]))
    kept = [k for k in range(min(len(L), len(out))) if k not in drop]
    bout = _filter(ctx.batch([("base", "\n".join(L[k] for k in kept) + "\n")], workers=1).get("base", []))
    for bi, k in enumerate(kept):
        a = _ess(L[k], bout[bi], ch) if bi < len(bout) else "<missing>"
        b = _ess(L[k], out[k], ch)
        print("%3d %-40s %s" % (k, L[k][:40], b[:120]))
        if a != b:
            bad.append("line %d `%s` answers `%s` with the refused calls, `%s` without them" % (k, L[k][:60], b[:200], a[:200]))
            break
    for b in bad:
        print("replay: " + b)
    if bad:
        ctx.report(path)
    else:
        print("replay: every refused call left every later answer and the closed file unchanged on this tree")
