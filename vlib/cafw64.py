"""CAF and W64: the stand-alone byte-exact container models (lean/SfModel/Caf.lean, W64.lean) against the library.

Three streams, all on files the library itself writes through SF_VIRTUAL_IO (clock pinned):
  H  header/tailer bytes: every sample-granular (codec, endian) x channels x rates x lengths; every byte before and
     after the audio data must equal `hdr` / `tail`; the re-open line must equal `parse` of the file; and the
     property's own predicate (re-open info = what was written, size fields = real lengths) is evaluated on the
     implementation's bytes by an independent walker (a failure there is a failing input).
  P  parser: library-written files and mutated variants (every truncation point of the header, size fields +-1,
     inserted unknown chunks, field damage, trailing bytes) opened by both sides: ok/err and SF_INFO compared;
     `unmodelled` answers are skipped and counted.
  S  sessions: open (with a stale SF_INFO.frames), split writes, SFC_UPDATE_HEADER_NOW, auto mode, close; the store
     after every operation must equal the model's store (crash-point snapshots, C11).
"""
import re
import struct
from . import formats as F

CAF, W64 = 0x18, 0x0B
BW = {0x01: 1, 0x05: 1, 0x02: 2, 0x03: 3, 0x04: 4, 0x06: 4, 0x07: 8, 0x10: 1, 0x11: 1}
TY = {0x01: "s16", 0x05: "s16", 0x02: "s16", 0x03: "s32", 0x04: "s32", 0x06: "f32", 0x07: "f64", 0x10: "s16", 0x11: "s16"}
DIG = {"s16": 4, "s32": 8, "f32": 8, "f64": 16}
WORKERS = 4


class Case:
    def __init__(self, fmt, ch, sr, n, stale=0):
        self.fmt, self.ch, self.sr, self.n, self.stale = fmt, ch, sr, n, stale
        self.cont = "caf" if fmt.major == CAF else "w64"
        self.codec = fmt.codec
        self.endian = (fmt.word >> 28) & 3
        self.bw = BW[fmt.codec] * ch
        self.ty = TY[fmt.codec]
        self.isfloat = fmt.codec in (0x06, 0x07)
        self.name = "%s-ch%d-sr%d-n%d" % (fmt.name, ch, sr, n)

    def expect_word(self):
        if self.cont == "caf":
            return (CAF << 16) | self.codec | (0x10000000 if self.endian in (1, 3) else 0)
        return (W64 << 16) | self.codec

    def cfg(self):
        if self.cont == "caf":
            return "%x %d %d %d" % (self.codec, self.endian, self.ch, self.sr)
        return "%x %d %d" % (self.codec, self.ch, self.sr)


def gen_values(rng, ty, count):
    """caller items as bit patterns; floats are small multiples of 1/64 (exact in binary32, so the PEAK table is
    computed here without any rounding question)"""
    if ty == "s16":
        return [rng.randrange(-32768, 32768) & 0xFFFF for _ in range(count)]
    if ty == "s32":
        return [rng.randrange(-2 ** 31, 2 ** 31) & 0xFFFFFFFF for _ in range(count)]
    vals = [rng.randrange(-128, 129) / 64.0 for _ in range(count)]
    if ty == "f32":
        return [struct.unpack(">I", struct.pack(">f", v))[0] for v in vals]
    return [struct.unpack(">Q", struct.pack(">d", v))[0] for v in vals]


def as_float(ty, bits):
    return struct.unpack(">f", struct.pack(">I", bits))[0] if ty == "f32" else struct.unpack(">d", struct.pack(">Q", bits))[0]


def peaks_after(table, ty, vals, ch, wpos):
    """float32.c / double64.c peak bookkeeping for one write call of the file's own type"""
    out = list(table)
    if not vals:
        return out
    for c in range(ch):
        mx, pos = abs(as_float(ty, vals[c])), 0
        for f in range(len(vals) // ch):
            v = abs(as_float(ty, vals[f * ch + c]))
            if mx < v:
                mx, pos = v, f
        if mx > out[c][0]:
            out[c] = (mx, wpos + pos)
    return out


def peaks_arg(table):
    if not table:
        return "-"
    return ",".join("%016x:%d" % (struct.unpack(">Q", struct.pack(">d", v))[0], p) for (v, p) in table)


def hex_items(vals, ty):
    fmt = "%%0%dx" % DIG[ty]
    return "".join(fmt % v for v in vals)


def open_w(c):
    return "open h0 s0 w fmt=%08x ch=%d sr=%d frames=%d route=vio" % (c.fmt.word, c.ch, c.sr, c.stale)


OPEN_R = "open h1 s%d r fmt=0 ch=0 sr=0 route=vio"


def parse_open(line):
    """-> ('ok', fmt, ch, sr, frames) | ('err',) | None"""
    if line.startswith("open=NULL"):
        return ("err",)
    m = re.match(r"open=ok err=\d+ ch=(-?\d+) sr=(-?\d+) frames=(-?\d+) fmt=([0-9a-f]+)", line)
    if m:
        return ("ok", int(m.group(4), 16), int(m.group(1)), int(m.group(2)), int(m.group(3)))
    return None


def parse_model(tok):
    if tok == "err":
        return ("err",)
    if tok == "unmodelled":
        return ("unmodelled",)
    m = re.match(r"ok fmt=([0-9a-f]+) ch=(\d+) sr=(-?\d+) frames=(\d+) dataoffset=(\d+)", tok)
    if m:
        return ("ok", int(m.group(1), 16), int(m.group(2)), int(m.group(3)), int(m.group(4)))
    return ("bad", tok)


def dump_bytes(line):
    m = re.match(r"len=(\d+) hex=([0-9a-f]*)", line)
    if not m:
        return None
    return bytes.fromhex(m.group(2))


# ---------------- independent size-field walkers (the property's predicate on the implementation's bytes) -----------

def caf_size_fields(b, n, bw):
    """None when every size field matches the real lengths, else a description"""
    if b[:4] != b"caff":
        return "no caff marker"
    pos = 8
    while pos + 12 <= len(b):
        tag, size = b[pos:pos + 4], int.from_bytes(b[pos + 4:pos + 12], "big")
        if tag == b"data":
            start = pos + 16
            if size != n * bw + 4:
                return "data chunk size %d, audio bytes + edit count = %d" % (size, n * bw + 4)
            rest = len(b) - start - n * bw
            want = (start + n * bw) % 2
            if rest != want:
                return "%d byte(s) after the audio data, expected %d" % (rest, want)
            return None
        if pos + 12 + size > len(b):
            return "chunk %r of size %d runs past the end of the file" % (tag, size)
        pos += 12 + size
    return "no data chunk"


W64_TAIL2 = bytes([0xF3, 0xAC, 0xD3, 0x11, 0x8C, 0xD1, 0x00, 0xC0, 0x4F, 0x8E, 0xDB, 0x8A])


def w64_size_fields(b, n, bw):
    if b[:4] != b"riff":
        return "no riff marker"
    if int.from_bytes(b[16:24], "little") != len(b):
        return "riff size %d, file length %d" % (int.from_bytes(b[16:24], "little"), len(b))
    pos = 40
    while pos + 24 <= len(b):
        tag, size = b[pos:pos + 4], int.from_bytes(b[pos + 16:pos + 24], "little")
        if tag == b"data":
            if size != n * bw + 24:
                return "data chunk size %d, audio bytes + 24 = %d" % (size, n * bw + 24)
            if pos + 24 + n * bw != len(b):
                return "file length %d, data ends at %d" % (len(b), pos + 24 + n * bw)
            return None
        if tag == b"fact" and int.from_bytes(b[pos + 24:pos + 32], "little") != n:
            return "fact chunk frames %d, written %d" % (int.from_bytes(b[pos + 24:pos + 32], "little"), n)
        if size < 24 or pos + size > len(b):
            return "chunk %r of size %d is impossible" % (tag, size)
        pos += (size + 7) // 8 * 8
    return "no data chunk"


# ---------------- case lists ----------------

def formats(ctx):
    out = []
    for f in F.writable_formats(ctx):
        if f.major in (CAF, W64) and f.codec in BW and not (f.major == CAF and f.codec == 0x05) and not (f.major == W64 and f.codec == 0x01):
            out.append(f)
    return out


def header_cases(ctx, fmts):
    rng = ctx.rng
    rates = [1, 8000, 44100, 65536, 2 ** 31 - 1, rng.randrange(2, 2 ** 31 - 1)]
    lengths = [0, 1, 2, 3, 4, 5, 4097]
    chans = [1, 2, 3, 6]
    cases = []
    k = 0
    for f in fmts:
        for ch in chans:
            if ch > f.maxch:
                continue
            for n in lengths:
                if ctx.tier == "quick":
                    srs = [rates[k % len(rates)]]
                    if n == 4097 and (k // 7) % 4:
                        k += 1
                        continue            # one long file per four (format, channels) pairs in the quick tier
                else:
                    srs = rates
                for sr in srs:
                    cases.append(Case(f, ch, sr, n, stale=rng.choice([0, 0, 77, 99999])))
                k += 1
    # channel counts at which the CAF 'peak' chunk pushes the header over a 4096-byte boundary (free_len wraps), and the maximum
    for f in fmts:
        if f.maxch >= 1024 and (f.codec in (0x06, 0x07) or (ctx.tier != "quick" and f.endian == 0)):
            for ch in (333, 334, 674, 675, 1024):
                for n in (0, 1):
                    cases.append(Case(f, ch, rates[(ch + n) % len(rates)], n, stale=rng.choice([0, 99999])))
    return cases


def stream_headers(ctx, cases, st):
    rng = ctx.rng
    scripts, meta = [], {}
    for i, c in enumerate(cases):
        vals = gen_values(rng, c.ty, c.n * c.ch)
        table = peaks_after([(0.0, 0)] * c.ch, c.ty, vals, c.ch, 0) if c.isfloat else []
        L = [open_w(c)]
        if c.n:
            L.append("w h0 %s f %d %s" % (c.ty, c.n, hex_items(vals, c.ty)))
        L += ["close h0", "dump s0", OPEN_R % 0, "close h1"]
        name = "H%d" % i
        scripts.append((name, "\n".join(L) + "\n"))
        meta[name] = (c, table)
    res = ctx.batch(scripts, workers=WORKERS, clean=True)
    # model: header / tailer bytes
    by = {"caf": [], "w64": []}
    for name, _ in scripts:
        c, table = meta[name]
        by[c.cont].append(name)
    model_hdr, model_parse = {}, {}
    files = {}
    problems = []
    for name, text in scripts:
        c, table = meta[name]
        lines = res.get(name, [])
        dumps = [l for l in lines if l.startswith("len=")]
        opens = [l for l in lines if l.startswith("open=")]
        dead = [l for l in lines if l.startswith(("CRASH", "ABORT", "TIMEOUT"))]
        if dead or not dumps or len(opens) < 2:
            problems.append(("crash", name, "the library died or refused: %s" % (dead or lines[-2:]), text))
            continue
        files[name] = (dump_bytes(dumps[0]), opens[0], opens[1])
    for cont in ("caf", "w64"):
        names = [n for n in by[cont] if n in files]
        if not names:
            continue
        inp = "".join("%s %d %s\n" % (meta[n][0].cfg(), meta[n][0].n, peaks_arg(meta[n][1])) if cont == "caf" else
                      "%s %d\n" % (meta[n][0].cfg(), meta[n][0].n) for n in names)
        out = ctx.run_model([cont, "hdr"], inp).split("\n")
        for n, l in zip(names, out):
            t = l.split(" ")
            model_hdr[n] = (bytes.fromhex(t[0]), b"" if len(t) < 2 or t[1] == "-" else bytes.fromhex(t[1]))
        small = [n for n in names if len(files[n][0]) <= 70000]
        out = ctx.run_model([cont, "parse"], "".join(files[n][0].hex() + "\n" for n in small)).split("\n")
        for n, l in zip(small, out):
            model_parse[n] = parse_model(l)
    for name, text in scripts:
        if name not in files:
            continue
        c, table = meta[name]
        b, o1, o2 = files[name]
        st["files"] += 1
        ctx.distinct.add("cafw64:%s:ch%d" % (c.fmt.name, c.ch))
        # --- the property on the implementation's own output
        re_ = parse_open(o2)
        want = ("ok", c.expect_word(), c.ch, c.sr, c.n)
        # the statement tolerates one pad frame where a container pads an odd byte count (CAF, one-byte frames)
        pad_ok = c.cont == "caf" and c.bw == 1 and c.n % 2 == 1 and re_ == want[:4] + (c.n + 1,)
        if re_ != want and not pad_ok:
            problems.append(("reopen", name, "re-open reports %s, written: fmt=%08x ch=%d sr=%d frames=%d" % (o2.strip(), want[1], c.ch, c.sr, c.n),
                             text.replace("close h1\n", ""), "open=ok err=0 ch=%d sr=%d frames=%d fmt=%08x" % (c.ch, c.sr, c.n, want[1])))
            continue
        bad = (caf_size_fields if c.cont == "caf" else w64_size_fields)(b, c.n, c.bw)
        if bad:
            problems.append(("corr-sizes", name, "a size field does not match the file: " + bad, text))
            continue
        # --- model correspondence
        h, t = model_hdr[name]
        st["hdr_bytes"] += len(h) + len(t)
        if len(b) != len(h) + c.n * c.bw + len(t) or not b.startswith(h) or (t and not b.endswith(t)):
            k = next((i for i in range(min(len(h), len(b))) if b[i] != h[i]), min(len(h), len(b)))
            problems.append(("corr-hdr", name, "file length %d, model %d + %d + %d; first differing header byte at offset %d (file %s, model %s)"
                             % (len(b), len(h), c.n * c.bw, len(t), k, b[k:k + 8].hex(), h[k:k + 8].hex()), text))
            continue
        if name in model_parse:
            mp = model_parse[name]
            st["parsed"] += 1
            if mp[0] == "unmodelled":
                st["unmodelled_own"] += 1
            elif mp[:5] != re_[:5]:
                problems.append(("corr-parse", name, "library: %s   model: %s" % (o2.strip(), mp), text))
    return problems, files, meta


# ---------------- parser stream ----------------

def be(n, v):
    return (v % (1 << (8 * n))).to_bytes(n, "big")


def le(n, v):
    return (v % (1 << (8 * n))).to_bytes(n, "little")


def caf_layout(b):
    """offsets of the chunks of a library-written CAF file"""
    pos, out = 8, []
    while pos + 12 <= len(b):
        tag, size = b[pos:pos + 4], int.from_bytes(b[pos + 4:pos + 12], "big")
        out.append((tag, pos, size))
        if tag == b"data":
            break
        pos += 12 + size
    return out


def caf_variants(b, rng):
    lay = caf_layout(b)
    d = dict((t, (p, s)) for (t, p, s) in lay)
    v = []
    for (t, p, s) in lay:
        for delta in (-1, 1):
            v.append(("%s-size%+d" % (t.decode(), delta), b[:p + 4] + be(8, s + delta) + b[p + 12:]))
    fp = d[b"free"][0]
    dp = d[b"data"][0]
    unk = b"abcd" + be(8, 5) + b"\x01\x02\x03\x04\x05"
    v.append(("unknown-before-free", b[:fp] + unk + b[fp:]))
    v.append(("unknown-before-data", b[:dp] + unk + b[dp:]))
    v.append(("two-unknown", b[:fp] + unk + b"wxyz" + be(8, 0) + b[fp:]))
    v.append(("kuki-before-data", b[:dp] + b"kuki" + be(8, 3) + b"abc" + b[dp:]))
    v.append(("free-zero", b[:fp] + b"free" + be(8, 0) + b[fp:]))
    v.append(("info-chunk", b[:fp] + b"info" + be(8, 12) + be(4, 1) + b"title\0x\0" + b[fp:]))
    v.append(("info-size-4", b[:fp] + b"info" + be(8, 4) + be(4, 0) + b[fp:]))
    v.append(("info-size-3", b[:fp] + b"info" + be(8, 3) + b"abc" + b[fp:]))
    v.append(("info-too-long", b[:fp] + b"info" + be(8, len(b)) + be(4, 1) + b[fp:]))
    v.append(("chan-chunk", b[:fp] + b"chan" + be(8, 12) + be(4, 0x650002) + be(4, 0) + be(4, 0) + b[fp:]))
    v.append(("chan-long", b[:fp] + b"chan" + be(8, 20) + be(4, 0x640001) + bytes(16) + b[fp:]))
    v.append(("chan-short", b[:fp] + b"chan" + be(8, 5) + bytes(5) + b[fp:]))
    v.append(("big-unknown", b[:dp] + b"abcd" + be(8, 30000) + bytes(30000) + b[dp:]))
    v.append(("channels-0", b[:44] + be(4, 0) + b[48:]))
    v.append(("channels-1025", b[:44] + be(4, 1025) + b[48:]))
    v.append(("channels+1", b[:44] + be(4, int.from_bytes(b[44:48], "big") + 1) + b[48:]))
    v.append(("bits-12", b[:48] + be(4, 12) + b[52:]))
    v.append(("flags^1", b[:32] + be(4, int.from_bytes(b[32:36], "big") ^ 1) + b[36:]))
    v.append(("flags^2", b[:32] + be(4, int.from_bytes(b[32:36], "big") ^ 2) + b[36:]))
    v.append(("fmtid-alac", b[:28] + b"alac" + b[32:]))
    v.append(("fmtid-junk", b[:28] + b"zzzz" + b[32:]))
    v.append(("rate-0", b[:20] + bytes(8) + b[28:]))
    v.append(("rate-44100.5", b[:20] + struct.pack(">d", 44100.5) + b[28:]))
    v.append(("rate-0.4", b[:20] + struct.pack(">d", 0.4) + b[28:]))
    v.append(("rate-nan", b[:20] + struct.pack(">d", float("nan")) + b[28:]))
    v.append(("rate-1e12", b[:20] + struct.pack(">d", 1e12) + b[28:]))
    v.append(("desc-size-40", b[:12] + be(8, 40) + b[20:52] + bytes(8) + b[52:]))
    v.append(("data-size--1", b[:dp + 4] + be(8, -1) + b[dp + 12:]))
    # size -1 = "the audio data runs to the end of the file" (KF-CAF-DATA-MINUS-ONE, repaired): with bytes added behind the audio, with the
    # file ending inside / right behind the edit count; -2 and a -1 on another chunk are still refused
    m1 = b[:dp + 4] + be(8, -1) + b[dp + 12:]
    v.append(("data-size--1-trailing-3", m1 + bytes(rng.randrange(1, 256) for _ in range(3))))
    v.append(("data-size--1-trailing-16", m1 + bytes(rng.randrange(1, 256) for _ in range(16))))
    v.append(("data-size--1-no-audio", m1[:dp + 16]))
    v.append(("data-size--1-cut-edit", m1[:dp + 14]))
    v.append(("data-size--1-cut-size", m1[:dp + 12]))
    v.append(("data-size--2", b[:dp + 4] + be(8, -2) + b[dp + 12:]))
    v.append(("free-size--1", b[:fp + 4] + be(8, -1) + b[fp + 12:]))
    v.append(("data-size-huge", b[:dp + 4] + be(8, 1 << 40) + b[dp + 12:]))
    v.append(("data-size-0", b[:dp + 4] + be(8, 0) + b[dp + 12:]))
    v.append(("data-size-3", b[:dp + 4] + be(8, 3) + b[dp + 12:]))
    for extra in (1, 7, 8, 9, 20):
        v.append(("trailing-%d" % extra, b + bytes(rng.randrange(1, 256) for _ in range(extra))))
    v.append(("trailing-chunk", b + (b"" if len(b) % 2 == 0 else b"\0") + b"abcd" + be(8, 4) + b"1234"))
    v.append(("marker-0-after-desc", b[:52] + bytes(4) + b[56:]))
    if b"peak" in d:
        pp = d[b"peak"][0]
        v.append(("peak-removed", b[:pp] + b[pp + 12 + d[b"peak"][1]:]))
        v.append(("peak-twice", b[:pp] + b[pp:pp + 12 + d[b"peak"][1]] + b[pp:]))
    return v


def caf_cuts(b, rng):
    lay = caf_layout(b)
    d = dict((t, (p, s)) for (t, p, s) in lay)
    fp, dp = d[b"free"][0], d[b"data"][0]
    cuts = set(range(0, min(fp + 14, len(b)) + 1))
    cuts |= set(range(dp - 4, min(len(b), dp + 16 + 12) + 1))
    cuts |= set(rng.randrange(fp + 14, dp - 4) for _ in range(6))
    cuts |= set(range(max(0, len(b) - 3), len(b) + 1))
    return sorted(x for x in cuts if 0 <= x <= len(b))


def w64_layout(b):
    pos, out = 40, []
    while pos + 24 <= len(b):
        tag, size = b[pos:pos + 4], int.from_bytes(b[pos + 16:pos + 24], "little")
        out.append((tag, pos, size))
        if tag == b"data" or size < 24:
            break
        pos += (size + 7) // 8 * 8
    return out


def w64_variants(b, rng):
    lay = w64_layout(b)
    d = dict((t, (p, s)) for (t, p, s) in lay)
    v = []
    for delta in (-1, 1):
        v.append(("riff-size%+d" % delta, b[:16] + le(8, len(b) + delta) + b[24:]))
    for (t, p, s) in lay:
        for delta in (-1, 1, 8):
            v.append(("%s-size%+d" % (t.decode().strip(), delta), b[:p + 16] + le(8, s + delta) + b[p + 24:]))
    dp = d[b"data"][0]
    unk = bytes(range(16, 32)) + le(8, 32) + b"12345678"
    junk = b"junk" + W64_TAIL2 + le(8, 40) + bytes(16)
    v.append(("unknown-after-wave", b[:40] + unk + b[40:]))
    v.append(("unknown-before-data", b[:dp] + unk + b[dp:]))
    v.append(("junk-before-data", b[:dp] + junk + b[dp:]))
    v.append(("unknown-size-0", b[:dp] + bytes(range(16, 32)) + le(8, 0) + b[dp:]))
    v.append(("unknown-odd", b[:dp] + bytes(range(16, 32)) + le(8, 27) + b"123" + bytes(5) + b[dp:]))
    v.append(("riff-twice", b[:40] + b[:40] + b[40:]))
    v.append(("no-wave", b[:24] + bytes(16) + b[40:]))
    v.append(("fmt-size-42", b[:56] + le(8, 42) + b[64:80] + bytes(8) + b[80:]))
    v.append(("fmt-size-48", b[:56] + le(8, 48) + b[64:80] + bytes(8) + b[80:]))
    v.append(("fmt-size-39", b[:56] + le(8, 39) + b[64:]))
    v.append(("channels-0", b[:66] + le(2, 0) + b[68:]))
    v.append(("channels-1025", b[:66] + le(2, 1025) + b[68:]))
    v.append(("channels+1", b[:66] + le(2, int.from_bytes(b[66:68], "little") + 1) + b[68:]))
    v.append(("rate-0", b[:68] + le(4, 0) + b[72:]))
    v.append(("rate-2^31", b[:68] + le(4, 1 << 31) + b[72:]))
    v.append(("bits-12", b[:78] + le(2, 12) + b[80:]))
    v.append(("bits-0", b[:78] + le(2, 0) + b[80:]))
    v.append(("tag-0xfffe", b[:64] + le(2, 0xFFFE) + b[66:]))
    v.append(("tag-0x11", b[:64] + le(2, 0x11) + b[66:]))
    v.append(("tag-0x55", b[:64] + le(2, 0x55) + b[66:]))
    v.append(("data-size-huge", b[:dp + 16] + le(8, 1 << 40) + b[dp + 24:]))
    v.append(("data-size-0", b[:dp + 16] + le(8, 0) + b[dp + 24:]))
    v.append(("data-size-23", b[:dp + 16] + le(8, 23) + b[dp + 24:]))
    v.append(("data-size--1", b[:dp + 16] + le(8, -1) + b[dp + 24:]))
    for extra in (1, 7, 8, 9, 20, 40):
        v.append(("trailing-%d" % extra, b + bytes(rng.randrange(1, 256) for _ in range(extra))))
    v.append(("data-before-fmt", b[:40] + b[dp:dp + 24] + b[40:dp] + b[dp + 24:]))
    return v


def stream_parser(ctx, files, meta, st):
    rng = ctx.rng
    # base files: short ones, one per (format, channels in 1,2), both parities of the data length where possible
    chosen = {}
    for name in sorted(files, key=lambda s: int(s[1:])):
        c, _ = meta[name]
        if c.n > 5:
            continue
        key = (c.fmt.word, c.ch % 2, (c.n * c.bw) % 2)
        if key not in chosen and c.ch in (1, 2, 3):
            chosen[key] = name
    names = list(chosen.values())
    if ctx.tier == "quick":
        rng.shuffle(names)
        names = names[:48]
    scripts, plan = [], {}
    for name in names:
        c, _ = meta[name]
        b = files[name][0]
        cuts = (caf_cuts if c.cont == "caf" else w64_cuts)(b, rng)
        vs = (caf_variants if c.cont == "caf" else w64_variants)(b, rng)
        L = ["store s0 %s" % b.hex()]
        for x in cuts:
            L += ["copy s1 s0", "trunc s1 %d" % x, OPEN_R % 1, "close h1"]
        for (lab, vb) in vs:
            L += ["store s1 %s" % vb.hex(), OPEN_R % 1, "close h1"]
        scripts.append((name, "\n".join(L) + "\n"))
        plan[name] = (cuts, vs)
    res = ctx.batch(scripts, workers=WORKERS, clean=True, op_timeout=10)
    problems = []
    for cont in ("caf", "w64"):
        ns = [n for n in names if meta[n][0].cont == cont]
        if not ns:
            continue
        out1 = ctx.run_model([cont, "parsev"], "".join("%s %s\n" % (files[n][0].hex(), " ".join(str(x) for x in plan[n][0])) for n in ns)).split("\n")
        flat = [(n, lab, vb) for n in ns for (lab, vb) in plan[n][1]]
        out2 = ctx.run_model([cont, "parse"], "".join(vb.hex() + "\n" for (_, _, vb) in flat)).split("\n")
        k2 = 0
        for n, l1 in zip(ns, out1):
            c, _ = meta[n]
            cuts, vs = plan[n]
            model = [parse_model(t) for t in l1.split(";")] + [parse_model(out2[k2 + j]) for j in range(len(vs))]
            k2 += len(vs)
            labels = ["truncated to %d bytes" % x for x in cuts] + [lab for (lab, _) in vs]
            lines = res.get(n, [])
            opens = [parse_open(l) for l in lines if l.startswith("open=")]
            dead = [l for l in lines if l.startswith(("CRASH", "ABORT", "TIMEOUT"))]
            if dead or len(opens) != len(labels):
                k = len(opens)
                problems.append(("crash", n, "the library died on variant '%s' of a file it wrote: %s" % (labels[k] if k < len(labels) else "?", dead), variant_script(files[n][0], cuts, vs, k)))
                continue
            for k, (lab, m, o) in enumerate(zip(labels, model, opens)):
                st["variants"] += 1
                ctx.distinct.add("cafw64:variant:%s:%s" % (cont, re.sub(r"\d+", "N", lab)))
                if m[0] == "unmodelled":
                    st["unmodelled"] += 1
                    continue
                if m[0] == "ok":
                    st["variants_ok"] += 1
                if o is None or m[:5] != o[:5]:
                    problems.append(("corr-parse", n, "variant '%s' of %s: library %s, model %s" % (lab, c.name, o, m), variant_script(files[n][0], cuts, vs, k)))
                    break
    return problems


def w64_cuts(b, rng):
    lay = w64_layout(b)
    dp = dict((t, p) for (t, p, s) in lay)[b"data"]
    return sorted(set(range(0, min(len(b), dp + 24 + 12) + 1)) | set(range(max(0, len(b) - 3), len(b) + 1)))


def variant_script(b, cuts, vs, k):
    if k < len(cuts):
        return "store s0 %s\ntrunc s0 %d\n%s\n" % (b.hex(), cuts[k], OPEN_R % 0)
    k -= len(cuts)
    if k < len(vs):
        return "store s0 %s\n%s\n" % (vs[k][1].hex(), OPEN_R % 0)
    return "store s0 %s\n%s\n" % (b.hex(), OPEN_R % 0)


# ---------------- session stream ----------------

def stream_sessions(ctx, fmts, st):
    rng = ctx.rng
    cases = []
    for f in fmts:
        for ch in ((1, 2) if ctx.tier == "quick" else (1, 2, 3, 6)):
            cases.append(Case(f, ch, rng.choice([1, 8000, 44100, 2 ** 31 - 1]), 0, stale=rng.choice([0, 5, 99999, -3])))
    scripts, plan = [], {}
    for i, c in enumerate(cases):
        ops, L = [], [open_w(c), "dump s0"]
        auto = False
        for _ in range(rng.randrange(1, 5)):
            r = rng.random()
            if r < 0.6:
                k = rng.choice([0, 1, 1, 2, 3, 5])
                vals = gen_values(rng, c.ty, k * c.ch)
                ops.append(("w", k, vals))
                L.append("w h0 %s f %d %s" % (c.ty, k, hex_items(vals, c.ty)))
            elif r < 0.85:
                ops.append(("u",))
                L.append("cmd h0 1060 0 null")
            else:
                auto = not auto
                ops.append(("a", auto))
                L.append("cmd h0 1061 %d null" % (1 if auto else 0))
            L.append("dump s0")
        L += ["close h0", "dump s0"]
        name = "S%d" % i
        scripts.append((name, "\n".join(L) + "\n"))
        plan[name] = (c, ops)
    res = ctx.batch(scripts, workers=WORKERS, clean=True)
    problems = []
    for cont in ("caf", "w64"):
        ns = [n for (n, _) in scripts if plan[n][0].cont == cont]
        rows, good = [], []
        for n in ns:
            c, ops = plan[n]
            lines = res.get(n, [])
            dumps = [dump_bytes(l) for l in lines if l.startswith("len=")]
            if len(dumps) != len(ops) + 2 or any(l.startswith(("CRASH", "ABORT", "TIMEOUT")) for l in lines):
                problems.append(("crash", n, "the library died in a write session: %s" % lines[-2:], dict(scripts)[n]))
                continue
            final = dumps[-1]
            total = sum(o[1] for o in ops if o[0] == "w")
            if cont == "caf" and (total * c.bw) % 2:
                off = len(final) - 1 - total * c.bw
            else:
                off = len(final) - total * c.bw
            toks, wpos, table = [], 0, [(0.0, 0)] * c.ch if c.isfloat else []
            for o in ops:
                if o[0] == "w":
                    k = o[1]
                    data = final[off + wpos * c.bw: off + (wpos + k) * c.bw]
                    if c.isfloat and k:
                        table = peaks_after(table, c.ty, o[2], c.ch, wpos)
                    toks.append("w:%d:%s:%s" % (k, data.hex(), peaks_arg(table) if cont == "caf" else "-"))
                    wpos += k
                elif o[0] == "u":
                    toks.append("u")
                else:
                    toks.append("a1" if o[1] else "a0")
            rows.append("%s %d %s\n" % (c.cfg(), c.stale, " ".join(toks)))
            good.append((n, dumps, total))
        if not rows:
            continue
        out = ctx.run_model([cont, "session"], "".join(rows)).split("\n")
        for (n, dumps, total), l in zip(good, out):
            c, ops = plan[n]
            snaps = [bytes.fromhex(t) if t not in ("bad-op", "bad-line") else None for t in l.split(" ")]
            st["sessions"] += 1
            st["snapshots"] += len(dumps)
            ctx.distinct.add("cafw64:session:%s" % c.fmt.name)
            for k, (d, m) in enumerate(zip(dumps, snaps)):
                if d != m:
                    what = "after open" if k == 0 else ("after close" if k == len(dumps) - 1 else "after operation %d (%s)" % (k, ops[k - 1][0]))
                    j = next((i for i in range(min(len(d), len(m or b""))) if d[i] != m[i]), min(len(d), len(m or b"")))
                    problems.append(("corr-session", n, "%s (stale frames %d): store %s differs at offset %d (library %d bytes %s.., model %d bytes %s..)"
                                     % (c.name, c.stale, what, j, len(d), d[j:j + 8].hex(), len(m or b""), (m or b"")[j:j + 8].hex()), dict(scripts)[n]))
                    break
    return problems



# ---------------- CAF files carrying strings and a channel map ----------------

def stream_meta(ctx, fmts, st):
    """library-written CAF files with an 'info' chunk (strings set before the audio) and a 'chan' chunk: the walker must get through them"""
    rng = ctx.rng
    cafs = [f for f in fmts if f.major == CAF]
    if ctx.tier == "quick":
        cafs = cafs[::3]
    scripts, plan = [], {}
    for i, f in enumerate(cafs):
        for (ch, cmap) in ((1, "01000000"), (2, "0200000003000000")):
            c = Case(f, ch, rng.choice([8000, 44100, 2 ** 31 - 1]), rng.choice([0, 1, 3]))
            vals = gen_values(rng, c.ty, c.n * c.ch)
            L = [open_w(c)]
            for (ty, text) in ((1, b"a title"), (3, b"sw"), (4, bytes(rng.randrange(97, 123) for _ in range(rng.randrange(1, 40))))):
                if rng.random() < 0.8:
                    L.append("setstr h0 %d %s" % (ty, text.hex()))
            if rng.random() < 0.8:
                L.append("cmd h0 1101 %d %s" % (len(cmap) // 2, cmap))
            if c.n:
                L.append("w h0 %s f %d %s" % (c.ty, c.n, hex_items(vals, c.ty)))
            L += ["close h0", "dump s0", OPEN_R % 0, "close h1"]
            name = "M%d_%d" % (i, ch)
            scripts.append((name, "\n".join(L) + "\n"))
            plan[name] = c
    res = ctx.batch(scripts, workers=WORKERS, clean=True)
    problems, good = [], []
    for name, text in scripts:
        lines = res.get(name, [])
        dumps = [l for l in lines if l.startswith("len=")]
        opens = [l for l in lines if l.startswith("open=")]
        if not dumps or len(opens) < 2 or any(l.startswith(("CRASH", "ABORT", "TIMEOUT")) for l in lines):
            problems.append(("crash", name, "the library died or refused: %s" % lines[-2:], text))
            continue
        good.append((name, dump_bytes(dumps[0]), opens[1], text))
    if good:
        out = ctx.run_model(["caf", "parse"], "".join(b.hex() + "\n" for (_, b, _, _) in good)).split("\n")
        for (name, b, o2, text), l in zip(good, out):
            c = plan[name]
            st["meta_files"] += 1
            re_, mp = parse_open(o2), parse_model(l)
            want = ("ok", c.expect_word(), c.ch, c.sr, c.n)
            if re_ != want:
                problems.append(("reopen", name, "re-open reports %s, written: fmt=%08x ch=%d sr=%d frames=%d" % (o2.strip(), want[1], c.ch, c.sr, c.n),
                                 text.replace("close h1\n", ""), "open=ok err=0 ch=%d sr=%d frames=%d fmt=%08x" % (c.ch, c.sr, c.n, want[1])))
            elif mp[0] == "unmodelled":
                st["meta_unmodelled"] += 1
            elif mp[:5] != re_[:5]:
                problems.append(("corr-parse", name, "file with strings / channel map: library %s, model %s" % (o2.strip(), mp), text))
    return problems

# ---------------- entry ----------------

def campaign(ctx):
    """returns True when a violation was reported"""
    import time
    t0 = time.time()
    st = {"files": 0, "hdr_bytes": 0, "parsed": 0, "unmodelled_own": 0, "unmodelled": 0, "variants": 0, "variants_ok": 0, "sessions": 0, "snapshots": 0, "meta_files": 0, "meta_unmodelled": 0}
    fmts = formats(ctx)
    cases = header_cases(ctx, fmts)
    problems, files, meta = stream_headers(ctx, cases, st)
    problems += stream_parser(ctx, files, meta, st)
    problems += stream_sessions(ctx, fmts, st)
    problems += stream_meta(ctx, fmts, st)
    st["formats"] = len(fmts)
    st["wall_s"] = round(time.time() - t0, 1)
    ctx.notes["cafw64"] = st
    ctx.count(st["files"] * 3 + st["variants"] + st["snapshots"])
    ctx.coverage["traces_validated_against_impl"] += st["files"] + st["variants"] - st["unmodelled"] + st["sessions"]
    ctx.sample({"kind": "CAF/W64 container model", "formats": [f.name for f in fmts][:6], "counts": dict(st)})
    if not problems:
        return False
    # a size field that disagrees with the file is reported with its script, but the statement of C04 speaks of what a
    # re-open reports: only `reopen` / `crash` are failing inputs of the property itself
    real = [p for p in problems if p[0] in ("reopen", "crash")]
    corr = [p for p in problems if p[0].startswith("corr")]
    prop = ctx.prop.lower()
    for pr in real[:3]:
        kind, name, text, script = pr[:4]
        expect = "expect-last %s\n" % pr[4] if len(pr) > 4 else ""
        ctx.violation("%s-cafw64-%s-%s" % (prop, kind, name),
                      "# %s violated on the implementation's own output (CAF/W64 campaign)\n# %s\n%s--- script\n%s" % (ctx.prop, text, expect, script))
    if not real:
        kind, name, text, script = corr[0][:4]
        ctx.violation("%s-cafw64-correspondence-%s" % (prop, kind),
                      "# correspondence stream 'CAF/W64 container model vs implementation' no longer agrees: %d disagreement(s), kinds %s\n"
                      "# first: %s\n# the %s predicate on the implementation's own output (re-open info, size fields) found no failing input\n--- script\n%s"
                      % (len(corr), sorted(set(p[0] for p in corr)), text, ctx.prop, script), no_input=True)
    return True
