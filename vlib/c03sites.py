"""C03 — tie between the per-site bounds models (lean/SfModel/Sites.lean, theorems SfProps/C03Sites.lean) and the code.

For every tied site a minimal, otherwise well-formed WAV / AIFF / CAF file is built around the chunk under test and exactly
the fields the model takes as inputs are set to every boundary the model's case split has (0, 1, cap-1, cap, cap+1, L = R,
L = R+1, 2^31-1, 2^32-1 …).  The library (ASan build, forked child, alarm) opens the file, its parse log (SFC_GET_LOG_INFO) and
`getmeta` line are reduced to the model's canonical `<decision> <values>` and compared with `sfmodel sites`.  The model's own
`safe` flag (every write inside its destination: what the theorems prove for ALL inputs) is checked on each point too.

Constants (buffer sizes, thresholds) are regenerated from the tree under test into Generated/SitesConsts.lean first
(`sfh sitesconsts` + the #defines of src/wavlike.c), so a changed bound re-opens the proofs as well.
Tied: bext, cart, LIST/INFO string, cue, smpl, AIFF text chunks, CAF info.   Proved only: PEAK, labl, MARK, COMT, chan."""
import os, re, struct

LOG = "1001 16384 zero"
U31, U32 = 0x7FFFFFFF, 0xFFFFFFFF
TIED = ("bext", "cart", "info", "cue", "smpl", "aifftext", "cafinfo")
PROVED_ONLY = ("peak", "labl", "aiffmark", "aiffcomt", "cafchan")


# ---- constants -----------------------------------------------------------------------------------------------------------
def gen_consts(ctx):
    from . import build
    out = ctx.run_sfh(["sitesconsts"], "").stdout
    c = {}
    for line in out.split("\n"):
        p = line.split()
        if len(p) == 2:
            c[p[0]] = int(p[1])
    need = ("bextStruct", "bextHistOff", "bextHistCap", "cartStruct", "cartTagOff", "cartTagCap", "scbuf", "cueName", "instLoops", "maxChannels")
    if any(k not in c for k in need):
        return None, "sfh sitesconsts printed %r" % out[:400]
    src = open(os.path.join(build.REPO, "src", "wavlike.c")).read()
    wav = open(os.path.join(build.REPO, "src", "wav.c")).read()
    com = open(os.path.join(build.REPO, "src", "common.c")).read()

    def define(name, text=src):
        m = re.search(r"#define\s+%s\s+(.+)" % name, text)
        return m.group(1).strip() if m else None
    try:
        c["bextMin"] = int(define("WAV_BEXT_MIN_CHUNK_SIZE"))
        mx = define("WAV_BEXT_MAX_CHUNK_SIZE")
        m = re.match(r"\(WAV_BEXT_MIN_CHUNK_SIZE \+ (\d+) \* (\d+)\)$", mx)
        c["bextMax"] = c["bextMin"] + int(m.group(1)) * int(m.group(2)) if m else int(mx, 0)
        c["cartMin"] = int(define("WAV_CART_MIN_CHUNK_SIZE"))
        c["cartMax"] = int(define("WAV_CART_MAX_CHUNK_SIZE"), 0)
        # the smallest text buffer of wavlike_subchunk_parse: `SF_MAX (SF_MIN (chunk_length, 100 * 1024u), 2047u) + 1` since the repair of
        # KF-C12-INFO-2046 (a tree with the former `char buffer [2048]` gives the same constant and then differs from the model at the points)
        m = re.search(r"bufsize = SF_MAX \(SF_MIN \(chunk_length, \d+ \* \d+u\), (\d+)u\) \+ 1 ;", src)
        if m:
            c["infoBuffer"] = int(m.group(1)) + 1
        else:
            m = re.search(r"char\s+buffer \[(\d+)\] ;\s*\n\s*uint32_t\s+chunk_size, bytesread = 0", src)
            c["infoBuffer"] = int(m.group(1))
        m = re.search(r"if \(cue_count > (\d+)\)", wav)
        c["cueMax"] = int(m.group(1))
        m = re.search(r"if \(newlen > (\d+) \* (\d+)\)", com)
        c["headerCap"] = int(m.group(1)) * int(m.group(2))
    except (TypeError, ValueError, AttributeError) as e:
        return None, "cannot read the thresholds of src/wavlike.c, wav.c, common.c: %r" % (e,)
    order = ("bextMin", "bextMax", "bextStruct", "bextHistOff", "bextHistCap", "cartMin", "cartMax", "cartStruct", "cartTagOff", "cartTagCap",
             "scbuf", "cueName", "instLoops", "maxChannels", "infoBuffer", "cueMax", "headerCap")
    text = ("/- GENERATED on every C03 run from the tree under test (sfh sitesconsts + the #defines of src/wavlike.c), not edited by hand. -/\n"
            "namespace Sf.Generated.Sites\n\n" + "".join("def %s : Int := %d\n" % (k, c[k]) for k in order) + "\nend Sf.Generated.Sites\n")
    changed = ctx.set_generated("SitesConsts.lean", text)
    ctx.notes["sites_consts_changed"] = changed
    return c, None


# ---- file builders -------------------------------------------------------------------------------------------------------
def wav_file(chunks, truncate=None):
    """RIFF/WAVE, fmt (PCM16 mono), `chunks` = [(id, declared size, body bytes)], data with 4 frames"""
    body = b"WAVE" + b"fmt " + struct.pack("<IHHIIHH", 16, 1, 1, 8000, 16000, 2, 16)
    for (cid, size, data) in chunks:
        body += cid + struct.pack("<I", size & U32) + data
    body += b"data" + struct.pack("<I", 8) + bytes(range(1, 9))
    f = b"RIFF" + struct.pack("<I", len(body)) + body
    return f if truncate is None else f[:truncate]


def aiff_file(chunks):
    comm = b"COMM" + struct.pack(">IhIh", 18, 1, 4, 16) + bytes.fromhex("400BFA00000000000000")
    body = b"AIFF" + comm
    for (cid, size, data) in chunks:
        body += cid + struct.pack(">I", size & U32) + data
    body += b"SSND" + struct.pack(">III", 16, 0, 0) + bytes(range(1, 9))
    return b"FORM" + struct.pack(">I", len(body)) + body


def caf_file(chunks, with_data=True):
    f = b"caff" + struct.pack(">HH", 1, 0) + b"desc" + struct.pack(">q", 32) + struct.pack(">d4sIIIII", 8000.0, b"lpcm", 2, 2, 1, 1, 16)
    for (cid, size, data) in chunks:
        f += cid + struct.pack(">q", size) + data
    if with_data:
        f += b"data" + struct.pack(">q", 12) + struct.pack(">I", 0) + bytes(range(1, 9))
    return f


def script(data, route="vio"):
    r = "" if route == "vio" else " route=" + route
    return "store s0 %s\nopen h0 s0 r%s\ncmd h0 %s\ngetmeta h0\nclose h0\ncmd null %s\n" % (data.hex(), r, LOG, LOG)


def parse(tr):
    """-> (opened, log text, meta dict)"""
    tr = [l for l in tr if l]
    opened = any(l.startswith("open=ok") for l in tr)
    logs = [l for l in tr if l.startswith("ret=") and "data=" in l]
    text = ""
    pick = logs[0] if opened and logs else (logs[-1] if logs else None)
    if pick:
        try:
            text = bytes.fromhex(pick.split("data=")[1].split()[0]).split(b"\0")[0].decode("latin-1")
        except ValueError:
            text = ""
    meta = {}
    for l in tr:
        if l.startswith("meta "):
            for t in l.split()[1:]:
                if "=" in t:
                    k, v = t.split("=", 1)
                    meta[k] = v
    return opened, text, meta


# ---- the points ----------------------------------------------------------------------------------------------------------
def points(c, rng):
    P = []   # (site, model line, file bytes, route, observer)
    A = ord("A")

    # bext ------------------------------------------------------------------------------------------
    def obs_bext(opened, log, meta, L):
        if "bext : %u (should be >= " % L in log:
            return "small"
        if "bext : %u (should be < " % L in log:
            return "big"
        if "bext : %u too big to be handled" % L in log:
            return "too-big"
        if "bext : %u\n" % L in log:
            v = meta.get("bext", "0:")
            if not opened:
                return "read ?"
            if not v.startswith("1:"):
                return "read meta-missing"
            raw = bytes.fromhex(v[2:])
            return "read %d" % struct.unpack("<I", raw[c["bextHistOff"] - 4:c["bextHistOff"]])[0]
        return "no-log-line"
    mn, mx, st = c["bextMin"], c["bextMax"], c["bextStruct"]
    for L in sorted(set([0, 1, mn - 1, mn, mn + 1, mn + 256, mn + 1000, mx - 1, mx, mx + 1, st - 1, st, st + 1, U31, U32, U32 - 1] + [rng.randrange(mn, mx) for _ in range(4)])):
        for short in (False, True):
            body = bytes([A]) * min(L, 20000)
            if short:
                body = body[:max(0, len(body) - 7)]           # L = R + 7: the chunk announces more than the file holds
            if L & 1 and not short:
                body += b"\0"
            P.append(("bext", "bext %d" % L, wav_file([(b"bext", L, body)]), "vio", lambda o, l, m, L=L: obs_bext(o, l, m, L)))

    # cart ------------------------------------------------------------------------------------------
    def obs_cart(opened, log, meta, L):
        if "cart : %u (should be >= " % L in log:
            return "small"
        if "cart : %u (should be < " % L in log:
            return "big"
        if "cart : %u too big to be handled" % L in log:
            return "too-big"
        if "cart : %u\n" % L in log:
            v = meta.get("cart", "0:")
            if not opened:
                return "read ?"
            if not v.startswith("1:"):
                return "read meta-missing"
            raw = bytes.fromhex(v[2:])
            return "read %d" % struct.unpack("<I", raw[c["cartTagOff"] - 4:c["cartTagOff"]])[0]
        return "no-log-line"
    mn, st = c["cartMin"], c["cartStruct"]
    for L in sorted(set([0, 1, mn - 1, mn, mn + 1, mn + 256, st - 6, st - 5, st - 4, st - 3, st, st + 1, U31, U32] + [rng.randrange(mn, st - 4) for _ in range(4)])):
        for short in (False, True):
            body = bytes([A]) * min(L, 22000)
            if short:
                body = body[:max(0, len(body) - 5)]
            if L & 1 and not short:
                body += b"\0"
            P.append(("cart", "cart %d" % L, wav_file([(b"cart", L, body)]), "vio", lambda o, l, m, L=L: obs_cart(o, l, m, L)))

    # LIST / INFO string -----------------------------------------------------------------------------
    def obs_info(opened, log, meta, s, cs, later=False):
        m = re.search(r"\*\*\* ISFT : (\d+) \(too big\)", log)
        if m:
            return "too-big %s" % m.group(1)
        m = re.search(r"    ISFT : (\d+) \(too long, skipping\)", log)
        if m:
            # repair (a): only that item is skipped -- the IART item the roomy files carry behind it must still arrive
            if opened and later and meta.get("s4", "null") == "null":
                return "skip %s LATER-ITEM-LOST" % m.group(1)
            return "skip %s" % m.group(1)
        m = re.search(r"    ISFT : (\d+) \(cannot be read, skipping\)", log)
        if m:                                                   # memset + header_read were done: the site's "read"; the header cache refused
            return "read %s" % m.group(1)
        if "    ISFT : " in log:
            if not opened:
                return "read ?"
            v = meta.get("s3", "null")
            n = 0 if v == "null" else len(v) // 2
            return "read %d" % (n + (n & 1))
        return "no-log-line"
    ib = c["infoBuffer"]
    hcap = c["headerCap"]
    LONG = 5000
    for s in sorted(set([0, 1, 2, 3, 100, ib - 3, ib - 2, ib - 1, ib, ib + 1, ib + 2, 4096, 4999, hcap - 2, hcap, hcap + 1, hcap + 2, U31, U32 - 1, U32])):
        cs = (s + (s & 1)) & U32
        cap = LONG if s > hcap + 10 or s < hcap - 10 else s + 1     # around the header cap the item is really there
        for fit in ("exact", "minus1", "roomy"):
            text = bytes([A]) * min(s, cap) + (b"\0" if s & 1 else b"")
            sub = b"INFO" + b"ISFT" + struct.pack("<I", s) + text
            lc = len(sub) if fit == "exact" else (len(sub) - 1 if fit == "minus1" else len(sub) + 10)
            lbody = sub if fit != "roomy" else sub + b"IART" + struct.pack("<I", 2) + b"z\0"
            if fit == "minus1" and (s > cap or len(sub) < 13):
                continue
            if s > cap:
                lc = 12 + cap                                   # the LIST chunk is what it is; the size field lies
            P.append(("info", "info %d 12 %d" % (s, lc), wav_file([(b"LIST", lc, lbody)]), "vio", lambda o, l, m, s=s, cs=cs, later=(fit == "roomy"): obs_info(o, l, m, s, cs, later)))

    # cue ---------------------------------------------------------------------------------------------
    def obs_cue(opened, log, meta, count):
        if "  Count : %u (skipping)" % count in log:
            return "skip"
        if "  Count : %d\n" % (count if count < 0x80000000 else count - (1 << 32)) in log:
            if not opened:
                return "read %d" % count                      # the count the parser allocated for, as logged
            v = meta.get("cuecount", "0:0")
            return "read %s" % (v.split(":")[1] if count else "0")
        return "no-log-line"
    cm = c["cueMax"]
    for count in sorted(set([0, 1, 2, 3, 10, cm - 1, cm, cm + 1, 65535, U31, U32])):
        for have in sorted(set([0, 1, min(count, 3), min(count, 12)])):
            if have > count:
                continue
            recs = b"".join(struct.pack("<II4sIII", i + 1, i * 10, b"data", 0, 0, i * 10) for i in range(have))
            L = 4 + 24 * have
            f = wav_file([(b"cue ", L, struct.pack("<I", count) + recs)])
            P.append(("cue", "cue %d %d" % (count, len(f) - (f.index(b"cue ") + 12)), f, "vio", lambda o, l, m, count=count: obs_cue(o, l, m, count)))

    # smpl --------------------------------------------------------------------------------------------
    def obs_smpl(opened, log, meta, lc):
        v = meta.get("inst", "0:")
        if "  Loop Count   : %u" % lc not in log:
            return "no-log-line"
        if opened:                                              # the instrument as the API reports it
            if not v.startswith("1:"):
                return "no-loops"
            return "read %d" % (struct.unpack("<i", bytes.fromhex(v[2:])[12:16])[0] & U32)
        if "  Sampler Data : " not in log:
            return "no-loops" if len(log) < 15000 else "read ?"  # (a full parse log hides the tail)
        m = re.search(r"changing Loop Count from \d+ to (\d+)", log)
        return "read %d" % (int(m.group(1)) if m else lc)
    il = c["instLoops"]
    for (lc, have, L) in ([(0, 0, 32), (0, 0, 36), (1, 1, 60), (2, 2, 84), (3, 1, 60), (1, 3, 108), (il, il, 36 + 24 * il), (il + 1, il + 1, 36 + 24 * (il + 1)),
                           (40, 40, 36 + 24 * 40), (5, 0, 36), (U32, 2, 84), (U31, 1, 60), (2, 2, 8), (1, 0, 0), (3, 3, 35), (2, 2, 83), (2, 2, 85)]):
        fixed = struct.pack("<8I", 0, 0, 0, 60, 0, 0, 0, lc & U32)
        loops = b"".join(struct.pack("<6I", i, 0, i * 4, i * 4 + 3, 0, 0) for i in range(have))
        body = fixed + struct.pack("<I", 0) + loops
        f = wav_file([(b"smpl", L, body[:max(L + (L & 1), 36 + 24 * have)] if L >= 36 else body)])
        # r = input bytes behind the 36-byte fixed part (the loop reads on into the following chunks when chunklen - bytesread wraps)
        start = f.index(b"smpl") + 8 + 36
        P.append(("smpl", "smpl %d %d %d" % (L, lc & U32, len(f) - start), f, "vio", lambda o, l, m, lc=lc & U32: obs_smpl(o, l, m, lc)))

    # AIFF text chunks --------------------------------------------------------------------------------
    def obs_atext(opened, log, meta, size, tag, key):
        if " %s : %d (too big, skipping)" % (tag, size if size < 0x80000000 else size - (1 << 32)) in log or " %s : %u (too big, skipping)" % (tag, size) in log:
            return "too-big"
        if size == 0:
            return "empty" if (" %s : " % tag) not in log else "logged-empty"
        if " %s : %d (cannot be read, skipping)" % (tag, size) in log:      # memset + header_read were done: the site's "read"
            return "read %d" % size
        if " %s : " % tag in log:
            if not opened:
                return "read ?"
            v = meta.get(key, "null")
            return "read %d" % (0 if v == "null" else len(v) // 2)
        return "no-log-line"
    sb = c["scbuf"]
    for (tag, key, slack) in ((b"NAME", "s1", 2), (b"AUTH", "s4", 1), (b"(c) ", "s2", 0), (b"ANNO", "s5", 2)):
        # around the former 8 KiB scratch buffer, and around the header cap (minus the 66 bytes of FORM/COMM in front: the last size
        # the header cache delivers -- beyond it the chunk is not read, the model says so too: `too-big` only above the cap itself)
        for size in sorted(set([0, 1, 2, 255, sb - 4, sb - 3, sb - 2, sb - 1, sb, sb + 1, 9000, 20001, c["headerCap"] + 1, c["headerCap"] + 2, U31, U32])):
            body = bytes([A]) * min(size, 21000) + (b"\0" if size & 1 and size < 21000 else b"")
            P.append(("aifftext", "aifftext %d %d" % (slack, size), aiff_file([(tag, size, body)]), "vio",
                      lambda o, l, m, size=size, tag=tag.decode(), key=key: obs_atext(o, l, m, size, tag, key)))

    # CAF info -----------------------------------------------------------------------------------------
    def obs_cinfo(opened, log, meta, n):
        if "too big to be read" in log:
            return "too-big"
        if " count: " in log:
            return "read"
        if "info : %d (should be < " % (n + 4) in log:
            return "refused-by-caller"
        return "no-log-line"
    hc = c["headerCap"]
    for n in sorted(set([1, 2, 20, 1000, hc // 2 - 300, hc - 1, hc, hc + 1, hc + 2, 2 * hc, (1 << 24), U31 - 4, U31, 0xFF0000E6 - 4, U32, (1 << 33) + 5])):
        strings = struct.pack(">I", 1) + b"title\0" + bytes([A]) * 8 + b"\0"
        for route in ("vio", "pipe"):
            if route == "vio" and n > 3 * hc:
                continue                                       # on a regular file the caller's test against filelength refuses it
            body = (strings + bytes(max(0, min(n, 3 * hc) + 4 - len(strings))))[:min(n, 3 * hc) + 4]
            f = caf_file([(b"info", n + 4, body)], with_data=(n <= 3 * hc))
            P.append(("cafinfo", "cafinfo %d" % n, f, route, lambda o, l, m, n=n: obs_cinfo(o, l, m, n)))
    return P


def canonical(site, ans):
    """model answer line -> what the observer prints"""
    p = ans.split()
    dec = p[0]
    vals = next((t[5:] for t in p if t.startswith("vals=")), "")
    v = vals.split(",") if vals else []
    if site in ("bext", "cart"):
        return "read %s" % v[0] if dec == "read" else dec
    if site == "info":
        return "%s %s" % (dec, v[0])
    if site == "cue":
        return "read %s" % v[0] if dec == "read" else dec
    if site == "smpl":
        return "read %s" % v[0] if dec == "read" else dec
    if site == "aifftext":
        return "read %s" % v[0] if dec == "read" else dec
    if site == "cafinfo":
        return dec
    return dec


def run(ctx, consts):
    """-> list of (name, text, has_input) problems; `consts` = what gen_consts (called before the Lean stage) returned"""
    problems = []
    c, err = consts
    if c is None:
        return [("sites-consts", "C03 site models: " + err, False)]
    pts = points(c, ctx.rng)
    scripts = [("st%d" % i, script(p[2], p[3])) for i, p in enumerate(pts)]
    out = ctx.batch(scripts, op_timeout=10, workers=8)
    model = ctx.run_model(["sites"], "".join(p[1] + "\n" for p in pts)).split("\n")
    # the proved-only sites: the executable model must report safe=1 on their boundary points too
    extra = []
    for ch in (0, 1, 2, 255, 1024):
        extra += ["peak %d %d" % (8 + 8 * ch + d, ch) for d in (-1, 0, 1)]
    for s in (0, 1, 3, 4, 5, 6, 2050, 2051, 2052, 2053, U31, U32):
        extra.append("labl %d 16 5000" % s)
    for cnt in (0, 1, 2500, 2501, 65535):
        for chb in (0, 1, 254, 255):
            extra.append("aiffmark %d %d %d" % (cnt, min(cnt, 3), chb))
    for ln in (0, 1, c["scbuf"] - 2, c["scbuf"] - 1, c["scbuf"], 65535):
        extra.append("aiffcomt %d" % ln)
    for chn in (0, 1, 2, 6, 8, 1024):
        for tag in (0x640001, 0x650002, 0x7C0008, 0x930015, 0xFFFF):
            extra.append("cafchan %d %d" % (chn, tag))
    mextra = ctx.run_model(["sites"], "".join(x + "\n" for x in extra)).split("\n")
    unsafe = [extra[i] for i in range(len(extra)) if i >= len(mextra) or "safe=1" not in mextra[i]]
    per_site = {}
    agree = 0
    for i, (site, mline, data, route, obs) in enumerate(pts):
        tr = out.get("st%d" % i, [])
        st = per_site.setdefault(site, {"points": 0, "agree": 0, "decisions": {}})
        st["points"] += 1
        ctx.count(1, tag="site-" + site)
        ans = model[i] if i < len(model) else "missing"
        if any(l.startswith(("CRASH", "ABORT", "TIMEOUT")) for l in tr) or not tr:
            problems.append(("site-%s-%d-crash" % (site, i),
                             "# C03 site tie: %s (route %s) did not run to completion: %s\n# model: %s\n--- script\n%s"
                             % (mline, route, [l for l in tr if l.startswith(("CRASH", "ABORT", "TIMEOUT"))][:1], ans, scripts[i][1]), True))
            continue
        opened, log, meta = parse(tr)
        seen = obs(opened, log, meta)
        want = canonical(site, ans)
        st["decisions"][want.split()[0]] = st["decisions"].get(want.split()[0], 0) + 1
        if "safe=1" not in ans:
            unsafe.append(mline)
        if seen == want or (seen.endswith(" ?") and seen.split()[0] == want.split()[0]):
            agree += 1
            st["agree"] += 1
        else:
            problems.append(("site-%s-%d" % (site, i),
                             "# C03 site tie: model and library disagree on `%s` (route %s)\n# library (parse log / getmeta): %s\n# model (Sf.Sites):              %s   [%s]\n"
                             "# parse log:\n%s\n--- script\n%s" % (mline, route, seen, want, ans[:200], "\n".join("#   " + x for x in log.split("\n")[:40]), scripts[i][1]), False))
    if unsafe:
        problems.append(("site-model-unsafe", "the executable site model reports a write outside its destination for: %s" % unsafe[:8], False))
    ctx.notes["site_ties"] = {"tied_sites": list(TIED), "proved_only_sites": list(PROVED_ONLY), "points": len(pts), "agree": agree,
                              "proved_only_boundary_points_run_on_model": len(extra),
                              "per_site": {k: {"points": v["points"], "agree": v["agree"], "model_decisions_hit": v["decisions"]} for k, v in per_site.items()}}
    ctx.coverage["traces_validated_against_impl"] += len(pts)
    if pts:
        ctx.sample({"kind": "site tie (model line, route, library observation)", "model_line": pts[len(pts) // 3][1], "route": pts[len(pts) // 3][3],
                    "model_answer": model[len(pts) // 3][:300] if len(model) > len(pts) // 3 else ""})
    return problems
