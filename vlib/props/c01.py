"""C01 — see DESIGN.md §7."""
from ._write_common import run_common
from ..core import modules_for


def run(ctx):
    q = ctx.tier == "quick"
    if getattr(ctx, "replay", None) and "(vlib/precmd.py)" in open(ctx.replay).read():
        from .. import precmd, abswrite      # a pre-command record: C01 reads the clauses roundtrip / reopen / crash of it
        return abswrite.replay(ctx, ctx.replay, precmd.CATS)
    run_common(ctx, "C01", modules_for("C01"), stride=2 if q else 1, l1_scripts=250 if q else 2500)
    if not getattr(ctx, "replay", None):
        from .. import blockcamp
        blockcamp.run(ctx, "C01", 160 if q else 1600)
        from .. import dwvw
        dwvw.run(ctx, "C01", 120 if q else 1200)
        from .. import ieee
        ieee.run_c01_replace(ctx)      # float/double files through the portable IEEE serialisers (SFC_TEST_IEEE_FLOAT_REPLACE)
        from .. import alac           # CAF/ALAC: packet staging, pakt / kuki chunks, read / seek around the codec core (lean/SfModel/AlacFile.lean)
        alac.run(ctx, "C01", 96 if q else 960)
        from .. import alaccore       # the ALAC codec CORE (lean/SfModel/AlacCore.lean …): library packets decoded by the model, escape packets re-encoded, hostile packets
        alaccore.run(ctx, "C01", 60 if q else 900)
        from .. import precmd         # round trips after the format-affecting COMMANDS a writer may issue before the audio (SFC_WAVEX_SET_AMBISONIC, SFC_SET_ADD_PEAK_CHUNK, SFC_RF64_AUTO_DOWNGRADE, switches, codec parameters) x every lossless (container, encoding)
        precmd.run(ctx, "C01")
