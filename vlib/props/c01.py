"""C01 — see DESIGN.md §7."""
from ._write_common import run_common


def run(ctx):
    q = ctx.tier == "quick"
    run_common(ctx, "C01", ["SfProps.C01", "SfProps.C01Block", "SfProps.C01Aiff"], stride=2 if q else 1, l1_scripts=250 if q else 2500)
    run_common(ctx, "C01", ["SfProps.C01", "SfProps.C01Block", "SfProps.C01Dwvw"], stride=2 if q else 1, l1_scripts=250 if q else 2500)
    if not getattr(ctx, "replay", None):
        from .. import blockcamp
        blockcamp.run(ctx, "C01", 160 if q else 1600)
        from .. import dwvw
        dwvw.run(ctx, "C01", 120 if q else 1200)
