"""C12 — metadata set before the audio survives close and re-open unchanged."""
import os, re, time
from .. import meta as M
from ..core import Violation, VERIF, modules_for
from .. import chanmap, build
from .. import absmeta as A
from ..core import Violation, VERIF
import random, zlib

# class of a script (vlib/meta.py `expected`, mirroring the hypotheses of the …_partial theorems) -> known-finding id, failure
# signatures that class may show.  `str-*` = any string mismatch.
CLASS_KF = {
    "smpl-ranges": ("KF-C12-SMPL-RANGES", {"inst-ranges-default", "inst-ranges-detune"}),
    "smpl-detune": ("KF-C12-SMPL-DETUNE", {"inst-detune", "inst-ranges-detune"}),
    "aiff-inst": ("KF-C12-AIFF-INST", {"inst-missing"}),
    "header-cache": ("C13-header-cache", {"str-*", "reopen-null", "bext-missing", "cart-missing", "cues-missing", "inst-missing", "audio"}),
    "aiff-sanitize": ("KF-C12-AIFF-SANITIZE", {"str-2", "str-3"}),
}
MODELLED = ("wav", "wavex", "rf64", "aiff", "caf")
UNMODELLED = {"header-cache"}      # classes whose failure the Lean model does not predict
SUBS = (2, 3, 4)


def sig_matches(sig, allowed):
    return sig in allowed or (sig.startswith("str-") and "str-*" in allowed)


# ---- value generators -------------------------------------------------------------------------------------------------------

def text(rng, n, utf8=True, ascii_only=False):
    if n == 0:
        return b""
    if ascii_only or not utf8 or rng.random() < 0.5:
        return bytes(rng.choice(b"abcdefghijklmnopqrstuvwxyz ABCDEFGHIJKLMNOPQRSTUVWXYZ0123456789.,;:-_!?()[]{}'\"@#$%&*+=/<>~`^|\\") for _ in range(n))
    out = b""
    while len(out) < n:
        cp = rng.choice([rng.randrange(0x20, 0x7f), rng.randrange(0xa0, 0x800), rng.randrange(0x800, 0xd800), rng.randrange(0x10000, 0x10ffff), 9, 10])
        out += chr(cp).encode("utf-8")
    while len(out) > n:        # cut on a character boundary, refill with ASCII
        out = out[:-1]
        while out and (out[-1] & 0xc0) == 0x80:
            out = out[:-1]
        if out and out[-1] >= 0xc0:
            out = out[:-1]
    return out + b"x" * (n - len(out))


def S(ty, b, h="h0"):
    return "setstr %s %d %s" % (h, ty, b.hex() if b is not None else "null")


def lines_text(rng, n, endings):
    """text of about n bytes made of lines, each closed by one of `endings`"""
    out = b""
    while len(out) < n:
        out += text(rng, min(n - len(out), rng.randrange(1, 60)), ascii_only=True).replace(b"\n", b" ")
        if len(out) < n:
            out += rng.choice(endings)
    return out[:n]


CRLF_TEXTS = [b"a\n\nb\n", b"a\r\rb\r", b"a\r\n\r\nb\r\n", b"a\n\r\n\rb\n\r", b"a\n\n\nb", b"a\r\r\rb", b"\n\nlead", b"\r\rlead", b"trail\n\n", b"trail\r\r",
              b"\n", b"\r", b"\n\n", b"\r\r", b"\n\r\n", b"\r\n\r", b"\r\r\n", b"\n\n\r", b"\r\n\n", b"\n\r\r", b"a\n\r\r\nb", b"a\r\n\n\rb",
              b"l1\n\nl2\r\rl3\r\n\r\nl4\n\r\n\rl5", b"A=ANALOGUE,M=mono\n\nA=PCM,F=48000,W=16,M=mono\n"]
CRLF_TAILS = [b"\n", b"\r", b"\r\n", b"\n\r", b"\n\n", b"\r\r", b"\n\nz", b"\r\n\r\n"]


def crlf_scripts(rng):
    """(name, kind, container, sets): bext coding histories and cart tag texts whose LINE STRUCTURE is the subject — every text on WAV (the
    normaliser is container-independent), a fixed quarter of them on the other containers; then texts of 16374..16383 bytes whose last
    line end(s) straddle the end of the 16 KiB field (the copy stops BETWEEN tokens)"""
    out = []
    for i, t in enumerate(CRLF_TEXTS):
        for cont in ("wav", "wavex", "rf64", "rifx"):
            if cont == "wav" or i % 4 == ("wavex", "rf64", "rifx").index(cont):
                out.append(("bext-crlf-%s-%d" % (cont, i), "bext", cont, [bext_cmd(rng, t)]))
        for cont in ("wav", "rf64", "rifx"):
            if cont == "wav" or i % 4 == 1 + ("rf64", "rifx").index(cont):
                out.append(("cart-crlf-%s-%d" % (cont, i), "cart", cont, [cart_cmd(rng, t), S(4, b"A")]))
    k = 0
    for body in (16374, 16378, 16379, 16380, 16381, 16382):
        for tail in CRLF_TAILS:
            k += 1
            t = (b"line one\n\n" + b"x" * body)[:body] + tail
            if len(t) > 16383:      # the 16 KiB field of the _16K structs holds at most 16383 bytes + NUL: longer blocks are outside the documented limits
                continue
            out.append(("cart-crlf-edge-wav-%d-%d" % (body, k), "cart", "wav", [cart_cmd(rng, t), S(4, b"A")]))
            if k % 3 == 0:
                out.append(("bext-crlf-edge-wav-%d-%d" % (body, k), "bext", "wav", [bext_cmd(rng, t)]))
    return out


def bext_cmd(rng, hist, h="h0", **over):
    vals = {"description": text(rng, rng.choice([0, 1, 17, 255, 256]), ascii_only=True), "originator": text(rng, rng.choice([0, 5, 32]), ascii_only=True),
            "originator_reference": text(rng, rng.choice([0, 31, 32]), ascii_only=True), "origination_date": b"2026-09-29", "origination_time": b"21:00:00",
            "time_reference_low": rng.randrange(2 ** 32), "time_reference_high": rng.randrange(2 ** 32), "version": rng.choice([0, 1, 2]),
            "umid": bytes(rng.randrange(256) for _ in range(64)), "loudness_value": rng.randrange(65536), "loudness_range": rng.randrange(65536),
            "max_true_peak_level": rng.randrange(65536), "max_momentary_loudness": rng.randrange(65536), "max_shortterm_loudness": rng.randrange(65536)}
    vals.update(over)
    return M.cmd_line(h, M.SFC_SET_BROADCAST_INFO, M.bext_bytes(vals, hist))


def cart_cmd(rng, tag, h="h0"):
    vals = {"version": b"0101", "title": text(rng, rng.choice([0, 1, 63, 64]), ascii_only=True), "artist": text(rng, 10, ascii_only=True), "cut_id": b"CUT1",
            "client_id": b"client", "category": b"cat", "classification": b"class", "out_cue": b"out", "start_date": b"2026/09/29", "start_time": b"21:00:00",
            "end_date": b"2027/01/01", "end_time": b"00:00:00", "producer_app_id": b"sfh", "producer_app_version": b"1", "user_def": text(rng, 20, ascii_only=True),
            "level_reference": rng.randrange(2 ** 31), "post_timers": bytes(rng.randrange(256) for _ in range(64)), "url": text(rng, rng.choice([0, 8, 1023, 1024]), ascii_only=True).replace(b" ", b"_")}
    return M.cmd_line(h, M.SFC_SET_CART_INFO, M.cart_bytes(vals, tag))


def cues(rng, n, names=False, small=False):
    res = []
    for k in range(n):
        lim = 2 ** 15 if small else 2 ** 32
        res.append((rng.randrange(lim) if k % 3 else k + 1, rng.randrange(2 ** 32), rng.choice([0x61746164, 0x20746c73, rng.randrange(2 ** 32)]), rng.randrange(2 ** 31),
                    rng.randrange(2 ** 31), rng.randrange(2 ** 32), text(rng, rng.choice([1, 5, 40, 200]), ascii_only=True).strip() or b"n" if names else b""))
    return res


def inst_cmd(rng, nloops, h="h0", clean=True, **over):
    loops = [(rng.choice([800, 801, 802, 803]), rng.randrange(2 ** 32), rng.randrange(2 ** 32), rng.randrange(2 ** 32)) for _ in range(nloops)]
    kw = dict(gain=1, basenote=rng.randrange(-128, 128), detune=rng.randrange(0, 100), vel=(0, 127), key=(0, 127), loops=loops)
    if not clean:
        kw.update(gain=rng.randrange(-5, 50), vel=(rng.randrange(0, 60), rng.randrange(60, 128)), key=(rng.randrange(0, 60), rng.randrange(60, 128)))
    kw.update(over)
    return M.cmd_line(h, M.SFC_SET_INSTRUMENT, M.inst_bytes(**kw))


def chmap_cmd(vals, h="h0"):
    return M.cmd_line(h, M.SFC_SET_CHANNEL_MAP_INFO, b"".join(v.to_bytes(4, "little") for v in vals))


ENDINGS = [b"\r\n", b"\n", b"\r", b"\n\r"]
# every length class up to the one limit the containers have: the 100 KiB header cache (a script whose header estimate comes
# within M.HEADER_MARGIN of it is in the known class `header-cache`).  2045..2048 / 8188..8192 / 16 Ki are the former buffer sizes of
# the INFO reader, the AIFF reader and the CAF writer; 51200 is where the header cache used to refuse a single item.
STR_LENS = {"wav": [1, 2, 3, 4, 255, 256, 257, 1000, 2044, 2045, 2046, 2047, 2048, 4096, 20000, 51199, 51200, 51201, 90000],
            "wavex": [1, 2, 255, 256, 2045, 2046, 2047, 30000, 70000], "rf64": [1, 2, 255, 256, 2044, 2045, 2046, 2048, 51201, 80000],
            "rifx": [1, 2, 255, 256, 2045, 2046, 2049, 60000],
            "aiff": [1, 2, 3, 255, 256, 2046, 2047, 2048, 8188, 8189, 8190, 8191, 8192, 8193, 16384, 51201, 90000],
            "caf": [1, 2, 255, 256, 2046, 2047, 2048, 16000, 16366, 16367, 16368, 16384, 20000, 51201, 90000]}


def gen(ctx):
    """list of (name, kind, script)"""
    rng = ctx.rng
    thorough = ctx.tier == "thorough"
    R = []

    def add(name, kind, cont, sets, late=(), ch=None, sr=None, sub=None, frames=None):
        ch = ch or rng.choice([1, 2, 2, 6])
        sr = sr or rng.choice([8000, 11025, 44100, 48000, 96000])
        sub = sub or rng.choice(SUBS)
        R.append((name, kind, M.mk_script(cont, sets, ch=ch, sr=sr, late=late, sub=sub, frames=frames or rng.choice([1, 4, 9]))))

    strconts = ("wav", "wavex", "rf64", "rifx", "aiff", "caf")
    # 1. strings: every length class, every type, UTF-8, orders, replacement before the audio
    for cont in strconts:
        sup = list(M.STR_SUPPORT[cont])
        for L in STR_LENS[cont]:
            for rep in range(4 if not thorough else 40):
                tys = rng.sample(sup, min(3, len(sup)))
                big = tys[rng.randrange(len(tys))]
                sets = []
                for ty in tys:
                    n = L if ty == big else rng.choice([1, 2, 7, 30])
                    if ty == 3:
                        n = max(1, n - 40)     # the suffix is added to it
                    sets.append(S(ty, text(rng, n, ascii_only=(cont == "aiff" and ty in (2, 3)) or ty == 3)))
                add("str-%s-%d-%d" % (cont, L, rep), "strings", cont, sets)
        for rep in range(6 if not thorough else 30):
            tys = list(M.STR_TYPES)
            rng.shuffle(tys)
            sets = [S(ty, text(rng, rng.choice([1, 2, 3, 10, 40]), ascii_only=(cont == "aiff" and ty in (2, 3)))) for ty in tys]
            for ty in rng.sample(tys, 3):       # replacement of an existing type
                sets.insert(rng.randrange(len(sets) + 1), S(ty, text(rng, rng.choice([1, 5, 33]), ascii_only=(cont == "aiff" and ty in (2, 3)))))
            # the last set of a type wins whatever the order: move nothing, the predicate follows the script
            add("str-all-%s-%d" % (cont, rep), "strings", cont, sets)
        # the high slots: 22 replacements first, then one value per type (32 calls in all: the table is exactly full)
        tys = list(M.STR_TYPES)
        rng.shuffle(tys)
        add("str-32-calls-%s" % cont, "strings", cont, [S(rng.choice([1, 4, 5]), text(rng, rng.choice([1, 2, 9]), ascii_only=True)) for _ in range(22)] +
            [S(ty, text(rng, rng.choice([1, 2, 9, 30]), ascii_only=(ty in (2, 3)))) for ty in tys])
        add("str-software-%s" % cont, "strings", cont, [S(3, b""), S(1, b"t")])
        add("str-software2-%s" % cont, "strings", cont, [S(3, b"made with libsndfile-0.0.1 by hand"), S(4, b"a")])
        for n in (107, 108, 109, 127, 128, 500):      # around the former 128-byte buffer
            add("str-software3-%s-%d" % (cont, n), "strings", cont, [S(3, text(rng, n, ascii_only=True)), S(4, b"a")])
        add("str-software4-%s" % cont, "strings", cont, [S(3, text(rng, 300, ascii_only=True) + b" libsndfile inside"), S(4, b"a")])
        # more than 32 calls: the 33rd and later are refused, what was stored stays
        add("str-40-calls-%s" % cont, "strings", cont, [S(1, b"first")] + [S(4, b"a%d" % k) for k in range(31)] + [S(1, b"again"), S(5, b"never stored"), S(4, b"nor this")])
        add("str-empty-null-%s" % cont, "strings", cont, [S(1, b""), S(2, None), S(4, b"kept"), "setstr h0 77 41", "setstr h0 -1 41"])
    # 2. bext
    for cont in ("wav", "wavex", "rf64", "rifx"):
        for n in [0, 1, 2, 3, 255, 256, 1000, 4000, 9000, 9580, 9588, 9590, 12000, 16000, 16300, 16383] + ([9500, 9589, 16330, 16382] if thorough else []):
            for e in range(3 if not thorough else 8):
                ends = ENDINGS if e else [rng.choice(ENDINGS)]
                hist = lines_text(rng, n, ends)
                if n and rng.random() < 0.5:
                    hist = hist.rstrip(b"\r\n") or b"x"
                add("bext-%s-%d-%d" % (cont, n, e), "bext", cont, [bext_cmd(rng, hist)] + ([S(1, b"T")] if e else []))
        add("bext-twice-%s" % cont, "bext", cont, [bext_cmd(rng, b"first\n"), S(5, b"c"), bext_cmd(rng, b"second line\rthird")])
        add("bext-nul-%s" % cont, "bext", cont, [bext_cmd(rng, b"ab\0cd\nef")])
    # 3. cart
    for cont in ("wav", "rf64", "rifx"):
        for n in [0, 1, 2, 3, 100, 1000, 8000, 16000, 16380, 16381, 16382, 16383]:
            tag = lines_text(rng, n, ENDINGS)
            if n and rng.random() < 0.5:
                tag = tag.rstrip(b"\r\n") or b"y"
            add("cart-%s-%d" % (cont, n), "cart", cont, [cart_cmd(rng, tag), S(4, b"A")])
    # 3b. the line-end normaliser on LINE STRUCTURE (round 9, seed C12-crlf-empty-line-collapse): empty lines, runs of line ends of every
    #     kind and mix, leading / trailing line ends, and texts that fill the 16 KiB field up to the middle of a pair.  Deterministic: the
    #     texts of 3. never hold two line ends in a row.  Lean: SfProps/C12Crlf.lean (crlf_keeps_lines, crlf_truncates_at_token).
    for (name, kind, cont, sets) in crlf_scripts(rng):
        add(name, kind, cont, sets)
    # 4. cue points
    for cont in ("wav", "wavex", "rifx"):
        for n in [0, 1, 2, 3, 10, 50, 99, 100] + ([101, 500, 2500] if thorough else []):
            add("cue-%s-%d" % (cont, n), "cues", cont, [M.setcues_line("h0", cues(rng, n))])
            add("cue-names-%s-%d" % (cont, n), "cues", cont, [M.setcues_line("h0", cues(rng, n, names=True))] + ([S(1, b"T"), inst_cmd(rng, 1)] if n % 2 else []))
        for ln in (1, 2, 3, 254, 255):      # name lengths around the 256-byte field and the pad byte
            cs = cues(rng, 3, names=True)
            cs[1] = cs[1][:6] + (text(rng, ln, ascii_only=True).replace(b" ", b"_"),)
            add("cue-namelen-%s-%d" % (cont, ln), "cues", cont, [M.setcues_line("h0", cs)])
    for n in [0, 1, 2, 3, 10, 50, 100] + ([101, 1000, 2500] if thorough else []):
        add("cue-aiff-%d" % n, "cues", "aiff", [M.setcues_line("h0", cues(rng, n, names=True))])
    for ln in (1, 2, 252, 253, 254, 255):      # AIFF marker names are pascal strings: every length up to the 255 characters SF_CUE_POINT.name holds (KF-C12-AIFF-CUE-NAME-254)
        cs = cues(rng, 3, names=True)
        cs[1] = cs[1][:6] + (text(rng, ln, ascii_only=True).replace(b" ", b"_"),)
        add("cue-namelen-aiff-%d" % ln, "cues", "aiff", [M.setcues_line("h0", cs)])
    # 5. instrument
    for cont in ("wav", "wavex", "rifx"):
        for n in [0, 1, 2, 8, 15, 16]:
            add("inst-%s-%d" % (cont, n), "inst", cont, [inst_cmd(rng, n)])
    # 6. channel map
    for cont, ch, mp in (("wavex", 2, (2, 3)), ("rf64", 2, (2, 3)), ("aiff", 2, (2, 3)), ("caf", 2, (2, 3)), ("wavex", 1, (4,)), ("caf", 1, (1,)), ("aiff", 1, (1,)),
                         ("wavex", 6, (2, 3, 4, 7, 5, 6)), ("caf", 6, (2, 3, 4, 7, 5, 6)), ("wav", 2, (2, 3)), ("caf", 2, (3, 4)), ("wavex", 2, (0, 1)), ("wavex", 2, (2, 99))):
        add("chmap-%s-%s" % (cont, "_".join(map(str, mp))), "chmap", cont, [chmap_cmd(mp), S(1, b"T")], ch=ch)
    # 6b. a second channel map: one the container takes replaces the first, one it refuses (no layout tag / channel mask, or an invalid
    #     code) leaves the first in force
    for cont in ("caf", "aiff", "wavex", "rf64"):
        for k, (first, second) in enumerate((((2, 3), (3, 2)), ((2, 3), (9, 10)), ((2, 3), (2, 99)), ((9, 10), (3, 2)), ((3, 2), (2, 3)), ((2, 3), (2, 3)))):
            add("chmap2-%s-%d" % (cont, k), "chmap", cont, [chmap_cmd(first), S(4, b"A"), chmap_cmd(second), S(1, b"T")], ch=2)
        add("chmap2-%s-6ch" % cont, "chmap", cont, [chmap_cmd((2, 3, 4, 7, 5, 6)), chmap_cmd((7, 6, 5, 4, 3, 2)), S(1, b"T")], ch=6)
    # 7. several items in one header, random order
    for rep in range(120 if not thorough else 5000):
        cont = rng.choice(["wav", "wav", "wavex", "rf64", "rifx", "aiff", "caf"])
        sets = [S(ty, text(rng, rng.choice([1, 2, 9, 100, 255]), ascii_only=(cont == "aiff" and ty in (2, 3)))) for ty in rng.sample(list(M.STR_TYPES), rng.randrange(1, 6))]
        if cont in M.BEXT_SUPPORT and rng.random() < 0.7:
            sets.append(bext_cmd(rng, lines_text(rng, rng.choice([0, 5, 300]), ENDINGS)))
        if cont in M.CART_SUPPORT and rng.random() < 0.6:
            sets.append(cart_cmd(rng, lines_text(rng, rng.choice([0, 5, 300]), ENDINGS)))
        if cont in ("wav", "wavex", "aiff", "rifx") and rng.random() < 0.6:
            sets.append(M.setcues_line("h0", cues(rng, rng.randrange(0, 12), names=(cont == "aiff" or rng.random() < 0.6))))
            if rng.random() < 0.3:      # a second set replaces the first
                sets.append(M.setcues_line("h0", cues(rng, rng.randrange(0, 5), names=(cont == "aiff" or rng.random() < 0.6))))
        if cont in ("wav", "wavex", "rifx") and rng.random() < 0.6:
            sets.append(inst_cmd(rng, rng.randrange(0, 5)))
        ch = rng.choice([1, 2])
        if cont in ("wavex", "rf64", "caf", "aiff") and rng.random() < 0.5:
            sets.append(chmap_cmd((1,) if ch == 1 and cont != "wavex" else (4,) if ch == 1 else (2, 3)))
        rng.shuffle(sets)
        add("mix-%s-%d" % (cont, rep), "mix", cont, sets, ch=ch)
    # 8. too late / container cannot store it: refused or ignored, audio and other metadata untouched
    for cont in ("wav", "wavex", "rf64", "rifx", "aiff", "caf", "w64", "au"):
        base = [S(1, b"Title"), S(4, b"Artist")] if cont in M.STR_SUPPORT else []
        if cont in M.BEXT_SUPPORT:
            base.append(bext_cmd(rng, b"base\n"))
        lates = {"str-new": [S(5, b"a late comment")], "bext-first": [bext_cmd(rng, b"late\n")], "cart-first": [cart_cmd(rng, b"late")],
                 "cues": [M.setcues_line("h0", cues(rng, 2))], "inst": [inst_cmd(rng, 1)], "chmap": [chmap_cmd((2, 3))], "all": None}
        lates["all"] = [x for k in ("str-new", "cart-first", "cues", "inst", "chmap") for x in lates[k]]
        for k, ops in lates.items():
            if k == "bext-first" and cont in M.BEXT_SUPPORT:
                continue        # a bext block exists already: that is the late-grow class below
            add("late-%s-%s" % (cont, k), "late", cont, base, late=ops, ch=2)
        if cont in M.BEXT_SUPPORT:      # after the audio: a block of the same size is an update, a block of another size is refused
            h = lines_text(rng, 40, [b"\r\n"]) + b"\r\n"
            add("late-%s-bext-update" % cont, "late", cont, [bext_cmd(rng, h)], late=[bext_cmd(rng, h)], ch=2)
            add("late-%s-bext-grow" % cont, "late", cont, [bext_cmd(rng, h)], late=[bext_cmd(rng, h + lines_text(rng, rng.choice([1, 2, 14, 15, 16, 17, 200]), [b"\r\n"]))], ch=2)
            add("late-%s-bext-shrink" % cont, "late", cont, [bext_cmd(rng, h)], late=[bext_cmd(rng, h[:rng.choice([0, 10, 30])])], ch=2)
        if cont in M.CART_SUPPORT:
            add("late-%s-cart-update" % cont, "late", cont, [cart_cmd(rng, b"tag text\r\n")], late=[cart_cmd(rng, b"TAG TEXT\r\n")], ch=2)
            add("late-%s-cart-grow" % cont, "late", cont, [cart_cmd(rng, b"t")], late=[cart_cmd(rng, b"tag" * rng.choice([1, 5, 50]))], ch=2)
        # an odd number of audio bytes (pad byte before the trailing chunks) and a long audio section
        add("late-%s-str-odd" % cont, "late", cont, base, late=[S(5, b"a late comment"), S(2, b"(c) late")], ch=1, sub=3, frames=rng.choice([1, 3, 5, 7]))
        add("late-%s-str-odd-only" % cont, "late", cont, [], late=[S(1, b"late title")], ch=1, sub=3, frames=rng.choice([1, 3, 5, 7]))
        add("late-%s-str-long" % cont, "late", cont, base, late=[S(5, b"a late comment")], ch=2, sub=2, frames=rng.choice([500, 2047, 4096]))
        if cont in M.STR_SUPPORT:      # replacing an early string after the audio: the header shrinks (WAV pads it, AIFF uses the SSND offset)
            add("late-%s-replace" % cont, "late", cont, base, late=[S(1, text(rng, rng.choice([1, 3, 40]), ascii_only=True))], ch=2)
            add("late-%s-replace2" % cont, "late", cont, [S(1, b"T"), S(4, b"A")], late=[S(1, b"New"), S(4, b"B")], ch=1)
        # every kind on a container without a place for it, before the audio
        add("unsup-%s" % cont, "unsupported", cont, base + [bext_cmd(rng, b"x\n"), cart_cmd(rng, b"y"), M.setcues_line("h0", cues(rng, 2)) if cont not in ("aiff",) else S(1, b"Title"),
                                                            chmap_cmd((2, 3))] + [S(ty, b"v%d" % ty) for ty in (6, 7, 8, 9, 16)], ch=2)
    # 9. the known-finding classes: each must fail only with its own signature
    K = []
    for cont in ("wav", "wavex"):
        K.append(("kf-cue-names-%s" % cont, cont, [M.setcues_line("h0", cues(rng, 3, names=True))], ()))
        K.append(("kf-smpl-ranges-%s" % cont, cont, [inst_cmd(rng, 2, clean=False)], ()))
        K.append(("kf-smpl-detune-%s" % cont, cont, [inst_cmd(rng, 1, detune=rng.choice([-50, -1, 100, 127]))], ()))
        K.append(("kf-cue-second-%s" % cont, cont, [M.setcues_line("h0", cues(rng, 1)), M.setcues_line("h0", cues(rng, 2))], ()))
    for cont in ("wav", "wavex", "rf64", "rifx"):
        for n in (2046, 2047, 4096):
            K.append(("kf-info-%s-%d" % (cont, n), cont, [S(1, b"before"), S(5, text(rng, n)), S(4, b"after")], ()))
        K.append(("kf-bext-10k-%s" % cont, cont, [bext_cmd(rng, lines_text(rng, rng.choice([9600, 12000, 16000]), ENDINGS)), S(1, b"T")], ()))
        K.append(("kf-late-grow-%s" % cont, cont, [bext_cmd(rng, b"short\n")], [bext_cmd(rng, lines_text(rng, 200, ENDINGS))]))
    K.append(("kf-header-cache-wav", "wav", [S(ty, text(rng, 2045, ascii_only=True)) for ty in (1, 2, 4, 5, 6, 7, 9, 16)] + [bext_cmd(rng, lines_text(rng, 9500, ENDINGS)),
              cart_cmd(rng, lines_text(rng, 16000, ENDINGS)), M.setcues_line("h0", cues(rng, 1000))], ()))
    # what is left of the header-cache finding: strings that make the header longer than the 100 KiB buffer
    for cont in strconts:
        K.append(("kf-header-cache-%s-110000" % cont, cont, [S(1, b"T"), S(5, text(rng, 110000, ascii_only=True)), S(4, b"after")], ()))
        K.append(("kf-header-cache-%s-2x60000" % cont, cont, [S(1, text(rng, 60000, ascii_only=True)), S(5, text(rng, 60000, ascii_only=True))], ()))
    for cont in ("wav", "rf64"):
        K.append(("kf-cart-16k-%s" % cont, cont, [cart_cmd(rng, b"x" * 16381 + b"\n"), S(1, b"T")], ()))
        K.append(("kf-late-grow-cart-%s" % cont, cont, [cart_cmd(rng, b"t")], [cart_cmd(rng, b"tag" * 50)]))
    for cont in strconts:
        K.append(("kf-str-slots-%s" % cont, cont, [S(1, b"first")] + [S(4, b"a%d" % k) for k in range(31)] + [S(1, b"again")], ()))
        add("str-type0-%s" % cont, "strings", cont, [S(1, b"first"), "setstr h0 0 41", S(2, b"after")])
        if cont != "aiff":
            K.append(("kf-software-127-%s" % cont, cont, [S(3, text(rng, 120, ascii_only=True)), S(1, b"T")], ()))
    K.append(("kf-rifx-cue", "rifx", [M.setcues_line("h0", cues(rng, 2)), S(1, b"T")], ()))
    K.append(("kf-rifx-cart", "rifx", [cart_cmd(rng, b"tag"), S(1, b"T")], ()))
    K.append(("kf-rifx-cue-all", "rifx", [S(1, b"T"), bext_cmd(rng, b"h\n"), M.setcues_line("h0", cues(rng, 1)), inst_cmd(rng, 1)], ()))
    K.append(("kf-aiff-inst", "aiff", [inst_cmd(rng, 1), S(1, b"T")], ()))
    K.append(("kf-aiff-inst-cues", "aiff", [inst_cmd(rng, 1), M.setcues_line("h0", cues(rng, 2, names=True)), S(1, b"T")], ()))
    for n in (1, 7, 30):
        K.append(("kf-aiff-late-replace-%d" % n, "aiff", [S(1, b"Title"), S(4, b"An artist"), S(5, b"a comment")], [S(1, text(rng, n, ascii_only=True)), S(5, b"c")]))
    for n, ty in ((8190, 1), (8190, 5), (8191, 4), (8192, 2), (16384, 5)):
        K.append(("kf-aiff-%d-%d" % (n, ty), "aiff", [S(4 if ty != 4 else 1, b"other"), S(ty, text(rng, n, ascii_only=True))], ()))
    K.append(("kf-aiff-sanitize", "aiff", [S(2, "© 2026 Zoë".encode()), S(1, "Zoë".encode())], ()))
    K.append(("kf-aiff-sanitize-sw", "aiff", [S(3, "Zoë's tool".encode()), S(1, b"T")], ()))
    K.append(("kf-aiff-appl-stale", "aiff", [S(1, b"A title that is long enough to stay in the buffer"), S(3, b"tools")], ()))
    K.append(("kf-aiff-late-replace", "aiff", [S(1, b"Title"), S(4, b"A")], [S(1, b"Much longer title set late")]))
    K.append(("kf-caf-16k", "caf", [S(1, b"T"), S(5, text(rng, 16367)), S(4, b"A")], ()))
    K.append(("kf-caf-16k-b", "caf", [S(5, text(rng, 9000)), S(1, text(rng, 9000)), S(4, b"A")], ()))
    for (name, cont, sets, late) in K:
        add(name, "class", cont, sets, late=late, ch=2)
    return R


def model_lines(ctx, scripts, package):
    name, ver = package.split("-", 1) if "-" in package else (package, "")
    inp = "".join("== %s\n%s" % (n, s) for (n, s) in scripts)
    out = ctx.run_model(["meta", name, ver], inp)
    res, cur = {}, None
    for l in out.split("\n"):
        if l.startswith("== "):
            cur = l[3:]
            res[cur] = []
        elif cur is not None and l:
            res[cur].append(l)
    return res


def impl_view(script, lines):
    """the transcript lines the model predicts: result codes of the SET calls on h0 and the meta line of h1"""
    ops = [l.split() for l in script.split("\n") if l.strip()]
    out = []
    x = M.cont_of(int(re.search(r"fmt=([0-9a-f]+)", script).group(1), 16)) in ("aiff", "caf")
    for t, l in zip(ops, lines):
        if t[0] in ("setstr", "setcues") and t[1] == "h0":
            out.append(l.split()[0] if l else "")
        elif t[0] == "cmd" and t[1] == "h0" and (t[2] in ("10f1", "1400", "10d1") or (x and t[2] == "1101")):
            out.append(l.split()[0] if l else "")
        elif t[0] == "getmeta" and t[1] == "h1":
            out.append(l)
    return out


def same_meta(a, b):
    da, db = M.parse_meta(a.replace("chmap=?", "chmap=0:")), M.parse_meta(b)
    if da is None or db is None:
        return "no meta line (%s | %s)" % (a[:40], b[:40])
    for k in list(M.STR_TYPES) + ["bext", "cart", "cuecount", "cues", "inst"] + ([] if "chmap=?" in a else ["chmap"]):
        x, y = da.get(k), db.get(k)
        if k == "cart" and x and y:
            x, y = (x[0], M.mask_cart(x[1])), (y[0], M.mask_cart(y[1]))
        if x != y:
            return "%s: model %s, library %s" % (k, str(x)[:120], str(y)[:120])
    return None


def corr_diff(ml, il):
    if len(ml) != len(il):
        return "model predicts %d lines, the library produced %d" % (len(ml), len(il))
    for a, b in zip(ml, il):
        if a.startswith("meta") or b.startswith("meta"):
            d = same_meta(a, b)
            if d:
                return d
        elif a != b:
            return "result code: model %s, library %s" % (a, b)
    return None


def replay_text(why, script, extra="", perm=None, tags=None):
    """a replay file: free text, `--- script` (the main run; the twin run is derived from its transcript on the tree under test),
    optionally `--- perm` (the permuted run)"""
    if tags:
        extra += "abs-meta-clauses %s\n" % ",".join(tags)
    return "# C12: %s\n%s--- script\n%s%s" % (why.replace("\n", "\n# "), extra, script, ("--- perm\n" + perm) if perm else "")


def lib_package(ctx):
    lines, rc, err = ctx.script("cmd null 1000 64 zero\n")
    m = re.search(r"data=([0-9a-f]+)", lines[0] if lines else "")
    if not m:
        return "libsndfile-0"
    return M.cstr(bytes.fromhex(m.group(1))).decode("latin1")


def shrink(ctx, script, package, sigs, budget=24):
    """single-item reduction: drop metadata calls while a failure with one of the same signatures remains"""
    ops = [l for l in script.split("\n") if l.strip()]
    cand = [k for k, l in enumerate(ops) if l.split()[0] in ("setstr", "cmd", "setcues")]
    for k in reversed(cand):
        if budget <= 0:
            break
        trial = [l for j, l in enumerate(ops) if j != k]
        text_ = "\n".join(trial) + "\n"
        lines, rc, err = ctx.script(text_)
        budget -= 1
        F, cl = lean_judge(ctx, text_, lines, package)
        if any(f[0] in sigs for f in F):
            ops = trial
    return "\n".join(ops) + "\n"


def lean_judge(ctx, script, lines, package, perm=None):
    """THE PREDICATE on one script: `Sf.AbsMeta.judge` through the driver (main run, the twin run it calls for, optionally a permuted
    run), the Python predicate as cross-check.  -> (failures [(signature = Lean clause tag, text)], classes)"""
    lines = A.clean_lines(lines)
    tw = A.twin_script(script, lines)
    twin = None
    if tw is not None and not any(l.startswith(A.DEAD) for l in lines):
        twin = (tw, ctx.script(tw)[0])
    pm = None
    if perm is not None:
        pm = (perm, ctx.script(perm)[0])
    v = A.judge_one_c12(ctx, script, lines, package, twin, pm)
    pyF, pycl = M.judge(M.analyse(script, lines), package)
    return A.combine_c12(ctx, "single", v, pyF, pycl)


def check_known(ctx, package):
    """replay every witness; print KNOWN-FINDING while it still shows its signature"""
    still = {}
    for e in ctx.known:
        path = os.path.join(VERIF, e["witness"])
        if not os.path.exists(path):
            continue
        script = open(path).read().split("--- script", 1)[1].lstrip("\n")
        lines, rc, err = ctx.script(script)
        ctx.count(1, tag="witness-" + e["id"])
        ctx.coverage["traces_validated_against_impl"] += 1
        F, classes = lean_judge(ctx, script, lines, package)
        want = [(cl, sg) for cl, (kid, sg) in CLASS_KF.items() if kid == e["id"]]
        sig = rc == 0 and any(cl in classes and any(sig_matches(f[0], sg) for f in F) for cl, sg in want)
        if e["id"] == "C13-header-cache":       # its witness is a custom-chunk script (C13): the signature there is the failed re-open
            sig = rc == 0 and any(f[0] == "reopen-null" for f in F)
        still[e["id"]] = bool(sig)
        if rc != 0:
            ctx.violation("witness-" + e["id"], replay_text("the witness of %s now ends in a sanitizer abort / crash (rc=%d): %s" % (e["id"], rc, err[-600:]), script))
        elif e.get("status") == "fixed":
            # failures that belong to ANOTHER, still open finding whose class the witness is in as well (e.g. the instrument of
            # the AIFF cue-points-and-instrument witness) are that finding's business
            open_ids = {k["id"] for k in ctx.known if k.get("status") != "fixed"}
            F = [f for f in F if not any(cl in classes and kid in open_ids and kid != e["id"] and sig_matches(f[0], sg) for cl, (kid, sg) in CLASS_KF.items())]
            if F and "C12" in e["id"]:
                ctx.violation("regression-" + e["id"], replay_text("the repaired defect %s (%s) is back: %s\n%s" % (e["id"], e.get("commit"), e["signature"], "; ".join(f[1] for f in F)[:800]), script))
        elif sig:
            ctx.known_finding(e, "%s [%s] witness=%s" % (e["text"], e["id"], e["witness"]))
    return still


def run(ctx):
    if getattr(ctx, "replay", None):
        return replay(ctx)
    # the channel-layout table of the tree under test (src/chanmap.c) goes into the model; its consistency is a theorem (layout_tags_nodup)
    try:
        ctx.set_generated("ChanMap.lean", chanmap.lean_text(build.REPO))
    except Exception as e:          # the table cannot be extracted any more: the Lean stage then runs on the committed one
        ctx.notes["chanmap_extraction_failed"] = repr(e)
    failed = ctx.lean_stage(modules_for("C12"))
    if not os.path.exists(ctx.sfmodel()):
        ctx.violation("lean-stage", "the model driver does not build: %s\n%s" % (", ".join(failed), ctx.notes.get("lean_log_tail", "")), no_input=True)
        raise Violation()
    ctx.sfh()
    package = lib_package(ctx)
    ctx.notes["library_package"] = package
    ctx.run_regressions()
    still = check_known(ctx, package)
    found_input = bool(ctx.violations)

    G = gen(ctx)
    # permuted runs ("forall orders of setting the items"): every mix script, every 4th of the others; class scripts never
    perms = {}
    for j, (n, k, s) in enumerate(G):
        if k == "mix" or (k != "class" and j % 4 == 0):
            p = A.perm_script(s, random.Random(zlib.crc32(n.encode()) ^ ctx.seed))
            if p is not None:
                perms[n] = p
    impl = ctx.batch([(n, s) for (n, k, s) in G] + [("perm!" + n, p) for n, p in perms.items()], op_timeout=20, workers=4)
    # twin runs ("never alters the audio data or other metadata"): the script without the refused / late / unsupported calls
    twins = {}
    for (n, k, s) in G:
        ls = A.clean_lines(impl.get(n, []))
        if ls and not any(l.startswith(A.DEAD) for l in ls):
            t = A.twin_script(s, ls)
            if t is not None:
                twins[n] = t
    timpl = ctx.batch([("twin!" + n, t) for n, t in twins.items()], op_timeout=20, workers=4)
    verdicts = A.judge_c12(ctx, [(n, s, impl.get(n, ["<no output>"]), (twins[n], timpl.get("twin!" + n, [])) if n in twins else None,
                                  (perms[n], impl.get("perm!" + n, [])) if n in perms else None) for (n, k, s) in G], package)
    modelled = [(n, s) for (n, k, s) in G if M.cont_of(int(re.search(r"fmt=([0-9a-f]+)", s).group(1), 16)) in MODELLED]
    model = model_lines(ctx, modelled, package)
    kinds, waived, corr_ok, reported = {}, {}, 0, {}
    per_cont = {}

    def report(key, name, text_, no_input=False):
        reported[key] = reported.get(key, 0) + 1
        if reported[key] == 1:
            ctx.violation(name, text_, no_input=no_input)

    for (name, kind, script) in G:
        lines = list(impl.get(name, ["<no output>"]))
        while lines and lines[-1] == "":
            lines.pop()
        s = M.analyse(script, lines)
        pyF, pyclasses = M.judge(s, package)
        # the Lean verdict decides; the Python predicate is the cross-check
        F, classes = A.combine_c12(ctx, name, verdicts[name], pyF, pyclasses)
        ctx.count(1, tag="%s-%s" % (kind, s.cont))
        ctx.coverage["traces_validated_against_impl"] += 1
        kinds[kind] = kinds.get(kind, 0) + 1
        if getattr(s, "late_ignored", 0):
            ctx.notes.setdefault("late_strings_accepted_but_not_returned", []).append(name)
        per_cont[s.cont] = per_cont.get(s.cont, 0) + 1
        unw = []
        for f in F:
            ok = False
            if f[0] != "crash":
                for cl in classes:
                    kid, sg = CLASS_KF.get(cl, (None, set()))
                    if kid and sig_matches(f[0], sg) and still.get(kid, False):
                        ok = True
                        waived[cl] = waived.get(cl, 0) + 1
                        break
            if not ok:
                unw.append(f)
        if unw:
            found_input = True
            sigs = {f[0] for f in unw}
            only_perm = all(sg.startswith("order-") for sg in sigs)
            small = shrink(ctx, script, package, sigs) if "crash" not in sigs and not only_perm else script
            lines2, rc2, err2 = ctx.script(small)
            F2, cl2 = lean_judge(ctx, small, lines2, package, perm=perms.get(name) if only_perm else None)
            meta2 = next((l for l in lines2 if l.startswith("meta")), "")
            report((kind, s.cont, tuple(sorted(sigs))), "prop-" + name,
                   replay_text("%s (%s, %s): %s\nclasses of the script: %s\nwhat the re-opened file returns: %s"
                               % (name, s.cont, kind, "; ".join(f[1] for f in (F2 or unw))[:1500], ",".join(sorted(cl2 if F2 else classes)) or "-", M.summary(M.parse_meta(meta2))[:600]), small if F2 else script,
                               perm=perms.get(name) if any(sg.startswith("order-") for sg in sigs) else None, tags=sorted(sigs)))
            continue
        if kind == "class" and not F and classes & set(CLASS_KF):
            ctx.notes.setdefault("class_scripts_passing", []).append(name)
        if name in model and not (F and classes & UNMODELLED):
            d = corr_diff(model[name], impl_view(script, lines))
            if d is None:
                corr_ok += 1
            elif classes & set(CLASS_KF) and not all(still.get(CLASS_KF[c][0], False) for c in classes & set(CLASS_KF)):
                # a known defect has been repaired in the library: the bug-for-bug model is out of date, not the library
                ctx.notes.setdefault("known_findings_apparently_fixed", []).append(name)
            else:
                report(("corr", kind, s.cont), "corr-" + name,
                       replay_text("correspondence: model (sfmodel meta) and library disagree on %s although the property predicate holds on the library's transcript\n%s" % (name, d), script), no_input=True)
    ctx.notes["scripts_per_kind"] = kinds
    ctx.notes["scripts_per_container"] = per_cont
    ctx.notes["model_transcripts_equal"] = corr_ok
    ctx.notes["model_transcripts_compared"] = len(model)
    ctx.notes["class_failures_waived_as_known"] = waived
    ctx.notes["known_findings_reproducing"] = sorted(k for k, v in still.items() if v)
    ctx.notes["further_failing_scripts_not_listed"] = {"/".join(map(str, k)): n - 1 for k, n in reported.items() if n > 1}
    ctx.sample({"campaign": G[0][0], "script_head": G[0][2][:300]})
    ctx.sample({"scripts_per_kind": kinds, "per_container": per_cont})
    from .. import lateset
    if lateset.run_c12(ctx):      # the `have_written`-guarded setters after audio written through EVERY write entry point (typed x 8, raw)
        found_input = True
    if failed and not found_input:
        ctx.violation("lean-stage", "theorem(s) no longer check: %s\nno failing input found by the metadata campaigns\n%s" % (", ".join(failed), ctx.notes.get("lean_log_tail", "")), no_input=True)
    ctx.coverage["exhaustive"] = False
    ctx.coverage["rule"] = ("seeded metadata scripts (set items in random order, write 16-bit items into PCM16/24/32 files of 1/2/6 channels, close, re-open, GET everything): strings of lengths %s per container, "
                            "all 10 types, UTF-8 and control bytes, replacement, software-suffix cases; bext with coding histories 0..9000 bytes and CR / LF / CRLF / LFCR / mixed endings; cart tag text 0..16000; 0..100 cue points; 0..16 loops; "
                            "channel maps; mixes; every kind set after the audio and on containers without a place for it (W64, AU included); one script per known-finding class. "
                            "Each script: the property predicate (get after re-open = normalise(set), audio and frame count unchanged) on the library's own transcript; for WAV/WAVEX/RF64 additionally "
                            "transcript equality with `sfmodel meta`. distinct_nontrivial counts (campaign kind, container) streams.") % STR_LENS
    ctx.assumptions += ["normalise = the documented normalisations (software suffix, CR/LF line ends, added line end, added coding-history line, even padding) plus bext version := 2 and the reserved fields of bext/cart zeroed (fields the chunk formats define as reserved / writer's version)",
                        "AIFF MARK chunks hold a 16-bit id, a position and a name: for AIFF the cue fields position/fcc_chunk/chunk_start/block_start are outside the container's representation and expected as 0/'data'/0/0",
                        "string types a container has no field for (LICENSE in RIFF INFO; DATE/ALBUM/LICENSE/TRACKNUMBER/GENRE in AIFF) count as 'cannot store': ignored is accepted",
                        "the byte after the terminator of an even-length cart tag text is uninitialised heap memory in cart_var_set; it is masked in comparisons (reported as an observation, not a property violation)",
                        "audio is written as 16-bit items into PCM_16/24/32 files; other encodings share the header code paths"]


def replay(ctx):
    text_ = open(ctx.replay).read()
    if "--- script" not in text_:
        print(text_)
        print("replay: this file names a theorem / correspondence stream, there is no script to run")
        ctx.report(ctx.replay, no_input=True)
        return
    script = text_.split("--- script", 1)[1].lstrip("\n")
    perm = None
    if "\n--- perm\n" in "\n" + script:
        script, perm = ("\n" + script).split("\n--- perm\n", 1)
        script = script.lstrip("\n") + "\n"
    ctx.sfh()
    package = lib_package(ctx)
    lines, rc, err = ctx.script(script)
    s = M.analyse(script, lines)
    F, classes = lean_judge(ctx, script, lines, package, perm=perm)
    for op, l in zip([x for x in script.split("\n") if x.strip()], lines):
        print("%-60s -> %s" % (op[:60], l[:160]))
    print("re-opened file returns: %s" % M.summary(s.meta))
    print("classes of the script: %s" % (",".join(sorted(classes)) or "-"))
    if rc != 0:
        print(err[-2000:])
        F = F or [("crash", "sanitizer abort / crash rc=%d" % rc)]
    if F:
        for f in F:
            print("FAILS [%s] %s" % f)
        ctx.report(ctx.replay)
    else:
        print("replay: the property predicate holds on this tree")
