"""C08 — read/write mode keeps independent, correct read and write positions."""
import os, struct
from .. import scripts as S, formats, geometry as G, handlecheck as HC, abscheck, kernels as K
from ..core import Violation, VERIF, modules_for

DIG = K.TY_DIGITS


class AbsFile:
    """the abstract file of the statement: a list of frames, a read position, a write position"""

    def __init__(self, ch, frames=None):
        self.ch = ch
        self.frames = list(frames or [])     # each frame: tuple of item hex strings
        self.rpos = 0
        self.wpos = 0

    def open_rw(self):
        self.rpos = 0
        self.wpos = len(self.frames)


def zero_item(ty):
    return "0" * DIG[ty]


def gen_history(rng, f, ch, ty, lowzero, nops, depth_seed, route, special=None):
    """a history on one store: create (rw or w), then rw edits, close/re-open; returns (script, expected-checker)"""
    raw = f.major == 0x04
    L = []
    expect = []     # parallel list: None or a function(line) -> problem text or None
    A = AbsFile(ch)
    hcount = [0]
    rt = "" if route == "vio" else " route=%s" % route

    def vals(k):
        v = S.rand_values(rng, ty, k * ch, "unit")
        if ty in ("s16", "s32") and lowzero:
            mask = ((1 << (16 if ty == "s16" else 32)) - 1) ^ ((1 << lowzero) - 1)
            v = [x & mask for x in v]
        return v

    def emit(line, chk=None):
        L.append(line)
        expect.append(chk)

    def opn(mode):
        hcount[0] += 1
        h = "h%d" % (hcount[0] % 8)
        F = len(A.frames)
        if mode == "r" and not raw:
            line = "open %s s0 r%s" % (h, rt)
        else:
            line = "open %s s0 %s fmt=%08x ch=%d sr=8000%s" % (h, mode, f.word, ch, rt)

        def chk(out, F=F, mode=mode):
            if "open=NULL" in out:
                return "SKIP" if mode == "rw" else "open for %s failed: %s" % (mode, out)
            kv = abscheck.parse_kv(out)
            if mode != "w" and int(kv.get("frames", -1)) != F:
                return "open (%s) reports %s frames, the file holds %d" % (mode, kv.get("frames"), F)
            return None
        emit(line, chk)
        if mode == "w":
            A.frames = []
            A.rpos = A.wpos = 0
        else:
            A.open_rw()
        return h

    def do_write(h, k=None):
        k = k if k is not None else rng.choice([1, 1, 2, 3, 5, 16, 64, 300])
        v = vals(k)
        items = ["%0*x" % (DIG[ty], x) for x in v]
        unit = rng.choice("if")
        emit(S.w_line(h, ty, unit, k if unit == "f" else k * ch, v),
             lambda out, k=k, unit=unit: None if abscheck.parse_kv(out).get("ret") == str(k if unit == "f" else k * ch) and abscheck.parse_kv(out).get("err") == "0"
             else "write of %d frames returned %s" % (k, out[:60]))
        p = A.wpos
        if p > len(A.frames):
            A.frames += [tuple([zero_item(ty)] * ch)] * (p - len(A.frames))
        for j in range(k):
            fr = tuple(items[j * ch:(j + 1) * ch])
            if p + j < len(A.frames):
                A.frames[p + j] = fr
            else:
                A.frames.append(fr)
        A.wpos = p + k

    def do_read(h):
        k = rng.choice([1, 2, 3, 7, 16, 100, 400])
        unit = rng.choice("if")
        p = A.rpos
        F = len(A.frames)
        d = max(0, min(k, F - p))
        want = [x for fr in A.frames[p:p + d] for x in fr]

        def chk(out, k=k, d=d, want=want, unit=unit, p=p, F=F):
            kv = abscheck.parse_kv(out)
            ret = int(kv.get("ret", -99))
            got = abscheck.split_items(kv.get("data", ""), ty)
            if ret != (d if unit == "f" else d * ch):
                return "read of %d frames at read position %d (file has %d frames) returned %s, want %d frames" % (k, p, F, kv.get("ret"), d)
            if got[:d * ch] != want:
                j = next(i for i in range(d * ch) if i >= len(got) or got[i] != want[i])
                return "read at read position %d: item %d (frame %d) is %s, the file holds %s there" % (p, j, p + j // ch, got[j] if j < len(got) else None, want[j])
            if kv.get("err") != "0":
                return "valid read left error %s" % kv.get("err")
            return None
        emit("r %s %s %s %d" % (h, ty, unit, k if unit == "f" else k * ch), chk)
        A.rpos = p + d

    def do_seek(h):
        F = len(A.frames)
        base = rng.choice([0, 0, 1, 2])
        q = rng.choice([0, 0x10, 0x20])
        if base == 0:
            off = rng.choice([0, 1, F // 2, max(F - 1, 0), F, rng.randrange(0, F + 1)])
        elif base == 1:
            off = rng.choice([0, 1, -1, 3, -3])
        else:
            off = rng.choice([0, -1, -(F // 2), -F])
        cur = {0: A.wpos, 0x10: A.rpos, 0x20: A.wpos}[q]
        target = off if base == 0 else (cur + off if base == 1 else F + off)
        zero_cur = base == 1 and off == 0 and q != 0      # a pure query for the qualified forms
        ok = 0 <= target <= F                              # (the library would also accept positions past the end; the history stays inside)
        if not ok:
            return

        def chk(out, target=target):
            kv = abscheck.parse_kv(out)
            if kv.get("ret") != str(target):
                return "seek returned %s, requested absolute frame %d" % (kv.get("ret"), target)
            return None
        emit("seek %s %d %d" % (h, off, base | q), chk)
        if zero_cur:
            return
        if q == 0:
            A.rpos = A.wpos = target
        elif q == 0x10:
            A.rpos = target
        else:
            A.wpos = target

    def do_probe(h):
        emit("seek %s 0 %d" % (h, 0x11), lambda out, r=A.rpos: None if abscheck.parse_kv(out).get("ret") == str(r) else "read position probe says %s, want %d" % (abscheck.parse_kv(out).get("ret"), r))
        emit("seek %s 0 %d" % (h, 0x21), lambda out, w=A.wpos: None if abscheck.parse_kv(out).get("ret") == str(w) else "write position probe says %s, want %d" % (abscheck.parse_kv(out).get("ret"), w))

    def do_trunc(h):
        F = len(A.frames)
        n = rng.choice([0, F // 2, max(F - 1, 0), F])
        arg = struct.pack("<q", n).hex()
        if route == "vio":
            # since the TRUNC-VIO repair: SF_VIRTUAL_IO has no truncate callback; the command is refused before the seek
            # and before sf.frames is touched: SF_TRUE (1), no error, nothing changes (C08Refine truncate_refused_without_ftruncate)
            emit("cmd %s 1080 8 %s" % (h, arg),
                 lambda out: None if (abscheck.parse_kv(out).get("ret"), abscheck.parse_kv(out).get("err")) == ("1", "0")
                 else "SFC_FILE_TRUNCATE through virtual I/O must be refused with 1 / no error, returned %s" % out[:50])
            emit("info %s" % h, lambda out, F=F: None if abscheck.parse_kv(out).get("frames") == str(F) else "a refused SFC_FILE_TRUNCATE changed the frame count: %d before, %s after" % (F, abscheck.parse_kv(out).get("frames")))
            return
        emit("cmd %s 1080 8 %s" % (h, arg), lambda out: None if abscheck.parse_kv(out).get("ret") == "0" else "SFC_FILE_TRUNCATE returned %s" % out[:50])
        A.frames = A.frames[:n]
        A.rpos = A.wpos = n
        emit("info %s" % h, lambda out, n=n: None if abscheck.parse_kv(out).get("frames") == str(n) else "after truncating to %d frames the handle reports %s" % (n, abscheck.parse_kv(out).get("frames")))

    # ---- the history ----
    if special == "trunc_tail":
        # a file with an odd number of frames (odd byte totals for 1- and 3-byte samples: a pad byte follows the audio), re-opened
        # read/write, shortened, closed with nothing written afterwards: a fresh open must see the shortened file
        h = opn("w")
        do_write(h, rng.choice([3, 5, 7, 9]))
        emit("close %s" % h)
        h = opn("rw")
        F0 = len(A.frames)
        n = rng.choice([1, F0 // 2, F0 - 1])
        emit("cmd %s 1080 8 %s" % (h, struct.pack("<q", n).hex()), lambda out: None if abscheck.parse_kv(out).get("ret") == "0" else "SFC_FILE_TRUNCATE returned %s" % out[:50])
        A.frames = A.frames[:n]
        A.rpos = A.wpos = n
        nops = 0
        start_empty = None
    elif special == "rw_idle":
        # a file re-opened read/write and closed again with nothing written (twice): length, frame count and content must survive
        # (VOC appended a second terminator byte per open/close before the repair of KF-VOC-RDWR-IDLE)
        h = opn("w")
        do_write(h, rng.choice([1, 3, 4, 7]))
        emit("close %s" % h)
        h = opn("rw")
        emit("close %s" % h)
        h = opn("rw")
        do_read(h)
        nops = 0
        start_empty = None
    else:
        start_empty = rng.random() < 0.5
    if start_empty is None:
        pass
    elif start_empty:
        h = opn("rw")
    else:
        h = opn("w")
        for _ in range(rng.randrange(1, 4)):
            do_write(h)
        emit("close %s" % h)
        h = opn("rw")
    for _ in range(nops):
        r = rng.random()
        if r < 0.3:
            do_write(h)
        elif r < 0.55:
            do_read(h)
        elif r < 0.8:
            do_seek(h)
        elif r < 0.9:
            do_probe(h)
        elif r < 0.94:
            do_trunc(h)
        elif r < 0.97:
            emit("cmd %s 1060 0 null" % h)
        else:
            emit("close %s" % h)
            h = opn("rw")
    if special is None and route != "vio" and rng.random() < 0.4 and len(A.frames) > 1:
        # truncate as the LAST thing before close (nothing is written afterwards that would repair a stale end-of-data)
        do_trunc(h)
    emit("close %s" % h)
    # a fresh open sees exactly the final frame sequence
    h = opn("r")
    A.rpos = 0
    F = len(A.frames)
    want = [x for fr in A.frames for x in fr]

    def chk_all(out, want=want, F=F):
        kv = abscheck.parse_kv(out)
        got = abscheck.split_items(kv.get("data", ""), ty)
        if kv.get("ret") != str(F * ch):
            return "a fresh open reads %s items, the final sequence has %d frames" % (kv.get("ret"), F)
        if got[:F * ch] != want:
            j = next(i for i in range(F * ch) if i >= len(got) or got[i] != want[i])
            return "after close, frame %d (item %d) reads %s, last written/kept value is %s" % (j // ch, j, got[j] if j < len(got) else None, want[j])
        return None
    emit("r %s %s i %d" % (h, ty, (F + 3) * ch), chk_all)
    emit("close %s" % h)
    return "\n".join(L) + "\n", expect


def run(ctx):
    if getattr(ctx, "replay", None):
        from .. import absreplay
        return absreplay.replay(ctx, ctx.replay)      # re-judged by `sfmodel abs` when the file carries its geometry header
    quick = ctx.tier == "quick"
    failed = ctx.lean_stage(modules_for("C08"))
    found = False
    ctx.run_regressions()
    found = bool(ctx.violations)
    # known findings: replay each witness; the class is waived only while its witness still fails with the recorded line
    kf_still = {}
    for kf in ctx.known:
        if kf.get("status") != "known" or not kf.get("witness"):
            continue
        kf_still[kf["id"]] = bool(ctx.witness_still_fails(kf))
        if kf_still[kf["id"]]:
            ctx.known_finding(kf)
    rng = ctx.rng
    # ---- A: byte-exact correspondence with the Lean handle model on RAW/AU/WAV, rw histories, vio and descriptor routes ----
    def gen(rng_, fe, max_ops=24, modes=("w", "r", "rw")):
        s = S.gen_rw_script(rng_, fe, max_ops=max_ops, modes=("w", "rw"))
        if rng_.random() < 0.5:
            s = "\n".join((l + " route=fd") if l.startswith("open ") else l for l in s.split("\n"))
            # on descriptor routes the store is only synchronised at close: drop dumps that are not right after a close
            out, prev = [], ""
            for l in s.split("\n"):
                if l.startswith("dump") and not prev.startswith("close"):
                    continue
                out.append(l)
                prev = l if l else prev
            s = "\n".join(out)
        return s
    fa, sa = HC.l1_campaign(ctx, 300 if quick else 3000, gen=gen)
    ctx.count(sa["ops"])
    ctx.coverage["traces_validated_against_impl"] += sa["scripts"]
    ctx.notes["l1"] = dict(sa)
    # ---- B: the abstract file of the statement against every container that opens SFM_RDWR ----
    fs = [f for f in formats.writable_formats(ctx) if f.granular and f.major != 0x16 and G.lossless_types(f)
          and f.codec not in (0x50, 0x51) and not (f.major == 0x05 and f.codec == 0x03) and f.major != 0x11]   # block-packed: XI DPCM, PAF24, SDS
    jobs = []
    for f in (fs[rng.randrange(2)::2] if quick else fs):
        loss = G.lossless_types(f)
        ty = rng.choice(sorted(loss))
        ch = min(rng.choice([1, 2, 2, 3]), f.maxch)
        route = rng.choice(["vio", "fd"])
        script, expect = gen_history(rng, f, ch, ty, loss[ty], 25 if quick else 60, 0, route)
        jobs.append((f, ch, ty, route, script, expect))
    # deterministic: shorten-then-close on a file with a pad byte / trailing bytes, every container, one channel, descriptor route
    for f in fs:
        loss = G.lossless_types(f)
        ty = sorted(loss)[0]
        script, expect = gen_history(rng, f, 1, ty, loss[ty], 0, 0, "fd", special="trunc_tail")
        jobs.append((f, 1, ty, "fd", script, expect))
        script, expect = gen_history(rng, f, 1, ty, loss[ty], 0, 0, "fd", special="rw_idle")
        jobs.append((f, 1, ty, "fd", script, expect))
    out = ctx.batch([("%s-%d" % (j[0].name, i), j[4]) for i, j in enumerate(jobs)], clean=True)
    # THE PREDICATE: Sf.Abs.check (lean/SfModel/Abs.lean, the abstract file of the statement in Lean) judges every history from the
    # closed empty store on; the generator's own expectations (AbsFile above) run beside it as a cross-check
    from .. import abslean
    judge = abslean.Judge(ctx)
    for i, (f, ch, ty, route, script, expect) in enumerate(jobs):
        name = "%s-%d" % (f.name, i)
        judge.add(name, abslean.geom_line(ch, 0, "w", trunc=(route != "vio"), strict=True, lossless=[ty]), {}, None,
                  abslean._alive_pairs(script.strip().split("\n"), out.get(name, []), 0))
    verdicts = judge.run()
    reported = set()
    skipped = 0
    kf_hits = {}
    for i, (f, ch, ty, route, script, expect) in enumerate(jobs):
        lines = out.get("%s-%d" % (f.name, i), [])
        sl = script.strip().split("\n")
        ctx.count(len(sl))
        dead = [l for l in lines if l.startswith(("CRASH", "ABORT", "TIMEOUT"))]
        prob = None
        for k, chk in enumerate(expect):
            if k >= len(lines):
                prob = (k, "transcript ends early: %s" % (dead[:1] or lines[-1:]))
                break
            if chk is None:
                continue
            r = chk(lines[k])
            if r == "SKIP":
                skipped += 1
                prob = None
                break
            if r and r.startswith("KF:"):
                kf_hits[r[3:]] = kf_hits.get(r[3:], 0) + 1
                if kf_still.get(r[3:]):
                    prob = None      # inside a listed class, with its signature, and the witness still fails
                else:
                    prob = (k, "%s (class of %s, whose witness no longer fails)" % (lines[k].strip()[:80], r[3:]))
                break
            if r:
                prob = (k, r)
                break
        else:
            ctx.distinct.add("rdwr:" + f.name)
        # the Lean verdict decides; the generator's expectation can only add to it (and every difference is counted)
        v = verdicts["%s-%d" % (f.name, i)]
        pyprob = prob
        lean_first = v.first()
        py_skip = any(chk is not None and k < len(lines) and chk(lines[k]) == "SKIP" for k, chk in enumerate(expect[:2]))
        same = (v.status == "skip") == py_skip and ((lean_first is None) == (pyprob is None)) and (lean_first is None or pyprob is None or lean_first[0] == pyprob[0])
        if not same:
            judge.disagreement("%s-%d" % (f.name, i), [v.status] + [list(x) for x in v.fails[:2]], list(pyprob) if pyprob else None)
        leantag = None
        if lean_first is not None:
            k, leantag, text = lean_first
            prob = (k, "Lean predicate Sf.Abs.check: clause `%s` fails: %s%s" % (leantag, text.strip(), (" | generator's expectation: " + pyprob[1]) if pyprob and pyprob[0] == k else ""))
        elif pyprob is not None:
            prob = (pyprob[0], "generator's expectation only (Sf.Abs.check accepted the history): " + pyprob[1])
        if prob:
            key = f.name.split("-")[0]
            if key in reported or len(reported) >= 6:
                continue
            reported.add(key)
            found = True
            from .. import absreplay
            # a failing Lean clause: the replay carries the geometry and is re-judged by `sfmodel abs`; a finding of the generator's
            # expectation alone keeps the generic replay (observed-last)
            body = (absreplay.plain_replay(script, prob[0], abslean.geom_line(ch, 0, "w", trunc=(route != "vio"), strict=True, lossless=[ty]), 0, clause=leantag)
                    if leantag is not None else "observed-last %s\n--- script\n%s" % ((lines[prob[0]] if prob[0] < len(lines) else "").strip(), HC.script_prefix(script, prob[0])))
            ctx.violation("c08-%s" % f.name, "# C08 violated on the implementation's own transcript (abstract-file semantics of the statement)\n# format %s, %d channel(s), type %s, route %s\n# at script line %d: %s\n# %s\n%s"
                          % (f.name, ch, ty, route, prob[0], sl[prob[0]][:100] if prob[0] < len(sl) else "", prob[1], body))
    # ---- C: files WITH CONTENT BEHIND THE AUDIO, raw reads / writes, every entry point after every other (vlib/rdwrtail.py; Sf.Abs decides) ----
    from .. import rdwrtail
    if rdwrtail.run_c08(ctx, fs, quick):
        found = True
    from .. import querycamp
    if querycamp.run(ctx, "C08", parts=("rw",)):      # queries between writes / reads of a read/write handle
        found = True
    from .. import cmdops
    if cmdops.run(ctx, "C08", fs, quick):             # every position-neutral sf_command x last operation x next operation, pointers apart
        found = True
    from .. import rdwrexist, setcmds
    if rdwrexist.run(ctx, "C08", quick):             # EXISTING files of every format that opens SFM_RDWR (block-packed ones too): idle, append
        found = True
    if setcmds.run(ctx, "C08", fs, quick):            # setter commands issued after the handle has grown the file
        found = True
    ctx.notes["rdwr_refused_at_open"] = skipped
    ctx.notes["known_finding_class_hits"] = kf_hits
    # ---- C: hole histories (write / extending truncate beyond the end of the data), vlib/c08holes.py ----
    from .. import c08holes
    found = c08holes.run(ctx, fs, found) or found
    corr = [x for x in fa if x.kind == "corr"]
    for x in [x for x in fa if x.kind == "crash"][:2]:
        found = True
        ctx.violation("c08-l1-crash-%s" % x.name, "# implementation died on an rw history: %s\n--- script\n%s" % (x.text, HC.script_prefix(x.script, x.line)))
    if corr and not found:
        x = corr[0]
        sl = x.script.strip().split("\n")
        ctx.violation("c08-correspondence-%s" % x.name,
                      "# correspondence stream 'handle model vs implementation' (rw histories on RAW/AU/WAV) no longer agrees (%d of %d)\n# first: %s line %d: %s\n# implementation: %s\n# model: %s\nobserved-last %s\n--- script\n%s"
                      % (len(corr), sa["scripts"], x.name, x.line, sl[x.line][:100] if x.line < len(sl) else "", (x.impl or "")[:300], (x.model or "")[:300], (x.impl or "").strip(),
                         HC.script_prefix(x.script, x.line)), no_input=True)
        found = True
    if failed and not found:
        ctx.violation("lean-stage", "theorem(s) no longer check: %s\n%s" % (", ".join(failed), ctx.notes.get("lean_log_tail", "")), no_input=True)
    if jobs:
        ctx.sample({"kind": "rdwr history", "format": jobs[0][0].name, "route": jobs[0][3], "script": jobs[0][4][:700]})
    ctx.coverage["rule"] = ("A: seeded rw histories (write/read/seek with every whence x {plain, SFM_READ, SFM_WRITE}, truncate, header update, close/re-open) on every RAW/AU/WAV encoding over "
                            "virtual I/O and descriptors, byte-exact against the Lean handle model; B: for every sample-granular container that opens SFM_RDWR, histories from an empty and a "
                            "pre-populated file checked op by op against the abstract file of the statement (frame list, read position, write position) using a lossless caller type")
    from .. import handleg       # (round 9) the GENERIC handle machine Sf.HandleG: whole histories incl. re-open in SFM_RDWR on AIFF (fresh) / CAF / W64 / AVR / IRCAM / PAF / HTK byte for byte incl. store dumps
    handleg.run(ctx, "C08", 150 if quick else 3000)
