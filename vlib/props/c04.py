"""C04 — see DESIGN.md §7."""
from ._write_common import run_common
from ..core import modules_for


def run(ctx):
    q = ctx.tier == "quick"
    if getattr(ctx, "replay", None):
        from .. import stagecamp
        text = open(ctx.replay).read()
        if stagecamp.is_replay(text):
            return stagecamp.replay(ctx, ctx.replay, text)
    run_common(ctx, "C04", modules_for("C04"), stride=2 if q else 1, l1_scripts=250 if q else 2500)
    if not getattr(ctx, "replay", None):
        from .. import cafw64
        cafw64.campaign(ctx)      # CAF / W64 byte-exact container models (lean/SfModel/Caf.lean, W64.lean)
        from .. import wavexrf64
        wavexrf64.campaign(ctx)   # WAVEX / RF64 write-side models (lean/SfModel/Wavex.lean, Rf64.lean)
        from .. import aiff          # AIFF / AIFF-C container model (lean/SfModel/Aiff.lean) against the library
        aiff.run(ctx, found=bool(ctx.violations))
        from .. import small2       # HTK / WVE / MPC2K / PVF / MAT4 / MAT5 / XI container models (lean/SfModel/Small2.lean + one file each)
        small2.run(ctx, found=bool(ctx.violations))
        from .. import shortprobe    # guess_file_type on files shorter than its probe (Sf.Small2.guessProbe, `sfmodel probe`)
        shortprobe.run(ctx, found=bool(ctx.violations))
        from .. import small1        # AVR / IRCAM / PAF / SVX / VOC / NIST container models (lean/SfModel/SmallSession.lean + one file each)
        small1.run(ctx, found=bool(ctx.violations))
        from .. import small3        # NIST / VOC / XI / MAT5 / SDS container models (lean/SfModel/Nist.lean, ...; driver `sfmodel small3`)
        small3.run(ctx, found=bool(ctx.violations))
        from .. import small4        # MAT5 / SDS / SD2 container models (lean/SfModel/Mat5.lean, ...; driver `sfmodel small4`)
        small4.run(ctx, found=bool(ctx.violations))
        from .. import sd2            # SD2 resource fork, byte for byte + the parser on damaged forks (lean/SfModel/Sd2.lean, SfProps/C04Sd2.lean)
        sd2.run(ctx, "C04", found=bool(ctx.violations))
        from .. import gsmgeom       # WAV / WAVEX GSM 6.10: frames at re-open (lean/SfModel/GsmGeom.lean, SfProps/C04GsmPad.lean)
        gsmgeom.run(ctx, "C04")
        from .. import alac           # CAF/ALAC: packet staging, pakt / kuki chunks, read / seek around the codec core (lean/SfModel/AlacFile.lean)
        alac.run(ctx, "C04", 96 if q else 960)
        from .. import adpcmenc       # IMA / MS ADPCM writers: block-size rule at every sample-rate threshold, N <= F < N + B (lean/SfProps/C07Adpcm.lean)
        adpcmenc.run(ctx, "C04", 60 if q else 600)
        from .. import voxcamp        # OKI/VOX: N <= F < N + 2 for every partition into write calls, odd totals (lean/SfProps/C05Vox.lean vox_frames_bound)
        voxcamp.run(ctx, "C04", 80 if q else 800)
        from .. import setcmds        # conversion / header setters (SFC_TEST_IEEE_FLOAT_REPLACE, ...) issued between the writes of an SFM_WRITE handle (lean/SfProps/C04IeeeReinit.lean)
        setcmds.run(ctx, "C04", kinds=("new-w",))
        from .. import stagecamp      # (round 9) ONE short transfer inside the staging loop of EVERY write kernel (Sf.StageLoop; N accepted = frames in the closed file)
        stagecamp.run(ctx, "C04")
        from .. import rawwrite       # (round 9) sf_write_raw as the write entry point of a file made in SFM_WRITE: every sample-granular (container, encoding), content behind the audio
        rawwrite.run(ctx, "C04")
