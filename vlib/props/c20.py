"""C20 — built-in codec kernels conform to their published definitions for every input."""
import struct
from .. import g711
from ..core import Violation, modules_for


def hex_items(xs, digits):
    fmt = "%%0%dx" % digits
    mask = (1 << (4 * digits)) - 1
    return "".join(fmt % (x & mask) for x in xs)


def f32bits(x):
    return struct.unpack("<I", struct.pack("<f", x))[0]


def f64bits(x):
    return struct.unpack("<Q", struct.pack("<d", x))[0]


TY = {"s16": ("s16", 4, None), "s32": ("s32", 8, None), "f32": ("f32", 8, 0), "f32n": ("f32", 8, 1),
      "f64": ("f64", 16, 0), "f64n": ("f64", 16, 1)}
NORM_CMD = {"f32": "1013", "f64": "1012"}   # SFC_SET_NORM_FLOAT / SFC_SET_NORM_DOUBLE


def enc_script(fmt, ty, items_hex, n):
    api, digits, norm = TY[ty]
    lines = ["open h0 s0 w fmt=%s ch=1 sr=8000" % fmt]
    if norm is not None:
        lines.append("cmd h0 %s %d null" % (NORM_CMD[api], norm))
    lines += ["w h0 %s i %d %s" % (api, n, items_hex), "close h0", "dump s0"]
    return "\n".join(lines) + "\n"


def dec_script(fmt, ty, codes_hex, n):
    api, digits, norm = TY[ty]
    lines = ["store s0 " + codes_hex, "open h0 s0 r fmt=%s ch=1 sr=8000" % fmt]
    if norm is not None:
        lines.append("cmd h0 %s %d null" % (NORM_CMD[api], norm))
    lines += ["r h0 %s i %d" % (api, n), "close h0"]
    return "\n".join(lines) + "\n"


def first_diff(a, b, digits):
    n = min(len(a), len(b)) // digits
    for k in range(n):
        if a[k * digits:(k + 1) * digits] != b[k * digits:(k + 1) * digits]:
            return k
    return n if len(a) != len(b) else None


def run(ctx):
    if getattr(ctx, "replay", None):
        from .. import ieee
        if ieee.is_ieee_replay(ctx.replay):
            return ieee.replay(ctx, ctx.replay)
        if "abs-geom " in open(ctx.replay).read():       # a block-seek matrix replay (vlib/seekmatrix.py): re-judged by `sfmodel abs`
            from .. import absreplay
            return absreplay.replay(ctx, ctx.replay)
        return ctx.replay_script(ctx.replay)
    variant_name = "sse2"
    # ---- 1. tables from the running library -> Generated -> theorems re-checked ----
    lines, rc, err = ctx.script(g711.tables_script())
    if rc != 0:
        ctx.violation("tables-crash", "sfh failed while dumping the G.711 tables (rc=%d)\n%s\n--- script\n%s" % (rc, err[-3000:], g711.tables_script()))
        raise Violation()
    tabs = g711.parse_tables(lines)
    changed = ctx.set_generated("G711Tables.lean", g711.lean_tables(tabs))
    ctx.notes["generated_tables_changed"] = changed
    from .. import g72x as _g72x, codectab as _codectab   # G.72x / NMS / GSM tables by execution -> Generated/*.lean (before the Lean stage)
    _g72x.pregen(ctx)
    _codectab.pregen(ctx)
    ctx.lean_modules = modules_for("C20")
    failed = ctx.lean_stage(ctx.lean_modules)

    found_input = False
    # ---- 2. exhaustive correspondence, every entry point ----
    shorts = list(range(-32768, 32768))
    campaigns = []
    for law, (fmt, shift, n) in g711.LAWS.items():
        campaigns.append(("enc", law, fmt, "s16", shorts))
        lows = [0, 0xFFFF, ctx.rng.randrange(65536)]
        xs32 = []
        for lo in lows:
            xs32 += [((x << 16) | lo) for x in shorts]
        xs32 += [-2**31, 2**31 - 1, -2**31 + 1]
        campaigns.append(("enc", law, fmt, "s32", xs32))
        campaigns.append(("enc", law, fmt, "f32n", [f32bits(x / 32768.0) for x in shorts] + [f32bits(1.0), f32bits(-1.0), 0x80000000]))
        campaigns.append(("enc", law, fmt, "f64n", [f64bits(x / 32768.0) for x in shorts] + [f64bits(1.0), f64bits(-1.0), 1 << 63]))
        campaigns.append(("enc", law, fmt, "f32", [f32bits(float(x)) for x in shorts]))
        campaigns.append(("enc", law, fmt, "f64", [f64bits(float(x)) for x in shorts]))
        # rounding boundaries of the float entry: (k + 1/2) / normfact and neighbours
        step = 1 << shift
        halves = []
        for k in range(0, (32768 // step)):
            for d in (-1, 0, 1):
                b = f64bits((k + 0.5) * step / 32767.0) + d
                halves.append(b)
        campaigns.append(("enc", law, fmt, "f64n", halves))
        for ty in ("s16", "s32", "f32", "f32n", "f64", "f64n"):
            campaigns.append(("dec", law, fmt, ty, list(range(256))))

    for (d, law, fmt, ty, xs) in campaigns:
        api, digits, norm = TY[ty]
        if d == "enc":
            items = hex_items(xs, digits)
            script = enc_script(fmt, ty, items, len(xs))
            lines, rc, err = ctx.script(script)
            impl = lines[-1].split("hex=")[1] if lines and "hex=" in lines[-1] else ""
            model = ctx.run_model(["g711", "enc", law, ty, variant_name], items + "\n").strip()
            odig = 2
        else:
            codes = hex_items(xs, 2)
            script = dec_script(fmt, ty, codes, len(xs))
            lines, rc, err = ctx.script(script)
            rl = [l for l in lines if l.startswith("ret=") and "data=" in l]
            impl = rl[-1].split("data=")[1] if rl else ""
            model = ctx.run_model(["g711", "dec", law, ty], codes + "\n").strip()
            odig = digits
        ctx.count(len(xs), tag="%s-%s-%s" % (d, law, ty))
        ctx.coverage["traces_validated_against_impl"] += 1
        if rc != 0 or impl != model:
            k = first_diff(impl, model, odig)
            found_input = True
            if k is None or rc != 0:
                ctx.violation("g711-%s-%s-%s-crash" % (d, law, ty), "harness exit %d\n%s\n--- script\n%s" % (rc, err[-3000:], script[:4000]))
                continue
            x = xs[k]
            got, want = impl[k * odig:(k + 1) * odig], model[k * odig:(k + 1) * odig]
            one = enc_script(fmt, ty, hex_items([x], digits), 1) if d == "enc" else dec_script(fmt, ty, "%02x" % x, 1)
            text = ("# C20: G.711 %s %s via %s: input 0x%x -> implementation %s, G.711 definition (proved table) %s\n"
                    "# first of the differing inputs in the exhaustive stream\n"
                    "expect-last %s\n--- script\n%s" % (law, d, ty, x & ((1 << (4 * digits)) - 1), got, want,
                                                       ("hex=" + want) if d == "enc" else ("data=" + want), one))
            ctx.violation("g711-%s-%s-%s" % (d, law, ty), text)
    ctx.sample({"campaign": "enc ulaw s16", "inputs": "all 65536 shorts", "first_items": hex_items(shorts[:4], 4)})
    ctx.sample({"campaign": "dec alaw f32n", "inputs": "all 256 codes"})

    # ---- 3. property predicate on the implementation alone: encode(decode c) = c ----
    for law, (fmt, shift, n) in g711.LAWS.items():
        dec, enc = tabs[law]
        for c in range(256):
            x = dec[c]
            idx = abs(x) >> shift
            code = enc[idx] if x >= 0 else (enc[idx] & 0x7F)
            # decode 0x7F (µ-law) is "negative zero" = 0, which encodes as 0xFF: the standard's two zeros
            want = 0xFF if (law == "ulaw" and c == 0x7F) else c
            ctx.count(1, tag="encdec-" + law)
            if code != want:
                found_input = True
                ctx.violation("g711-encdec-%s-%02x" % (law, c),
                              "# C20: %s encode(decode(0x%02x)) = 0x%02x on the implementation's own tables (expected 0x%02x)\n"
                              "--- script\n%s" % (law, c, code, want, dec_script(fmt, "s16", "%02x" % c, 1)))

    from .. import codecs20      # G.721 / G.723 / NMS / GSM 06.10 kernels against the models with the published tables (vlib/codecs20.py)
    if codecs20.run(ctx, failed):
        found_input = True
    if failed and not found_input:
        ctx.violation("lean-stage", "theorem(s) no longer check: %s\nno failing input found by the exhaustive G.711 streams\n%s"
                      % (", ".join(failed), ctx.notes.get("lean_log_tail", "")), no_input=True)
    ctx.coverage["exhaustive"] = True
    ctx.coverage["rule"] = ("G.711: complete enumeration of 256 codes x 6 read entry points and 65536 shorts x 6 write entry points per law "
                            "(s32 with 3 low-word patterns, float/double normalised and not), plus the float rounding boundaries; "
                            "distinct_nontrivial counts (direction, law, entry point) streams")

    # ---- 4. ADPCM decoders (IMA WAV/AIFF layouts, MS) against their reference algorithms ----
    from .. import c20_adpcm
    c20_adpcm.run_adpcm(ctx)

    # ---- 5. portable IEEE-754 serialisers and byte-order helpers (vlib/ieee.py) ----
    from .. import ieee
    ieee.run_ieee(ctx)

    # ---- 6. the portable IEEE path through every caller type x byte order (vlib/ieeecross.py); G.711 entry points in one process, permuted orders (vlib/g711order.py) ----
    from .. import ieeecross, g711order
    ieeecross.run(ctx)
    g711order.run(ctx)

    # ---- 7. the IMA / MS ADPCM decoders at every position a seek can reach: library-written files, the deterministic block-seek matrix judged against the REFERENCE decoders (vlib/seekmatrix.py) ----
    from .. import seekmatrix
    seekmatrix.run(ctx, "C20")
