"""C15 — I/O failures at any point are contained.

Stage 1  Lean: SfProps.C15 (oracle model Sf.Faults) + axiom audit.
Stage 2  L1 correspondence: RAW/AU/WAV sample-granular encodings x {write, read, rdwr} workloads x EVERY callback of the
         post-open phase x every fault kind that can alter it (persistent and single-shot): transcript, callback-kind
         sequence and final store bytes of the implementation compared byte for byte with `sfmodel faults`.
Stage 3  K-complete enumeration on the implementation: representative formats x 3 workloads x every callback 1..K of the
         fault-free run (open included) x applicable kinds; the C15 predicate (vlib/c15lib.judge) on every transcript.
Stage 4  the non-seekable route (vlib/c15pipe.py): every representative file through a pipe that ends early (every header byte / chunk boundary),
         delivers short pieces, or carries a skip larger than the header cache; the check itself flags a call that does not return (alarm).
(ENOSPC on /dev/full, EFBIG and unopenable names on the SECOND file of a handle -- SD2 resource fork, ALAC spool -- are stage 2d, vlib/secondfile.py;
EFBIG and EBADF at close are C16's close-fault campaign.)
"""
import os, re, subprocess, collections, time

from .. import c15lib as L, c15pipe
from ..core import Violation, VERIF, modules_for

MODULES = modules_for("C15")


# ---- known-finding classes (decidable on the script + iolog trace), see known_findings.jsonl ------------------------------
def classify(rep, wl, fault, prob, lines, hdr_len):
    """-> known-finding id or None.  A failure is attributed to an entry only if the scenario is in the entry's class AND
    shows its signature.
    (round 8) No C15 finding is open: KF-C15-PARTIAL-FRAME (wrappers report whole frames and force a re-seek) and
    KF-C15-HEADER-POSITION (seek latch in file_io.c; paf_write_header seeks to 0) are repaired, their classes are no longer
    waived -- a `partial-frame` or `prefix` problem is a VIOLATION.  The only bytes the `prefix` clause exempts are those of a torn
    frame (c15lib.torn_regions): a fragment the write call did not report, completed by the caller's next write."""
    return None


def prepare(ctx, reps):
    out = ctx.batch([(r.name, r.prep_script()) for r in reps], clean=True, op_timeout=5, retry_timeouts=False)
    for r in reps:
        d = [l for l in out.get(r.name, []) if l.startswith("len=")]
        if not d:
            raise RuntimeError("cannot prepare the file for %s: %s" % (r.name, out.get(r.name)))
        r.filehex = d[-1].split("hex=")[1]


def fault_free(ctx, reps, after_open=False):
    """-> {(rep.name, wl): {kinds, sum, open}} ; fills rep.dataoffset / rep.audio_end"""
    jobs = []
    for r in reps:
        for wl in getattr(r, "workloads", ("r", "w", "rw")):
            jobs.append(("%s|%s" % (r.name, wl), r.script(wl, None, peek=True, after_open=after_open, dump_full=after_open)))
    out = ctx.batch(jobs, clean=True, op_timeout=5, retry_timeouts=False)
    FF = {}
    for r in reps:
        for wl in getattr(r, "workloads", ("r", "w", "rw")):
            ls = out["%s|%s" % (r.name, wl)]
            pk = [l for l in ls if "dataoffset=" in l]
            dm = [l for l in ls if l.startswith("calls=")]
            op = [l for l in ls if l.startswith("open=")]
            if not pk or not dm or not op or any(l.startswith(("TIMEOUT", "CRASH", "ABORT")) for l in ls):
                raise RuntimeError("fault-free run of %s/%s did not complete: %s" % (r.name, wl, ls[-3:]))
            if op[0].startswith("open=NULL"):
                continue            # the format cannot be opened in this mode at all (block codecs in RDWR)
            p = L.kvs(pk[0])
            r.dataoffset[wl] = max(0, int(p["dataoffset"]))
            only_rw = "r" not in getattr(r, "workloads", ("r",))     # (vlib/c15extra.py RawRep: the geometry comes from its one workload)
            if wl == "r" or only_rw:
                r.blockwidth = int(p["blockwidth"])
            if (wl == "r" or only_rw) and int(p["blockwidth"]) > 0:
                r.audio_end = r.dataoffset[wl] + r.frames * int(p["blockwidth"])
            FF[(r.name, wl)] = {"kinds": L.kvs(dm[-1]).get("kinds", ""), "sum": next((x for x in reversed(ls) if x.startswith("len=")), ls[-1]).strip(), "open": op[0].strip()}
            if not after_open:
                sc0 = dict(jobs)["%s|%s" % (r.name, wl)]
                _, inf = L.judge(r, wl, sc0, ls, None)
                FF[(r.name, wl)]["reads"] = inf.get("reads", [])
                FF[(r.name, wl)]["kopen"] = inf.get("kopen", 1 << 30)
    return FF


def with_trace(sc):
    k = sc.rindex("iolog dump\n")
    return sc[:k] + "iolog dump\niolog trace\n" + sc[k + len("iolog dump\n"):]


def run(ctx):
    if getattr(ctx, "replay", None):
        return replay(ctx, ctx.replay)
    quick = ctx.tier == "quick"
    failed = ctx.lean_stage(MODULES)
    found_input = False
    from .. import c15reg
    if c15reg.run(ctx):
        found_input = True

    # ---------------- known findings: replay each witness --------------------------------------------------------
    known = {k["id"]: k for k in ctx.known if k.get("status") == "known"}
    still = {}
    for kid, kf in known.items():
        w = kf.get("witness")
        if not w or not os.path.exists(os.path.join(VERIF, w)):
            continue
        text = open(os.path.join(VERIF, w)).read()
        script = text.split("--- script", 1)[1].lstrip("\n")
        res = ctx.batch([("kf", script)], clean=True, op_timeout=3, retry_timeouts=False)["kf"]
        exp = [l[len("expect-contains "):].strip() for l in text.split("\n") if l.startswith("expect-contains ")]
        fails = bool(exp) and all(any(e in l for l in res) for e in exp)
        still[kid] = fails
        ctx.count(1, "kf:" + kid)
        if fails:
            ctx.known_finding(kf)

    # ---------------- stage 2: L1 correspondence ---------------------------------------------------------------------
    l1 = [L.Rep(n, w, c, f, True) for (n, w, c, f) in L.L1_REPS]
    if quick:
        l1 = l1[ctx.seed % 2::2] + [x for x in l1 if x.name in ("wav-pcm16", "au-pcm16", "raw-pcm16le", "wav-float")]
        l1 = list({x.name: x for x in l1}.values())
    from .. import c15extra as _c15extra        # + the rdwr workload through sf_read_raw / sf_write_raw (lean/SfModel/FaultsRaw.lean)
    l1 = l1 + list({x.name: x for x in _c15extra.l1_raw_reps(quick, ctx.seed)}.values())
    prepare(ctx, l1)
    ff1 = fault_free(ctx, l1, after_open=True)
    jobs = []
    meta = {}
    for r in l1:
        for wl in ("w", "r", "rw"):
            if (r.name, wl) not in ff1:
                continue
            pts = [None] + L.fault_points(ff1[(r.name, wl)]["kinds"])
            for pt in pts:
                nm = "%s|%s|%s" % (r.name, wl, "ff" if pt is None else "%d|%d|%d" % (pt[0], pt[1], int(pt[2])))
                sc = r.script(wl, pt, after_open=True, dump_full=True)
                jobs.append((nm, sc))
                meta[nm] = (r, wl, pt, sc)
    # a few long calls so that the staging-buffer rounds are exercised (more than one round per call)
    big = L.s16_items(9000, 11)
    for (nm, fmt, ch, k) in (("long-raw-s16be", 0x20040002, 1, 7), ("long-raw-ulaw", 0x040010, 2, 2), ("long-raw-pcm24", 0x10040003, 3, 7)):
        for pt in [None] + [(i, kk, s) for i in (1, 2, 3) for kk in (1, k) for s in (False, True)]:
            sc = ("iolog on\nopen h0 s0 w fmt=%x ch=%d sr=8000\n%siolog on\nw h0 s16 i 9000 %s\nseek h0 0 33\nclose h0\niolog dump\ndump s0 sum\n"
                  % (fmt, ch, L.fault_line(*pt) if pt else "fault at=0 kind=0\n", L.hex_s16(big)))
            sc = sc.replace("dump s0 sum", "dump s0")
            name = "%s|w|%s" % (nm, "ff" if pt is None else "%d|%d|%d" % (pt[0], pt[1], int(pt[2])))
            jobs.append((name, sc))
            meta[name] = (None, "w", pt, sc)
    impl = ctx.batch(jobs, clean=True, op_timeout=5, retry_timeouts=False)
    if jobs:
        j0 = jobs[len(jobs) // 3]
        ctx.notes["l1_example"] = {"name (format|workload|fault point|kind|single-shot)": j0[0], "script": j0[1][:1200], "implementation_transcript": impl.get(j0[0], [])[:14]}
    inp = "".join("== %s\n%s" % (n, s) for (n, s) in jobs)
    p = subprocess.run([ctx.sfmodel(), "faults"], input=inp, capture_output=True, text=True, timeout=900)
    if p.returncode != 0:
        raise RuntimeError("sfmodel faults failed: " + p.stderr[-2000:])
    model = {}
    cur = None
    for line in p.stdout.split("\n"):
        if line.startswith("== end"):
            cur = None
        elif line.startswith("== "):
            cur = line[3:]
            model[cur] = []
        elif cur is not None:
            model[cur].append(line.strip())
    corr = []
    unmodelled = 0
    l1_fired = 0
    for (nm, sc) in jobs:
        a = L.normalise_l1(sc, impl.get(nm, []))
        b = model.get(nm, [])
        if any("unmodelled" in x for x in b):
            unmodelled += 1
            continue
        if any(re.search(r"fired=[1-9]", x) for x in a):
            l1_fired += 1
        ctx.count(len(a), "l1:" + nm.split("|")[0] + ":" + nm.split("|")[1])
        if a != b:
            ops = L.parse_ops(sc)
            k = next((j for j, (x, y) in enumerate(zip(a, b)) if x != y), min(len(a), len(b)))
            corr.append((nm, k, ops[k] if k < len(ops) else "", a[k] if k < len(a) else "(missing)", b[k] if k < len(b) else "(missing)", sc))
    ctx.coverage["traces_validated_against_impl"] += len(jobs) - unmodelled
    ctx.notes["l1"] = {"scripts": len(jobs), "formats": len(l1), "disagreements": len(corr), "unmodelled": unmodelled,
                       "scripts_in_which_a_fault_fired": l1_fired, "enumeration": "every post-open callback x applicable kinds x {persistent, single-shot}"}
    if unmodelled > len(jobs) // 20:
        corr.append(("unmodelled", 0, "", "%d scripts" % unmodelled, "the model declines them", jobs[0][1]))

    # ---------------- stage 2b: every read / write wrapper under a transfer that ends inside a frame (vlib/c15wrap.py) ----------
    from .. import c15wrap
    wprobs, wcorr = c15wrap.run(ctx)
    for (nm, text, sc) in wprobs[:4]:
        found_input = True
        ctx.violation("c15-wrapper-" + nm.replace("|", "-"),
                      "# C15 / C05 violated on the implementation's own transcript (wrapper matrix, one byte short inside a frame): %s\n# case %s (file|side|caller type|i=items f=frames b=raw bytes)\nc15-wrapper-case %s\n--- script\n%s"
                      % (text, nm, nm, sc))
    corr += [(nm, k, "", a, b, sc) for (nm, k, a, b, sc) in wcorr]

    # ---------------- stage 2c: the staging-loop matrix (vlib/stagecamp.py): one short transfer inside the staging loop of every write kernel ----------
    from .. import stagecamp
    if stagecamp.run(ctx, "C15"):
        found_input = True

    # ---------------- stage 2d: genuine OS failures on the SECOND file of a handle (vlib/secondfile.py: SD2 resource fork, ALAC spool) ----------
    from .. import secondfile
    if secondfile.run(ctx):
        found_input = True

    # ---------------- stage 3: K-complete enumeration on the implementation ----------------------------------------
    reps = [L.Rep(*r) for r in L.REPS]          # the whole list fits the quick budget (about 15 s); the tiers differ in the L1 set and timeouts
    from .. import c15extra                      # foreign-but-valid multi-block headers; the rdwr workload through sf_read_raw / sf_write_raw
    reps += c15extra.reps(quick, ctx.seed)
    prepare(ctx, reps)
    c15extra.after_prepare(reps)
    FF = fault_free(ctx, reps)
    jobs = []
    meta = {}
    for r in reps:
        for wl in ("w", "r", "rw"):
            if (r.name, wl) not in FF:
                continue
            for pt in L.fault_points(FF[(r.name, wl)]["kinds"]):
                nm = "%s|%s|%d|%d|%d" % (r.name, wl, pt[0], pt[1], int(pt[2]))
                K = len(FF[(r.name, wl)]["kinds"])
                sc = with_trace(r.script(wl, pt)).replace("iolog on\n", "iolog on\niolog limit %d\n" % (200 * K + 20000), 1)
                jobs.append((nm, sc))
                meta[nm] = (r, wl, pt, sc)
    t0 = time.time()
    out = ctx.batch(jobs, clean=True, op_timeout=5 if quick else 10, retry_timeouts=False)
    ctx.notes["enumeration_wall_s"] = round(time.time() - t0, 1)
    if jobs:
        j0 = jobs[len(jobs) // 2]
        ctx.notes["enum_example"] = {"name (format|workload|fault point|kind|single-shot)": j0[0], "script": j0[1][:1200], "implementation_transcript": out.get(j0[0], [])[:14]}
    stats = collections.Counter()
    fired_hist = collections.Counter()
    kf_hits = collections.Counter()
    kf_names = {}
    violations = []
    for nm, (r, wl, pt, sc) in meta.items():
        lines = out.get(nm, [])
        sc_j, lines_j = sc, lines
        probs, info = L.judge(r, wl, sc_j, lines_j, FF[(r.name, wl)])
        ctx.count(len(lines_j), "%s:%s:%s" % (r.name, wl, L.KIND_NAME[pt[1]]))
        stats["scripts"] += 1
        stats["fired" if info["fired"] or any(l.startswith("TIMEOUT") for l in lines) else "not_fired"] += 1
        if info.get("torn"):
            stats["torn_frame_scripts"] += 1
        if info.get("torn_rewritten"):
            stats["torn_fragment_completed_by_next_write"] += 1
        fired_hist[min(info["fired"], 5)] += 1
        if (r.word >> 16) & 0xFFF == 0x11 and wl != "r":
            probs = [p for p in probs if p.cat != "prefix"]     # SDS: the unfinished block is provisional by design and is rewritten
        for pr in probs:
            kid = classify(r, wl, pt, pr, lines, r.dataoffset.get(wl, 0))
            if kid and kid in known:
                kf_hits[kid] += 1
                kf_names.setdefault(kid, []).append(nm)
                ctx.known_finding(known[kid])
                continue
            violations.append((nm, r, wl, pt, pr, sc, lines))
    ctx.notes["enumeration"] = {"scripts": stats["scripts"], "scripts_in_which_a_fault_fired": stats["fired"], "scripts_without_a_firing": stats["not_fired"],
                                "faults_fired_per_script_histogram(0..5+)": [fired_hist[k] for k in range(6)],
                                "scripts_with_a_torn_frame(short write inside a frame)": stats["torn_frame_scripts"],
                                "scripts_in_which_only_the_torn_fragment_was_rewritten": stats["torn_fragment_completed_by_next_write"],
                                "formats": [r.name for r in reps], "K": {"%s/%s" % k: len(v["kinds"]) for k, v in FF.items()},
                                "known_finding_hits": dict(kf_hits), "known_finding_hit_examples": {k: v[:12] for k, v in kf_names.items()}}
    ctx.coverage["exhaustive"] = True
    reported = set()
    for (nm, r, wl, pt, pr, sc, lines) in violations:
        key = (r.name, pr.cat)
        if key in reported or len(reported) >= 6:
            continue
        reported.add(key)
        found_input = True
        ops = L.parse_ops(sc)
        ctx.violation("c15-%s-%s-%s" % (r.name, wl, pr.cat),
                      "# C15 violated on the implementation's own transcript: %s\n# format %s (%08x, %d ch), workload %s, fault at callback %d kind %s %s\n"
                      "# at script line %d: %s\nc15-category %s\n--- script\n%s"
                      % (pr.text, r.name, r.word, r.ch, wl, pt[0], L.KIND_NAME[pt[1]], "single-shot" if pt[2] else "persistent",
                         pr.line, ops[pr.line][:100] if pr.line < len(ops) else "", pr.cat, sc))

    # ---------------- stage 4: the non-seekable route (truncated pipe, short pieces, skips beyond the header cache) ---------------
    if c15pipe.run(ctx, reps, known):
        found_input = True

    # ---------------- verdicts ------------------------------------------------------------------------------------
    if corr and not found_input:
        nm, k, op, a, b, sc = corr[0]
        ctx.violation("c15-correspondence-" + nm,
                      "# correspondence stream 'Sf.Faults vs implementation under the same fault schedule' no longer agrees: %d of %d scripts differ\n"
                      "# first: %s, script line %d: %s\n# implementation: %s\n# model:          %s\n"
                      "# the C15 predicate found no failing input on the implementation's transcripts\nobserved-last %s\n--- script\n%s"
                      % (len(corr), ctx.notes["l1"]["scripts"], nm, k, op[:100], a[:300], b[:300], a.strip(), sc), no_input=True)
        found_input = True
    if failed and not found_input:
        ctx.violation("lean-stage", "theorem(s) no longer check: %s\n%s" % (", ".join(failed), ctx.notes.get("lean_log_tail", "")), no_input=True)
    ctx.sample(dict({"kind": "L1 fault schedule, implementation vs Sf.Faults"}, **ctx.notes.pop("l1_example", {})))
    ctx.sample(dict({"kind": "K-complete enumeration (C15 predicate on the implementation transcript)", "formats": len(reps), "scripts": stats["scripts"]}, **ctx.notes.pop("enum_example", {})))
    ctx.coverage["rule"] = ("for each representative format and each workload {write(+header update)-close, open-read-seek-close, rdwr}: K = callbacks of the fault-free run "
                            "(iolog), then for EVERY i in 1..K every fault kind that can alter callback i (zero, short, short-by-one, seek failure, length too big/small, "
                            "tell off by 7, everything fails), persistent from i and single-shot; complete and redundancy-free. L1 formats additionally byte-for-byte against "
                            "the Lean oracle model for every post-open fault point. distinct_nontrivial = distinct (format, workload, kind) combinations + L1 (format, workload)")
    ctx.assumptions.append("callback-level faults are injected through SF_VIRTUAL_IO; of the genuine OS conditions the truncated / short-piece pipe is exercised here (vlib/c15pipe.py), ENOSPC (/dev/full) / EFBIG / unopenable names on SD2's resource fork and data file and on the ALAC spool in vlib/secondfile.py, EFBIG and EBADF at sf_close in C16 (vlib/closefault.py)")
    ctx.assumptions.append("loops outside the modelled set (block codecs, header parsers, 20 containers' header writers) are monitored by the enumeration, not proved")


def replay(ctx, path):
    text = open(path).read()
    if "--- script" not in text:
        print(text)
        ctx.report(path, no_input=True)
        return
    if "c15-wrapper-case " in text:
        from .. import c15wrap
        return c15wrap.replay(ctx, path, text)
    from .. import stagecamp
    if stagecamp.is_replay(text):
        return stagecamp.replay(ctx, path, text)
    from .. import secondfile
    if secondfile.is_replay(text):
        return secondfile.replay(ctx, path, text)
    head, script = text.split("--- script", 1)
    script = script.lstrip("\n")
    cat = next((l.split()[1] for l in head.split("\n") if l.startswith("c15-category ")), None)
    lines = ctx.batch([("replay", script)], clean=True, op_timeout=5, retry_timeouts=False)["replay"]
    print("\n".join(l[:200] for l in lines))
    if cat is None:
        return ctx.replay_script(path)
    bad = False
    if cat.startswith("pipe-"):
        # non-seekable route: the balance line and the read lines recorded in the replay header
        if cat == "pipe-leak":
            end = next((l for l in lines if l.startswith("balance=")), "")
            d = L.kvs(end)
            bad = not end or d.get("blocks") != "0" or not d.get("fds", "1").startswith("0") or not d.get("tmp", "1").startswith("0")
        else:
            obs = [l[len("# observed: "):].strip() for l in head.split("\n") if l.startswith("# observed: ")]
            bad = bool(obs) and obs == [l.strip()[:160] for l in lines if l.startswith(("open=", "ret="))]
        if bad:
            ctx.report(path)
        else:
            print("replay: the property holds on this script now")
        return
    if cat in ("hang", "memory"):
        bad = any(l.startswith(("TIMEOUT", "CRASH", "ABORT")) for l in lines)
    elif cat == "prefix":
        bad = any(re.search(r"changed=[1-9]", l) for l in lines)
    else:
        # re-evaluate the predicate
        m = re.search(r"format (\S+) \(([0-9a-f]+), (\d+) ch\), workload (\w+)", head)
        if m:
            r = L.Rep(m.group(1), int(m.group(2), 16), int(m.group(3)), 40, True)
            sc_j, lj = script, lines
            ff = None
            if cat == "data":
                sc0 = re.sub(r"^fault .*$", "fault at=0 kind=0", script, count=1, flags=re.M)
                l0 = ctx.batch([("ff", sc0)], clean=True, op_timeout=5, retry_timeouts=False)["ff"]
                _, i0 = L.judge(r, m.group(4), sc0, l0, None)
                ff = {"reads": i0.get("reads", []), "kopen": i0.get("kopen", 1 << 30)}
                r.blockwidth = 1
            probs, _ = L.judge(r, m.group(4), sc_j, lj, ff)
            bad = any(p.cat == cat for p in probs)
    if bad:
        ctx.report(path)
    else:
        print("replay: the property holds on this script now")
