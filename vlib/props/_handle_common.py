"""C05 / C06 share campaigns; each reports the problem categories its statement speaks about."""
from .. import handlecheck as HC
from ..core import Violation

CATS = {
    "C05": {"count", "short", "eof", "invalid", "position", "data", "frames", "crash", "open"},
    "C06": {"seek", "data", "position", "crash"},
}


def run_common(ctx, prop, modules, l1_scripts, stride, nops):
    if getattr(ctx, "replay", None):
        from .. import absreplay
        return absreplay.replay(ctx, ctx.replay)      # re-judged by `sfmodel abs` when the file carries its geometry header
    failed = ctx.lean_stage(modules)
    quick = ctx.tier == "quick"
    found_input = False
    ctx.run_regressions()
    if ctx.violations:
        found_input = True
    # ---- known findings: replay each witness, print while it still fails ----
    still = {}
    for kf in ctx.known:
        if kf.get("status") != "known" or not kf.get("witness"):
            continue
        r = ctx.witness_still_fails(kf)
        if r is None:
            continue
        still[kf["id"]] = r
        if r:
            ctx.known_finding(kf)
    # ---- A: byte-exact correspondence on the modelled containers ----
    fa, sa = HC.l1_campaign(ctx, l1_scripts)
    ctx.count(sa["ops"], None)
    ctx.coverage["traces_validated_against_impl"] += sa["scripts"]
    ctx.notes["l1"] = dict(sa)
    # ---- B: the contract on the implementation's own transcript, every writable format ----
    fb, sb = HC.allformat_read_campaign(ctx, stride=stride, nops=nops)
    ctx.count(sb["ops"], None)
    ctx.notes["allformat"] = dict(sb)
    corr = [f for f in fa if f.kind == "corr"]
    reported = set()
    for f in fa + fb:
        if f.kind == "corr":
            continue
        if f.cat not in CATS[prop]:
            continue
        kf = HC.known_class(f.fmt, f.ch, f.text, f.cat, f.script, f.line)
        if kf and still.get(kf) and any(k["id"] == kf and k.get("status") == "known" and prop in k.get("properties", []) for k in ctx.known):
            ctx.known_finding(next(k for k in ctx.known if k["id"] == kf))
            continue
        key = (f.fmt.name if f.fmt else f.name.split("-")[0], f.cat)
        if key in reported or sum(1 for k in reported if k[1] == f.cat) >= 3:
            continue
        reported.add(key)
        found_input = True
        sl = f.script.strip().split("\n")
        obs = ""
        ctx.violation("%s-%s-%s" % (prop.lower(), key[0], f.cat),
                      "# %s violated on the implementation's own transcript (%s)\n# file/format: %s, %d channel(s)\n# at script line %d: %s\n# %s\n%s"
                      % (prop, f.kind, f.fmt.name if f.fmt else f.name, f.ch, f.line, sl[f.line][:120] if f.line < len(sl) else "", f.text,
                         getattr(f, "replay_text", None) or ("--- script\n" + HC.script_prefix(f.script, f.line))))
    if corr and not found_input:
        f = corr[0]
        sl = f.script.strip().split("\n")
        ctx.violation("%s-correspondence-%s" % (prop.lower(), f.name),
                      "# correspondence stream 'handle model vs implementation' (RAW/AU/WAV histories) no longer agrees: %d of %d scripts differ\n"
                      "# first: %s, script line %d: %s\n# implementation: %s\n# model (Sf.step*): %s\n"
                      "# the %s contract evaluated on the implementation's transcripts found no failing input\nobserved-last %s\n--- script\n%s"
                      % (len(corr), sa["scripts"], f.name, f.line, sl[f.line][:120] if f.line < len(sl) else "", (f.impl or "")[:300], (f.model or "")[:300],
                         prop, (f.impl or "").strip(), HC.script_prefix(f.script, f.line)), no_input=True)
        found_input = True
    if failed and not found_input:
        ctx.violation("lean-stage", "theorem(s) no longer check: %s\n%s" % (", ".join(failed), ctx.notes.get("lean_log_tail", "")), no_input=True)
    ctx.sample(dict({"kind": "L1 history (model vs implementation)", "formats": "RAW/AU/WAV x 8-9 encodings x 4 endian options", "scripts": sa["scripts"]}, **ctx.notes.pop("l1_example", {})))
    ctx.sample(dict({"kind": "all-format read/seek history (contract on the implementation transcript)", "files": sb["files"], "histories": sb["histories"]}, **ctx.notes.pop("allformat_example", {})))
    ctx.coverage["rule"] = ("A: seeded random histories (open/write/read/seek/commands/close/re-open in r, w, rw) on every RAW/AU/WAV encoding, transcript compared "
                            "byte for byte with the Lean handle model; B: for every (major, subtype, endian) the library accepts for writing x channel counts, a file written by the "
                            "library, one sequential reference read per caller type, then random read/seek histories whose every return value, data item and position probe is "
                            "checked against the contract. distinct_nontrivial = distinct (container, op kind, caller type) combinations in A plus distinct formats in B")


def ctx_path(rel):
    import os
    from ..core import VERIF
    return rel if os.path.isabs(rel) else os.path.join(VERIF, rel)
