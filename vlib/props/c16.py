"""C16 — no leaked memory, descriptors or temporary files for any call history.

Lean: SfModel/Ledger.lean (the resource ledger), SfProps/C16.lean (close_releases_all, no_double_free, replace_frees_old,
close_returns_zero_when_io_ok).  Correspondence: every scenario runs on the real library with `ledger peek` after every
operation (owner-pointer mask read from the private struct, live heap blocks counted by the ASan runtime's malloc/free hooks,
descriptor table) and on `sfmodel ledger`; the two are compared operation by operation.  Property predicate on the
implementation's own transcript (`ledger end`): heap balance 0 bytes / 0 blocks, no unreachable block (LeakSanitizer),
no new descriptor, empty private TMPDIR, sf_close returned 0, no sanitizer abort.
"""
import re, struct, os, sys

from .. import formats, c03fuzz, lateopen, closefault, chmapfix
from ..core import Violation, modules_for

LEAK_ENV = {"ASAN_OPTIONS": "exitcode=77:detect_leaks=1:allocator_may_return_null=1:abort_on_error=0:leak_check_at_exit=0"}
KEEP = ("ok", "open=", "ret=", "mask=", "balance=", "it=", "err=", "len=", "size_ret=", "bad-", "calls=", "CRASH", "ABORT", "TIMEOUT")

RICH = {0x01: "wav", 0x13: "wavex", 0x02: "aiff", 0x18: "caf", 0x22: "rf64"}
CONT = dict(RICH)
CONT[0x0B] = "w64"


def cont_class(major):
    return CONT.get(major, "other")


def codec_class(major, codec, mode):
    """mode: w | r | rw | parse-flag folded in by the caller: 'parse' for r and rw-on-existing"""
    if major in (0x01, 0x13) and mode == "rw-empty" and codec in (0x12, 0x13, 0x20):
        return "plain"          # wav.c:295: the codec's refusal of RDWR is overwritten by write_header's result: the handle opens without a codec
    if codec in (0x12, 0x13, 0x40, 0x41, 0x42, 0x43, 0x22, 0x23, 0x24, 0x21):
        return "hooked"
    if codec == 0x20:
        return "gsm610"
    if codec in (0x30, 0x31, 0x32):
        return "g72x"
    if codec in (0x70, 0x71, 0x72, 0x73):
        return "alac"
    if (major == 0x05 and codec == 0x03) or major == 0x11 or major == 0x0F:
        return "dataOnly"
    if major == 0x08 and mode == "parse":
        return "dataOnly"       # VOC_DATA is allocated by the header parser only
    return "plain"


def hx(b):
    return bytes(b).hex()


def cue_blob(n=2):
    b = bytearray(4 + 280 * n)
    struct.pack_into("<I", b, 0, n)
    return b


DITHER = {"on": struct.pack("<i", 501) + bytes(20), "off": struct.pack("<i", 500) + bytes(20), "dflt": bytes(24)}


class Sc:
    """one scenario: harness lines and model lines side by side; `peeks` = indices (into the harness op list) of ledger peeks"""

    def __init__(self, name, kind):
        self.name, self.kind = name, kind
        self.h = ["ledger begin"]       # harness ops
        self.m = []                     # (harness index of the op, model line or callable(obs) -> line)
        self.peek_at = []               # (harness index of the peek, handle, meta dict)
        self.handles = {}               # handle -> dict(mode, fmt, route, nchunks, open_idx)
        self.closes = []                # harness indices of close ops
        self.cls = set()

    def op(self, hline, mline=None):
        self.h.append(hline)
        if mline is not None:
            self.m.append((len(self.h) - 1, mline))
        return len(self.h) - 1

    def peek(self, hn):
        i = self.op("ledger peek " + hn, "peek")
        st = self.handles.get(hn)
        meta = dict(st) if st else None
        # the harness's own blocks and descriptors at this point, over ALL open handles (several may be open at once)
        world = dict(nck=sum(h["nchunks"] + (1 if h["nchunks"] else 0) for h in self.handles.values()),
                     fd0=sum(1 for h in self.handles.values() if h["route"] == "fd0"),
                     alacw=any((h["fmt"] & 0xFFF0) == 0x70 and h["mode"] == "w" for h in self.handles.values()))
        self.peek_at.append((i, hn, meta, world))

    def open(self, hn, store, mode, fmt, ch, route="vio", sr=8000, existing=False, frames=False, ext="x"):
        f = fmt if (mode != "r" or (fmt >> 16) & 0xFFF == 0x04) else 0
        dump_idx = None
        if existing and (fmt >> 16) & 0xFFF in RICH:
            dump_idx = self.op("dump " + store)       # the bytes the parser is about to read: its allocations are predicted from them
        i = self.op("open %s %s %s fmt=%08x ch=%d sr=%d route=%s ext=%s" % (hn, store, mode, f, ch, sr, route, ext), None)
        st = dict(mode=mode, fmt=fmt, route=route, nchunks=0, open_idx=i, existing=existing, frames=frames, dump_idx=dump_idx)
        self.handles[hn] = st
        self.m.append((i, ("open", dict(st))))
        self.peek(hn)
        return i

    def close(self, hn):
        i = self.op("close " + hn, "close 1")
        self.closes.append(i)
        self.handles.pop(hn, None)
        self.peek(hn)

    def end(self):
        self.op("ledger end", None)

    def script(self):
        return "\n".join(self.h) + "\n"


# ---- operations on an open handle: (harness line, model line) ----
def op_pool(rng, hn, st, ch):
    major = (st["fmt"] >> 16) & 0xFFF
    ops = []
    ty = rng.choice([1, 2, 3, 4, 5, 6, 7, 8, 9, 16])
    ops.append(("setstr %s %d %s" % (hn, ty, hx(b"string %d" % rng.randrange(1000))), "setstr 1"))
    ops.append(("setstr %s %d null" % (hn, ty), "setstr 0"))
    ops.append(("setstr %s 99 %s" % (hn, hx(b"x")), "setstr 0"))
    ops.append(("cmd %s 10f1 %d %s" % (hn, c03fuzz.SIZEOF_BEXT, hx(c03fuzz.bext_blob())), "setbext 1"))
    ops.append(("cmd %s 10f1 100 zero" % hn, "setbext 0"))
    ops.append(("cmd %s 1400 %d %s" % (hn, c03fuzz.SIZEOF_CART, hx(c03fuzz.cart_blob())), "setcart 1"))
    ops.append(("cmd %s 1400 64 zero" % hn, "setcart 0"))
    ops.append(("cmd %s 10cf %d %s" % (hn, 564, hx(cue_blob(2))), "setcue 1"))
    ops.append(("cmd %s 10cf 2 zero" % hn, "setcue 0"))
    ops.append(("cmd %s 10cf 8 %s" % (hn, hx(struct.pack("<II", 7, 0))), "setcue 0"))      # count inconsistent with the size
    ops.append(("cmd %s 10d1 %d %s" % (hn, c03fuzz.SIZEOF_INST, hx(c03fuzz.inst_blob())), "setinst 1"))
    ops.append(("cmd %s 10d1 100 zero" % hn, "setinst 0"))
    # a refused map (SF_FALSE: no command hook, no mask / layout tag for it) leaves no block behind: the verdict is the Lean model's
    for cm in ([(k % 3) + 1 for k in range(ch)], chmapfix.MASK_IDS[:ch] if ch <= 18 else [2] * ch):
        ops.append(("cmd %s 1101 %d %s" % (hn, 4 * ch, hx(struct.pack("<%di" % ch, *cm))), "setchanmap %d" % chmapfix.verdict(st["fmt"], ch, cm)))
    ops.append(("cmd %s 1101 %d zero" % (hn, 4 * ch), "setchanmap 0"))
    ops.append(("cmd %s 1101 %d zero" % (hn, 4 * ch + 4), "setchanmap 0"))
    ops.append(("setchunk %s %s %s" % (hn, hx(rng.choice([b"Cust", b"abcd", b"XyZ1"])), hx(bytes(rng.randrange(256) for _ in range(rng.choice([1, 4, 7, 32]))))), "setchunk 1"))
    ops.append(("chunkiter %s null" % hn, "iter none"))
    ops.append(("chunkiter %s %s" % (hn, hx(b"Zq9_")), "iter 0"))
    ops.append(("cmd %s 1050 1 null" % hn, "setpeak 1"))
    ops.append(("cmd %s 1050 0 null" % hn, "setpeak 0"))
    for d, cid in (("w", "10a0"), ("r", "10a1")):
        for t in ("on", "off", "dflt"):
            ops.append(("cmd %s %s 24 %s" % (hn, cid, hx(DITHER[t])), "dither %s %s 1" % (d, t)))
        ops.append(("cmd %s %s 8 zero" % (hn, cid), "dither %s on 0" % d))
    n = ch * rng.choice([1, 3, 16])
    ops.append(("w %s s16 i %d %s" % (hn, n, "".join("%04x" % rng.randrange(65536) for _ in range(n))), "write 1"))
    ops.append(("w %s s16 i 0" % hn, "write 0"))
    ops.append(("r %s s16 i %d" % (hn, ch * 4), "other"))
    ops.append(("seek %s 0 0" % hn, "other"))
    ops.append(("info %s" % hn, "other"))
    ops.append(("getstr %s 1" % hn, "other"))
    ops.append(("cmd %s 1002 4 zero" % hn, "other"))
    ops.append(("chunknext %s" % hn, "other"))
    return ops


def history(sc, rng, hn, ch, n, weights=None):
    st = sc.handles[hn]
    for _ in range(n):
        pool = op_pool(rng, hn, st, ch)
        hl, ml = rng.choice(pool)
        if hl.startswith("setchunk"):
            st["nchunks"] += 1
        if hl.startswith("chunknext") and not st.get("iter"):
            continue
        if hl.startswith("chunkiter"):
            st["iter"] = True
        sc.op(hl, ml)
        sc.peek(hn)
        sc.cls.add(ml.split()[0] + ("+" if ml.endswith(" 1") else "-" if ml.endswith(" 0") else ""))


def data_line(hn, ch, frames, rng):
    n = ch * frames
    return "w %s s16 i %d %s" % (hn, n, "".join("%04x" % ((k * 2654435761 >> 7) & 0xFFFF) for k in range(n)))


def gen_wellformed(ctx, fmts, per_fmt, rng):
    """write histories on every writable format, re-open for read and read/write, histories on those too"""
    out = []
    routes = ["vio", "path", "fd1", "fd0"]
    for idx, f in enumerate(fmts):
        for rep in range(per_fmt):
            ch = 1 if rng.random() < 0.6 or f.maxch < 2 else 2
            route = routes[(idx + rep) % 4]
            if f.major == 0x16:
                route = "path"
            sc = Sc("wf-%s-%s-%d" % (f.name, route, rep), "wellformed")
            ext = "sd2" if f.major == 0x16 else "x"
            sc.open("h0", "s0", "w", f.word, ch, route, ext=ext)
            rich = f.major in RICH
            history(sc, rng, "h0", ch, rng.choice([0, 2, 5, 9]) if rich else rng.choice([0, 1, 3]))
            sc.op(data_line("h0", ch, 80, rng), "write 1")
            sc.peek("h0")
            history(sc, rng, "h0", ch, rng.choice([0, 1, 3]))
            sc.close("h0")
            # re-open what was written
            mode2 = rng.choice(["r", "r", "rw"])
            r2 = route if f.major == 0x16 else rng.choice(routes)
            if mode2 == "rw" and r2 == "fd0":
                r2 = "fd1"
            sc.open("h1", "s0", mode2, f.word, ch, r2, existing=True, frames=True, ext=ext)
            history(sc, rng, "h1", ch, rng.choice([0, 2, 4]))
            sc.close("h1")
            sc.end()
            out.append(sc)
    return out


def gen_concurrent(ctx, fmts, rng, n):
    """several handles open at the same time on different stores: opens, histories and closes interleave"""
    out = []
    pool = list(fmts)
    sd2 = [f for f in fmts if f.major == 0x16]
    routes = ["vio", "path", "fd1", "fd0"]
    for k in range(n):
        sc = Sc("conc-%d" % k, "concurrent")
        nh = rng.choice([2, 2, 3])
        live = []
        for j in range(nh):
            # SD2 (a second descriptor for the resource fork, opened and closed inside sf_open) is the first handle of every fourth scenario:
            # the handles opened after it get the numbers it used
            f = rng.choice(sd2) if (sd2 and k % 4 == 0 and j == 0) else rng.choice(pool)
            ch = 1 if f.maxch < 2 or rng.random() < 0.5 else 2
            hn = "h%d" % j
            sc.open(hn, "s%d" % j, "w", f.word, ch, "path" if f.major == 0x16 else rng.choice(routes), ext="sd2" if f.major == 0x16 else "x")
            live.append((hn, ch))
            hn2, ch2 = rng.choice(live)
            history(sc, rng, hn2, ch2, rng.choice([1, 2, 3]))
        for _ in range(rng.choice([2, 4, 6])):
            hn2, ch2 = rng.choice(live)
            if rng.random() < 0.3:
                sc.op(data_line(hn2, ch2, 16, rng), "write 1")
                sc.peek(hn2)
            else:
                history(sc, rng, hn2, ch2, 1)
        rng.shuffle(live)
        for idx, (hn2, ch2) in enumerate(live):
            sc.close(hn2)
            for (hn3, ch3) in live[idx + 1:]:
                sc.peek(hn3)         # closing one handle leaves the others as they were
        sc.end()
        out.append(sc)
    return out


def gen_fixed(ctx, rng):
    """hand-picked histories: repeated sets, replacements, 40 chunks, 33 strings, all metadata on the four rich containers"""
    out = []
    for (fmt, nm) in ((0x010002, "wav16"), (0x010006, "wavf"), (0x130006, "wavexf"), (0x020002, "aiff16"), (0x020006, "aifff"),
                      (0x180002, "caf16"), (0x180006, "caff"), (0x220002, "rf64"), (0x220006, "rf64f"), (0x030002, "au16"), (0x0B0002, "w64"), (0x180070, "alac")):
        for route in ("vio", "path"):
            for ch in (1, 2):
                sc = Sc("fx-%s-%s-%d" % (nm, route, ch), "fixed")
                sc.open("h0", "s0", "w", fmt, ch, route)
                seq = []
                for k in range(3):
                    for cm in ([k % 3 + 1] * ch, chmapfix.MASK_IDS[k:k + ch]):      # refused by most containers / in mask-bit order
                        seq += [("cmd h0 1101 %d %s" % (4 * ch, hx(struct.pack("<%di" % ch, *cm))), "setchanmap %d" % chmapfix.verdict(fmt, ch, cm))]
                ncm = len(seq)
                seq += [("cmd h0 10f1 %d %s" % (c03fuzz.SIZEOF_BEXT, hx(c03fuzz.bext_blob())), "setbext 1")] * 2
                seq += [("cmd h0 1400 %d %s" % (c03fuzz.SIZEOF_CART, hx(c03fuzz.cart_blob())), "setcart 1")] * 2
                seq += [("cmd h0 10cf 564 %s" % hx(cue_blob(2)), "setcue 1"), ("cmd h0 10cf 284 %s" % hx(cue_blob(1)), "setcue 1")]
                seq += [("cmd h0 10d1 %d %s" % (c03fuzz.SIZEOF_INST, hx(c03fuzz.inst_blob())), "setinst 1")] * 2
                seq += [("cmd h0 1050 0 null", "setpeak 0"), ("cmd h0 1050 0 null", "setpeak 0"), ("cmd h0 1050 1 null", "setpeak 1"), ("cmd h0 1050 1 null", "setpeak 1"),
                        ("cmd h0 1050 0 null", "setpeak 0")]
                seq += [("cmd h0 10a0 24 %s" % hx(DITHER["on"]), "dither w on 1"), ("cmd h0 10a0 24 %s" % hx(DITHER["off"]), "dither w off 1"),
                        ("cmd h0 10a0 24 %s" % hx(DITHER["on"]), "dither w on 1"), ("cmd h0 10a1 24 %s" % hx(DITHER["on"]), "dither r on 1")]
                for hl, ml in seq:
                    sc.op(hl, ml)
                    sc.peek("h0")
                    sc.cls.add("fixed:" + ml)
                nck = 40 if (route == "vio" and ch == 1) else 3
                for k in range(nck):
                    sc.op("setchunk h0 %s %s" % (hx(b"Ck%02d" % (k % 100)), hx(bytes([k]) * (k % 9 + 1))), "setchunk 1")
                    sc.handles["h0"]["nchunks"] += 1
                sc.peek("h0")
                nstr = 34 if (route == "path" and ch == 2) else 4
                for k in range(nstr):
                    sc.op("setstr h0 %d %s" % ([1, 2, 3, 4, 5, 6, 7, 8, 9, 16][k % 10], hx(b"value number %d" % k)), "setstr 1")
                sc.peek("h0")
                sc.op(data_line("h0", ch, 64, rng), "write 1")
                sc.peek("h0")
                # everything again after the audio: most of it must now fail without moving the ledger
                for hl, ml in seq[:4] + seq[ncm:ncm + 1] + seq[ncm + 2:ncm + 4] + [("setchunk h0 %s 00" % hx(b"Late"), "setchunk 1"), ("setstr h0 1 %s" % hx(b"late title"), "setstr 1")]:
                    if hl.startswith("setchunk"):
                        sc.handles["h0"]["nchunks"] += 1
                    sc.op(hl, ml)
                    sc.peek("h0")
                sc.close("h0")
                sc.open("h1", "s0", "r", fmt, ch, route, existing=True, frames=True)
                for hl, ml in (("chunkiter h1 null", "iter none"), ("chunknext h1", "other"), ("chunkiter h1 %s" % hx(b"Ck01"), "iter 1" if fmt != 0x030002 and fmt != 0x0B0002 else "iter 0"),
                               ("chunkiter h1 null", "iter none"), ("setstr h1 1 %s" % hx(b"title set while reading"), "setstr 1"),
                               ("cmd h1 10cf 564 %s" % hx(cue_blob(2)), "setcue 1"), ("cmd h1 10a1 24 %s" % hx(DITHER["on"]), "dither r on 1"),
                               ("cmd h1 1101 %d %s" % (4 * ch, hx(struct.pack("<%di" % ch, *[1] * ch))), "setchanmap %d" % chmapfix.verdict(fmt, ch, [1] * ch)), ("r h1 s16 i %d" % (4 * ch), "other")):
                    sc.op(hl.replace(" h0 ", " h1 "), ml)
                    sc.peek("h1")
                sc.close("h1")
                sc.end()
                out.append(sc)
    return out


def gen_failing(ctx, fmts, rng):
    """opens that fail before / inside / after the container's open function"""
    out = []
    routes = ["vio", "path", "fd1", "fd0"]
    k = 0
    for f in fmts:
        if f.endian:
            continue
        for variant in ("badch", "badmode", "rw-empty", "r-empty", "r-garbage"):
            route = routes[k % 4]
            k += 1
            if f.major == 0x16:
                route = "path"
            sc = Sc("fail-%s-%s-%s" % (f.name, variant, route), "failing-open")
            ext = "sd2" if f.major == 0x16 else "x"
            if variant == "badch":
                sc.open("h0", "s0", "w", f.word, 0 if rng.random() < 0.5 else 1025, route, ext=ext)
            elif variant == "badmode":
                sc.op("open h0 s0 7 fmt=%08x ch=1 sr=8000 route=%s ext=%s" % (f.word, route, ext))
                sc.handles["h0"] = dict(mode="r", fmt=f.word, route=route, nchunks=0, open_idx=len(sc.h) - 1, existing=False, frames=False)
                sc.m.append((len(sc.h) - 1, ("open", dict(sc.handles["h0"]))))
                sc.peek("h0")
            elif variant == "rw-empty":
                sc.open("h0", "s0", "rw", f.word, 1, route if route != "fd0" else "fd1", ext=ext)
                history(sc, rng, "h0", 1, 2)
            elif variant == "r-empty":
                sc.open("h0", "s0", "r", f.word, 1, route, ext=ext)
            else:
                sc.op("store s0 %s" % hx(bytes(rng.randrange(256) for _ in range(rng.choice([1, 11, 12, 40, 200])))))
                sc.open("h0", "s0", "r", f.word, 1, route, ext=ext)
            sc.close("h0")
            sc.end()
            out.append(sc)
    # complete open attempts that never close a handed-over descriptor (`ledger tryopen`): a failing sf_open_fd (close_desc = 1) must close it itself;
    # SD2 through a descriptor or virtual I/O is refused (the resource fork is found by name; before the repair sf_open_virtual created `._` in the working directory)
    k = 0
    for f in fmts:
        if f.endian:
            continue
        sc = Sc("try-%s" % f.name, "failing-open")
        ext = "sd2" if f.major == 0x16 else "x"
        for (mode, fmt, ch) in (("w", f.word, 0), ("w", f.word, 1025), ("7", f.word, 1), ("r", f.word if f.major == 4 else 0, 1), ("rw", f.word, 1), ("w", f.word & 0xFFFF, 1)):
            for route in (("fd1", "vio", "path", "fd0") if f.major == 0x16 else ("fd1", routes[k % 4])):
                k += 1
                sc.op("store s1 %s" % hx(bytes(rng.randrange(256) for _ in range(rng.choice([0, 5, 60])))))
                sc.op("ledger tryopen s1 %s fmt=%08x ch=%d sr=8000 route=%s ext=%s" % (mode, fmt, ch, route, ext))
        if f.major == 0x16:
            for route in ("vio", "fd1", "fd0"):
                for mode in ("w", "rw", "r"):
                    sc.op("ledger tryopen s0 %s fmt=%08x ch=2 sr=8000 route=%s ext=sd2" % (mode, f.word, route))
        sc.end()
        out.append(sc)
    # the ALAC > 8 channel case repaired by 0aa127c / e9742d9: the spool file must not stay behind
    for ch in (9, 16):
        sc = Sc("fail-caf-alac-%dch" % ch, "failing-open")
        sc.open("h0", "s0", "w", 0x180070, ch, "vio")
        sc.op("w h0 s16 i %d %s" % (ch * 3, "0001" * ch * 3), "write 1")
        sc.close("h0")
        sc.end()
        out.append(sc)
    # ALAC writer whose sf_close cannot write (file size limit reached after the last write call): the spool FILE, its descriptor,
    # the spool file on disk and the packet table are released by alac_close whatever the header re-write answers
    # (and plain closes after 1, 2 and 3 packets went through the spool file)
    for (nfr, ch, limit) in ((0, 1, True), (3, 2, True), (5000, 2, True), (100, 1, False), (4097, 1, False), (8193, 1, False)):
        sc = Sc("alac-close-%s-%d" % ("efbig" if limit else "plain", nfr), "failing-close" if limit else "fixed")
        sc.open("h0", "s0", "w", 0x180070, ch, "path")
        if nfr:
            sc.op("w h0 s16 f %d %s" % (nfr, "".join("%04x" % ((k * 37) & 0xFFFF) for k in range(nfr * ch))), "write 1")
        if limit:
            sc.op("fsize 0", None)
        sc.close("h0")
        if limit:
            sc.op("fsize off", None)
        sc.end()
        out.append(sc)
    return out


# ---- malformed inputs: the library's own output, truncated / mutated / with duplicated chunks ----
def seed_formats(fmts):
    seen, res = set(), []
    for f in fmts:
        key = (f.major, f.codec)
        if key in seen or f.major == 0x16:
            continue
        seen.add(key)
        res.append(f)
    return res


def make_seeds(ctx, fmts):
    scripts = []
    for f in fmts:
        ch = 2 if f.maxch >= 2 else 1
        scripts.append((f.name, c03fuzz.seed_script(f.word, ch, 8000, nframes=40)))
    res = ctx.batch(scripts, env=LEAK_ENV)
    seeds = {}
    for f in fmts:
        lines = res.get(f.name, [])
        d = [l for l in lines if l.startswith("len=") and "hex=" in l]
        if d:
            data = bytes.fromhex(d[-1].split("hex=")[1].strip())
            if data:
                seeds[f.name] = (f, data)
    return seeds


def header_len(f, data):
    """bytes in front of the audio data (upper bound: file length minus the audio of 40 frames for PCM, else everything up to 600)"""
    return min(len(data), 1400)


def gen_malformed(ctx, seeds, rng, per_seed_mut, trunc_step):
    out = []
    for name, (f, data) in sorted(seeds.items()):
        variants = []
        hl = header_len(f, data)
        for n in range(0, hl, trunc_step):
            variants.append(("trunc%d" % n, data[:n]))
        for n in (len(data) - 1, len(data) - 7):
            if n > 0:
                variants.append(("trunc%d" % n, data[:n]))
        f32, f16 = c03fuzz.plausible_fields(data, hl)
        for _ in range(per_seed_mut):
            b = bytearray(data)
            r = rng.random()
            if r < 0.45 and f32:
                off, e = rng.choice(f32)
                struct.pack_into(e + "I", b, off, rng.choice(c03fuzz.LEN_SUBST32))
                tag = "len32@%d" % off
            elif r < 0.6 and f16:
                off, e = rng.choice(f16)
                struct.pack_into(e + "H", b, off, rng.choice(c03fuzz.SUBST16))
                tag = "len16@%d" % off
            elif r < 0.8:
                off = rng.randrange(min(len(b), hl))
                b[off] = rng.choice([0, 0xFF, 0x7F, 0x80, b[off] ^ 1, b[off] ^ 0x20])
                tag = "byte@%d" % off
            else:
                off = rng.randrange(min(len(b), hl))
                for j in range(off, min(off + rng.choice([2, 4, 8]), len(b))):
                    b[j] = rng.randrange(256)
                tag = "noise@%d" % off
            variants.append((tag, bytes(b)))
        wk = c03fuzz.walk_chunks(data)
        if wk:
            hdr, chunks = wk
            for (a, e) in chunks:
                if e - a > 4096:
                    continue
                # the same chunk twice in a row (the parsers must release the first copy's allocation), and moved to the end
                variants.append(("dup@%d" % a, data[:e] + data[a:e] + data[e:]))
                variants.append(("dupend@%d" % a, data + data[a:e]))
                variants.append(("dup3@%d" % a, data[:e] + data[a:e] * 2 + data[e:]))
        group = 6
        for g in range(0, len(variants), group):
            part = variants[g:g + group]
            sc = Sc("mal-%s-%s" % (name, part[0][0]), "malformed")
            sc.variants = part
            sc.fmt = f
            for (tag, blob) in part:
                mode = "r" if rng.random() < 0.8 else "rw"
                route = rng.choice(["vio", "vio", "path", "fd1", "fd0"]) if mode == "r" else rng.choice(["vio", "path", "fd1"])
                sc.op("store s1 %s" % hx(blob))
                sc.op("open h0 s1 %s fmt=%08x ch=%d sr=8000 route=%s ext=x" % (mode, f.word if (f.major == 4 or mode == "rw") else 0, 2 if f.maxch >= 2 else 1, route))
                sc.op("ledger peek h0")
                sc.op("r h0 s16 i 64 q")
                sc.op("chunkiter h0 null")
                sc.op("close h0")
                sc.closes.append(len(sc.h) - 1)
                sc.op("ledger peek h0")
            sc.end()
            out.append(sc)
    return out


def gen_sd2(ctx, rng, n):
    """SD2: the resource fork lives in a second file and is read through a second descriptor"""
    out = []
    for k in range(n):
        fmt = rng.choice([0x160001, 0x160002, 0x160003, 0x160004])
        ch = rng.choice([1, 2])
        sc = Sc("sd2-%d" % k, "sd2-rsrc")
        sc.open("h0", "s0", "w", fmt, ch, "path", ext="sd2")
        sc.op(data_line("h0", ch, 32, rng), "write 1")
        sc.close("h0")
        r = k % 8
        if r == 1:
            sc.op("ledger rsrc s0 sd2 trunc:0")
        elif r == 2:
            sc.op("ledger rsrc s0 sd2 trunc:%d" % rng.randrange(1, 600))
        elif r == 3:
            sc.op("ledger rsrc s0 sd2 flip:%d:%02x" % (rng.randrange(0, 600), rng.randrange(1, 256)))
        elif r == 4:
            sc.op("ledger rsrc s0 sd2 rm")
        elif r == 5:
            sc.op("ledger rsrc s0 sd2 %s" % hx(bytes(rng.randrange(256) for _ in range(rng.choice([1, 16, 300])))))
        elif r == 6:
            for _ in range(3):
                sc.op("ledger rsrc s0 sd2 flip:%d:%02x" % (rng.randrange(0, 300), rng.randrange(1, 256)))
        mode = "rw" if r == 7 else "r"
        sc.open("h1", "s0", mode, fmt, ch, "path", existing=True, frames=True, ext="sd2")
        sc.op("r h1 s16 i %d" % (4 * ch), "other")
        sc.peek("h1")
        sc.close("h1")
        sc.end()
        out.append(sc)
    return out


# ---- which owners a header parser fills, predicted from the bytes of the file (chunk walk) ----
PRED_BITS = {5: "peak", 6: "bext", 7: "cart", 8: "loop", 9: "inst", 10: "cue", 13: "str", 14: "chunkRec"}
WAV_INFO_IDS = {b"ISFT", b"ICOP", b"INAM", b"IART", b"ICMT", b"ICRD", b"IGNR", b"IPRD", b"ITRK"}


def predict_events(data, mode="r"):
    """(set of owner bits among PRED_BITS the parser will fill, number of recorded chunks) for WAV/WAVEX/RF64, AIFF/AIFC and CAF files;
    None for anything else.  Mirrors the chunk switches of wav.c / wavlike.c / aiff.c / caf.c (which chunk id allocates which owner)."""
    n = len(data)
    bits = set()
    if n >= 12 and data[:4] in (b"RIFF", b"RIFX", b"RF64") and data[8:12] == b"WAVE":
        be = data[:4] == b"RIFX"
        pos, nch = 12, 1
        ds64_data = None
        while pos + 8 <= n:
            cid = data[pos:pos + 4]
            size = struct.unpack(">I" if be else "<I", data[pos + 4:pos + 8])[0]
            body = data[pos + 8:pos + 8 + size]
            nch += 1
            if pos + 8 + size > n + 1 and not (cid == b"data" and data[:4] == b"RF64"):
                return None         # a length field that lies (e.g. RIFX + cart: the data length is written little-endian): the parser's recovery is not predicted
            if cid == b"PEAK":
                bits.add(5)
            elif cid == b"bext":
                bits.add(6)
            elif cid == b"cart":
                bits.add(7)
            elif cid == b"acid":
                bits.add(8)
            elif cid == b"smpl":
                bits.add(9)
            elif cid == b"cue ":
                bits.add(10)
            elif cid == b"LIST" and body[:4] == b"INFO":
                q = 4
                while q + 8 <= len(body):
                    sid = body[q:q + 4]
                    ssz = struct.unpack(">I" if be else "<I", body[q + 4:q + 8])[0]
                    if sid in WAV_INFO_IDS and ssz > 0:
                        bits.add(13)
                    q += 8 + ssz + (ssz & 1)
            if cid == b"ds64" and len(body) >= 16:
                ds64_data = struct.unpack("<Q", body[8:16])[0]
            if cid == b"data" and data[:4] == b"RF64" and size == 0xFFFFFFFF:
                if ds64_data is None:
                    break
                size = ds64_data
            pos += 8 + size + (size & 1)
        bits.add(14)
        return bits, nch
    if n >= 12 and data[:4] == b"FORM" and data[8:12] in (b"AIFF", b"AIFC"):
        pos, nch = 12, 1
        while pos + 8 <= n:
            cid = data[pos:pos + 4]
            size = struct.unpack(">I", data[pos + 4:pos + 8])[0]
            nch += 1
            if cid == b"PEAK":
                bits.add(5)
            elif cid == b"basc":
                bits.add(8)
            elif cid == b"INST" and size == 20:
                bits.add(9)
            elif cid == b"MARK":
                cnt = struct.unpack(">H", data[pos + 8:pos + 10])[0] if pos + 10 <= n else 0
                if cnt <= 2500:
                    bits.add(10)
            elif cid in (b"NAME", b"AUTH", b"(c) ", b"ANNO", b"APPL") and size > 0:
                if cid != b"APPL" or data[pos + 8:pos + 12] == b"m3ga":
                    bits.add(13)
            pos += 8 + size + (size & 1)
        bits.add(14)
        if mode == "rw":
            bits.discard(13)        # aiff.c:279 sets strings.flags after the header was read (see CAF below)
        return bits, nch
    if n >= 8 and data[:4] == b"caff":
        pos, nch = 8, 0
        while pos + 12 <= n:
            cid = data[pos:pos + 4]
            size = struct.unpack(">q", data[pos + 4:pos + 12])[0]
            nch += 1
            if cid == b"peak":
                bits.add(5)
            elif cid == b"info" and size > 4:
                body = data[pos + 16:pos + 12 + size]           # after the 32-bit count: key\0value\0 pairs (caf_read_strings)
                parts = body.split(b"\0")
                for j in range(0, len(parts) - 1, 2):
                    if parts[j] in (b"title", b"software", b"copyright", b"artist", b"genre", b"comment", b"comments", b"tracknumber", b"date", b"album", b"license"):
                        bits.add(13)
            if cid == b"data" and size < 0:
                break
            if size < 0:
                break
            pos += 12 + size
        bits.add(14)
        if mode == "rw":
            bits.discard(13)        # caf.c:150 sets strings.flags after the header was read: in RDWR psf_store_string refuses (SFE_STR_NO_SUPPORT) during the parse
        return bits, nch
    return None


# ---- judging ----
def kv(line):
    return dict(re.findall(r"(\w+)=([^ ]*)", line))


def align(sc, lines):
    """transcript lines of the harness ops (the library prints to stdout in a few places: keep harness lines only)"""
    t = [l for l in lines if l.startswith(KEEP)]
    return t


def judge_end(sc, t):
    """property predicate on the implementation's transcript; returns list of reasons"""
    why = []
    bad = [l for l in t if l.startswith(("CRASH", "ABORT", "TIMEOUT"))]
    if bad:
        why.append("sanitizer/crash marker: " + bad[0])
        return why
    left = [l for l in t if l.startswith("open=") and "fdleft=1" in l]
    if left:
        why.append("a descriptor handed to sf_open_fd with close_desc=1 is still open after the call returned: " + left[0])
    end = [l for l in t if l.startswith("balance=")]
    if not end:
        why.append("no `ledger end` line (the run did not complete)")
        return why
    d = kv(end[-1])
    # the block count decides: a leak is at least one block.  (Bytes can differ by the growth of the harness's own line buffer when a
    # script runs through `sfh script` instead of `sfh batch`; a block count of 0 with bytes != 0 is that and nothing else.)
    if d.get("blocks") != "0":
        why.append("heap not released: %s bytes in %s blocks still allocated after the last close" % (d.get("balance"), d.get("blocks")))
    if d.get("lsan") != "0":
        why.append("LeakSanitizer reports unreachable blocks")
    if not d.get("fds", "1").startswith("0"):
        why.append("descriptor(s) left open: " + d.get("fds", ""))
    if not d.get("tmp", "1").startswith("0"):
        why.append("temporary file(s) left behind: " + d.get("tmp", ""))
    return why


def model_script(sc, t):
    """the model's script; read-mode opens take the parse events from the observed mask (the header parsers are relational in the model)"""
    lines = ["== " + sc.name]
    if len(t) != len(sc.h):
        return None
    def at(i):
        hs = [x for x in sc.h[i].split() if re.match(r"^h\d+$", x)]
        return "@%s " % hs[0][1:] if hs else ""
    for (i, ml) in sc.m:
        if isinstance(ml, tuple):
            st = ml[1]
            fmt = st["fmt"]
            major, codec = (fmt >> 16) & 0xFFF, fmt & 0xFFFF
            ok = t[i].startswith("open=ok")
            obs = kv(t[i + 1]) if i + 1 < len(t) else {}
            evs = []
            if ok and (st["mode"] == "r" or (st["mode"] == "rw" and st["existing"])) and obs.get("mask", "closed") != "closed":
                mask = int(obs["mask"], 16)
                cont = cont_class(major)
                pred = None
                if st.get("dump_idx") is not None and "hex=" in t[st["dump_idx"]]:
                    pred = predict_events(bytes.fromhex(t[st["dump_idx"]].split("hex=")[1].strip()), st["mode"])
                if pred is not None:
                    # predicted from the file's bytes: these owner bits do NOT come from the observation (channel map and iterator still do)
                    pbits, nrec = pred
                    mask = (mask & ~sum(1 << b for b in PRED_BITS)) | sum(1 << b for b in pbits)
                    obs = dict(obs, rch=str(nrec))
                    sc.predicted = getattr(sc, "predicted", 0) + 1
                evs += ["chunkRec"] * int(obs.get("rch", "0"))
                for bit, ev in ((5, "peak"), (6, "bext"), (7, "cart"), (8, "loop"), (9, "smpl" if cont in ("wav", "wavex", "rf64") else "inst"),
                                (11, "chanmap"), (13, "str"), (16, "iter")):
                    if mask >> bit & 1:
                        evs.append(ev)
                if mask >> 10 & 1:
                    evs += ["mark", "cue"] if cont == "aiff" else ["cue"]
            route = {"vio": "vio", "path": "path", "fd1": "fd1", "fd0": "fd0"}[st["route"]]
            existing = st["existing"] and st["mode"] == "rw"
            lines.append(at(i) + "open route=%s mode=%s cont=%s codec=%s float=%d existing=%d frames=%d evs=%s fail=%s" % (
                route, st["mode"], cont_class(major), codec_class(major, codec, "parse" if (st["mode"] == "r" or existing) else "rw-empty" if st["mode"] == "rw" else "w"),
                1 if codec in (6, 7) else 0, 1 if existing else 0, 1 if (existing and int(kv(t[i]).get("frames", "0")) > 0) else 0, ",".join(evs) or "-",
                "none" if ok else str(i % 7)))
        elif ml == "write 1":
            # have_written is set once the call got past its own checks (mode, alignment, a write function exists): the call reports that by writing something
            # ... or by failing in the I/O layer (err=2, SFE_SYSTEM: RLIMIT_FSIZE / EBADF scenarios whose header still fitted, e.g. PVF's 15 bytes)
            m = re.match(r"ret=(-?\d+)(?: err=(-?\d+))?", t[i])
            lines.append(at(i) + ("write 1" if (m and (int(m.group(1)) > 0 or m.group(2) == "2")) else "write 0"))
        else:
            lines.append(at(i) + ml)
    return "\n".join(lines) + "\n"


CMP_KEYS = ("mask", "wch", "pay", "fd", "rsrc", "cc", "hw")


def compare(sc, t, mout):
    """first disagreement between `ledger peek` lines and the model's, or None"""
    mpeeks = [l for l in mout if l.startswith("mask=")]
    if len(mpeeks) != len(sc.peek_at):
        return "model produced %d peek lines for %d peeks" % (len(mpeeks), len(sc.peek_at))
    for (pi, (i, hn, st, world)), ml in zip(enumerate(sc.peek_at), mpeeks):
        il = t[i]
        a, b = kv(il), kv(ml)
        if a.get("mask") == "closed" or b.get("mask") == "closed":
            if a.get("mask") != b.get("mask"):
                return "op %d (%s): implementation %s, model %s" % (i, sc.h[i - 1], il, ml)
            keys = ()
        else:
            keys = CMP_KEYS
        for k in keys:
            if k == "fd" and st and st["route"] == "fd0":
                continue        # the borrowed descriptor (close_desc = 0) is not the library's: the model holds no cell for it
            if a.get(k) != b.get(k):
                return "op %d (%s): %s differs: implementation `%s`, model `%s`" % (i, sc.h[i - 1], k, il, ml)
        # live heap blocks: the harness's own blocks (stores, chunk payload copies it must keep until close) are known
        hb = int(a.get("hblocks", 0))
        lib = int(a["blocks"]) - hb - world["nck"]
        want = int(b["blocks"])
        slack = 1 if world["alacw"] else 0       # stdio buffer of ALAC's spool FILE, allocated at its first flush
        if not (want <= lib <= want + slack):
            return "op %d (%s): live heap blocks: implementation %d, model %d  [%s | %s]" % (i, sc.h[i - 1], lib, want, il, ml)
        nfd = int(a.get("nfd", 0))
        wantfd = int(b["fds"]) + world["fd0"] - (1 if (st and st["route"] == "fd0" and a.get("mask") == "closed") else 0)
        if nfd != wantfd:
            return "op %d (%s): open descriptors: implementation %d, model %d  [%s | %s]" % (i, sc.h[i - 1], nfd, wantfd, il, ml)
    last = mpeeks[-1] if mpeeks else ""
    if mpeeks and ("leaked=0,0,0" not in last or "dfree=0" not in last):
        return "model ledger not clean at the end: " + last
    return None


def replay_text(sc, why, t, extra=""):
    return ("# C16: %s\n# scenario %s (%s)\n%s# transcript tail: %s\nc16-scenario\n--- script\n%s" % (
        "; ".join(why), sc.name, sc.kind, extra, " / ".join(t[-3:])[:600], sc.script()))


def run_scripts(ctx, scs):
    res = ctx.batch([(s.name, s.script()) for s in scs], env=LEAK_ENV, op_timeout=20)
    return {s.name: align(s, res.get(s.name, [])) for s in scs}


def rdwr_fpe_class(ctx, script_text):
    """KF-RDWR-FAILED-OPEN-FPE: class = the script's last open attempt is in rw mode; signature = SIGFPE in a *_write_header reached from
    psf_open_file (the stack is only visible when the script runs on its own)"""
    opens = [l for l in script_text.split("\n") if re.match(r"(open \S+ \S+ rw |ledger tryopen \S+ rw )", l)]
    if not opens:
        return False
    lines, rc, err = ctx.script(script_text, env=LEAK_ENV)
    return rc != 0 and "FPE" in err and "_write_header" in err and "psf_open_file" in err


def waive_known(ctx, script_text):
    for kf in ctx.known:
        if kf.get("id") == "KF-RDWR-FAILED-OPEN-FPE" and kf.get("status") == "known" and rdwr_fpe_class(ctx, script_text):
            ctx.known_finding(kf, "%s: %s" % (kf["id"], kf["text"]))
            return True
    return False


def shrink_malformed(ctx, sc, fmt):
    """re-run every variant of a failing malformed group on its own; returns (single-variant scenario, reasons) for the first that fails"""
    singles = []
    for (tag, blob) in sc.variants:
        for mode, route in (("r", "vio"), ("r", "path"), ("rw", "vio"), ("r", "fd1"), ("r", "fd0")):
            s1 = Sc("%s-%s-%s-%s" % (sc.name, tag, mode, route), "malformed")
            s1.op("store s1 %s" % hx(blob))
            s1.op("open h0 s1 %s fmt=%08x ch=%d sr=8000 route=%s ext=x" % (mode, fmt.word if (fmt.major == 4 or mode == "rw") else 0, 2 if fmt.maxch >= 2 else 1, route))
            s1.op("r h0 s16 i 64 q")
            s1.op("chunkiter h0 null")
            s1.op("close h0")
            s1.end()
            singles.append(s1)
    tr = run_scripts(ctx, singles)
    waived = False
    for s1 in singles:
        why = judge_end(s1, tr[s1.name])
        if why and why[0].startswith("sanitizer/crash marker"):
            # an abort must reproduce when the case runs alone (a length field asking for gigabytes aborts only when the machine is short
            # of memory: that is C03's subject, and not a leak)
            lines, rc, err = ctx.script(s1.script(), env=LEAK_ENV, timeout=120)
            if rc == 0 and not judge_end(s1, [l for l in lines if l.startswith(KEEP)]):
                ctx.notes["aborts_not_reproduced_alone"] = ctx.notes.get("aborts_not_reproduced_alone", 0) + 1
                waived = True
                continue
        if why:
            if waive_known(ctx, s1.script()):
                waived = True       # in the class and with the signature of a known finding: look on for a failure that is not
                continue
            return s1, why, tr[s1.name]
    return None, ("waived" if waived else None), None


def shrink_scenario(ctx, sc, why, max_rounds=120):
    """delta debugging over the operations of a failing well-formed scenario: the smallest history (between `ledger begin` and
    `ledger end`) on which the same kind of failure persists.  Peeks are dropped first: they do not act on the library."""
    from .. import scripts as S
    body = [l for l in sc.h[1:] if not l.startswith("ledger peek") and l != "ledger end"]
    key = why[0].split(":")[0]

    def fails(ls):
        # a history in the property's sense ends in sf_close: every handle that is opened must also be closed in the candidate
        opened = set()
        for l in ls:
            tk = l.split()
            if tk[0] == "open":
                opened.add(tk[1])
            elif tk[0] == "close":
                opened.discard(tk[1])
        if opened:
            return False
        text = "\n".join(["ledger begin"] + ls + ["ledger end"]) + "\n"
        lines, rc, err = ctx.script(text, env=LEAK_ENV, timeout=60)
        t = [l for l in lines if l.startswith(KEEP)]
        w = judge_end(sc, t)
        return bool(w) and w[0].split(":")[0] == key

    if not fails(body):
        return None
    small = S.shrink(body, fails, max_rounds=max_rounds)
    s2 = Sc(sc.name + "-min", sc.kind)
    s2.h = ["ledger begin"] + small + ["ledger end"]
    return s2


def replay(ctx, path):
    text = open(path).read()
    if "--- script" not in text:
        print(text)
        ctx.report(path, no_input=True)
        return
    script = text.split("--- script", 1)[1].lstrip("\n")
    lines, rc, err = ctx.script(script, env=LEAK_ENV)
    t = [l for l in lines if l.startswith(KEEP)]
    print("\n".join(t))
    sc = Sc("replay", "replay")
    why = judge_end(sc, t)
    # sf_close returns 0 when the underlying close succeeds (the clause of `run`): every `close hN` whose `open hN` succeeded
    ops = [l for l in script.split("\n") if l.strip()]
    if len(ops) == len(t) and "closefault" not in text and "fault at=" not in script and "fsize" not in script and "ledger closefd" not in script:
        for i, o in enumerate(ops):
            if o.startswith("close "):
                hn = o.split()[1]
                opened = [j for j in range(i) if ops[j].startswith("open %s " % hn)]
                if opened and t[opened[-1]].startswith("open=ok") and not re.match(r"ret=0\b", t[i]):
                    why.append("sf_close returned `%s` on a healthy descriptor" % t[i])
    if rc != 0:
        why.append("harness exit status %d" % rc)
        print(err[-3000:])
    if why:
        print("replay: " + "; ".join(why))
        ctx.report(path)
    else:
        print("replay: balance zero, no descriptor, no temporary file (no violation on this tree)")


def known_findings(ctx):
    """witnesses of `known` entries are replayed every run; while one still fails with its signature the KNOWN-FINDING line is printed"""
    for kf in ctx.known:
        if kf.get("status") != "known" or not kf.get("witness"):
            continue
        path = os.path.join(os.path.dirname(os.path.dirname(os.path.dirname(os.path.abspath(__file__)))), kf["witness"])
        if not os.path.exists(path):
            continue
        text = open(path).read()
        head, script = text.split("--- script", 1)
        res = ctx.batch([("kf", script.lstrip("\n"))], env=LEAK_ENV)
        out = "\n".join(res.get("kf", []))
        want = [l[len("expect-contains "):].strip() for l in head.split("\n") if l.startswith("expect-contains ")]
        ctx.count(1, "known-finding:" + kf["id"])
        if want and all(w in out for w in want):
            ctx.known_finding(kf, "%s: %s" % (kf["id"], kf["text"]))


ALLOC_RE = re.compile(r"[^_a-z](calloc|malloc|realloc|strdup|psf_open_tmpfile|peak_info_calloc|psf_cues_alloc|psf_instrument_alloc|broadcast_var_alloc|cart_var_alloc|gsm_create|psf_memdup)\s*\(")


def site_census(ctx):
    """evidence only: allocation calls per source file of the tree under test next to the rows of the site table (lean/SfModel/LedgerSites.lean)"""
    from .. import build
    lean = open(os.path.join(build.LEAN_DIR, "SfModel", "LedgerSites.lean")).read()
    rows = {}
    for m in re.finditer(r'⟨"([a-z0-9_]+\.c)"', lean):
        rows[m.group(1)] = rows.get(m.group(1), 0) + 1
    census = {}
    src = os.path.join(build.REPO, "src")
    for f in sorted(os.listdir(src)):
        if not f.endswith(".c") or f.startswith(("test_", "ogg", "flac", "mpeg", "windows")):
            continue
        text = re.sub(r"/\*.*?\*/", "", open(os.path.join(src, f), errors="replace").read(), flags=re.S)
        n = len(ALLOC_RE.findall(text))
        if n or f in rows:
            census[f] = {"allocation_calls_in_tree": n, "table_rows": rows.get(f, 0)}
    ctx.notes["allocation_site_census"] = census
    ctx.notes["allocation_files_without_a_table_row"] = sorted(f for f, v in census.items() if v["allocation_calls_in_tree"] and not v["table_rows"])


def run(ctx):
    if getattr(ctx, "replay", None):
        return replay(ctx, ctx.replay)
    quick = ctx.tier == "quick"
    failed = ctx.lean_stage(modules_for("C16"))
    site_census(ctx)
    ctx.run_regressions()
    known_findings(ctx)
    rng = ctx.rng
    fmts = formats.writable_formats(ctx)
    ctx.notes["writable_formats"] = len(fmts)

    scs = []
    scs += gen_wellformed(ctx, fmts, 1 if quick else 4, rng)
    scs += gen_fixed(ctx, rng)
    scs += gen_concurrent(ctx, fmts, rng, 120 if quick else 1200)
    scs += gen_failing(ctx, fmts, rng)
    scs += gen_sd2(ctx, rng, 32 if quick else 160)
    seeds = make_seeds(ctx, seed_formats(fmts))
    ctx.notes["seed_files"] = len(seeds)
    mal = gen_malformed(ctx, seeds, rng, 24 if quick else 200, 3 if quick else 1)
    late_found, late_seeds = lateopen.run_for(ctx, "C16", sys.modules[__name__], fmts)     # malformed inputs rejected AFTER each allocating chunk
    scs += lateopen.prefix_scenarios(sys.modules[__name__], late_seeds, quick, rng)          # ... and their accepted counterparts, peeked
    scs += closefault.scenarios(ctx, sys.modules[__name__], fmts)          # sf_close on failing I/O, every codec: fault at every callback of the close, EFBIG, EBADF
    from .. import c16foreign
    scs += c16foreign.scenarios(ctx, sys.modules[__name__], fmts)          # foreign-but-valid files r / rw (close returns 0), ALAC spool file with an unusable TMPDIR
    allsc = scs + mal
    tr = run_scripts(ctx, allsc)

    found_input = late_found
    kinds = {}
    # ---- property predicate on the implementation's transcripts ----
    nviol = 0
    for sc in allsc:
        t = tr[sc.name]
        kinds[sc.kind] = kinds.get(sc.kind, 0) + 1
        ctx.count(len(sc.h), tag=sc.kind)
        for c in sc.cls:
            ctx.distinct.add(c)
        why = judge_end(sc, t)
        # sf_close returns 0 when the underlying close succeeds (every close in these scenarios is on a healthy descriptor)
        if len(t) == len(sc.h):
            for i in sc.closes:
                hn = sc.h[i].split()[1]
                opened = [j for j in range(i) if sc.h[j].startswith("open %s " % hn)]
                # closing a handle whose open failed passes NULL: sf_close (NULL) is an invalid call, not a failed close
                if opened and t[opened[-1]].startswith("open=ok") and not re.match(r"ret=0\b", t[i]):
                    why.append("sf_close returned `%s` on a healthy descriptor" % t[i])
        if why:
            found_input = True
            nviol += 1
            if nviol > 6:
                continue
            if sc.kind == "malformed":
                s1, w1, t1 = shrink_malformed(ctx, sc, sc.fmt)
                if s1 is not None:
                    ctx.violation("c16-" + s1.name, replay_text(s1, w1, t1))
                    continue
                if w1 == "waived":
                    nviol -= 1
                    continue
            elif nviol <= 3:
                small = shrink_scenario(ctx, sc, why)
                if small is not None:
                    ctx.violation("c16-" + small.name, replay_text(small, why, t, extra="# minimal history (delta debugging over %d operations -> %d)\n" % (len(sc.h), len(small.h))))
                    continue
            ctx.violation("c16-" + sc.name, replay_text(sc, why, t))

    # ---- correspondence: ledger peeks against the model ----
    cands = [sc for sc in scs if sc.m]
    mscripts, ok_scs = [], []
    for sc in cands:
        ms = model_script(sc, tr[sc.name])
        if ms is not None:
            mscripts.append(ms)
            ok_scs.append(sc)
    mout = ctx.run_model(["ledger"], "".join(mscripts)) if mscripts else ""
    per = {}
    cur = None
    for line in mout.split("\n"):
        if line.startswith("== "):
            cur = line[3:]
            per[cur] = []
        elif cur is not None and line:
            per[cur].append(line)
    ndis = 0
    peeks = 0
    for sc in ok_scs:
        d = compare(sc, tr[sc.name], per.get(sc.name, []))
        peeks += len(sc.peek_at)
        ctx.coverage["traces_validated_against_impl"] += 1
        if d is not None:
            ndis += 1
            ctx.notes.setdefault("disagreement_samples", []).append(d[:300]) if ndis <= 400 else None
            if ndis <= 3 and not judge_end(sc, tr[sc.name]):
                ctx.violation("c16-correspondence-" + sc.name,
                              "# C16 correspondence: the ledger model and the library disagree, and the scenario itself ends balanced\n# (no leak, descriptor or temporary file observed): %s\n"
                              "c16-scenario\n--- script\n%s" % (d, sc.script()), no_input=True)
    ctx.notes["peeks_compared"] = peeks
    ctx.notes["read_opens_predicted_from_file_bytes"] = sum(getattr(sc, "predicted", 0) for sc in ok_scs)
    ctx.notes["correspondence_disagreements"] = ndis
    ctx.notes["scenarios_by_kind"] = kinds
    ctx.notes["malformed_variants"] = sum(len(getattr(s, "variants", [])) for s in mal)
    ctx.sample({"scenario": scs[0].name, "script_head": scs[0].h[:8]})
    if mal:
        ctx.sample({"scenario": mal[0].name, "variants": [v[0] for v in mal[0].variants]})

    if failed and not found_input:
        ctx.violation("lean-stage", "theorem(s) no longer check: %s\nno scenario of the campaign leaks on the implementation\n%s"
                      % (", ".join(failed), ctx.notes.get("lean_log_tail", "")), no_input=True)
    ctx.coverage["exhaustive"] = False
    ctx.coverage["rule"] = ("every writable (major, subtype, endian) x route (vio/path/fd close_desc 1/0) x write history of allocating and failing calls x close x re-open r/rw with a history; "
                            "hand-picked repeat/replace histories on the rich containers (40 chunks, 34 strings, repeated sets, sets after audio); failing opens (bad channels, bad mode, empty, garbage, RDWR refusals, ALAC > 8 channels); "
                            "SD2 with damaged resource forks; the library's own output of one file per (major, subtype) truncated every %d header bytes, %d length-field/byte mutations each, every chunk duplicated; "
                            "distinct_nontrivial counts operation classes (op, accepted/refused) and scenario kinds" % (3 if quick else 1, 24 if quick else 200))
    ctx.assumptions.append("allocation failure (malloc returning NULL) is outside the quantifier: the campaign never injects it")
    ctx.assumptions.append("header parsers are relational in the model: a read-mode open takes its parse events from the observed owner mask; what is validated there is the block count, hooks, descriptors and everything after the open")
