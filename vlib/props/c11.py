"""C11 — see DESIGN.md §7."""
from ._write_common import run_common
from ..core import modules_for


def run(ctx):
    q = ctx.tier == "quick"
    if getattr(ctx, "replay", None) and "abs-geom " in open(ctx.replay).read():
        from .. import absreplay
        return absreplay.replay(ctx, ctx.replay)      # a read/write session judged by `sfmodel abs` (vlib/rdwrtail.py run_c11)
    run_common(ctx, "C11", modules_for("C11"), stride=2 if q else 1, l1_scripts=250 if q else 2500)
    if not getattr(ctx, "replay", None):
        from .. import blockedge     # crash points exactly ON / one frame before / one behind a codec block boundary, both update modes (deterministic)
        blockedge.run(ctx, "C11")
        from .. import rawsnap
        rawsnap.run(ctx, "C11")      # sf_write_raw in auto-header mode: every image is a valid file with the frames written so far
        from .. import small4        # SDS whole-file sessions: the image after a header update, byte for byte (lean/SfModel/SdsFile.lean)
        small4.run_sds(ctx, found=bool(ctx.violations))
        from .. import rdwrtail
        rdwrtail.run_c11(ctx)        # read/write sessions on RE-OPENED files (content behind the audio): every write entry point across the old end, update, image
        from .. import blocksnap     # round 9: block codec x SFC_UPDATE_HEADER_NOW between partial blocks, on block edges (vlib/blocksnap.py)
        blocksnap.run(ctx, "C11")
