"""C11 — see DESIGN.md §7."""
from ._write_common import run_common
from ..core import modules_for


def run(ctx):
    q = ctx.tier == "quick"
    run_common(ctx, "C11", modules_for("C11"), stride=2 if q else 1, l1_scripts=250 if q else 2500)
    if not getattr(ctx, "replay", None):
        from .. import rawsnap
        rawsnap.run(ctx, "C11")      # sf_write_raw in auto-header mode: every image is a valid file with the frames written so far
        from .. import small4        # SDS whole-file sessions: the image after a header update, byte for byte (lean/SfModel/SdsFile.lean)
        small4.run_sds(ctx, found=bool(ctx.violations))
