"""C11 — see DESIGN.md §7."""
from ._write_common import run_common


def run(ctx):
    q = ctx.tier == "quick"
    run_common(ctx, "C11", ["SfProps.C11", "SfProps.C04Caf", "SfProps.C04W64", "SfProps.C04Aiff", "SfProps.C04Wavex", "SfProps.C04Rf64"], stride=2 if q else 1, l1_scripts=250 if q else 2500)
    run_common(ctx, "C11", ["SfProps.C11", "SfProps.C04Caf", "SfProps.C04W64", "SfProps.C04Aiff", "SfProps.C04Htk", "SfProps.C04Wve", "SfProps.C04Mpc2k", "SfProps.C04Pvf", "SfProps.C04Mat4"], stride=2 if q else 1, l1_scripts=250 if q else 2500)
