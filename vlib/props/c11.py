"""C11 — see DESIGN.md §7."""
from ._write_common import run_common
from ..core import modules_for


def run(ctx):
    q = ctx.tier == "quick"
    run_common(ctx, "C11", modules_for("C11"), stride=2 if q else 1, l1_scripts=250 if q else 2500)
    run_common(ctx, "C11", ["SfProps.C11", "SfProps.C04Caf", "SfProps.C04W64", "SfProps.C04Aiff", "SfProps.C04Avr", "SfProps.C04Ircam", "SfProps.C04Paf", "SfProps.C04Svx"], stride=2 if q else 1, l1_scripts=250 if q else 2500)
