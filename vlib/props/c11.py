"""C11 — see DESIGN.md §7."""
from ._write_common import run_common
from ..core import modules_for


def run(ctx):
    q = ctx.tier == "quick"
    run_common(ctx, "C11", modules_for("C11"), stride=2 if q else 1, l1_scripts=250 if q else 2500)
