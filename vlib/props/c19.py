"""C19 — handles are isolated from each other and from earlier library use.

Lean: SfModel/World.lean (`Sf.World.wstep`: slot table, stores, process-wide state), theorems SfProps/C19.lean.
A. correspondence: seeded merges of 2-8 RAW/AU/WAV histories (plus failing opens, NULL-handle calls, sf_error probes),
   implementation transcript == `sfmodel world` transcript, line by line, including what sf_error (NULL) shows.
B. the property on the implementation's own transcripts, every writable format: each workload alone in a fresh process
   vs. merged with 1-7 others (round-robin, bursts, uniform merges; ALL merges of two short scripts), per-handle
   transcript and final store digests compared; the same after a long unrelated prelude in the same process.
"""
import collections, os, re, shutil, tempfile, time

from .. import scripts as S, worldcamp as WC, formats
from ..core import Violation

MODULES = ["SfProps.C19"]

A_NOISE = ["strerror null", "strerror h0", "open h8 s7 r fmt=00040002 ch=0 sr=8000", "open h8 s7 w fmt=00010002 ch=0 sr=8000",
           "open h8 s7 rw fmt=00030002 ch=2000 sr=8000", "cmd h0 1002 4 zero", "seek h8 0 0", "close h8", "w h8 s16 i 0",
           "info h8", "strerror h8", "w h8 s16 i 2 00010002", "cmd h8 1013 1 null", "strerror null"]


def gen_l1_actor(rng, max_ops=10):
    fmts = S.l1_formats()
    fe = rng.choice(fmts)
    base = WC.lines_of(WC.single_slot(S.gen_rw_script(rng, fe, max_ops=max_ops)))
    out = []
    for l in base:
        out.append(l)
        if rng.random() < 0.25:
            out.append(rng.choice(A_NOISE))
    return out, fe


def gen_l1_merged(ctx, n):
    """n merged scripts: list of (name, text, meta) with meta = (parts, order)"""
    rng = ctx.rng
    res = []
    for j in range(n):
        nw = rng.choice([2, 2, 2, 3, 4, 6, 8])
        parts, names = [], []
        for k in range(nw):
            lines, fe = gen_l1_actor(rng, max_ops=rng.choice([6, 10, 14]))
            parts.append([WC.rename_line(l, k) for l in lines])
            names.append(fe[0])
        how = rng.choice(["roundrobin", "uniform", "bursts", "bursts"])
        order = WC.merge_order(rng, [len(p) for p in parts], how)
        merged, owners = WC.weave(parts, order)
        res.append(("m%d-%dx-%s-%s" % (j, nw, how, "+".join(names)), "\n".join(merged) + "\n", (parts, owners)))
    return res


def run_world_model(ctx, scripts, workers=8):
    import concurrent.futures
    chunks = [scripts[i::workers] for i in range(workers)]
    chunks = [c for c in chunks if c]

    def one(chunk):
        inp = "".join("== %s\n%s%s" % (n, t, "" if t.endswith("\n") else "\n") for (n, t) in chunk)
        out = ctx.run_model(["world"], inp, timeout=3600)
        res, cur = {}, None
        for line in out.split("\n"):
            if line.startswith("== end"):
                cur = None
            elif line.startswith("== "):
                cur = line[3:]
                res[cur] = []
            elif cur is not None:
                res[cur].append(line)
        return res

    out = {}
    with concurrent.futures.ThreadPoolExecutor(max_workers=len(chunks) or 1) as ex:
        for r in ex.map(one, chunks):
            out.update(r)
    return out


GCONST = {}


def measure_constants(ctx):
    """the two values of sf_errno the model names (SFE_BAD_SNDFILE_PTR, SFE_BAD_COMMAND_PARAM), read off the library"""
    out = ctx.batch([("consts", "seek h0 0 0\nopen h0 s0 w fmt=00040002 ch=1 sr=8000\ncmd h0 1002 4 zero\nstrerror null\n")])["consts"]
    GCONST["PTR"] = re.search(r"err=(-?\d+)", out[0]).group(1)
    GCONST["PARAM"] = re.search(r"err=(-?\d+)", out[3]).group(1)
    return dict(GCONST)


def norm_world(op, line, model_line=""):
    for sym in ("PTR", "PARAM"):
        if "err=" + sym in model_line and sym in GCONST:
            line = re.sub(r"err=%s\b" % re.escape(GCONST[sym]), "err=" + sym, line)
    line = S.normalise(line)
    if op.startswith("cmd ") and " 1002 " in op:
        line = re.sub(r"ret=(?!0\b)-?\d+", "ret=E", line)
    return line


def first_diff_world(script, impl, model):
    """first line where the model makes a claim (not `unmodelled`) and the implementation says something else"""
    sl = WC.lines_of(script)
    for k in range(max(len(impl), len(model), len(sl))):
        m = model[k] if k < len(model) else "<missing>"
        if m == "unmodelled":
            continue
        i = impl[k] if k < len(impl) else "<missing>"
        op = sl[k] if k < len(sl) else ""
        if norm_world(op, i, m) != norm_world(op, m):
            return k
    return None


def run(ctx):
    raise NotImplementedError
