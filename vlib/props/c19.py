"""C19 — handles are isolated from each other and from earlier library use.

Lean: SfModel/World.lean (`Sf.World.wstep`: slot table, stores, process-wide state), theorems SfProps/C19.lean.
A. correspondence: seeded merges of 2-8 RAW/AU/WAV histories (plus failing opens, NULL-handle calls, sf_error probes),
   implementation transcript == `sfmodel world` transcript, line by line, including what sf_error (NULL) shows.
B. the property on the implementation's own transcripts, every writable format: each workload alone in a fresh process
   vs. merged with 1-7 others (round-robin, bursts, uniform merges; ALL merges of two short scripts), per-handle
   transcript and final store digests compared; the same after a long unrelated prelude in the same process.
"""
import collections, os, re, shutil, tempfile, time

from .. import scripts as S, worldcamp as WC, formats, fdworld
from ..core import Violation, modules_for

MODULES = modules_for("C19")

A_NOISE = ["strerror null", "strerror h0", "open h8 s7 r fmt=00040002 ch=0 sr=8000", "open h8 s7 w fmt=00010002 ch=0 sr=8000",
           "open h8 s7 rw fmt=00030002 ch=2000 sr=8000", "cmd h0 1002 4 zero", "seek h8 0 0", "close h8", "w h8 s16 i 0",
           "info h8", "strerror h8", "w h8 s16 i 2 00010002", "cmd h8 1013 1 null", "strerror null"]


def gen_l1_actor(rng, max_ops=10):
    fmts = S.l1_formats()
    fe = rng.choice(fmts)
    base = WC.lines_of(WC.single_slot(S.gen_rw_script(rng, fe, max_ops=max_ops)))
    out = []
    for l in base:
        out.append(l)
        if rng.random() < 0.25:
            out.append(rng.choice(A_NOISE))
    return out, fe


def gen_l1_merged(ctx, n):
    """n merged scripts: list of (name, text, meta) with meta = (parts, order)"""
    rng = ctx.rng
    res = []
    for j in range(n):
        nw = rng.choice([2, 2, 2, 3, 4, 6, 8])
        parts, names = [], []
        for k in range(nw):
            lines, fe = gen_l1_actor(rng, max_ops=rng.choice([6, 10, 14]))
            parts.append([WC.rename_line(l, k) for l in lines])
            names.append(fe[0])
        how = rng.choice(["roundrobin", "uniform", "bursts", "bursts"])
        order = WC.merge_order(rng, [len(p) for p in parts], how)
        merged, owners = WC.weave(parts, order)
        res.append(("m%d-%dx-%s-%s" % (j, nw, how, "+".join(names)), "\n".join(merged) + "\n", (parts, owners)))
    return res


def run_world_model(ctx, scripts, workers=8):
    import concurrent.futures
    chunks = [scripts[i::workers] for i in range(workers)]
    chunks = [c for c in chunks if c]

    def one(chunk):
        inp = "".join("== %s\n%s%s" % (n, t, "" if t.endswith("\n") else "\n") for (n, t) in chunk)
        out = ctx.run_model(["world"], inp, timeout=3600)
        res, cur = {}, None
        for line in out.split("\n"):
            if line.startswith("== end"):
                cur = None
            elif line.startswith("== "):
                cur = line[3:]
                res[cur] = []
            elif cur is not None:
                res[cur].append(line)
        return res

    out = {}
    with concurrent.futures.ThreadPoolExecutor(max_workers=len(chunks) or 1) as ex:
        for r in ex.map(one, chunks):
            out.update(r)
    return out


GCONST = {}


def measure_constants(ctx):
    """the two values of sf_errno the model names (SFE_BAD_SNDFILE_PTR, SFE_BAD_COMMAND_PARAM), read off the library"""
    out = ctx.batch([("consts", "seek h0 0 0\nopen h0 s0 w fmt=00040002 ch=1 sr=8000\ncmd h0 1002 4 zero\nstrerror null\n")])["consts"]
    GCONST["PTR"] = re.search(r"err=(-?\d+)", out[0]).group(1)
    GCONST["PARAM"] = re.search(r"err=(-?\d+)", out[3]).group(1)
    return dict(GCONST)


def norm_world(op, line, model_line=""):
    for sym in ("PTR", "PARAM"):
        if "err=" + sym in model_line and sym in GCONST:
            line = re.sub(r"err=%s\b" % re.escape(GCONST[sym]), "err=" + sym, line)
    line = S.normalise(line)
    if op.startswith("cmd ") and " 1002 " in op:
        line = re.sub(r"ret=(?!0\b)-?\d+", "ret=E", line)
    return line


def first_diff_world(script, impl, model):
    """first line where the model makes a claim (not `unmodelled`) and the implementation says something else"""
    sl = WC.lines_of(script)
    for k in range(max(len(impl), len(model), len(sl))):
        m = model[k] if k < len(model) else "<missing>"
        if m == "unmodelled":
            continue
        i = impl[k] if k < len(impl) else "<missing>"
        op = sl[k] if k < len(sl) else ""
        if norm_world(op, i, m) != norm_world(op, m):
            return k
    return None



# ---------------------------------------------------------------------------------------------------
# B: the property on the implementation's own transcripts
# ---------------------------------------------------------------------------------------------------

INTERESTING = {0x12: "ima", 0x13: "ms", 0x20: "gsm610", 0x21: "vox", 0x22: "nms16", 0x23: "nms24", 0x24: "nms32", 0x30: "g721", 0x31: "g723_24",
               0x32: "g723_40", 0x40: "dwvw12", 0x41: "dwvw16", 0x42: "dwvw24", 0x70: "alac16", 0x71: "alac20", 0x72: "alac24", 0x73: "alac32",
               0x06: "float", 0x07: "double", 0x50: "dpcm8", 0x51: "dpcm16", 0x10: "ulaw", 0x11: "alaw"}


def is_interesting(f):
    return f.codec in INTERESTING or f.major in (0x11, 0x05)     # SDS, PAF


class Workload:
    count = 0

    def __init__(self, fmt, ch, text, kind=""):
        self.fmt, self.ch, self.text, self.kind = fmt, ch, text, kind
        Workload.count += 1
        self.uid = Workload.count
        self.lines = WC.lines_of(text)

    def renamed(self, k):
        return [WC.rename_line(l, k) for l in self.lines]


def canon(op_lines, out_lines):
    """per-workload transcript in the form that must not depend on the other handles"""
    nulls = WC.track_null_slots(op_lines, out_lines)
    out_lines = WC.trim_reads(op_lines, out_lines)
    return [WC.mask_line(op, out, ns) for op, out, ns in zip(op_lines, out_lines, nulls)]


def compare(solo_ops, solo_out, merged_ops, merged_out):
    """first index (in the workload's own numbering) where the canonical transcripts differ, or None"""
    a, b = canon(solo_ops, solo_out), canon(merged_ops, merged_out)
    for k in range(max(len(solo_ops), len(a), len(b))):
        x = a[k] if k < len(a) else "<missing>"
        y = b[k] if k < len(b) else "<missing>"
        if x != y:
            return k, x, y
    return None


def dead(lines):
    return [l for l in lines if l.startswith(("CRASH", "ABORT", "TIMEOUT"))]


class Group:
    """2..8 workloads and one merge order"""
    def __init__(self, name, wls, order, how):
        self.name, self.wls, self.order, self.how = name, wls, order, how
        self.parts = [w.renamed(k) for k, w in enumerate(wls)]
        self.merged, self.owners = WC.weave(self.parts, order)

    def text(self):
        return "\n".join(self.merged) + "\n"


def replay_text(title, why, solo_name, solo_lines, merged_lines, owners, k):
    return ("# %s\n# %s\n# compare: the lines of workload %d (handles h%d/h%d, stores s%d..s%d) in the merged run with the solo run in a fresh process\n"
            "c19-compare workload=%d\nowners %s\n--- solo %s\n%s\n--- script\n%s\n"
            % (title, why, k, k, k + 8, 8 * k, 8 * k + 7, k, " ".join(str(o) for o in owners), solo_name, "\n".join(solo_lines), "\n".join(merged_lines)))


def run_pair(ctx, env, solo_lines, merged_lines, owners, k):
    """runs the solo script and the merged script, each in a fresh process; returns compare() result and the outputs"""
    out = ctx.batch([("solo", "\n".join(solo_lines) + "\n"), ("merged", "\n".join(merged_lines) + "\n")], clean=True, env=env, workers=2)
    so, mo = out.get("solo", []), out.get("merged", [])
    mine_ops = WC.project(merged_lines, owners, k)
    mine_out = WC.project(mo + ["<missing>"] * (len(merged_lines) - len(mo)), owners, k)
    return compare(solo_lines, so, mine_ops, mine_out), so, mo


def shrink_failure(ctx, env, g, k, budget=40):
    """minimal pair of scripts and merge: keep workload k whole, find one other workload that still disturbs it, then drop
    lines of that workload while the disturbance persists"""
    solo = g.parts[k]
    t0 = time.time()
    best = (g.merged, g.owners)
    others = [j for j in range(len(g.parts)) if j != k]
    for j in others:
        if time.time() - t0 > budget:
            break
        keep = [(l, o) for l, o in zip(g.merged, g.owners) if o in (j, k)]
        ml, ow = [x[0] for x in keep], [x[1] for x in keep]
        d, _, _ = run_pair(ctx, env, solo, ml, ow, k)
        if d is not None:
            best = (ml, ow)
            break
    ml, ow = best
    # drop lines of the other workloads (never of k) while k is still disturbed
    idx = [i for i in range(len(ml)) if ow[i] != k]

    def still(keep_idx):
        keep = set(keep_idx)
        m2 = [l for i, l in enumerate(ml) if ow[i] == k or i in keep]
        o2 = [o for i, o in enumerate(ow) if o == k or i in keep]
        d, _, _ = run_pair(ctx, env, solo, m2, o2, k)
        return d is not None

    if idx and time.time() - t0 < budget:
        rounds = [0]

        def pred(c):
            rounds[0] += 1
            return time.time() - t0 < budget and still(c)
        small = S.shrink(idx, pred, max_rounds=60)
        if small and still(small):
            keep = set(small)
            ml, ow = [l for i, l in enumerate(ml) if ow[i] == k or i in keep], [o for i, o in enumerate(ow) if o == k or i in keep]
    return ml, ow


def make_workloads(ctx, fs, per_format, short=False):
    rng = ctx.rng
    wls = []
    for f in fs:
        for _ in range(per_format):
            ch = rng.choice(sorted(set(min(c, f.maxch) for c in (1, 2, 2, 3))))
            wls.append(Workload(f, ch, WC.gen_workload(rng, f, ch, nops=8), ""))
    return wls


def make_groups(ctx, wls, merges_per_group):
    """partitions the workloads into groups of 2..8 (mixed formats), plus same-format pairs; each group gets several merges"""
    rng = ctx.rng
    pool = list(wls)
    rng.shuffle(pool)
    groups = []
    gi = 0
    while pool:
        n = min(len(pool), rng.choice([2, 2, 3, 4, 5, 8]))
        if len(pool) - n == 1:
            n += 1
        if n > WC.MAXW:
            n = WC.MAXW
        chunk, pool = pool[:n], pool[n:]
        if len(chunk) < 2:
            chunk.append(rng.choice(wls))
        lens = [len(w.lines) for w in chunk]
        hows = ["roundrobin"] + [rng.choice(["uniform", "bursts", "bursts", "reverse"]) for _ in range(merges_per_group - 1)]
        for mi, how in enumerate(hows):
            groups.append(Group("g%d-m%d-%s" % (gi, mi, how), chunk, WC.merge_order(rng, lens, how), how))
        gi += 1
    return groups


def rep_formats(ctx, fs, by_codec=False):
    """one format (random endian variant, random container when by_codec) per (container, encoding) of the interesting set:
    block codecs, float/double (PEAK), G.711 tables, DPCM, SDS, PAF"""
    rng = ctx.rng
    reps = {}
    for f in fs:
        if is_interesting(f):
            reps.setdefault(f.codec if by_codec and f.major not in (0x11, 0x05) else (f.major, f.codec), []).append(f)
    return [rng.choice(v) for k, v in sorted(reps.items(), key=lambda kv: str(kv[0]))]


def twin_groups(ctx, fs, rounds):
    """two (or three) live handles of the SAME encoding with different data: where a codec keeping stream state in a static
    would show.  Every (container, encoding) of the interesting set, every run."""
    rng = ctx.rng
    groups = []
    gi = 0
    for _ in range(rounds):
        for f in rep_formats(ctx, fs):
            ch = min(f.maxch, rng.choice([1, 2]))
            m = rng.choice([2, 2, 3])
            chunk = [Workload(f, ch, WC.gen_workload(rng, f, ch, kind=rng.choice(["w", "rs"]), nops=6)) for _ in range(m)]
            lens = [len(w.lines) for w in chunk]
            for how in ("roundrobin", rng.choice(["bursts", "uniform"])):
                groups.append(Group("twin%d-%s-%s" % (gi, f.name, how), chunk, WC.merge_order(rng, lens, how), how))
            gi += 1
    return groups


def short_script(rng, f, ch, filehex=None):
    """at most 4 library calls (+ a digest of the store afterwards, which is not a library call)"""
    sr = 8000
    b = WC.block_hint(f)
    n = rng.choice([1, b, b + 1, 2 * b + 3])
    n = min(n, 700)
    vox = False      # KF-VOX-ODD is repaired: OKI/VOX takes odd item counts like every other codec
    if vox:
        n += (n * ch) % 2 + 2
    ty = rng.choice(["s16", "s32", "f32"])
    if filehex is None:
        k = rng.randrange(1, n + 1)
        if vox:
            k = 2
        L = ["open h0 s0 w fmt=%08x ch=%d sr=%d" % (f.word, ch, sr),
             S.w_line("h0", ty, "f", k, WC.values_for(rng, f, ty, k * ch))]
        if n - k > 0:
            L.append(S.w_line("h0", ty, "f", n - k, WC.values_for(rng, f, ty, (n - k) * ch)))
        L.append("close h0")
    else:
        raw = f.major == 0x04
        L = [("open h0 s0 r fmt=%08x ch=%d sr=%d" % (f.word, ch, sr)) if raw else "open h0 s0 r",
             "r h0 %s f %d" % (ty, rng.choice([1, b, b + 1]) if not vox else 2),
             rng.choice(["seek h0 0 0", "seek h0 1 0", "r h0 %s f %d" % (ty, 3 if not vox else 4)]),
             "r h0 %s f %d" % (rng.choice(S.TYS), n + 5 if not vox else n + 6)]
    return L


def run_all_merges(ctx, env, fs, npairs, findings):
    """ALL interleavings of two short scripts (4 calls each: C(8,4) = 70 merges), same and different encodings"""
    rng = ctx.rng
    pick = [f for f in fs if is_interesting(f)]
    stats = collections.Counter()
    # files for the reader scripts
    seeds = []
    for _ in range(npairs * 2):
        f = rng.choice(pick)
        ch = min(f.maxch, rng.choice([1, 2]))
        seeds.append((f, ch))
    wr = [("file%d" % i, "\n".join(short_script(rng, f, ch) + ["dump s0"]) + "\n") for i, (f, ch) in enumerate(seeds)]
    out = ctx.batch(wr, clean=True, env=env)
    files = {}
    for i, (f, ch) in enumerate(seeds):
        d = [l for l in out.get("file%d" % i, []) if l.startswith("len=") and "hex=" in l]
        if d:
            files[i] = d[-1].split("hex=")[1]
    pairs = []
    for p in range(npairs):
        same = rng.random() < 0.6
        i0 = rng.randrange(len(seeds))
        f0, c0 = seeds[i0]
        if same:
            f1, c1, i1 = f0, c0, i0
        else:
            i1 = rng.randrange(len(seeds))
            f1, c1 = seeds[i1]
        a = short_script(rng, f0, c0, files.get(i0) if rng.random() < 0.5 else None)
        b = short_script(rng, f1, c1, files.get(i1) if rng.random() < 0.5 else None)
        pre_a = ["store s0 " + files[i0]] if a[0].endswith(" r") or " r fmt=" in a[0] else []
        pre_b = ["store s0 " + files[i1]] if b[0].endswith(" r") or " r fmt=" in b[0] else []
        pairs.append((p, f0, f1, pre_a, a, pre_b, b))
    scripts, meta = [], {}
    for (p, f0, f1, pre_a, a, pre_b, b) in pairs:
        A = [WC.rename_line(l, 0) for l in a]
        B = [WC.rename_line(l, 1) for l in b]
        PA = [WC.rename_line(l, 0) for l in pre_a]
        PB = [WC.rename_line(l, 1) for l in pre_b]
        tailA, tailB = ["dump s0 sum"], ["dump s8 sum"]
        scripts.append(("am%d-soloA" % p, "\n".join(PA + A + tailA) + "\n"))
        scripts.append(("am%d-soloB" % p, "\n".join(PB + B + tailB) + "\n"))
        for mi, order in enumerate(WC.all_orders(len(A), len(B))):
            merged, owners = WC.weave([A, B], order)
            full = PA + PB + merged + tailA + tailB
            own = [0] * len(PA) + [1] * len(PB) + owners + [0, 1]
            name = "am%d-m%d" % (p, mi)
            scripts.append((name, "\n".join(full) + "\n"))
            meta[name] = (p, full, own)
        stats["pairs"] += 1
        ctx.distinct.add("allmerges:%s+%s" % (f0.name, f1.name))
    out = ctx.batch(scripts, clean=True, env=env)
    for name, (p, full, own) in meta.items():
        stats["merges"] += 1
        mo = out.get(name, [])
        (_, f0, f1, pre_a, a, pre_b, b) = pairs[p]
        for k, sname in ((0, "am%d-soloA" % p), (1, "am%d-soloB" % p)):
            solo_ops = WC.lines_of(dict(scripts)[sname])
            so = out.get(sname, [])
            stats["comparisons"] += 1
            if dead(out.get("am%d-soloA" % p, [])) or dead(out.get("am%d-soloB" % p, [])):
                stats["pairs_dying_alone"] += 1
                continue
            mine_ops = WC.project(full, own, k)
            mine_out = WC.project(mo + ["<missing>"] * (len(full) - len(mo)), own, k)
            d = compare(solo_ops, so, mine_ops, mine_out)
            if d is not None or dead(mo):
                findings.append(dict(kind="allmerges", name=name, k=k, fmt=(f0, f1)[k], other=(f1, f0)[k], solo=solo_ops, merged=full, owners=own,
                                     diff=d, dead=dead(mo), solo_out=so, merged_out=mo))
    return stats


def prelude_script(ctx, fs, stride):
    """a long unrelated use of the library in name space 7: failing opens, NULL-handle calls, and every encoding once
    (write a block or two, close, re-open, read, close)"""
    rng = ctx.rng
    L = ["open h0 s0 r", "strerror null", "seek h8 0 0", "open h0 s0 w fmt=7fff0002 ch=1 sr=8000", "cmd null 1001 64 zero",
         "open h0 s0 rw fmt=00010012 ch=1 sr=8000", "strerror null"]
    n = 0
    for f in fs[rng.randrange(stride)::stride] if stride > 1 else fs:
        ch = min(f.maxch, 2)
        b = WC.block_hint(f)
        fr = min(b + 3, 600)
        L.append("open h0 s0 w fmt=%08x ch=%d sr=8000" % (f.word, ch))
        L.append(S.w_line("h0", "s16", "f", fr, WC.values_for(rng, f, "s16", fr * ch)))
        L.append("close h0")
        L.append(("open h0 s0 r fmt=%08x ch=%d sr=8000" % (f.word, ch)) if f.major == 0x04 else "open h0 s0 r")
        L.append("r h0 s32 f %d" % (fr + 2))
        L.append("close h0")
        if rng.random() < 0.1:
            L.append("open h8 s1 r")
        n += 1
    L.append("open h8 s1 w fmt=00010002 ch=0 sr=8000")
    return [WC.rename_line(l, 7) for l in L], n


def b_campaign(ctx, env):
    rng = ctx.rng
    quick = ctx.tier == "quick"
    fs = [f for f in formats.writable_formats(ctx) if f.major != 0x16]
    findings = []
    stats = collections.Counter()
    stats["formats"] = len(fs)
    # ---- B1: groups of 2..8 mixed workloads, several merges each; twins of one encoding ----
    wls = make_workloads(ctx, fs, 1 if quick else 3)
    # a workload that does not survive on its own (sanitizer abort, crash, time-out) is some other property's finding and says
    # nothing about isolation: it is reported in the evidence and left out of the merges
    pre_out = ctx.batch([("alone%d" % i, w.text) for i, w in enumerate(wls)], clean=True, env=env, workers=4)
    dying = [w for i, w in enumerate(wls) if dead(pre_out.get("alone%d" % i, []))]
    stats["solo_dies"] = len(dying)
    ctx.notes["B_workloads_dying_alone"] = sorted(set("%s c%d" % (w.fmt.name, w.ch) for w in dying))[:20]
    wls = [w for w in wls if w not in dying]
    groups = make_groups(ctx, wls, 2 if quick else 4) + twin_groups(ctx, fs, 1 if quick else 4)
    from .. import spoolcamp                         # live handles with a second file of their own (ALAC spool), more than one packet each
    sp = spoolcamp.groups(ctx, fs, Workload, Group)
    stats["spool_twin_groups"] = len(sp)
    groups += sp
    solo_scripts = {}
    for g in groups:
        for k, w in enumerate(g.wls):
            solo_scripts[(w.uid, k)] = ("solo-%d-%d" % (w.uid, k), "\n".join(g.parts[k]) + "\n")
    batch = list({v[0]: v for v in solo_scripts.values()}.values()) + [(g.name, g.text()) for g in groups]
    assert len(set(n for n, _ in batch)) == len(batch), "script names must be unique"
    out = ctx.batch(batch, clean=True, env=env, workers=4)
    for g in groups:
        mo = out.get(g.name, [])
        stats["merged_scripts"] += 1
        stats["merged_ops"] += len(g.merged)
        stats["max_handles"] = max(stats["max_handles"], len(g.wls))
        ctx.distinct.add("merge:%d:%s" % (len(g.wls), g.how))
        for k, w in enumerate(g.wls):
            sname = solo_scripts[(w.uid, k)][0]
            so = out.get(sname, [])
            stats["comparisons"] += 1
            ctx.distinct.add("fmt:" + w.fmt.name)
            mine_ops = g.parts[k]
            mine_out = WC.project(mo + ["<missing>"] * (len(g.merged) - len(mo)), g.owners, k)
            if dead(so):
                # (twins are generated after the filter above) the workload fails on its own: not an isolation matter
                stats["solo_dies"] += 1
                continue
            if dead(mo) and any(dead(out.get(solo_scripts[(x.uid, j)][0], [])) for j, x in enumerate(g.wls)):
                stats["groups_skipped_member_dies_alone"] += 1
                break
            d = compare(g.parts[k], so, mine_ops, mine_out)
            if d is not None:
                findings.append(dict(kind="group", name=g.name, k=k, fmt=w.fmt, group=g, diff=d, dead=dead(mo), solo=g.parts[k], merged=g.merged,
                                     owners=g.owners, solo_out=so, merged_out=mo))
    # ---- B2: all merges of two short scripts ----
    st2 = run_all_merges(ctx, env, fs, 8 if quick else 60, findings)
    stats["allmerge_pairs"], stats["allmerge_scripts"] = st2["pairs"], st2["merges"]
    stats["comparisons"] += st2["comparisons"]
    # ---- B3: earlier use of the library in the same process ----
    pre, ncodecs = prelude_script(ctx, fs, 1)
    stats["prelude_lines"], stats["prelude_formats"] = len(pre), ncodecs
    # one workload per interesting encoding (so that the prelude has used that very codec before), plus a few others
    picks = []
    for _ in range(1 if quick else 3):
        for f in rep_formats(ctx, fs, by_codec=True):
            ch = min(f.maxch, rng.choice([1, 2]))
            picks.append(Workload(f, ch, WC.gen_workload(rng, f, ch, kind=rng.choice(["w", "rs"]), nops=6)))
    picks += rng.sample(wls, min(len(wls), 6 if quick else 40))
    scripts = []
    for i, w in enumerate(picks):
        mine = w.renamed(0)
        scripts.append(("pre%d-solo" % i, "\n".join(mine) + "\n"))
        scripts.append(("pre%d-after" % i, "\n".join(pre + mine) + "\n"))
    out = ctx.batch(scripts, clean=True, env=env, workers=4)
    for i, w in enumerate(picks):
        mine = w.renamed(0)
        so, ao = out.get("pre%d-solo" % i, []), out.get("pre%d-after" % i, [])
        stats["prelude_runs"] += 1
        stats["comparisons"] += 1
        if dead(so):
            continue
        full = pre + mine
        own = [7] * len(pre) + [0] * len(mine)
        d = compare(mine, so, mine, WC.project(ao + ["<missing>"] * (len(full) - len(ao)), own, 0))
        if d is not None:
            findings.append(dict(kind="prelude", name="pre%d" % i, k=0, fmt=w.fmt, diff=d, dead=dead(ao), solo=mine, merged=full, owners=own,
                                 solo_out=so, merged_out=ao))
    return findings, stats, groups


def report_finding(ctx, env, f, n):
    k = f["k"]
    d = f["diff"]
    merged, owners = f["merged"], f["owners"]
    if f["kind"] == "group":
        try:
            merged, owners = shrink_failure(ctx, env, f["group"], k)
        except Exception:
            merged, owners = f["merged"], f["owners"]
    what = ("line %d of the workload (%s): alone it answers `%s`, with the other handles live it answers `%s`"
            % (d[0], f["solo"][d[0]][:70] if d and d[0] < len(f["solo"]) else "?", d[1][:160], d[2][:160])) if d else "the merged run died: %s" % f["dead"]
    title = {"group": "a handle behaves differently when calls on other handles are interleaved with its own",
             "allmerges": "a handle behaves differently under one of the 70 interleavings with a second short script",
             "prelude": "a handle behaves differently after earlier, unrelated use of the library in the same process"}[f["kind"]]
    ctx.violation("c19-%s-%s-%d" % (f["kind"], f["fmt"].name, n),
                  replay_text("C19 violated: " + title, "format %s; %s" % (f["fmt"].name, what), f["name"], f["solo"], merged, owners, k))


def replay(ctx, path):
    text = open(path).read()
    if "c19-fdworld" in text and "--- script" in text:
        tmp = tempfile.mkdtemp(prefix="c19-", dir="/var/tmp")
        try:
            return fdworld.replay(ctx, path, {"TMPDIR": tmp, "SFH_SCRATCH": tmp})
        finally:
            shutil.rmtree(tmp, ignore_errors=True)
    if "c19-heapcodec" in text:
        from .. import heapcodec
        tmp = tempfile.mkdtemp(prefix="c19-", dir="/var/tmp")
        try:
            return heapcodec.replay(ctx, path, {"TMPDIR": tmp, "SFH_SCRATCH": tmp})
        finally:
            shutil.rmtree(tmp, ignore_errors=True)
    if "c19-heapfill" in text:
        from .. import heapcamp
        tmp = tempfile.mkdtemp(prefix="c19-", dir="/var/tmp")
        try:
            return heapcamp.replay(ctx, path, {"TMPDIR": tmp, "SFH_SCRATCH": tmp})
        finally:
            shutil.rmtree(tmp, ignore_errors=True)
    if "--- solo" not in text:
        return ctx.replay_script(path)
    head, rest = text.split("--- solo", 1)
    solo_part, merged_part = rest.split("--- script", 1)
    solo = WC.lines_of(solo_part.split("\n", 1)[1])
    merged = WC.lines_of(merged_part)
    k = int(re.search(r"c19-compare workload=(\d+)", head).group(1))
    owners = [int(x) for x in re.search(r"^owners (.*)$", head, re.M).group(1).split()]
    tmp = tempfile.mkdtemp(prefix="c19-", dir="/var/tmp")
    try:
        d, so, mo = run_pair(ctx, {"TMPDIR": tmp, "SFH_SCRATCH": tmp}, solo, merged, owners, k)
    finally:
        shutil.rmtree(tmp, ignore_errors=True)
    print("solo:\n  " + "\n  ".join(l[:200] for l in so))
    print("merged (lines of workload %d):\n  " % k + "\n  ".join(l[:200] for l in WC.project(mo, owners[:len(mo)], k)))
    if d is not None:
        print("differs at workload line %d:\n  solo   %s\n  merged %s" % (d[0], d[1][:300], d[2][:300]))
        ctx.report(path)
    else:
        print("replay: the workload's transcript is the same alone and merged (no violation on this tree)")


def run(ctx):
    if getattr(ctx, "replay", None):
        return replay(ctx, ctx.replay)
    quick = ctx.tier == "quick"
    failed = ctx.lean_stage(MODULES)
    found_input = False
    ctx.run_regressions()
    if ctx.violations:
        found_input = True
    tmp = tempfile.mkdtemp(prefix="c19-", dir="/var/tmp")
    env = {"TMPDIR": tmp, "SFH_SCRATCH": tmp}
    try:
        consts = measure_constants(ctx)
        ctx.notes["sf_errno_constants"] = consts
        # ---- A: World model vs implementation ----
        na = 120 if quick else 800
        scripts = gen_l1_merged(ctx, na)
        impl = ctx.batch([(n, t) for (n, t, _) in scripts], env=env, workers=4)
        model = run_world_model(ctx, [(n, t) for (n, t, _) in scripts], workers=4)
        corr = []
        a_stats = collections.Counter()
        for n, t, (parts, owners) in scripts:
            i, m = impl.get(n, []), model.get(n, [])
            a_stats["scripts"] += 1
            a_stats["lines"] += len(m)
            a_stats["unmodelled_lines"] += sum(1 for x in m if x == "unmodelled")
            a_stats["global_lines"] += sum(1 for x in m if "err=PTR" in x or "err=PARAM" in x) + sum(1 for l in WC.lines_of(t) if l == "strerror null")
            a_stats["max_handles"] = max(a_stats["max_handles"], len(parts))
            ctx.distinct.add("A:%d:%s" % (len(parts), n.split("-")[2]))
            for nm in n.split("-")[3].split("+"):
                ctx.distinct.add("A:container:" + nm)
            d = first_diff_world(t, i, m)
            if d is not None:
                corr.append((n, t, d, i[d] if d < len(i) else "<missing>", m[d] if d < len(m) else "<missing>", parts, owners))
        ctx.count(a_stats["lines"])
        ctx.coverage["traces_validated_against_impl"] += a_stats["scripts"]
        ctx.notes["A_world_correspondence"] = dict(a_stats)
        # a disagreement is first tested against the property itself on that very script: each part alone vs its projection
        for (n, t, d, il, ml, parts, owners) in corr[:6]:
            merged = WC.lines_of(t)
            for k in range(len(parts)):
                dd, so, mo = run_pair(ctx, env, parts[k], merged, owners, k)
                if dd is not None:
                    found_input = True
                    ctx.violation("c19-corr-%s-w%d" % (n[:40], k),
                                  replay_text("C19 violated (found while the World correspondence disagreed)",
                                              "line %d of workload %d: alone `%s`, merged `%s`" % (dd[0], k, dd[1][:160], dd[2][:160]), n, parts[k], merged, owners, k))
                    break
            if found_input:
                break
        # ---- B: every format, implementation only ----
        findings, b_stats, groups = b_campaign(ctx, env)
        ctx.count(b_stats["comparisons"])
        ctx.notes["B_all_formats"] = dict(b_stats)
        from .. import codecpairs       # every pair of the modelled stateful codecs (G.72x, NMS, GSM), two live handles, merged vs solo
        cp_stats = codecpairs.run(ctx, env, [f for f in formats.writable_formats(ctx) if f.major != 0x16], findings)
        ctx.count(cp_stats.get("comparisons", 0))
        ctx.notes["B_codec_pairs"] = cp_stats
        from .. import foreignworld     # a FOREIGN file opened r / rw next to a writer of the same container, merged vs solo (round 8)
        fw_stats = foreignworld.run(ctx, env, [f for f in formats.writable_formats(ctx) if f.major != 0x16], findings)
        ctx.count(fw_stats.get("comparisons", 0))
        ctx.notes["B_foreign_files"] = fw_stats
        from .. import cmdreach         # every SFC_* command on a handle A, THEN the workloads are opened: B with A = B without A (round 9; Sf.CapsWorld)
        cr_fails, cr_stats = cmdreach.run(ctx, env)
        ctx.count(cr_stats.get("comparisons", 0))
        if cmdreach.report(ctx, cr_fails, replay_text):
            found_input = True
        seen = set()
        n_rep = 0
        for f in findings:
            key = (f["kind"], f["fmt"].name)
            if key in seen or n_rep >= 4:
                continue
            seen.add(key)
            n_rep += 1
            found_input = True
            report_finding(ctx, env, f, n_rep)
        ctx.notes["B_findings"] = len(findings)
        # ---- C: real descriptors (sf_open / sf_open_fd, SD2 resource fork, ALAC spool file) next to sentinels, every open/close order ----
        if fdworld.run(ctx, env):
            found_input = True
        # ---- D: heap history -- every script under three allocator fills (vlib/heapcamp.py; Sf.HeaderBuf) ----
        from .. import heapcamp
        if heapcamp.run(ctx, env, formats.writable_formats(ctx)):
            found_input = True
        from .. import heapcodec        # D': every codec's private state, writer and reader, first / partial blocks, under the same fills (deterministic slice)
        if heapcodec.run(ctx, "C19", env, formats.writable_formats(ctx)):
            found_input = True
        leftovers = sorted(os.listdir(tmp)) if os.path.isdir(tmp) else []
        ctx.notes["tmpdir_leftovers"] = leftovers[:10]
        if corr and not found_input:
            (n, t, d, il, ml, parts, owners) = corr[0]
            sl = WC.lines_of(t)
            ctx.violation("c19-correspondence-%s" % n[:60],
                          "# correspondence stream 'World model (Sf.World.wstep) vs implementation' on merged multi-handle RAW/AU/WAV scripts no longer agrees: "
                          "%d of %d scripts differ\n# first: %s, line %d: %s\n# implementation: %s\n# model: %s\n"
                          "# the isolation predicate (each workload alone in a fresh process vs merged) held on these scripts and on the whole all-format campaign\n"
                          "observed-last %s\n--- script\n%s\n"
                          % (len(corr), a_stats["scripts"], n, d, sl[d][:120] if d < len(sl) else "", il[:300], ml[:300], il.strip(), "\n".join(sl[:d + 1])),
                          no_input=True)
            found_input = True
        if failed and not found_input:
            ctx.violation("lean-stage", "theorem(s) no longer check: %s\n%s" % (", ".join(failed), ctx.notes.get("lean_log_tail", "")), no_input=True)
        # ---- evidence ----
        if groups:
            g = groups[0]
            ctx.sample({"kind": "merged script (%d workloads, %s)" % (len(g.wls), g.how), "formats": [w.fmt.name for w in g.wls],
                        "first_lines": [l[:90] for l in g.merged[:14]]})
        if scripts:
            ctx.sample({"kind": "World correspondence script", "name": scripts[0][0], "first_lines": [l[:90] for l in WC.lines_of(scripts[0][1])[:12]]})
        ctx.coverage["rule"] = (
            "A: seeded merges (round-robin / uniform / bursts) of 2-8 RAW/AU/WAV histories (vlib/scripts.gen_rw_script) sprinkled with failing opens, calls on NULL handles, "
            "sf_error(h) and sf_error(NULL) probes, each history in its own handle/store name space; the implementation's transcript is compared line by line with `sfmodel world` "
            "(Sf.World.wstep), including the value of sf_errno shown by NULL-handle calls. B: for every (major, subtype, endian) the library accepts for writing (SD2 excepted: needs a path), "
            "a write / read-seek / rdwr workload with invalid calls and error probes; workloads are run alone in a fresh process and merged in groups of 2-8 (mixed encodings, and twins of one "
            "block codec) under round-robin, burst, uniform and reverse merges, ALL 70 merges for pairs of 4-call scripts, and after a prelude that uses every encoding once; "
            "per-workload transcripts (return values, data, error numbers, store digests) must be identical; only results of NULL-handle calls are masked. "
            "evaluations = model-compared lines in A + per-workload solo/merged comparisons in B; distinct_nontrivial = distinct (handle count, merge kind), containers in A, formats "
            "and all-merge format pairs in B")
        ctx.assumptions += ["single-threaded interleavings only (the library makes no thread-safety claim)",
                            "unique ids and temporary-file names are not observable through the API and are not compared; ALAC temporary files go to a private TMPDIR",
                            "opaque codecs (GSM 06.10, G.72x, NMS ADPCM, ALAC, DWVW, OKI, IMA/MS ADPCM, SDS, PAF24) are covered by campaign B only: a static inside them is observable through transcripts, not through the Lean model"]
    finally:
        shutil.rmtree(tmp, ignore_errors=True)
