"""C07 — see DESIGN.md §7."""
from ._write_common import run_common
from ..core import modules_for


def _heap_env():
    import tempfile
    tmp = tempfile.mkdtemp(prefix="c07-", dir="/var/tmp")
    return tmp, {"TMPDIR": tmp, "SFH_SCRATCH": tmp}


def run(ctx):
    q = ctx.tier == "quick"
    if getattr(ctx, "replay", None) and "c07-heapfill" in open(ctx.replay).read():
        import shutil
        from .. import heapcodec
        tmp, env = _heap_env()
        try:
            return heapcodec.replay(ctx, ctx.replay, env)
        finally:
            shutil.rmtree(tmp, ignore_errors=True)
    if not getattr(ctx, "replay", None):
        from .. import g72x as _g72x
        _g72x.pregen(ctx)
        from .. import codectab as _codectab     # NMS / GSM tables by execution -> Generated/NmsTables.lean, GsmTables.lean
        _codectab.pregen(ctx)
    run_common(ctx, "C07", modules_for("C07"), stride=2 if q else 1, l1_scripts=250 if q else 2500)
    if not getattr(ctx, "replay", None):
        import shutil
        from .. import heapcodec, formats     # "repeating the run later or in another process": every codec's first / partial block under three allocator fills (heap history made total)
        tmp, env = _heap_env()
        try:
            heapcodec.run(ctx, "C07", env, formats.writable_formats(ctx))
        finally:
            shutil.rmtree(tmp, ignore_errors=True)
        from .. import blockcamp
        blockcamp.run(ctx, "C07", 160 if q else 1600)
        from .. import dwvw
        dwvw.run(ctx, "C07", 120 if q else 1200)
        from .. import nms
        nms.run(ctx, "C07", 120 if q else 1200)
        from .. import g72x
        g72x.run(ctx, "C07", 120 if q else 1200)
        from .. import gsm
        gsm.run(ctx, "C07", 100 if q else 1000)
        from .. import alac           # CAF/ALAC: packet staging, pakt / kuki chunks, read / seek around the codec core (lean/SfModel/AlacFile.lean)
        alac.run(ctx, "C07", 96 if q else 960)
        from .. import small4         # SDS whole-file sessions: header updates flush and re-seek over the partly filled packet (lean/SfModel/SdsFile.lean)
        small4.run_sds(ctx, found=bool(ctx.violations))
        from .. import adpcmenc       # IMA (WAV / W64 / AIFF layouts) and MS ADPCM encoders + write paths (lean/SfModel/AdpcmEnc.lean, AdpcmFile.lean)
        adpcmenc.run(ctx, "C07", 120 if q else 1200)
        from .. import voxcamp        # OKI/VOX: the held sample of odd item counts (lean/SfModel/Oki.lean writeBlock / closeCarry / readBlock)
        voxcamp.run(ctx, "C07", 120 if q else 1200)
        from .. import codecs20       # a table entry of the tree differs from the published one: look for an input that shows it
        codecs20.search(ctx)
        from .. import shortio        # write () interposed (harness/shortio.c): the closed bytes do not depend on how the OS split a transfer (lean/SfModel/ShortIo.lean)
        shortio.run(ctx, "C07")
        from .. import handleg       # (round 9) the GENERIC handle machine Sf.HandleG: whole histories on AIFF / CAF / W64 / AVR / IRCAM / PAF / HTK (+ RAW / AU / WAV) byte for byte incl. store dumps
        handleg.run(ctx, "C07", 150 if q else 3000)
