"""C13 — custom chunks: any number set, all retrievable, audio untouched."""
import json, os, subprocess, time
from .. import chunks as C
from .. import absmeta as A
from ..core import Violation, VERIF, modules_for

PRINTABLE = bytes(range(0x21, 0x7f))
# "format specific reserved chunks" (sndfile.h: sf_set_chunk "will fail for" them): the markers the container's own header
# parser interprets.  These are the ONLY well-formed ids the predicate lets sf_set_chunk refuse (the repaired library refuses
# exactly them: Sf.Chunk.reserved).
RESERVED = {
    "wav": [b"RIFF", b"RIFX", b"fmt ", b"fact", b"data", b"PEAK", b"cue ", b"smpl", b"acid", b"bext", b"cart"],
    "rf64": [b"ds64", b"fmt ", b"data", b"PEAK", b"bext", b"cart"],
    "aiff": [b"FORM", b"COMM", b"SSND", b"PEAK", b"MARK", b"INST", b"CHAN", b"(c) ", b"NAME", b"AUTH", b"ANNO", b"COMT", b"basc", b"NONE"],
    "caf": [b"desc", b"data", b"pakt", b"kuki", b"peak", b"chan", b"info"],
}
# accepted although the container knows the name: the reader looks inside them / the writer emits chunks of that name itself
# (Sf.Chunk.passThrough).  They must round-trip like any other id; the model does not predict their read side.
PASS_THROUGH = {"wav": [b"LIST", b"INFO", b"PAD "], "rf64": [b"LIST", b"INFO", b"PAD "], "aiff": [b"APPL"], "caf": [b"free"]}
# ids the parsers only log and skip: perfectly good custom ids (must round-trip)
HARMLESS = {"wav": [b"JUNK", b"iXML", b"DISP", b"inst", b"TAGx", b"WAVE"], "rf64": [b"JUNK", b"RIFF", b"COMM", b"fact", b"cue ", b"smpl"],
            "aiff": [b"data", b"fmt ", b"LIST", b"FVER", b"SFX!", b"AIFC"], "caf": [b"caff", b"RIFF", b"COMM", b"SSND"]}


def stored_id(i):
    """the marker an id is stored under and found again by: the C string, cut to four characters, padded with spaces"""
    return i.split(b"\0")[0][:4].ljust(4, b" ")
# 51200 was the largest single chunk the header cache took before the repair of psf_bump_header_allocation; 65536 is the largest the statement names
SIZES = [0, 1, 2, 3, 4, 5, 255, 256, 4095, 4096, 51199, 51200, 51201, 51204, 65535, 65536]
COUNT_SPREAD = [0, 1, 2, 19, 20, 21, 30, 31, 32, 33, 47, 48, 49, 72, 73, 74, 110, 111, 112, 167, 168, 169, 199, 200]


def rand_id(rng, cont):
    if cont == "caf" and rng.random() < 0.3:
        while True:
            b = bytes(rng.randrange(1, 256) for _ in range(4))
            if b not in RESERVED["caf"] and b not in PASS_THROUGH["caf"]:
                return b
    # one id in six is shorter than four characters (stored padded with spaces)
    n = 4 if rng.random() < 0.84 else rng.choice([1, 2, 3])
    return bytes(rng.choice(PRINTABLE) for _ in range(n))


def legal_pool(rng, cont, n):
    """n ids with duplicates: about a third of the entries repeat an earlier id"""
    res = []
    for k in range(n):
        if res and rng.random() < 0.35:
            res.append(rng.choice(res))
        else:
            i = rand_id(rng, cont)
            while stored_id(i) in RESERVED[cont] or stored_id(i) in PASS_THROUGH[cont]:
                i = rand_id(rng, cont)
            res.append(i)
    return res


def payload(rng, n):
    if n <= 64:
        return bytes(rng.randrange(256) for _ in range(n))
    seed = rng.randrange(256)
    return bytes((seed + 7 * k) & 0xff for k in range(n))


OWN_LAST = {"wav": b"data", "rf64": b"data", "aiff": b"SSND", "caf": b"data"}
LAST_OWN = b"data"


def reads_for(rng, chunks, heavy=True, cont=None):
    """iterator usage patterns on the read handle"""
    global LAST_OWN
    LAST_OWN = OWN_LAST.get(cont, b"data")
    R = ["chunkall h1 null"]
    ids = [i for (i, _) in chunks]
    if ids:
        R.append("chunkall h1 %s" % rng.choice(ids).hex())
        if heavy:
            i = rng.choice(ids)
            R += ["chunkiter h1 %s" % i.hex(), "chunkdata h1 %d" % rng.choice([1, 2, 3, 7]), "chunknext h1", "chunkdata h1", "chunknext h1", "chunknext h1"]
            R.append("chunkall h1 null %d" % rng.choice([1, 3, 6]))
    R.append("chunkall h1 7a7a7a51")          # an id nobody uses
    R.append("chunkall h1 %s" % LAST_OWN.hex())   # by id, the LAST entry of the read table (the container's audio chunk; LAST_OWN is set per script)
    R += ["chunkiter h1 null", "chunkdata h1 2", "chunknext h1", "chunkdata h1 5"]
    return R


def gen_scripts(ctx):
    rng = ctx.rng
    S = []          # (name, kind, container, script, meta)
    thorough = ctx.tier == "thorough"
    # a. every count 0..200 on WAV (tiny payloads), a spread elsewhere
    for n in range(0, 201):
        ids = legal_pool(rng, "wav", n)
        ch = [(ids[k], payload(rng, (k * 3 + n) % 6)) for k in range(n)]
        S.append(("count-wav-%03d" % n, "count", "wav", C.mk_script("wav", ch, reads=reads_for(rng, ch, heavy=(n % 10 == 0), cont="wav")), {"chunks": ch}))
    for cont in ("rf64", "aiff", "caf"):
        for n in (range(0, 201) if thorough else COUNT_SPREAD):
            ids = legal_pool(rng, cont, n)
            ch = [(ids[k], payload(rng, (k * 5 + n) % 7)) for k in range(n)]
            S.append(("count-%s-%03d" % (cont, n), "count", cont, C.mk_script(cont, ch, reads=reads_for(rng, ch, heavy=(n % 3 == 0), cont=cont)), {"chunks": ch}))
    # b. payload sizes, single chunk and in company
    for cont in C.CONTAINERS:
        for sz in SIZES + ([rng.randrange(6, 65536) for _ in range(4 if not thorough else 40)]):
            ids = legal_pool(rng, cont, 3)
            ch = [(ids[0], payload(rng, 2)), (ids[1], payload(rng, sz))]
            if sz < 40000:
                ch.append((ids[2], payload(rng, 3)))
            S.append(("size-%s-%d" % (cont, sz), "size", cont, C.mk_script(cont, ch, reads=["chunkall h1 null", "chunkall h1 %s" % ids[1].hex(), "chunkall h1 null 5"]), {"chunks": ch}))
        # several chunks that together stay below the 100 KiB of the header buffer: all kept
        for lens in ((30000, 30000, 30000), (65536, 20000, 16000), (51204, 50000), (102400 - 400,), (102400 - 200,)):
            ch = [(b"tot%d" % k, payload(rng, n)) for k, n in enumerate(lens)]
            S.append(("size-%s-%s" % (cont, "+".join(map(str, lens))), "size", cont, C.mk_script(cont, ch, reads=["chunkall h1 null", "chunkall h1 %s 7" % b"tot0".hex()]), {"chunks": ch}))
        # beyond it (the remaining part of C13-header-cache): the model says which payloads are dropped
        for lens in ((65536, 65536), (30000, 30000, 30000, 30000), (102400,), (110000,), (51204, 51204)):
            ch = [(b"big%d" % k, payload(rng, n)) for k, n in enumerate(lens)]
            S.append(("size-%s-%s" % (cont, "+".join(map(str, lens))), "size-beyond-cache", cont, C.mk_script(cont, ch, reads=["chunkall h1 null"]), {"chunks": ch}))
    # c. ids: ids the parser skips by name are ordinary custom ids; reserved / short / unprintable ids are classes
    for cont in C.CONTAINERS:
        ch = [(i, payload(rng, 1 + k)) for k, i in enumerate(HARMLESS[cont])]
        S.append(("ids-harmless-%s" % cont, "ids", cont, C.mk_script(cont, ch, reads=reads_for(rng, ch, cont=cont)), {"chunks": ch}))
        for i in RESERVED[cont]:
            for plen in (4, 40):
                ch = [(b"okay", b"\x01"), (i, payload(rng, plen))]
                S.append(("ids-reserved-%s-%s-%d" % (cont, i.hex(), plen), "ids-class", cont, C.mk_script(cont, ch, reads=["chunkall h1 null"]), {"chunks": ch}))
        for i in PASS_THROUGH[cont]:
            ch = [(b"okay", b"\x01"), (i, payload(rng, 4)), (b"more", b"\x02\x03"), (i, payload(rng, 40))]
            S.append(("ids-pass-%s-%s" % (cont, i.hex()), "ids-class", cont, C.mk_script(cont, ch, reads=["chunkall h1 null", "chunkall h1 %s" % i.hex()]), {"chunks": ch}))
        for i in (b"a", b"ab", b"abc", b"x y", b"ab ", b"AAA\xa4", b"\x01bcd", b"ab\x7fd", b"\xff\xfe\xfd\xfc", b"da", b"fmt"):
            ch = [(b"okay", b"\x01"), (i, payload(rng, 3)), (i, payload(rng, 5))]
            S.append(("ids-odd-%s-%s" % (cont, i.hex()), "ids-class", cont, C.mk_script(cont, ch, reads=["chunkall h1 null", "chunkall h1 %s" % i.hex(), "chunkall h1 %s" % stored_id(i).hex()]), {"chunks": ch}))
    # by-id iteration whose LAST match is the LAST entry of the read table: a custom LIST chunk in the header and the library's
    # own LIST/INFO behind the audio (a string set after the audio); RF64 likewise
    for cont in ("wav", "rf64"):
        ch = [(b"LIST", b"adtlnote\x04\x00\x00\x00abcd"), (b"okay", b"\x01")]
        S.append(("iter-last-%s" % cont, "iter", cont, C.mk_script(cont, ch, late=[], reads=["chunkall h1 %s" % b"LIST".hex(), "chunkall h1 null"]).replace("close h0\n", "setstr h0 1 %s\nclose h0\n" % b"late title".hex(), 1).replace("r h1 s16 i 10", "r h1 s16 i 8"),
                  {"chunks": ch, "own": {b"LIST": 1}}))
    # the WAV reader's ID3v1 test: a chunk 'TAG?' that starts exactly 128 bytes before the end of the file, in front of the audio
    for frames in (8, 1, 20):
        ch = [(b"TAGx", payload(rng, 112 - 2 * frames))]
        S.append(("ids-tag128-wav-%d" % frames, "ids", "wav", C.mk_script("wav", ch, frames=frames, reads=["chunkall h1 %s" % b"TAGx".hex()]), {"chunks": ch}))
    # d. interleaving with other metadata calls (strings before / between / after the chunks)
    for cont in C.CONTAINERS:
        for pos in (0, 1, 3):
            ids = legal_pool(rng, cont, 3)
            ch = [(ids[k], payload(rng, k + 1)) for k in range(3)]
            meta = ["setstr h0 1 %s" % b"a title".hex(), "setstr h0 4 %s" % b"An Artist".hex()]
            S.append(("meta-%s-%d" % (cont, pos), "meta", cont,
                      C.mk_script(cont, ch, mid=(pos, meta), reads=["chunkall h1 null", "getstr h1 1", "getstr h1 4"]), {"chunks": ch, "strings": True}))
    # e. set after audio
    for cont in C.CONTAINERS:
        ch = [(b"erly", b"\x01\x02")]
        S.append(("late-%s-small" % cont, "late", cont, C.mk_script(cont, ch, late=[(b"late", b"\x07\x07")], reads=["chunkall h1 null"]), {"chunks": ch, "late": True}))
        S.append(("late-%s-only" % cont, "late", cont, C.mk_script(cont, [], late=[(b"late", payload(rng, 9))], reads=["chunkall h1 null"]), {"chunks": [], "late": True}))
    from .. import lateset
    S += lateset.c13_scripts(rng, payload)       # e2. set after audio written through EVERY write entry point (typed items / frames x 4 types, raw), more audio after the refusal
    S.append(("late-caf-big", "late", "caf", C.mk_script("caf", [(b"erly", b"\x01")], late=[(b"late", payload(rng, 5000))], reads=["chunkall h1 null"]), {"chunks": [(b"erly", b"\x01")], "late": True}))
    # f. virtual I/O route (non-empty chunks only: the zero-length read is the known finding)
    for cont in C.CONTAINERS:
        ids = legal_pool(rng, cont, 5)
        ch = [(ids[k], payload(rng, k + 1)) for k in range(5)]
        S.append(("vio-%s" % cont, "vio", cont, C.mk_script(cont, ch, route="vio", reads=["chunkall h1 null", "chunkall h1 %s" % ids[2].hex(), "chunkall h1 null 1"]), {"chunks": ch}))
    # g. the handle's single iterator: an iteration by id left unfinished, then a full one (known finding), and the
    #    same with the by-id iteration run to its end (must be clean)
    for cont in C.CONTAINERS:
        ch = [(b"dupl", b"\x01"), (b"dupl", b"\x06\x07\x08\x09\x0a"), (b"othr", b"\x02\x03"), (b"dupl", b"\x04"), (b"thrd", b"\x05"), (b"thrd", b"")]
        S.append(("iter-stale-%s" % cont, "iter", cont, C.mk_script(cont, ch, reads=["chunkall h1 null", "chunkiter h1 %s" % b"dupl".hex(), "chunkdata h1", "chunkall h1 null", "chunkall h1 null"]), {"chunks": ch}))
        S.append(("iter-finished-%s" % cont, "iter", cont, C.mk_script(cont, ch, reads=["chunkiter h1 %s" % b"dupl".hex(), "chunknext h1", "chunkdata h1 2", "chunknext h1", "chunkdata h1 9", "chunknext h1", "chunknext h1", "chunkall h1 null", "chunkall h1 %s" % b"dupl".hex(), "chunkall h1 %s" % b"thrd".hex(), "chunkiter h1 %s" % b"thrd".hex(), "chunkall h1 7a7a7a51", "chunkall h1 %s" % b"othr".hex(), "chunkall h1 null"]), {"chunks": ch}))
        S.append(("iter-vio-zero-%s" % cont, "iter", cont, C.mk_script(cont, [(b"empt", b""), (b"full", b"\x01")], route="vio", reads=["chunkall h1 %s" % b"full".hex(), "chunkall h1 %s 0" % b"full".hex()]), {"chunks": [(b"empt", b""), (b"full", b"\x01")]}))
    return S


def may_refuse(cont, i):
    """ids for which the statement / the documentation allow sf_set_chunk to fail: format-reserved ids (sndfile.h), and ids
    the container cannot represent (a byte outside printable ASCII in WAV, RF64, AIFF; an empty id).  Ids of 1-3 characters
    are in the statement's quantifier and must be stored (RIFF / IFF / CAF pad them with spaces)."""
    m = stored_id(i)
    if m == b"    " or m in RESERVED[cont]:
        return True
    return cont != "caf" and any(b < 0x20 or b > 0x7e for b in m)


def predicate(cont, script, pairs, meta):
    """The property, evaluated on the implementation's transcript alone.  Returns None or a reason."""
    chunks = []
    frames = None
    wrote = False
    for op, ls in pairs:
        if op[0] in ("w", "wraw") and ls and not ls[0].startswith("ret=0 "):
            wrote = True        # audio went out through ANY of the write entry points (typed items / frames, raw)
        if op[0] == "setchunk" and ls:
            i, d = bytes.fromhex(op[2]), bytes.fromhex(op[3]) if len(op) > 3 else b""
            if ls[0] == "ret=0 err=0":
                if not wrote:
                    chunks.append((stored_id(i), d))
            elif ls[0].startswith("ret=") and not ls[0].startswith("ret=0 ") and (wrote or may_refuse(cont, i)):
                pass        # refused: allowed for a chunk set after the audio and for ids the API need not accept
            else:
                return "sf_set_chunk (%s) answered '%s'" % (i.hex(), ls[0])
    for op, ls in pairs:
        if op[0] == "w" and ls:
            frames = (frames or 0) + int(op[4])
            if not ls[0].startswith("ret=%d err=0" % int(op[4])):
                return "write of %d items answered '%s'" % (int(op[4]), ls[0])
        if op[0] == "wraw" and ls:
            frames = (frames or 0) + int(op[2]) // 2
            if not ls[0].startswith("ret=%d err=0" % int(op[2])):
                return "sf_write_raw of %d bytes answered '%s'" % (int(op[2]), ls[0])
        if op[0] == "close" and ls and not ls[0].startswith("ret=0"):
            return "sf_close answered '%s'" % ls[0]
        if op[0] == "open" and op[3] == "r" and ls and not ls[0].startswith("open=ok"):
            return "re-open failed: %s" % ls[0]
        if op[0] == "open" and op[3] == "r" and ls and frames is not None and (" frames=%d " % frames) not in ls[0]:
            return "re-opened file reports '%s', %d frames were written" % (ls[0], frames)
        if op[0] == "r" and ls:
            n = int(op[4])
            frames = frames or 0
            want = "ret=%d err=0 data=%s%s" % (frames, C.audio_hex(frames), "a5a5" * (n - frames))
            if ls[0] != want:
                return "audio read back differs from what was written: '%s'" % ls[0][:120]
    ids = [i for (i, _) in chunks]
    for op, ls in pairs:
        if op[0] != "chunkall" or not ls:
            continue
        want_buf = int(op[3]) if len(op) > 3 else None
        ents = [C.parse_entry(l) for l in ls if l.startswith("c ")]
        if not ls[-1].startswith("end n=%d" % len(ents)) or ls[-1] == "end n=-1":
            return "iteration did not end cleanly: %s" % ls[-1]
        if op[2] == "null":
            mine = [e for e in ents if bytes.fromhex(e["id"]) in ids]
            expect = chunks
            for oid, own in meta.get("own", {}).items():       # the container's own trailing chunks of a custom id
                if len(mine) == len(expect) + own and [bytes.fromhex(e["id"]) for e in mine[-own:]] == [oid] * own:
                    mine = mine[:-own]
            if cont == "caf" and b"free" in ids and mine and bytes.fromhex(mine[-1]["id"]) == b"free" and len(mine) == len(expect) + 1:
                mine = mine[:-1]        # the container's own trailing 'free' chunk
        else:
            q = stored_id(bytes.fromhex(op[2]))
            mine = ents
            expect = [(i, d) for (i, d) in chunks if i == q]
            if q not in ids:
                if q == OWN_LAST[cont] and len(ents) != 1:
                    return "iteration by id %s (the container's own audio chunk, last in the file) visited %d entries instead of 1" % (q.hex(), len(ents))
                continue
            if cont == "caf" and q == b"free" and len(mine) == len(expect) + 1:
                mine = mine[:-1]
            own = meta.get("own", {}).get(q, 0)
            if own:
                if len(mine) != len(expect) + own:
                    return "iteration (%s) visited %d chunks: %d were set and the container adds %d of its own" % (op[2], len(mine), len(expect), own)
                mine = mine[:len(expect)]
        if len(mine) != len(expect):
            return "iteration (%s) visited %d custom chunks, %d were set" % (op[2], len(mine), len(expect))
        for e, (i, d) in zip(mine, expect):
            if bytes.fromhex(e["id"]) != i:
                return "iteration order/ids differ: got %s, expected %s" % (e["id"], i.hex())
            if int(e["size"]) != C.pad4(len(d)):
                return "chunk %s: size %s, expected %d (payload %d padded to 4)" % (i.hex(), e["size"], C.pad4(len(d)), len(d))
            buflen = int(e["buflen"])
            full = d + bytes(C.pad4(len(d)) - len(d))
            wantd = full[:buflen] + b"\xa5" * max(0, buflen - len(full))
            if bytes.fromhex(e["data"]) != wantd:
                return "chunk %s: payload bytes differ (or bytes beyond datalen were touched): got %s" % (i.hex(), e["data"][:80])
            if e["size_ret"] != "0" or e["data_ret"] != "0":
                return "chunk %s: get_chunk_size/data returned %s/%s" % (i.hex(), e["size_ret"], e["data_ret"])
    if meta.get("strings"):
        for op, ls in pairs:
            if op[0] == "getstr" and ls:
                want = {"1": b"a title", "4": b"An Artist"}[op[2]]
                if ("str=" + want.hex()) not in ls[0]:
                    return "string %s read back as '%s'" % (op[2], ls[0])
    return None


def model_lines(ctx, scripts):
    inp = "".join("== %s\n%s" % (n, s) for (n, s) in scripts)
    out = ctx.run_model(["chunks"], inp)
    res, cur = {}, None
    for l in out.split("\n"):
        if l.startswith("== "):
            cur = l[3:]
            res[cur] = []
        elif cur is not None and l != "":
            res[cur].append(l)
    return res


def same(model, impl):
    if len(model) != len(impl):
        return False
    for m, i in zip(model, impl):
        if m == i:
            continue
        if m == "ret=E err=0" and i.startswith("ret=") and i.endswith(" err=0") and not i.startswith("ret=0 "):
            continue        # a refusal: error numbers are compared as zero / non-zero
        if m.endswith("data=?") and i.startswith(m[:-1]):
            continue
        return False
    return True


def replay_text(why, script, expect=None, geom=None):
    """`abs-chunk geom …` makes `bin/check C13 --replay f` re-judge the record with the Lean predicate (vlib/absmeta.py replay_c13)"""
    return "# C13: %s\n%s%s--- script\n%s" % (why, ("expect-last %s\n" % expect) if expect else "", ("abs-chunk %s\n" % geom) if geom else "", script)


def check_known(ctx):
    """Replay every witness; print KNOWN-FINDING while it still fails with its signature; the 'fixed' entry is a
    regression test (must run clean under ASan)."""
    still = {}
    ctx.run_regressions()       # `expect-last` lines of the witnesses of repaired defects
    for e in ctx.known:
        text = open(os.path.join(VERIF, e["witness"])).read()
        script = text.split("--- script", 1)[1].lstrip("\n")
        lines, rc, err = ctx.script(script)
        pairs = C.split_ops(script, lines)
        ctx.count(1, tag="witness-" + e["id"])
        ctx.coverage["traces_validated_against_impl"] += 1
        if e["status"] == "fixed" and e["id"] == "C13-wchunk-overflow":
            ok = rc == 0 and any(l.startswith("end n=43") for l in lines) and any(l.startswith("ret=8 err=0 data=" + C.audio_hex(8)) for l in lines)
            if not ok:
                ctx.violation("regression-" + e["id"], replay_text("the repaired defect %s is back (rc=%d): %s\n# %s" % (e["id"], rc, e["signature"], err.strip().split("\n")[-1] if err.strip() else ""), script, "ret=0"))
            continue
        allzero = all(ls and ls[0] == "ret=0 err=0" for op, ls in pairs if op[0] == "setchunk")
        reopen = [ls[0] for op, ls in pairs if op[0] == "open" and op[3] == "r" and ls]
        rd = [ls[0] for op, ls in pairs if op[0] == "r" and ls]
        sig = False
        if e["id"] in ("C13-header-cache", "C13-header-cache-51200", "C13-short-id", "C13-unprintable-id"):
            sig = rc == 0 and allzero and reopen and reopen[0].startswith("open=NULL")
        elif e["id"] == "C13-reserved-id":
            sig = rc == 0 and allzero and ((reopen and reopen[0].startswith("open=NULL")) or (rd and not rd[0].startswith("ret=8 err=0 data=" + C.audio_hex(8))))
        elif e["id"] == "C13-late-set":
            sig = rc == 0 and allzero and reopen and " frames=8 " not in reopen[0]
        elif e["id"] == "C13-vio-zero-read":
            sig = rc != 0 and "FPE" in err
        elif e["id"] == "C13-stale-iterator":
            ends = [l for l in lines if l.startswith("end n=")]
            sig = rc == 0 and len(ends) == 2 and int(ends[1][6:]) < int(ends[0][6:])
        still[e["id"]] = bool(sig)
        if e["status"] == "fixed":
            # a repaired defect: its witness is a regression test, the signature must stay absent
            if sig:
                ctx.violation("regression-" + e["id"], replay_text("the repaired defect %s (%s) is back: %s" % (e["id"], e.get("commit"), e["signature"]), script))
            continue
        if sig:
            ctx.known_finding(e, "%s [%s] witness=%s" % (e["text"], e["id"], e["witness"]))
        elif rc != 0:
            ctx.violation("witness-" + e["id"], replay_text("witness of %s now ends differently (rc=%d): %s" % (e["id"], rc, err[-400:].replace("\n", " | ")), script))
    return still


# classes the model attaches to a script -> the known finding that may waive a failing predicate there.  The id classes
# (short / unprintable / reserved), late-grow, stale-iterator and vio-zero-read are repaired: the model predicts the repaired
# behaviour, nothing is waived for them.  `pass-through` (accepted ids the container's reader looks into) has no entry: the
# model does not predict the read side, the predicate must simply hold.
CLASS_TO_KF = {"header-cache": "C13-header-cache"}
PREDICTED = ()     # read-side classes for which the model would still predict the whole transcript: none left


def custom_only(lines, ids):
    """keep iterator results and the entries of custom chunks (scripts with other metadata: the container's own
    chunks differ from the plain layout the model knows)"""
    out = []
    for l in lines:
        if l.startswith("c "):
            if bytes.fromhex(C.parse_entry(l)["id"]) in ids:
                out.append(l)
        elif l.startswith("end n="):
            continue
        else:
            out.append(l)
    return out


def run(ctx):
    if getattr(ctx, "replay", None):
        if A.is_chunk_replay(ctx.replay):
            return A.replay_c13(ctx, ctx.replay)
        if "abs-geom " in open(ctx.replay).read():
            from .. import absreplay
            return absreplay.replay(ctx, ctx.replay)      # a read history with chunk queries, judged by `sfmodel abs` (vlib/queryfix.py)
        return ctx.replay_script(ctx.replay)
    failed = ctx.lean_stage(modules_for("C13"))
    found_input = False
    if not os.path.exists(ctx.sfmodel()):
        ctx.violation("lean-stage", "the model driver does not build: %s\n%s" % (", ".join(failed), ctx.notes.get("lean_log_tail", "")), no_input=True)
        raise Violation()
    ctx.sfh()
    still = check_known(ctx)
    found_input = bool(ctx.violations)

    S = gen_scripts(ctx)
    # the twin of a script: the same session without any sf_set_chunk ("without disturbing audio or other metadata"); many scripts share one
    twin_of, twin_scripts = {}, {}
    for (n, k, c, s, m) in S:
        if k != "size-beyond-cache":
            t = A.chunk_twin_script(s)
            twin_of[n] = twin_scripts.setdefault(t, "twin!%d" % len(twin_scripts))
    impl = ctx.batch([(n, s) for (n, k, c, s, m) in S] + [(tn, t) for t, tn in twin_scripts.items()], op_timeout=20, workers=4)
    twin_text = {tn: t for t, tn in twin_scripts.items()}
    # THE PREDICATE: Sf.AbsMeta.Chunks.judge decides (`sfmodel abs-meta chunks`); `predicate` below is the Python cross-check
    verdicts = A.judge_c13(ctx, [(n, c, m, s, impl.get(n, ["<no output>"]), (twin_text[twin_of[n]], impl.get(twin_of[n], [])) if n in twin_of else None)
                                 for (n, k, c, s, m) in S])
    model = model_lines(ctx, [(n, s) for (n, k, c, s, m) in S])
    kinds = {}
    waived = {}
    reported = {}
    orig_violation = ctx.violation

    def violation_once(vname, text, no_input=False, key=None):
        """one replay per (verdict kind, campaign, container): the first, i.e. the smallest count / payload"""
        k = key or vname
        reported[k] = reported.get(k, 0) + 1
        if reported[k] == 1:
            return orig_violation(vname, text, no_input=no_input)
    cur = {}

    def v(vname, text, no_input=False):
        return violation_once(vname, text, no_input, key=(vname.split("-")[0], cur["kind"], cur["cont"]))
    for (name, kind, cont, script, meta) in S:
        cur["kind"], cur["cont"] = kind, cont
        lines = [l for l in impl.get(name, ["<no output>"])]
        while lines and lines[-1] == "":
            lines.pop()
        pairs = C.split_ops(script, lines)
        ctx.count(1, tag="%s-%s" % (kind, cont))
        ctx.coverage["traces_validated_against_impl"] += 1
        kinds[kind] = kinds.get(kind, 0) + 1
        ml = model.get(name, ["classes: ?"])
        classes = [] if ml[0] == "classes: -" else ml[0][len("classes: "):].split(",")
        crash = C.crashed(lines)
        if crash and "vio-zero-read" in classes and still.get("C13-vio-zero-read") and crash.startswith("ABORT status=77"):
            # the model predicts the trap; everything before it must agree
            il = [l for l in C.chunk_lines(pairs) if not l.startswith(("ABORT", "CRASH")) and l != ""]
            mlp = [l for l in ml[1:] if l != "TRAP SIGFPE"]
            if il and il[-1].startswith("c ") and "data=" not in il[-1]:
                il.pop()
            waived["vio-zero-read"] = waived.get("vio-zero-read", 0) + 1
            if not same(mlp[:len(il)], il[:len(mlp)]):
                v("corr-" + name, "# C13 correspondence: transcript before the predicted SIGFPE differs\n--- script\n" + script, no_input=True)
            continue
        if crash:
            # memory safety is never waived
            found_input = True
            v("crash-" + name, replay_text("%s: the script ends with '%s' (sanitizer abort / crash / hang); classes of the script: %s" % (name, crash, ",".join(classes) or "-"), script))
            continue
        il = C.chunk_lines(pairs)
        if classes and not all(cl in PREDICTED for cl in classes):
            # outside the domain of the round-trip theorem: only the calls the model still predicts (sf_set_chunk results) are compared
            nset = sum(1 for op, _ in pairs if op[0] == "setchunk")
            why = A.combine_c13(ctx, name, verdicts.get(name), predicate(cont, script, pairs, meta))
            if not same(ml[1:1 + nset], il[:nset]):
                # the library now answers these calls differently from the model (e.g. refuses them).  That is an alarm
                # only if the property is violated on this transcript.
                ctx.notes.setdefault("class_scripts_answering_differently", []).append(name)
                if why is None:
                    continue
            for cl in classes:
                waived[cl] = waived.get(cl, 0) + (1 if why else 0)
            unknown = [cl for cl in classes if cl not in CLASS_TO_KF or not still.get(CLASS_TO_KF[cl], False)]
            if why and unknown:
                found_input = True
                v("class-" + name, replay_text("%s: %s; class(es) of the script: %s (%s)" % (name, why, ",".join(unknown),
                                  "no known finding covers them" if not any(cl in CLASS_TO_KF for cl in unknown) else "the known finding no longer reproduces with its signature"), script, geom=A.chunk_geom(cont, meta)))
            continue
        why = A.combine_c13(ctx, name, verdicts.get(name), predicate(cont, script, pairs, meta))
        mcmp, icmp = ml[1:], il
        if meta.get("strings"):
            ids = [i for (i, _) in meta["chunks"]]
            mcmp, icmp = custom_only(mcmp, ids), custom_only(icmp, ids)
        if why and classes and all(still.get(CLASS_TO_KF.get(cl), False) for cl in classes) and same(mcmp, icmp):
            for cl in classes:
                waived[cl] = waived.get(cl, 0) + 1
            continue
        if why:
            found_input = True
            v("prop-" + name, replay_text("%s (%s): %s" % (name, cont, why), script, geom=A.chunk_geom(cont, meta)))
            continue
        ml, il = [ml[0]] + mcmp, icmp
        if why is None and not same(ml[1:], il):
            refused = [k for k, (op, ls) in enumerate(pairs) if op[0] == "setchunk" and ls and not ls[0].startswith("ret=0 ")]
            if refused:
                # calls the predicate allows the library to refuse: ask the model about the script without them
                ops = [l for l in script.split("\n") if l.strip()]
                script2 = "\n".join(l for k, l in enumerate(ops) if k not in refused) + "\n"
                ml2 = model_lines(ctx, [(name, script2)]).get(name, ["classes: ?"])
                il2 = [l for l in il if not (l.startswith("ret=") and not l.startswith("ret=0 "))]
                m2 = ml2[1:]
                if meta.get("strings"):
                    m2 = custom_only(m2, [i for (i, _) in meta["chunks"]])
                if ml2[0] == "classes: -" and same(m2, il2):
                    ctx.notes.setdefault("scripts_with_refused_calls_matching_model_without_them", []).append(name)
                    continue
        if classes and not same(ml[1:], il) and not any(still.get(CLASS_TO_KF.get(cl), False) for cl in classes):
            # the script is in a known-finding class, the finding's witness no longer reproduces and the property
            # holds here: the defect has been repaired; the bug-for-bug model is out of date, not the library
            ctx.notes.setdefault("known_findings_apparently_fixed", []).append(name)
            continue
        if not same(ml[1:], il):
            k = next((j for j in range(min(len(il), len(ml) - 1)) if not same([ml[1 + j]], [il[j]])), min(len(il), len(ml) - 1))
            v("corr-" + name, "# C13 correspondence: model and implementation disagree on %s (%s) although the property predicate holds on the\n"
                          "# implementation's transcript.  first differing chunk-op line %d:\n#   model: %s\n#   impl : %s\n--- script\n%s"
                          % (name, cont, k, (ml[1 + k] if 1 + k < len(ml) else "<none>")[:300], (il[k] if k < len(il) else "<none>")[:300], script), no_input=True)
    from .. import queryfix     # "without disturbing audio": a chunk query between two reads at a position != 0, every codec of every chunk-carrying container
    if queryfix.run(ctx, "C13"):
        found_input = True
    ctx.notes["further_failing_scripts_not_listed"] = {"%s/%s/%s" % k: n - 1 for k, n in reported.items() if n > 1}
    ctx.sample({"campaign": "count-wav-017", "script_head": S[17][3][:400]})
    ctx.sample({"campaign": "kinds", "scripts_per_kind": kinds})
    ctx.notes["scripts_per_kind"] = kinds
    ctx.notes["class_scripts_failing_as_known"] = waived
    if failed and not found_input:
        ctx.violation("lean-stage", "theorem(s) no longer check: %s\nno failing input found by the chunk campaigns\n%s"
                      % (", ".join(failed), ctx.notes.get("lean_log_tail", "")), no_input=True)
    ctx.coverage["exhaustive"] = False
    ctx.coverage["rule"] = ("custom chunks: WAV every count 0..200 (tiny payloads, duplicate ids), %s for RF64/AIFF/CAF; payload sizes %s + random, beyond-cache sizes as known-finding class; "
                            "ids: random printable ids of 1-4 characters (CAF: any bytes), harmless named ids, every reserved id (must be refused or round-trip: the library refuses), pass-through ids (LIST, INFO, PAD / APPL / free), "
                            "short / space-padded / unprintable ids set and looked up by both spellings, 'TAG?' at 128 bytes from the end of a WAV file; strings interleaved at 3 positions; set after audio; "
                            "path and virtual-I/O readers; iterator patterns: NULL id, by id (duplicates), unknown id, next after last, short/zero/oversized buffers. "
                            "each script: model transcript == implementation transcript AND the property predicate on the implementation transcript; "
                            "distinct_nontrivial counts (kind, container) streams") % ("every count" if ctx.tier == "thorough" else "counts %s" % COUNT_SPREAD, SIZES)
    ctx.assumptions += ["16-bit PCM mono files; other encodings share the chunk code paths (chunk.c, *_write_header custom-chunk loops) but have other leading chunks",
                        "ids longer than 4 characters are outside the property's quantifier and are not generated (the model cuts them to four characters as the code does)",
                        "the payload of the containers' own chunks (RIFF, fmt, COMM, …) is not modelled: only their id and size are compared"]
