"""C09 — invalid calls fail cleanly; valid calls leave no error."""
import re
from .. import scripts as S, formats, readcamp as R, handlecheck as HC, abscheck, g711
from ..core import Violation, modules_for

NOERR = "No Error."


def error_table(ctx):
    """(max_error, [(n, bytes)]) from the running library: sf_error_number(SFE_MAX_ERROR) returns the text of entry 0"""
    p = ctx.run_sfh(["table", "errors", "-2", "400"], "")
    rows = {}
    for line in p.stdout.split("\n"):
        m = re.match(r"^(-?\d+) ([0-9a-f]*|null)$", line.strip())
        if m:
            rows[int(m.group(1))] = b"" if m.group(2) == "null" else bytes.fromhex(m.group(2))
    bad = rows.get(-1, b"")
    mx = next((k for k in range(1, 400) if rows.get(k) == rows.get(0) and rows.get(k + 1) == bad), None)
    return mx, rows, bad


def lean_error_table(mx, rows, bad):
    out = ["/- GENERATED on every check run from the running library (sf_error_number for 0..SFE_MAX_ERROR) -/", "namespace Sf.Generated", "",
           "def errMax : Nat := %d" % mx, "", "def badErrnum : List Nat := [%s]" % ", ".join(str(b) for b in bad), ""]
    names = []
    for k in range(0, mx + 1):
        out.append("private def errStr_%d : List Nat := [%s]" % (k, ", ".join(str(b) for b in rows[k])))
    chunk = 32
    for c in range(0, mx + 1, chunk):
        nm = "errTable_%d" % (c // chunk)
        names.append(nm)
        out.append("private def %s : List (Nat × List Nat) := [%s]" % (nm, ", ".join("(%d, errStr_%d)" % (k, k) for k in range(c, min(mx + 1, c + chunk)))))
    out += ["", "def errTable : List (Nat × List Nat) := " + " ++ ".join(names), "", "end Sf.Generated", ""]
    return "\n".join(out)


def invalid_ops(rng, h, mode, ch, F, at_start=False):
    """(script line, expected failure value, kind) for a handle in `mode`"""
    ty = rng.choice(R.TYS)
    ops = []
    if mode == "w":
        ops.append(("r %s %s i %d" % (h, ty, ch), "0", "read on a write-only handle"))
        ops.append(("seek %s 0 %d" % (h, 0x10), "-1", "SFM_READ seek on a write-only handle"))
    if mode == "r":
        ops.append((S.w_line(h, ty, "i", ch, S.rand_values(rng, ty, ch, "unit")), "0", "write on a read-only handle"))
        ops.append(("seek %s 0 %d" % (h, 0x20), "-1", "SFM_WRITE seek on a read-only handle"))
        ops.append(("seek %s %d 0" % (h, F + 1 + rng.randrange(5)), "-1", "seek past the end"))
        ops.append(("seek %s %d 2" % (h, rng.randrange(1, 4)), "-1", "seek past the end (SEEK_END)"))
    ops.append(("seek %s -%d 0" % (h, 1 + rng.randrange(3)), "-1", "seek before the start"))
    ops.append(("seek %s 0 %d" % (h, rng.choice([3, 7, 0x40, 0x43, 0x100])), "-1", "unknown whence"))
    if ch > 1:
        if mode != "w":
            ops.append(("r %s %s i %d" % (h, ty, ch + 1), "0", "item count not divisible by channels"))
        if mode != "r":
            ops.append((S.w_line(h, ty, "i", ch + 1, S.rand_values(rng, ty, ch + 1, "unit")), "0", "item count not divisible by channels"))
    if ch > 1 and mode != "r":
        # sf_write_raw: the byte count must be a whole number of frames (at least a multiple of the channel count)
        ops.append(("wraw %s %d %s" % (h, ch + 1, "00" * (ch + 1)), "0", "raw byte count not divisible by channels"))
    if ch > 1 and mode == "r" and at_start:
        # sf_read_raw tests end-of-data before alignment, so this class is only inserted while data remains
        ops.append(("rraw %s %d" % (h, ch + 1), "0", "raw byte count not divisible by channels"))
    if mode != "w":
        ops.append(("r %s %s %s -%d" % (h, ty, rng.choice("if"), ch * (1 + rng.randrange(3))), "0", "negative count"))
    if mode != "r":
        ops.append(("w %s %s %s -%d " % (h, ty, rng.choice("if"), ch), "0", "negative count"))
    return ops


def _essential(op, line, ch):
    """what the contract determines: for reads the return value, error and the first `ret` frames/items (the rest of a short
    read's buffer is unspecified unless the call is at end of data, where it must be zero)"""
    line = S.normalise(line)
    t = op.split()
    if t[0] == "r" and "data=" in line:
        kv = abscheck.parse_kv(line)
        try:
            ret = int(kv.get("ret", "0"))
        except ValueError:
            return line
        data = kv.get("data", "")
        if ret <= 0:
            return "ret=%s err=%s data=%s" % (kv.get("ret"), kv.get("err"), data)
        items = ret if t[3] == "i" else ret * ch
        return "ret=%s err=%s data=%s" % (kv.get("ret"), kv.get("err"), data[:items * S.DIG[t[2]]])
    return line


def build(rng, f, ch, n):
    """base script (valid ops only) and twin (with invalid ops inserted); returns (base, twin, marks) where marks maps
    twin line index -> (expected failure value, kind) for the inserted ops"""
    wty = "s16" if f.codec not in (0x06, 0x07) else "f32"
    raw = f.major == 0x04
    base = ["open h0 s0 w fmt=%08x ch=%d sr=8000" % (f.word, ch)]
    left = n
    while left > 0:
        k = min(left, rng.choice([1, 7, 64, left]))
        base.append(S.w_line("h0", wty, "f", k, S.rand_values(rng, wty, k * ch, "unit")))
        left -= k
    base += ["close h0", "dump s0", ("open h1 s0 r fmt=%08x ch=%d sr=8000" % (f.word, ch)) if raw else "open h1 s0 r", "info h1"]
    for _ in range(6):
        if rng.random() < 0.6:
            base.append("r h1 %s f %d" % (rng.choice(R.TYS), rng.choice([1, 3, 16])))
        else:
            base.append("seek h1 0 0")
        base.append("info h1")
    base += ["close h1", "dump s0"]
    twin, marks = [], {}
    seen_read = [False]
    F_guess = n + 1000000      # certainly past the end whatever the block padding
    for line in base:
        t = line.split()
        twin.append(line)
        if t[0] in ("r", "seek"):
            seen_read[0] = True
        h = t[1] if len(t) > 1 and t[1].startswith("h") else None
        if t[0] in ("w", "r", "seek", "info") and h and rng.random() < 0.6:
            mode = "w" if h == "h0" else "r"
            at_start = mode == "r" and n > 0 and not seen_read[0] and t[0] == "info"
            cands = invalid_ops(rng, h, mode, ch, F_guess, at_start)
            picks = rng.sample(cands, 2)
            raw = [c for c in cands if c[2].startswith("raw byte count")]
            if raw and rng.random() < 0.7 and raw[0] not in picks:
                picks[0] = raw[0]
            for (op, fail, kind) in picks:
                marks[len(twin)] = (fail, kind)
                twin.append(op)
                twin.append("strerror %s" % h)
                twin.append("info %s" % h) if mode == "r" else None
                twin[:] = [x for x in twin if x is not None]
    return "\n".join(base) + "\n", "\n".join(twin) + "\n", marks


def run(ctx):
    if getattr(ctx, "replay", None):
        from .. import c09twin
        if c09twin.is_replay(open(ctx.replay).read()):
            return c09twin.replay(ctx, ctx.replay)
        return ctx.replay_script(ctx.replay)
    quick = ctx.tier == "quick"
    mx, rows, bad = error_table(ctx)
    if mx is None:
        ctx.violation("error-table", "cannot locate SFE_MAX_ERROR through sf_error_number (table layout changed)", no_input=True)
        raise Violation()
    ctx.set_generated("ErrorTable.lean", lean_error_table(mx, rows, bad))
    failed = ctx.lean_stage(modules_for("C09"))
    found = False
    ctx.run_regressions()
    found = bool(ctx.violations)
    # error numbers: every number in 0..MAX has a non-empty text of its own
    for k in range(0, mx + 1):
        ctx.count(1, "errnum")
        if not rows.get(k) or rows.get(k) == bad:
            found = True
            ctx.violation("errnum-%d" % k, "# C09: error number %d (0..SFE_MAX_ERROR=%d) has %s message\nexpect-last msg=4\n--- script\nerrnum %d\n"
                          % (k, mx, "an empty" if not rows.get(k) else "the 'no error defined' fallback", k))
    # ---- A: L1 histories (they contain every invalid-argument class the model knows) ----
    fa, sa = HC.l1_campaign(ctx, 300 if quick else 3000)
    ctx.count(sa["ops"])
    ctx.coverage["traces_validated_against_impl"] += sa["scripts"]
    # ---- B: twin runs on every writable format ----
    rng = ctx.rng
    # SD2 needs a path; OKI/VOX and RAW/DWVW are known findings of C05 (odd counts / estimated frame count) that make
    # their read results depend on uninitialised staging data: they are exercised by C05/C06, not here
    fs = [f for f in formats.writable_formats(ctx) if f.major != 0x16 and f.codec != 0x21 and not (f.major == 0x04 and f.codec in (0x40, 0x41, 0x42))]
    jobs = []
    for f in fs[rng.randrange(2)::2] if quick else fs:
        ch = min(rng.choice([1, 2, 2, 3]), f.maxch)
        jobs.append((f, ch, rng.choice([0, 1, 5, 70, 330])))
    built = [(f, ch) + build(rng, f, ch, n) for (f, ch, n) in jobs]
    scripts = []
    for i, (f, ch, base, twin, marks) in enumerate(built):
        scripts.append(("%s-%d-base" % (f.name, i), base))
        scripts.append(("%s-%d-twin" % (f.name, i), twin))
    out = ctx.batch(scripts, clean=True)
    reported = set()

    def report(f, kind, text, script, line):
        nonlocal found
        key = (f.name.split("-")[0], kind)
        if key in reported or len(reported) >= 8:
            return
        reported.add(key)
        found = True
        ctx.violation("c09-%s-%s" % (f.name, re.sub(r"\W+", "_", kind)[:30]), "# C09: %s\n# format %s\n# %s\n--- script\n%s" % (kind, f.name, text, HC.script_prefix(script, line)))

    for i, (f, ch, base, twin, marks) in enumerate(built):
        a, b = out.get("%s-%d-base" % (f.name, i), []), out.get("%s-%d-twin" % (f.name, i), [])
        bl, tl = base.strip().split("\n"), twin.strip().split("\n")
        ctx.distinct.add("fmt:" + f.name)
        ctx.count(len(tl))
        if len(a) < len(bl) or len(b) < len(tl):
            dead = [l for l in (a + b) if l.startswith(("CRASH", "ABORT", "TIMEOUT"))]
            report(f, "crash", "script died: %s" % (dead[:1] or "transcript short"), twin, min(len(b), len(tl)) - 1)
            continue
        # walk the twin: inserted ops must fail cleanly, the other lines must equal the base run
        k = 0
        j = 0
        while j < len(tl):
            if j in marks:
                fail, kind = marks[j]
                kv = abscheck.parse_kv(b[j])
                if kv.get("ret") != fail or kv.get("err") in (None, "0"):
                    report(f, kind, "invalid call returned %s with err=%s (documented failure value %s and a non-zero error)" % (kv.get("ret"), kv.get("err"), fail), twin, j)
                kv2 = abscheck.parse_kv(b[j + 1])
                if kv2.get("msglen") in (None, "0", "-1") or kv2.get("err") == "0":
                    report(f, kind + " (message)", "after the failed call sf_strerror gives msglen=%s err=%s" % (kv2.get("msglen"), kv2.get("err")), twin, j + 1)
                j += 3 if tl[j + 2].startswith("info") and (j + 2) not in marks and tl[j + 1].startswith("strerror") and (k >= len(bl) or tl[j + 2] != bl[k] or True) and tl[j + 1].split()[1] == "h1" else 2
                continue
            if k < len(bl) and tl[j] == bl[k]:
                if _essential(tl[j], a[k], ch) != _essential(tl[j], b[j], ch):
                    report(f, "state changed by an invalid call", "line '%s' answers '%s' after invalid calls, '%s' without them" % (tl[j][:60], b[j][:160], a[k][:160]), twin, j)
                    break
                kv = abscheck.parse_kv(b[j])
                if tl[j].split()[0] in ("w", "r", "seek") and kv.get("ret") not in ("0", "-1") and kv.get("err") not in (None, "0"):
                    report(f, "successful call leaves an error", "'%s' -> %s" % (tl[j][:60], b[j][:120]), twin, j)
                k += 1
            j += 1
    # ---- C: failed opens (vlib/c09open.py): NULL + global error + message, heap balance 0, no descriptor, no temporary file ----
    from .. import c09open
    if c09open.run_failed_opens(ctx):
        found = True
    # ---- C2: the caller's file after a failing open (vlib/failopen.py, Sf.FailedOpen) ----
    from .. import failopen
    if failopen.run(ctx, "C09"):
        found = True
    # ---- D: twin runs with refused calls of every class, judged on everything observable later (vlib/c09twin.py, Sf.AbsTwin) ----
    from .. import c09twin
    if c09twin.run(ctx, quick):
        found = True
    # ---- E: SFC_SET / GET_CHANNEL_MAP_INFO histories with the container's verdict (vlib/chmapfix.py, Sf.ChmapVerdict) ----
    from .. import chmapfix
    if chmapfix.run(ctx, quick):
        found = True
    # ---- F: the failure-value table of sf_command on handles that cannot serve the command (vlib/cmdfail.py, Sf.CmdFail) ----
    from .. import cmdfail
    if cmdfail.run(ctx, quick):
        found = True
    from .. import c09errapi                       # (round 9 covgap) sf_perror / sf_error_str / sf_write_sync: Sf.ErrApi correspondence, purity, sync twins
    if c09errapi.run(ctx, quick, rows):
        found = True
    corr = [x for x in fa if x.kind == "corr"]
    if corr and not found:
        x = corr[0]
        sl = x.script.strip().split("\n")
        ctx.violation("c09-correspondence-%s" % x.name,
                      "# correspondence stream 'handle model vs implementation' no longer agrees (%d of %d histories)\n# first: %s line %d: %s\n# implementation: %s\n# model: %s\nobserved-last %s\n--- script\n%s"
                      % (len(corr), sa["scripts"], x.name, x.line, sl[x.line][:100] if x.line < len(sl) else "", (x.impl or "")[:300], (x.model or "")[:300], (x.impl or "").strip(),
                         HC.script_prefix(x.script, x.line)), no_input=True)
        found = True
    if failed and not found:
        ctx.violation("lean-stage", "theorem(s) no longer check: %s\n%s" % (", ".join(failed), ctx.notes.get("lean_log_tail", "")), no_input=True)
    ctx.sample({"kind": "twin run", "format": built[0][0].name if built else None, "twin": built[0][3][:600] if built else None})
    ctx.notes["error_numbers"] = mx + 1
    ctx.coverage["rule"] = ("error numbers 0..SFE_MAX_ERROR exhaustively (table extracted by execution, theorem re-checked); A: seeded L1 histories with invalid calls mixed in, "
                            "compared with the Lean handle model; B: for every writable format a valid write/read history is run twice, once with invalid calls of every class "
                            "(wrong mode, misaligned count, negative count, unknown whence, out-of-range seek, mode-qualified whence) inserted: each must return its failure value with "
                            "a non-zero error and a non-empty message, and every other line, info record and the final file bytes must equal the run without them; "
                            "D: for every writable format (SFM_WRITE, and SFM_RDWR on a new file) a write history with refused calls of every class interleaved before the metadata, after it, BETWEEN the "
                            "audio writes (partial codec block pending) and before the close -- seeks behind the end / before the start / bad whence, wrong-mode and misaligned audio calls, over-sized / "
                            "under-sized / lying / NULL / late metadata setters (bext, cart, cues, instrument, channel map, strings, chunks, PEAK switch, ambisonic), SFC_SET_RAW_START_OFFSET on non-RAW, "
                            "SFC_FILE_TRUNCATE on SF_VIRTUAL_IO, undefined ids -- against the same history without exactly the calls that were refused: every later call, every metadata getter on the "
                            "write handle, the BYTES of the closed file and info / metadata / audio of the re-opened file must be equal (Lean predicate Sf.AbsTwin.twinOk decides); "
                            "C: failed opens -- the library's own output of one file per (major, subtype) truncated / with mutated length fields, SD2 with damaged, empty or missing resource forks, "
                            "unknown formats, bad SF_INFO and bad modes for write, each through sf_open / sf_open_fd (close_desc 1 and 0) / sf_open_virtual: NULL, sf_error (NULL) != 0, non-empty message, "
                            "handed-over descriptor closed, heap balance 0, no new descriptor, no temporary file (harness `ledger tryopen`; Lean: SfProps/C16 failed_open_leaves_no_handle)")
