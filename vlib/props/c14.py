"""C14 — path, descriptor, virtual I/O and embedded access give identical results; descriptor ownership; pipes.

Streams (all counts in the evidence are measured):
  A  shim correspondence   sfmodel routes (Sf.Routes) vs sfh routes (the real psf_* primitives on real descriptors, pipes and
                           the memory callbacks): seeded operation sequences, every route x mode, covered and uncovered operations
  A' shim property         the statement of routes_equivalent evaluated on the implementation's own lines: the same covered
                           sequence on path / fd / vio / fd at offset k with junk around must give the same observations and the
                           same logical content; pipes against path for sequential readers
  G  open gate             sf_open_fd / sf_open / sf_open_virtual + SFC_GET_EMBED_FILE_INFO + sf_close against Sf.Routes.openFd,
                           clampDeclared, openFileTail, fclose: whitelist, RDWR / SD2 refusal, descriptor states by fcntl (F_GETFD)
  B  public campaign       every writable format: one generated file written through vio / path / fd0 / fd1 / fd embedded and
                           read back through vio / path / fd0 / fd1 / embedded at 1, 37, 4096 with junk / pipe; SF_INFO, samples,
                           strings, errors, file bytes, descriptor state must agree
  K  known findings        three witnesses replayed every run
"""
import os, re, json

from .. import formats as FM
from ..core import Violation, VERIF, modules_for

WHITELIST = {0x01, 0x13, 0x02, 0x03}            # WAV WAVEX AIFF AU (MPEG, FLAC are not compiled in)
PIPE_MAJORS = {0x01, 0x02, 0x03}                # the statement: WAV, AIFF, AU with sample-granular encodings
NAME_MAJORS = {0x06: "svx", 0x21: "mpc2k"}      # header fields that record the file name
SFC_FILE_TRUNCATE, SFC_GET_EMBED_FILE_INFO = "1080", "10b0"
ERRNAMES = ("system", "badOffset", "noEmbedSupport", "noEmbeddedRdwr", "sd2Fd")


MAX_PER_STREAM = 6


def capped(ctx, stream, name, text, no_input=False):
    """at most MAX_PER_STREAM VIOLATION lines per stream (all are counted in the evidence)"""
    c = ctx.notes.setdefault("violations_per_stream", {})
    c[stream] = c.get(stream, 0) + 1
    if c[stream] <= MAX_PER_STREAM:
        ctx.violation(name, text, no_input=no_input)


def hexb(bs):
    return "".join("%02x" % b for b in bs)


# ---------------------------------------------------------------- stream A: shim cases

class Abs:
    """generator aid only: tracks the logical position/length so that `covered` sequences stay inside Op.ok"""
    def __init__(self, n):
        self.len, self.pos = n, 0


def gen_ops(rng, mode, clen, covered, embedded_read=False, pipe=False, maxops=12):
    a = Abs(clen)
    ops = []
    for _ in range(rng.randrange(1, maxops + 1)):
        r = rng.random()
        if pipe:
            kind = "r" if r < 0.6 else "t" if r < 0.8 else "s"
        elif mode == "r":
            kind = "r" if r < 0.4 else "s" if r < 0.75 else "t" if r < 0.9 else "l"
        elif mode == "w":
            kind = "w" if r < 0.45 else "s" if r < 0.75 else "t" if r < 0.85 else "l" if r < 0.93 else "x"
        else:
            kind = "r" if r < 0.25 else "w" if r < 0.5 else "s" if r < 0.75 else "t" if r < 0.85 else "l" if r < 0.93 else "x"
        # (until round 3 covered sequences avoided `l` on embedded read handles and every truncate: KF-C14-EMBED-SHORT / TRUNC-EMBED, now repaired)
        if kind == "r":
            b = rng.choice([1, 1, 1, 2, 3, 4, 8])
            i = rng.choice([0, 1, 2, 3, 7, max(0, (a.len - a.pos) // b), (a.len - a.pos) // b + 1, a.len + 5])
            ops.append("r:%d:%d" % (b, i))
            a.pos += min(b * i, max(0, a.len - a.pos))
        elif kind == "w":
            b = rng.choice([1, 1, 2, 4])
            i = rng.choice([0, 1, 2, 5, 9])
            data = [rng.randrange(256) for _ in range(b * i)]
            ops.append("w:%d:%d:%s" % (b, i, hexb(data)))
            if b * i:
                a.len = max(a.len, a.pos + b * i)
                a.pos += b * i
        elif kind == "s":
            if pipe:
                ops.append("s:%d:0" % a.pos)
                continue
            wh = rng.choice([0, 0, 0, 1, 1, 2] + ([] if covered else [3, 7]))
            base = 0 if wh == 0 else a.pos if wh == 1 else a.len
            if covered or rng.random() < 0.6:
                tgt = rng.choice([0, a.len, max(0, a.len - 1), a.len + 3, rng.randrange(0, a.len + 6), a.pos])
            else:
                tgt = rng.choice([-1, -2, -a.len - 1, -40, -5000])
            ops.append("s:%d:%d" % (tgt - base, wh))
            if wh <= 2 and tgt >= 0:
                a.pos = tgt
        elif kind == "x":
            n = rng.choice([0, 1, a.len, max(0, a.len - 3), a.len + 4, -1])
            ops.append("x:%d" % n)
            if n >= 0:
                a.len = n
        else:
            ops.append(kind)
    if not covered and rng.random() < 0.3:
        ops.append("c")
        ops += rng.sample(["t", "l", "s:0:0", "r:1:2"], 2) if mode != "w" else ["t", "l"]
    return ops


def shim_line(name, route, mode, cd, lead, trail, content, ops):
    return "shim %s route=%s mode=%s cd=%d lead=%d trail=%d content=%s ops=%s" % (
        name, route, mode, cd, lead, trail, hexb(content) if content else "-", ";".join(ops))


def run_routes(ctx, lines, consts=None):
    """runs case lines through the harness (chunks, in parallel processes) and the model; returns (impl, model) line lists"""
    import concurrent.futures
    chunks = [lines[i::8] for i in range(8)]
    chunks = [c for c in chunks if c]

    def one(chunk):
        p = ctx.run_sfh(["routes"], "\n".join(chunk) + "\n", timeout=900)
        return chunk, p
    impl = {}
    bad = None
    with concurrent.futures.ThreadPoolExecutor(max_workers=len(chunks) or 1) as ex:
        for chunk, p in ex.map(one, chunks):
            out = [l for l in p.stdout.split("\n") if l.startswith(("shim ", "gate "))]
            for l in out:
                impl[l.split(" ")[1]] = l
            if p.returncode != 0 or len(out) != len(chunk):
                done = {l.split(" ")[1] for l in out}
                first = next((c for c in chunk if c.split(" ")[1] not in done), chunk[-1])
                bad = (first, p.returncode, p.stderr[-3000:])
    model = {}
    out = ctx.run_model(["routes"], "\n".join(lines) + "\n")
    for l in out.split("\n"):
        if l.startswith(("shim ", "gate ")):
            model[l.split(" ")[1]] = l
    return impl, model, bad


def norm_impl(line, consts):
    """library error numbers -> the model's names"""
    def err(m):
        n = int(m.group(2))
        for k in ERRNAMES:
            if consts.get(k) == n:
                return m.group(1) + k
        return m.group(1) + ("none" if n == 0 else "E%d" % n)
    line = re.sub(r"\b(open=|err=)(-?\d+)", err, line)
    return re.sub(r" frames=-?\d+", "", line)


def shim_mid(line):
    """(observations, error, logical content after stripping `lead` is done by the caller)"""
    parts = line.split(" | ")
    return parts[1].strip() if len(parts) >= 3 else None


def shim_file(line):
    m = re.search(r" file=(\S*)$", line)
    return m.group(1) if m else None


def stream_shim(ctx, consts, n_free, n_groups):
    rng = ctx.rng
    lines, meta = [], {}
    # --- free cases: model vs implementation, any operation
    for k in range(n_free):
        route = rng.choice(["path", "fd", "fd", "fd", "vio", "pipe"])
        mode = rng.choice(["r", "r", "w"]) if route == "pipe" else rng.choice(["r", "r", "w", "rw"])
        cd = rng.randrange(2)
        lead = rng.choice([0, 0, 1, 5, 37, 300]) if route == "fd" else 0
        trail = rng.choice([0, 0, 3, 40])
        clen = rng.choice([0, 1, 10, 43, 44, 45, 60, 200])
        content = [rng.randrange(256) for _ in range(clen)]
        if route == "pipe" and mode == "w":
            # a pipe being written: writes, tell (pipeoffset), the no-op seeks, filelen; what arrives at the other end is compared
            ops = []
            for _ in range(rng.randrange(1, 9)):
                b, i = rng.choice([1, 2, 4]), rng.choice([0, 1, 3, 40])
                ops.append(rng.choice(["w:%d:%d:%s" % (b, i, hexb([rng.randrange(256) for _ in range(b * i)])), "t", "l", "s:%d:%d" % (rng.randrange(50), rng.randrange(3))]))
        else:
            ops = gen_ops(rng, mode, clen + (trail if route != "pipe" else 0), covered=False, pipe=(route == "pipe"))
        name = "f%d" % k
        lines.append(shim_line(name, route, mode, cd, lead, trail if route != "pipe" else 0, content, ops))
        meta[name] = ("free", route, mode)
    # --- groups: one covered sequence on every route that presents the same logical file
    groups = []
    for g in range(n_groups):
        mode = rng.choice(["r", "r", "w", "rw"])
        trail = rng.choice([0, 0, 4, 33]) if mode != "w" else 0
        clen = rng.choice([44, 50, 97, 256]) if mode != "w" else 0
        content = [rng.randrange(256) for _ in range(clen)]
        leads = [rng.choice([1, 2, 7]), 37, rng.choice([300, 4096])]
        emb = mode in ("r", "w")
        ops = gen_ops(rng, mode, clen + trail, covered=True, embedded_read=(mode == "r")) + ["c"]
        members = [("path", 0, 1), ("vio", 0, 1), ("fd", 0, 0), ("fd", 0, 1)]
        if emb:
            members += [("fd", l, rng.randrange(2)) for l in leads]
        names = []
        for j, (route, lead, cd) in enumerate(members):
            name = "g%d_%d" % (g, j)
            lines.append(shim_line(name, route, mode, cd, lead, trail, content, ops))
            meta[name] = ("group", route, mode)
            names.append((name, route, lead, cd))
        groups.append((names, mode, content, trail, ops))
    # --- pipes against path: sequential readers
    pgroups = []
    for g in range(max(1, n_groups // 4)):
        clen = rng.choice([1, 44, 300, 5000])
        content = [rng.randrange(256) for _ in range(clen)]
        ops = gen_ops(rng, "r", clen, covered=True, pipe=True)
        a, b = "p%d_path" % g, "p%d_pipe" % g
        lines.append(shim_line(a, "path", "r", 1, 0, 0, content, ops))
        lines.append(shim_line(b, "pipe", "r", 1, 0, 0, content, ops))
        meta[a] = meta[b] = ("pipe", "", "r")
        pgroups.append((a, b, content, ops))

    impl, model, bad = run_routes(ctx, lines)
    byname = {l.split(" ")[1]: l for l in lines}
    if bad:
        first, rc, err = bad
        ctx.violation("shim-harness-crash", "# C14: the shim experiment stopped (exit %d) at this case\n%s\n--- case\n%s" % (rc, err, first))
        return True
    found = False
    mism = 0
    for name, line in byname.items():
        ctx.count(1, tag="shim-%s-%s-%s" % meta[name])
        i = norm_impl(impl.get(name, ""), consts)
        m = model.get(name, "")
        ctx.coverage["traces_validated_against_impl"] += 1
        if i != m:
            mism += 1
            if mism <= 3:
                ctx.notes.setdefault("shim_mismatch", []).append({"case": line[:400], "impl": i[:400], "model": m[:400]})
    # --- A': the property on the implementation's own lines
    for (names, mode, content, trail, ops) in groups:
        ref = None
        has_trunc = any(o.startswith("x") for o in ops)
        for (name, route, lead, cd) in names:
            if route == "vio" and has_trunc:
                continue            # SF_VIRTUAL_IO has no truncate callback: refused there by design (theorem truncate_vio_refused_cleanly)
            l = impl.get(name, "")
            mid, f = shim_mid(l), shim_file(l)
            logical = f[2 * lead:] if f not in (None, "-") else f
            lead_ok = True
            if route == "fd" and lead and f not in (None, "-"):
                want = hexb([0x5A ^ (k & 0xFF) for k in range(lead)])
                lead_ok = f[:2 * lead] == want
            own = re.search(r" fd=(\S+) sent=(\d)", l)
            fd_state, sent = (own.group(1), own.group(2)) if own else ("?", "?")
            obs = (mid, logical)
            ctx.count(1, tag="routes-agree-%s" % mode)
            want_state = "-" if route == "vio" else "0" if route == "path" or cd else "1"
            if fd_state != want_state:
                found = True
                capped(ctx, "shim-close", "shim-close-%s" % name, "# C14 close_desc_iff on the implementation: after psf_fclose the handle's descriptor is %s, expected %s (route %s, close_desc %d)\n# %s\n--- cases (run with: sfh routes)\n%s"
                       % ({"0": "closed", "1": "open"}.get(fd_state, fd_state), {"0": "closed", "1": "open"}.get(want_state, want_state), route, cd, l, byname[name]))
                break
            if ref is None:
                ref = (name, obs)
            elif obs != ref[1] or not lead_ok or sent != "1":
                found = True
                what = "observations / logical content differ from route path" if obs != ref[1] else \
                       "bytes in front of fileoffset were modified" if not lead_ok else "a descriptor the shim did not open was closed"
                capped(ctx, "shim", "shim-routes-%s" % name,
                              "# C14 routes_equivalent on the implementation: %s\n# covered operation sequence (no truncate, no negative target, no SEEK_END-free restriction needed), mode %s\n"
                              "# reference %s\n# this     %s\n--- cases (run with: sfh routes)\n%s\n%s"
                              % (what, mode, impl.get(ref[0], ""), l, byname[ref[0]], byname[name]))
                break
    for (a, b, content, ops) in pgroups:
        ctx.count(1, tag="pipe-agrees")
        if shim_mid(impl.get(a, "")) != shim_mid(impl.get(b, "")):
            found = True
            capped(ctx, "shim-pipe", "shim-pipe-%s" % b, "# C14 pipe_equivalent on the implementation: a sequential reader gets different results from a pipe\n# path %s\n# pipe %s\n--- cases (run with: sfh routes)\n%s\n%s"
                          % (impl.get(a, ""), impl.get(b, ""), byname[a], byname[b]))
    ctx.notes["shim_cases"] = len(lines)
    ctx.notes["shim_model_mismatches"] = mism
    if mism and not found:
        d = ctx.notes["shim_mismatch"][0]
        ctx.violation("shim-correspondence", "# C14: Sf.Routes and the real psf_* primitives disagree on %d of %d cases; no covered sequence on which two routes differ was found\n"
                      "# first: impl  %s\n#        model %s\n--- case (run with: sfh routes / sfmodel routes)\n%s" % (mism, len(lines), d["impl"], d["model"], d["case"]), no_input=True)
    return found or bool(mism)


# ---------------------------------------------------------------- generated files (stream B and G)

def pick_formats(ctx, per_major_all=True):
    fmts = [f for f in FM.writable_formats(ctx) if f.major != 0x16]
    return fmts


def gen_values(rng, n):
    return [rng.choice([0, 1, 0xFFFF, 0x7FFF, 0x8000, 0x1234]) if rng.random() < 0.1 else rng.randrange(65536) for _ in range(n)]


def ext_of(f):
    return FM.MAJOR_NAME.get(f.major, "dat")


def write_script(f, ch, frames, vals, route, title):
    lines = ["open h0 s0 w fmt=%08x ch=%d sr=8000 route=%s ext=%s" % (f.word, ch, route, ext_of(f))]
    if title:
        lines.append("setstr h0 1 %s" % hexb(title))
    k = frames // 3
    parts = [(0, k), (k, frames)] if k else [(0, frames)]
    for (a, b) in parts:
        if b > a:
            lines.append("w h0 s16 f %d %s" % (b - a, "".join("%04x" % v for v in vals[a * ch:b * ch])))
    lines += ["close h0", "dump s0"]
    return "\n".join(lines) + "\n"


def read_script(f, ch, frames, filehex, route, seekable=True, mode="r"):
    lines = ["store s1 " + filehex]
    fmt = " fmt=%08x ch=%d sr=8000" % (f.word, ch) if f.major == 0x04 else ""
    lines.append("open h1 s1 %s%s route=%s ext=%s" % (mode, fmt, route, ext_of(f)))
    lines.append("getstr h1 1")
    a = max(1, frames // 4)
    even = False      # (was: OKI/VOX) KF-VOX-ODD is repaired: odd item counts on every route
    if even:
        a = max(2, a - a % 2)
    lines.append("r h1 s16 f %d" % a)
    if seekable:
        lines.append("seek h1 %d 0" % (frames // 2))
        lines.append("r h1 s32 f %d" % a)
        lines.append("seek h1 0 0")
    lines.append("r h1 f32 f %d" % (frames + (4 if even else 3)))
    lines.append("r h1 s16 i %d" % (6 if even else 5))
    lines.append("strerror h1")
    lines.append("close h1")
    return "\n".join(lines) + "\n"


DIGITS = {"s16": 4, "s32": 8, "f32": 8, "f64": 16}


def cut_reads(script, lines, ch):
    """keep only the items a read call delivered (ret): what lies behind them in the caller's buffer is C05's subject, not a sample"""
    ops = [l.split() for l in script.split("\n") if l.strip()]
    out = list(lines)
    for k, op in enumerate(ops):
        if k < len(out) and op[0] == "r" and len(op) >= 5:
            m = re.match(r"ret=(-?\d+) (err=\S+) data=([0-9a-f]*)$", out[k])
            if m:
                n = max(0, int(m.group(1))) * (ch if op[3] == "f" else 1) * DIGITS.get(op[2], 4)
                out[k] = "ret=%s %s data=%s" % (m.group(1), m.group(2), m.group(3)[:n])
    return out


def strip_route_noise(lines):
    out = []
    for l in lines:
        l = re.sub(r" fd_open=\d", "", l)
        l = re.sub(r"msglen=\d+", "", l).rstrip()
        out.append(l)
    return out


def fd_open_of(lines):
    for l in lines:
        m = re.search(r"^ret=-?\d+ fd_open=(\d)", l)
        if m:
            return int(m.group(1))
    return None


def mask_names(major, hx, ref):
    """SVX NAME chunk / MPC2K name field record the file name: compare everything else"""
    if major == 0x21:
        return hx[:4] + "*" * 34 + hx[38:]        # bytes 2..18 hold the name
    return hx


def svx_without_name(hx):
    """remove the NAME chunk and the FORM size of an IFF file (hex)"""
    b = bytes.fromhex(hx)
    if b[:4] != b"FORM" or len(b) < 12:
        return hx
    out = [b[8:12]]
    p = 12
    while p + 8 <= len(b):
        cid = b[p:p + 4]
        sz = int.from_bytes(b[p + 4:p + 8], "big")
        end = p + 8 + sz + (sz & 1)
        if cid != b"NAME":
            out.append(b[p:end])
        p = end
    return b"".join(out).hex()


def stream_public(ctx, consts, fmts, alive):
    rng = ctx.rng
    jobs = []
    scripts = []
    # ---- phase 1: write through every route
    for n, f in enumerate(fmts):
        ch = 1 if f.maxch < 2 or n % 3 else 2
        frames = rng.choice([1, 7, 64, 300]) if f.granular else rng.choice([1, 100, 700])
        if f.granular and f.codec in (0x01, 0x05, 0x10, 0x11, 0x03) and ch == 1:
            frames = rng.choice([1, 7, 63, 301])    # odd data length: a pad byte follows the audio (WAV, AIFF) — where sf_read_raw's clamp differed before d9097b4
        if f.codec == 0x20 and f.major in (0x01, 0x13):
            frames = rng.choice([320, 640, 960, 1280])   # WAV/GSM: odd and even numbers of 65-byte blocks (the pad byte of an odd count was an extra block before the repair of KF-WAV-GSM-PAD)
        if f.codec == 0x21:
            frames = rng.choice([5, 64, 401])       # OKI/VOX: odd totals too (two samples per byte, the odd one is held for the next call / close: KF-VOX-ODD repaired)
        vals = gen_values(rng, frames * ch)
        title = [0x54, 0x31 + n % 9] if f.major in (0x01, 0x13, 0x02, 0x18, 0x22) and rng.random() < 0.5 else None
        j = dict(f=f, ch=ch, frames=frames, vals=vals, title=title, name="%s-%dch-%d" % (f.name, ch, frames))
        wroutes = ["vio", "path", "fd0", "fd1"] + (["fdemb:37:0"] if f.major in WHITELIST else [])
        for r in wroutes:
            scripts.append(("w|%d|%s" % (n, r), write_script(f, ch, frames, vals, r, title)))
        j["wroutes"] = wroutes
        jobs.append(j)
    res = ctx.batch(scripts, op_timeout=20, clean=True)
    sdict = dict(scripts)
    found = False
    scripts2 = []
    for n, j in enumerate(jobs):
        f = j["f"]
        ref = res.get("w|%d|vio" % n, [])
        refn = strip_route_noise(ref[:-1])
        m = re.match(r"len=(\d+) hex=([0-9a-f]*)", ref[-1] if ref else "")
        if not m or not ref or not ref[0].startswith("open=ok"):
            j["filehex"] = None
            continue
        j["filehex"] = m.group(2)
        for r in j["wroutes"][1:]:
            key = "w|%d|%s" % (n, r)
            got = res.get(key, [])
            ctx.count(1, tag="write-%s-%s" % (r.split(":")[0], FM.MAJOR_NAME.get(f.major)))
            ctx.coverage["traces_validated_against_impl"] += 1
            gm = re.match(r"len=(\d+) hex=([0-9a-f]*)", got[-1] if got else "")
            ghex = gm.group(2) if gm else None
            if ghex is not None and r.startswith("fdemb"):
                lead = int(r.split(":")[1])
                lead_ok = ghex[:2 * lead] == hexb([0x5A ^ (k & 0xFF) for k in range(lead)])
                ghex = ghex[2 * lead:]
            else:
                lead_ok = True
            a, b = j["filehex"], ghex
            if f.major == 0x06 and b is not None:
                a, b = svx_without_name(a), svx_without_name(b)
            elif f.major == 0x21 and b is not None:
                a, b = mask_names(f.major, a, a), mask_names(f.major, b, b)
            want_fd = {"fd0": 1, "fd1": 0}.get(r, 0 if r.startswith("fdemb") else None)
            fdo = fd_open_of(got)
            why = None
            if strip_route_noise(got[:-1]) != refn:
                why = "open / write / close results differ from the virtual-I/O route"
            elif a != b:
                why = "file bytes differ from the virtual-I/O route" + (" (name fields masked)" if f.major in NAME_MAJORS else "")
            elif not lead_ok:
                why = "bytes of the enclosing file in front of the embedded file were modified"
            elif want_fd is not None and fdo != want_fd:
                why = "descriptor state after sf_close: fcntl (F_GETFD) says open=%s, close_desc demands open=%s" % (fdo, want_fd)
            if why:
                found = True
                capped(ctx, "write", "write-%s-%s" % (j["name"], r.replace(":", "_")),
                              "# C14 written bytes / results must not depend on the route: %s, route %s: %s\n# vio : %s\n# here: %s\n--- script\n%s"
                              % (j["name"], r, why, " / ".join(refn)[:600], " / ".join(strip_route_noise(got[:-1]))[:600], sdict[key]))
        # ---- phase 2 scripts: read the vio-written file through every route
        rroutes = ["vio", "path", "fd0", "fd1"]
        embs = ["fdemb:1:0", "fdemb:37:9", "fdemb:4096:100"]
        j["rroutes"], j["embs"] = rroutes, embs
        for r in rroutes + embs:
            scripts2.append(("r|%d|%s" % (n, r), read_script(f, j["ch"], j["frames"], j["filehex"], r)))
        if f.major in PIPE_MAJORS and f.granular:
            scripts2.append(("r|%d|vioseq" % n, read_script(f, j["ch"], j["frames"], j["filehex"], "vio", seekable=False)))
            scripts2.append(("r|%d|pipe" % n, read_script(f, j["ch"], j["frames"], j["filehex"], "pipe", seekable=False)))
        scripts2.append(("rw|%d|fdemb" % n, read_script(f, j["ch"], j["frames"], j["filehex"], "fdemb:37:0", mode="rw")))
        # a file shorter than its header says (cut inside the audio data), bare and embedded with nothing behind it
        if f.major in WHITELIST and f.granular and j["frames"] >= 7:
            cut = rng.choice([1, 3, 7])
            j["shorthex"] = j["filehex"][:-2 * cut]
            for r in ["vio", "path", "fd0", "fdemb:37:0", "fdemb:4096:0"]:
                scripts2.append(("s|%d|%s" % (n, r), read_script(f, j["ch"], j["frames"], j["shorthex"], r)))
    res2 = ctx.batch(scripts2, op_timeout=20, clean=True)
    s2 = dict(scripts2)

    def viol(name, text, key):
        capped(ctx, name.split("-")[0], name, text + "\n--- script\n" + s2[key][:200000])

    for n, j in enumerate(jobs):
        if not j.get("filehex"):
            continue
        f = j["f"]
        def rd(key):
            return strip_route_noise(cut_reads(s2[key], res2.get(key, []), j["ch"])[1:])
        ref = rd("r|%d|vio" % n)
        for r in j["rroutes"][1:] + j["embs"]:
            key = "r|%d|%s" % (n, r)
            got = res2.get(key, [])
            gl = rd(key)
            ctx.count(1, tag="read-%s-%s" % (r.split(":")[0], FM.MAJOR_NAME.get(f.major)))
            ctx.coverage["traces_validated_against_impl"] += 1
            if r.startswith("fdemb") and f.major not in WHITELIST:
                # the container's own parser may give up first (its idea of the file length is off by the offset): any refusal will do
                if not gl or not re.match(r"open=NULL err=[1-9]", gl[0]):
                    found = True
                    viol("embed-refusal-%s-%s" % (j["name"], r.replace(":", "_")),
                         "# C14: %s is not on the embedding whitelist; sf_open_fd at a non-zero offset must be refused (SFE_NO_EMBED_SUPPORT = %d, or the parser's own error), got: %s"
                         % (j["name"], consts["noEmbedSupport"], gl[0] if gl else "(nothing)"), key)
                continue
            want_fd = {"fd0": 1, "fd1": 0}.get(r, 0 if r.startswith("fdemb") else None)
            fdo = fd_open_of(got)
            why = None
            if gl != ref:
                k = next((i for i in range(min(len(gl), len(ref))) if gl[i] != ref[i]), min(len(gl), len(ref)))
                why = "line %d differs from the virtual-I/O route:\n#   vio : %s\n#   here: %s" % (k + 2, (ref[k] if k < len(ref) else "(missing)")[:300], (gl[k] if k < len(gl) else "(missing)")[:300])
            elif want_fd is not None and fdo != want_fd:
                why = "descriptor state after sf_close: open=%s, close_desc demands open=%s" % (fdo, want_fd)
            if why:
                found = True
                viol("read-%s-%s" % (j["name"], r.replace(":", "_")),
                     "# C14 the same file bytes must give the same SF_INFO, samples, strings and errors on every route: %s, route %s\n# %s" % (j["name"], r, why), key)
        if "r|%d|pipe" % n in s2:
            a = rd("r|%d|vioseq" % n)
            b = rd("r|%d|pipe" % n)
            # SF_INFO.seekable is 0 on a pipe by design
            a0 = [re.sub(r" seekable=\d", "", x) for x in a]
            b0 = [re.sub(r" seekable=\d", "", x) for x in b]
            ctx.count(1, tag="read-pipe-%s" % FM.MAJOR_NAME.get(f.major))
            if a0 != b0:
                k = next((i for i in range(min(len(a0), len(b0))) if a0[i] != b0[i]), min(len(a0), len(b0)))
                found = True
                viol("pipe-%s" % j["name"], "# C14 a non-seekable pipe must deliver the same samples (WAV/AIFF/AU, sample-granular): %s\n#   vio : %s\n#   pipe: %s"
                     % (j["name"], (a0[k] if k < len(a0) else "(missing)")[:300], (b0[k] if k < len(b0) else "(missing)")[:300]), "r|%d|pipe" % n)
        if j.get("shorthex"):
            sref = rd("s|%d|vio" % n)
            for r in ["path", "fd0", "fdemb:37:0", "fdemb:4096:0"]:
                key = "s|%d|%s" % (n, r)
                gl = rd(key)
                ctx.count(1, tag="short-file-%s-%s" % (r.split(":")[0], FM.MAJOR_NAME.get(f.major)))
                if gl != sref:
                    k = next((i for i in range(min(len(gl), len(sref))) if gl[i] != sref[i]), min(len(gl), len(sref)))
                    found = True
                    viol("short-%s-%s" % (j["name"], r.replace(":", "_")),
                         "# C14 a file shorter than its header says must give the same SF_INFO, samples and errors on every route (KF-C14-EMBED-SHORT, repaired): %s, route %s\n"
                         "# line %d:\n#   vio : %s\n#   here: %s" % (j["name"], r, k + 2, (sref[k] if k < len(sref) else "(missing)")[:300], (gl[k] if k < len(gl) else "(missing)")[:300]), key)
        key = "rw|%d|fdemb" % n
        got = res2.get(key, [])
        ctx.count(1, tag="rdwr-embedded-refused")
        if len(got) < 2 or not got[1].startswith("open=NULL err=%d" % consts["noEmbeddedRdwr"]):
            found = True
            viol("rdwr-embedded-%s" % j["name"], "# C14: SFM_RDWR on an embedded file must be refused with SFE_NO_EMBEDDED_RDWR (%d), got: %s"
                 % (consts["noEmbeddedRdwr"], got[1] if len(got) > 1 else "(nothing)"), key)
    ctx.notes["public_formats"] = len(jobs)
    ctx.notes["public_scripts"] = len(scripts) + len(scripts2)
    return found, jobs


# ---------------------------------------------------------------- stream P: sf_seek / sf_read_raw against Sf.Routes (gRun)

def stream_api(ctx, consts, jobs, per_job=2):
    rng = ctx.rng
    cand = [j for j in jobs if j.get("filehex") and j["f"].major in WHITELIST and j["f"].granular]
    peeks = [("k|%d" % n, "store s1 %s\nopen h1 s1 r\niolog peek h1\nclose h1\n" % j["filehex"]) for n, j in enumerate(cand)]
    pres = ctx.batch(peeks, op_timeout=20, clean=True)
    scripts, mlines, meta = [], [], {}
    for n, j in enumerate(cand):
        ls = pres.get("k|%d" % n, [])
        m = re.search(r"dataoffset=(-?\d+) datalength=(-?\d+) blockwidth=(\d+) bytewidth=(\d+)", " ".join(ls))
        fo = re.search(r"open=ok .* frames=(\d+)", " ".join(ls))
        if not m or not fo:
            continue
        doff, bw, byw, frames = int(m.group(1)), int(m.group(3)), int(m.group(4)), int(fo.group(1))
        align = j["ch"] * max(byw, 1)
        for rep in range(per_job):
            ops = []
            for _ in range(rng.randrange(2, 11)):
                if rng.random() < 0.5:
                    wh = rng.choice([0, 0, 1, 1, 2])
                    base = 0 if wh == 0 else None
                    off = rng.choice([0, 1, frames, frames + 1, -1, frames // 2, -frames, rng.randrange(-3, frames + 3)]) if wh != 2 else rng.choice([0, -1, -frames, 1, -(frames // 2)])
                    ops.append(("s", off, wh))
                else:
                    k = rng.choice([1, 1, 2, frames, frames + 2, 5])      # sf_read_raw (0) returns before psf->error is reset: not modelled, not generated
                    nbytes = k * align if rng.random() < 0.85 else k * align + rng.randrange(1, max(2, align))
                    ops.append(("r", nbytes, 0))
            # always end at the boundary: from the last frame, ask for three — with 1..blockwidth-1 bytes following the audio
            # (pad byte after 24-bit mono, the first bytes of whatever follows an embedded file) the old clamp let them through
            ops += [("s", max(frames - 1, 0), 0), ("r", 3 * align, 0)]
            text_ops = "".join("seek h1 %d %d\n" % (o[1], o[2]) if o[0] == "s" else "rraw h1 %d\n" % o[1] for o in ops)
            mops = ";".join("s:%d:%d" % (o[1], o[2]) if o[0] == "s" else "r:%d" % o[1] for o in ops)
            for r in ["vio", "path", "fd0", "fdemb:1:0", "fdemb:37:9"]:
                name = "a%d_%d_%s" % (n, rep, r.replace(":", "_"))
                scripts.append((name, "store s1 %s\nopen h1 s1 r route=%s ext=%s\n%sclose h1\n" % (j["filehex"], r, ext_of(j["f"]), text_ops)))
                lead, trail = (int(r.split(":")[1]), int(r.split(":")[2])) if r.startswith("fdemb") else (0, 0)
                mroute = "vio" if r == "vio" else "path" if r == "path" else "fd"
                mlines.append("api %s route=%s cd=%d lead=%d trail=%d content=%s dataoffset=%d blockwidth=%d align=%d frames=%d ops=%s"
                              % (name, mroute, 0 if r == "fd0" else 1, lead, trail, j["filehex"], doff, bw, align, frames, mops))
                meta[name] = (j["name"], r, ops)
    if not scripts:
        return False
    res = ctx.batch(scripts, op_timeout=20, clean=True)
    out = ctx.run_model(["routes"], "\n".join(mlines) + "\n")
    model = {l.split(" ")[1]: l for l in out.split("\n") if l.startswith("api ")}
    sd, md = dict(scripts), {l.split(" ")[1]: l for l in mlines}
    found = False
    for name, (jn, r, ops) in meta.items():
        got = res.get(name, [])
        ctx.count(1, tag="api-%s" % r.split(":")[0])
        ctx.coverage["traces_validated_against_impl"] += 1
        impl = []
        for k, o in enumerate(ops):
            l = got[2 + k] if 2 + k < len(got) else "(missing)"
            m = re.match(r"ret=(-?\d+) err=(-?\d+)(?: data=([0-9a-f]*))?", l)
            if not m:
                impl.append(l)
                continue
            ret = int(m.group(1))
            data = (m.group(3) or "")[:2 * max(0, ret)] if o[0] == "r" else ""
            impl.append("ret=%d err=%s data=%s" % (ret, "0" if m.group(2) == "0" else "E", data))
        cl = got[2 + len(ops)] if 2 + len(ops) < len(got) else ""
        fdo = re.search(r"fd_open=(\d)", cl)
        impl_line = "api %s open=none | %s | close=%s fd=%s" % (name, " | ".join(impl), (re.match(r"ret=(-?\d+)", cl) or [None, "?"])[1], fdo.group(1) if fdo else "-")
        mod = re.sub(r" sent=\d$", "", model.get(name, ""))
        if r == "path":
            mod = re.sub(r" fd=\S+$", " fd=-", mod)       # the script interpreter cannot see the descriptor sf_open made
        if impl_line != mod:
            found = True
            parts_i, parts_m = impl_line.split(" | "), mod.split(" | ")
            k = next((i for i in range(min(len(parts_i), len(parts_m))) if parts_i[i] != parts_m[i]), min(len(parts_i), len(parts_m)))
            capped(ctx, "api", "api-%s" % name,
                   "# C14 sf_seek / sf_read_raw through route %s on %s: the library and Sf.Routes (gRun: sf_seek, psf_default_seek, sf_read_raw over the shim) disagree at step %d\n"
                   "#   library: %s\n#   model  : %s\n# model case: %s\n--- script\n%s"
                   % (r, jn, k, parts_i[k] if k < len(parts_i) else "(missing)", parts_m[k] if k < len(parts_m) else "(missing)", md[name][:300] + " …", sd[name]))
    ctx.notes["api_cases"] = len(scripts)
    return found


# ---------------------------------------------------------------- stream G: the gate against the model

def stream_gate(ctx, consts, jobs):
    lines, meta = [], {}
    k = 0
    seen_major = set()
    for j in jobs:
        f = j["f"]
        if not j.get("filehex") or (f.major in seen_major and f.major not in WHITELIST):
            continue
        seen_major.add(f.major)
        clen = len(j["filehex"]) // 2
        au = 1 if f.major == 0x03 else 0
        for (mode, lead, trail, cd) in [("r", 0, 0, 0), ("r", 0, 0, 1), ("r", 1, 0, 1), ("r", 37, 9, 0), ("r", 37, 9, 1), ("r", 4096, 100, 1),
                                        ("rw", 37, 0, 0), ("rw", 37, 0, 1), ("w", 0, 0, 0), ("w", 37, 0, 1), ("w", 37, 0, 0)]:
            name = "q%d" % k
            k += 1
            content = j["filehex"] if mode != "w" else "-"
            lines.append("gate %s route=fd mode=%s cd=%d lead=%d trail=%d fmt=%08x clen=%d major=%x declared=%d au=%d content=%s"
                         % (name, mode, cd, lead, trail, f.word if (mode == "w" or f.major == 0x04) else 0, clen if mode != "w" else 0, f.major, clen, au, content))
            meta[name] = (j["name"], mode, lead, f.major)
    # the 44-byte rule at its boundary: hand-made AU/u-law files, descriptor sizes 43, 44, 45 (and the same files at offset 0)
    for n in (-1, 0, 1, 19, 20):
        au_file = b".snd" + b"".join(int(x).to_bytes(4, "big") for x in (24, max(n, 0), 1, 8000, 1)) + bytes((0x80 + k) & 0xFF for k in range(max(n, 0)))
        if n < 0:
            au_file = au_file[:23]          # not even a header: 23 bytes behind the offset must be refused as `offset beyond end of file`
        for (lead, cd) in [(1, 1), (1, 0)] + ([(0, 1)] if n >= 0 else []):
            name = "q%d" % k
            k += 1
            lines.append("gate %s route=fd mode=r cd=%d lead=%d trail=0 fmt=0 clen=%d major=3 declared=%d au=1 content=%s" % (name, cd, lead, len(au_file), len(au_file), au_file.hex()))
            meta[name] = ("au-boundary-%d" % len(au_file), "r", lead, 0x03)
    # the SD2 refusal looks only at the caller's SF_INFO
    for (mode, cd) in [("r", 0), ("r", 1), ("w", 0), ("w", 1), ("rw", 1)]:
        name = "q%d" % k
        k += 1
        lines.append("gate %s route=fd mode=%s cd=%d lead=0 trail=0 fmt=00160002 clen=50 major=16 declared=50 au=0 content=%s" % (name, mode, cd, "00" * 50))
        meta[name] = ("sd2", mode, 0, 0x16)
    impl, model, bad = run_routes(ctx, lines)
    byname = {l.split(" ")[1]: l for l in lines}
    if bad:
        ctx.violation("gate-harness-crash", "# C14: the open-gate experiment stopped (exit %d)\n%s\n--- case\n%s" % (bad[1], bad[2], bad[0][:3000]))
        return True
    found = False
    for name, line in byname.items():
        jn, mode, lead, major = meta[name]
        ctx.count(1, tag="gate-%s-%s-%s" % (mode, "emb" if lead else "plain", FM.MAJOR_NAME.get(major, "?")))
        ctx.coverage["traces_validated_against_impl"] += 1
        i = norm_impl(impl.get(name, ""), consts)
        m = model.get(name, "")
        # `len` is compared where the model knows what the container parser does to filelength
        if not (mode == "r" and major in WHITELIST):
            i, m = re.sub(r" len=-?\d+", "", i), re.sub(r" len=-?\d+", "", m)
        if "open=noEmbedSupport" in m and re.search(r"open=E\d+", i):
            i = re.sub(r"open=E\d+", "open=noEmbedSupport", i)      # a parser that fails on its own before the whitelist is reached (unmodelled): still a refusal
        if mode == "w":
            i, m = re.sub(r" off=-?\d+", "", i), re.sub(r" off=-?\d+", "", m)     # SF_EMBED_FILE_INFO.offset of a write handle: end of file, compared below
        if i != m:
            found = True
            capped(ctx, "gate", "gate-%s-%s-%s-lead%d" % (name, jn, mode, lead),
                          "# C14 open gate / descriptor ownership: %s, mode %s, descriptor at offset %d\n# the library     : %s\n# Sf.Routes.openFd: %s\n"
                          "# (open= error, off/len = SFC_GET_EMBED_FILE_INFO, fdopen = descriptor open after sf_open_fd, fd = after sf_close, sent = a descriptor the library never saw)\n"
                          "--- case (run with: sfh routes)\n%s" % (jn, mode, lead, i, m, line[:100000]))
    ctx.notes["gate_cases"] = len(lines)
    return found


# ---------------------------------------------------------------- stream K: known findings

def kf_witness(path):
    text = open(os.path.join(VERIF, path)).read()
    return text.split("--- script", 1)[1].lstrip("\n")


def stream_known(ctx, consts):
    """C14 has no open known finding since round 3: the five entries are `fixed` and run as regressions (ctx.run_regressions);
    nothing is waived.  Returns the (empty) set of live ids; an entry added later needs its predicate here."""
    alive = set()
    for kf in ctx.known:
        if kf.get("status") == "known":
            ctx.notes.setdefault("known_without_predicate", []).append(kf["id"])
    return alive


def stream_truncate(ctx, consts, alive):
    """SFC_FILE_TRUNCATE across routes.  path / fd / embedded: same calls, same bytes (behind the untouched leading bytes).
    Virtual I/O: there is no truncate callback — the command must be refused (non-zero, no error) and the file must be exactly
    what the same calls without the command produce."""
    rng = ctx.rng
    found = False
    scripts = []
    cases = []
    for (word, nm) in [(0x010002, "wav"), (0x020002, "aiff"), (0x030002, "au"), (0x010005, "wav-u8"), (0x030006, "au-float"), (0x040002, "raw")]:
        frames = rng.choice([20, 33, 100])
        cut = rng.randrange(1, frames)
        vals = gen_values(rng, frames)
        routes = ["path", "fd0", "vio", "vio-ref"] + (["fdemb:37:0", "fdemb:4096:0"] if nm != "raw" else [])
        for r in routes:
            key = "t|%s|%s" % (nm, r)
            cmd = "" if r == "vio-ref" else "cmd h0 %s 8 %s\n" % (SFC_FILE_TRUNCATE, int(cut).to_bytes(8, "little").hex())
            s = ("open h0 s0 w fmt=%08x ch=1 sr=8000 route=%s ext=%s\nw h0 s16 f %d %s\n%sclose h0\ndump s0\n"
                 % (word, r.replace("vio-ref", "vio"), nm.split("-")[0], frames, "".join("%04x" % v for v in vals), cmd))
            scripts.append((key, s))
            cases.append((nm, r, key))
    res = ctx.batch(scripts, op_timeout=20, clean=True)
    sd = dict(scripts)

    def dump(ls):
        m = re.match(r"len=(\d+) hex=([0-9a-f]*)", ls[-1] if ls else "")
        return m.group(2) if m else None
    for (nm, r, key) in cases:
        if r in ("path", "vio-ref"):
            continue
        got = res.get(key, [])
        ctx.count(1, tag="truncate-%s" % r.split(":")[0])
        if r == "vio":
            ref = res.get("t|%s|vio-ref" % nm, [])
            cmdl = next((l for l in got if "data=" in l), "")
            ok = cmdl.startswith("ret=1 err=0") and dump(got) is not None and dump(got) == dump(ref)
            why = "through virtual I/O the command must be refused (ret=1 err=0) and leave the file as if it had not been issued"
        else:
            ref = res.get("t|%s|path" % nm, [])
            lead = int(r.split(":")[1]) if r.startswith("fdemb") else 0
            a, b = dump(ref), dump(got)
            ok = strip_route_noise(got[:-1]) == strip_route_noise(ref[:-1]) and a is not None and b is not None \
                and b[2 * lead:] == a and b[:2 * lead] == hexb([0x5A ^ (k & 0xFF) for k in range(lead)])
            why = "same results and same bytes as through sf_open, leading bytes of the enclosing file untouched"
        if not ok:
            found = True
            capped(ctx, "truncate", "truncate-%s-%s" % (nm, r.replace(":", "_")),
                   "# C14 SFC_FILE_TRUNCATE, %s, route %s: expected %s\n# reference: %s\n# here     : %s\n--- script\n%s"
                   % (nm, r, why, " / ".join(ref)[:700], " / ".join(got)[:700], sd[key]))
    return found


# ---------------------------------------------------------------- run

def run(ctx):
    if getattr(ctx, "replay", None):
        text = open(ctx.replay).read()
        if "--- case" in text:
            body = "\n".join(l for l in text.split("--- case", 1)[1].split("\n")[1:] if l.startswith(("shim ", "gate ")))
            p = ctx.run_sfh(["routes"], "consts\n" + body + "\n")
            cm = re.search(r"consts (.*)", p.stdout)
            consts = {kv.split("=")[0]: int(kv.split("=")[1]) for kv in cm.group(1).split()} if cm else {}
            il = [norm_impl(l, consts) for l in p.stdout.split("\n") if l.startswith(("shim ", "gate "))]
            ml = [l for l in ctx.run_model(["routes"], body + "\n").split("\n") if l.startswith(("shim ", "gate "))]
            print("\n".join("impl : " + l[:600] for l in il))
            print("\n".join("model: " + l[:600] for l in ml))
            bad = p.returncode != 0
            if len(il) == 2 and il[0].startswith("shim"):
                # two routes over the same logical file: the property itself
                def logical(line, case):
                    lead = int(re.search(r" lead=(\d+)", case).group(1))
                    f = shim_file(line)
                    return f[2 * lead:] if f not in (None, "-") else f
                cases = body.split("\n")
                bad |= shim_mid(il[0]) != shim_mid(il[1]) or ("pipe" not in body and logical(il[0], cases[0]) != logical(il[1], cases[1]))
            else:
                strip = lambda x: re.sub(r" (len|off)=-?\d+", "", re.sub(r"open=E\d+", "open=noEmbedSupport", x)) if "open=noEmbedSupport" in "".join(ml) or " mode=w " in body else x
                bad |= [strip(x) for x in il] != [strip(x) for x in ml]
            if bad:
                ctx.report(ctx.replay)
            else:
                print("replay: the routes agree / the model agrees on this tree (no violation)")
            return
        if "c14-lowfd" in text:
            from .. import lowfd
            import tempfile, shutil
            tmp = tempfile.mkdtemp(prefix="c14-", dir="/var/tmp")
            try:
                return lowfd.replay(ctx, ctx.replay, {"TMPDIR": tmp, "SFH_SCRATCH": tmp})
            finally:
                shutil.rmtree(tmp, ignore_errors=True)
        return ctx.replay_script(ctx.replay)
    quick = ctx.tier == "quick"
    ctx.run_regressions()
    failed = ctx.lean_stage(modules_for("C14"))

    p = ctx.run_sfh(["routes"], "consts\n")
    m = re.search(r"consts (.*)", p.stdout)
    if not m:
        ctx.violation("consts", "sfh routes consts failed (exit %d)\n%s" % (p.returncode, p.stderr[-2000:]), no_input=True)
        raise Violation()
    consts = {kv.split("=")[0]: int(kv.split("=")[1]) for kv in m.group(1).split()}
    ctx.notes["consts"] = consts

    found = False
    alive = stream_known(ctx, consts)
    found |= stream_shim(ctx, consts, n_free=1500 if quick else 12000, n_groups=300 if quick else 2500)
    fmts = pick_formats(ctx)
    if quick:
        # one format per (major, codec family) each run, all majors always; the seed rotates through the rest
        by = {}
        for f in fmts:
            by.setdefault((f.major, f.codec), []).append(f)
        fmts = [v[ctx.seed % len(v)] for v in by.values()]
    f2, jobs = stream_public(ctx, consts, fmts, alive)
    found |= f2
    from .. import c14stdio                          # (round 9 covgap) sf_open ("-"): psf_set_stdio as a route (read 0 / write 1 / pipe on 0 / RDWR refused)
    found |= c14stdio.run(ctx, jobs)
    from .. import foreign                           # stream F: valid files the library's writers never produce, through every route
    found |= foreign.run(ctx, consts, jobs)
    found |= stream_gate(ctx, consts, jobs)
    found |= stream_api(ctx, consts, jobs, per_job=2 if quick else 12)
    found |= stream_truncate(ctx, consts, alive)
    from .. import closeown                          # descriptor ownership at sf_close when a close handler reports a problem (VOX clipping count, close under EFBIG)
    found |= closeown.run(ctx)
    from .. import lowfd                             # descriptors 0 / 1 free: ownership at sf_close must not depend on the descriptor's number (harness/lowfd.c, Sf.FdWorldLow)
    import tempfile, shutil
    tmp = tempfile.mkdtemp(prefix="c14-", dir="/var/tmp")
    try:
        found |= lowfd.run(ctx, {"TMPDIR": tmp, "SFH_SCRATCH": tmp})
    finally:
        shutil.rmtree(tmp, ignore_errors=True)
    from .. import shortio                           # read () / write () interposed: short transfers and EINTR on the descriptor routes against virtual I/O
    found |= bool(shortio.run(ctx, "C14").get("failures"))

    if failed and not found:
        ctx.violation("lean-stage", "theorem(s) no longer check: %s\nno failing input was found by the shim, gate and public-API streams\n%s"
                      % (", ".join(failed), ctx.notes.get("lean_log_tail", "")), no_input=True)
    ctx.coverage["exhaustive"] = False
    ctx.coverage["rule"] = ("shim: seeded operation sequences (<= 12 ops: seek with every whence incl. invalid ones and negative targets, read/write with item widths 1-8, "
                            "tell, filelen, truncate, close-then-use) on path / fd / vio / pipe x r / w / rw x close_desc x lead {0,1,5,37,300,4096} x trail {0,3,4,33,40}; "
                            "covered sequences are run on every route over the same logical file and compared with each other. "
                            "public API: every writable (major, codec) pair (endianness rotates with the seed), one generated file each, 5 write routes, 7 read routes + pipe (WAV/AIFF/AU granular) + RDWR refusal; "
                            "gate: 11 mode/offset/close_desc combinations per container + SD2")
    ctx.sample({"stream": "shim", "cases": ctx.notes.get("shim_cases"), "model_mismatches": ctx.notes.get("shim_model_mismatches")})
    ctx.sample({"stream": "public", "formats": ctx.notes.get("public_formats"), "scripts": ctx.notes.get("public_scripts")})
    ctx.sample({"stream": "gate", "cases": ctx.notes.get("gate_cases")})
    ctx.sample({"stream": "api (sf_seek / sf_read_raw vs gRun)", "cases": ctx.notes.get("api_cases")})
    ctx.assumptions += [
        "OS behaviour of real descriptors and pipes is exercised, not modelled beyond lseek/read/write/fstat/ftruncate/close on one regular file or one stream (partial)",
        "sf_count_t is unbounded in the model; read()/write() transfer everything available (short transfers and EINTR are C15's subject)",
        "shim sequences respect the descriptor's access mode (no reads on O_WRONLY, no writes on O_RDONLY): the upper layer never issues them",
        "header fields recording the file name (SVX NAME chunk, MPC2K name) are masked when comparing written bytes, as the statement says",
    ]
