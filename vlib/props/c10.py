"""C10 — sf_format_check agrees with what can really be written; the format enumeration lists are sound.

Every run:
 1. the three enumeration lists and SFC_GET_FORMAT_INFO are read from the running library and written to
    lean/SfModel/Generated/FormatLists.lean; SfProps.C10 is re-checked against them (Lean stage + axiom audit);
 2. enumeration commands, all indices -1 .. count+1: implementation transcript = model transcript, and the
    property predicate (distinct named entries, out-of-range indices refused) on the implementation's own lines;
 3. the COMPLETE grid majors x subtypes x 4 endian words x 10 channel counts x 6 rates, in process, memory
    virtual I/O (SD2 through a real path: its resource fork needs one): sfh grid c10 = sfmodel c10grid line by line,
    and the property predicate on the implementation's own lines;
 4. failures are attributed to a known finding only if the point is in the entry's class AND shows its signature.
"""
import concurrent.futures, re, struct, sys
from .. import c10lists
from ..core import Violation, modules_for

ENDIANS = [0x00000000, 0x10000000, 0x20000000, 0x30000000]
CHANS = [0, 1, 2, 3, 8, 9, 256, 257, 1024, 1025]
RATES = [-1, 0, 1, 8000, 44100, 2147483647]
FRAMES = 3
SLICES = 4
ASAN_ENV = {"ASAN_OPTIONS": "exitcode=77:detect_leaks=0:allocator_may_return_null=1:abort_on_error=0:handle_sigfpe=0"}

RAW, XI, SD2, CAF, IRCAM = 0x040000, 0x0F0000, 0x160000, 0x180000, 0x0A0000
VOX = 0x0021
ALAC = (0x0070, 0x0071, 0x0072, 0x0073)


def parse_point(l):
    d = {}
    for t in l.split()[1:]:
        if "=" in t:
            k, v = t.split("=", 1)
            d[k] = v
        else:
            d[t] = True
    d["_fmt"] = int(d["fmt"], 16)
    d["_ch"] = int(d["ch"])
    d["_sr"] = int(d["sr"])
    return d


def normalise(l, errname):
    """implementation line -> the canonical form the model prints (internal error numbers become names;
    re-opened rate / frame count / error number are reported but are not part of C10)"""
    l = l.strip()
    l = re.sub(r" rsr=\S+ rfr=\S+$", "", l)
    l = re.sub(r" rerr=\S+$", "", l)
    m = re.search(r" err=(\d+)$", l)
    if m:
        l = l[:m.start()] + " err=" + errname.get(int(m.group(1)), m.group(1))
    return l


# ---- the property predicate on one implementation line ----
def predicate(d):
    """None when the point satisfies C10, else a short description of what is wrong"""
    if "DIED" in d:
        return "died stage=%s how=%s" % (d.get("stage"), d.get("how"))
    if d["chk"] == "1":
        if d["open"] == "0":
            return "check TRUE but sf_open (write) failed, err=%s" % d["err"]
        if d["w"] != ",".join([str(FRAMES)] * 4):
            return "check TRUE, opened, but the four writes of %d frames returned %s" % (FRAMES, d["w"])
        if d["close"] != "0":
            return "check TRUE but sf_close returned %s" % d["close"]
        if d["tmp"] != "0":
            return "check TRUE, written and closed, but %s file(s) left in the temp directory%s" % (d["tmp"], "" if d["re"] == "1" else " and the file does not re-open")
        if d["re"] != "1":
            return "check TRUE, written and closed, but the file does not re-open (err=%s)" % d.get("rerr")
        r = int(d["rfmt"], 16)
        if (r & 0x0FFFFFFF) != (d["_fmt"] & 0x0FFFFFFF):
            return "re-opens as %08x, not the same container and encoding" % r
        if int(d["rch"]) != d["_ch"]:
            return "re-opens with %s channels" % d["rch"]
        return None
    if d["open"] == "1":
        return "check FALSE but sf_open (write) succeeded"
    if d["err"] in ("0", "ok"):
        return "check FALSE, open failed, but no error is reported"
    return None


# ---- known-finding classes and signatures (mirrors KF.* in lean/SfProps/C10.lean) ----
def in_class(kid, d):
    f, ch, sr = d["_fmt"], d["_ch"], d["_sr"]
    c, s = f & 0x0FFF0000, f & 0xFFFF
    if kid == "KF-C10-rate0":
        return sr == 0 and not (c == XI or (c == RAW and s == VOX))
    if kid == "KF-C10-alac8":
        return c == CAF and s in ALAC and ch > 8
    return False


def has_signature(kid, d, errname):
    if kid == "KF-C10-rate0":
        if "DIED" in d:
            return False      # the divisions by the rate in the HTK / SDS / VOC header writers are repaired: a death at 0 Hz is a violation again
        return d["chk"] == "1" and d["open"] == "0" and errname.get(int(d["err"]), "") == "bad_sf_info"
    if "DIED" in d or d.get("open") != "1":
        return False
    ok_w = d["w"] == ",".join([str(FRAMES)] * 4)
    if kid == "KF-C10-alac8":
        return ok_w and d["close"] == "0" and d["tmp"] == "1" and d["re"] == "0"
    return False


def s16(v): return "%04x" % (v & 0xFFFF)
def s32(v): return "%08x" % (v & 0xFFFFFFFF)
def f32(v): return "%08x" % struct.unpack("<I", struct.pack("<f", v))[0]
def f64(v): return "%016x" % struct.unpack("<Q", struct.pack("<d", v))[0]


def point_script(fmt, ch, sr, frames=FRAMES):
    """the grid point as a harness script (what a replay runs)"""
    n = frames * max(ch, 1)
    sign = [1 if k % 2 == 0 else -1 for k in range(n)]
    route = " route=path ext=sd2" if (fmt & 0x0FFF0000) == SD2 else ""
    lines = ["fcheck %x %d %d" % (fmt & 0xFFFFFFFF, ch, sr),
             "open h0 s0 w fmt=%x ch=%d sr=%d%s" % (fmt & 0xFFFFFFFF, ch, sr, route),
             "w h0 s16 f %d %s" % (frames, "".join(s16(g * 8192) for g in sign)),
             "w h0 s32 f %d %s" % (frames, "".join(s32(g * 0x20000000) for g in sign)),
             "w h0 f32 f %d %s" % (frames, "".join(f32(g * 0.25) for g in sign)),
             "w h0 f64 f %d %s" % (frames, "".join(f64(g * 0.25) for g in sign)),
             "close h0"]
    if (fmt & 0x0FFF0000) == RAW:
        lines.append("open h1 s0 r fmt=%x ch=%d sr=%d" % (fmt & 0xFFFFFFFF, ch, sr))
    else:
        lines.append("open h1 s0 r%s" % route)
    return "\n".join(lines) + "\n"


def replay_text(d, why, line, model_line=None):
    fmt, ch, sr = d["_fmt"], d["_ch"], d["_sr"]
    head = ["c10-point %08x %d %d" % (fmt & 0xFFFFFFFF, ch, sr), "# C10: %s" % why, "# grid point fmt=%08x channels=%d samplerate=%d  (sfh grid c10 point %08x %d %d)" % (fmt, ch, sr, fmt, ch, sr),
            "# implementation: %s" % line]
    if model_line is not None:
        head.append("# model:          %s" % model_line)
    if d.get("chk") == "1":
        # the property demands that the last operation (re-open for reading) succeeds with the same container|encoding
        head.append("expect-last open=ok")
        head.append("# and every 'w' line must read ret=%d, 'close' ret=0, the re-opened fmt must end in %07x" % (FRAMES, fmt & 0x0FFFFFFF))
    else:
        head.append("# check FALSE: the write-open (2nd line) must fail with a non-zero error; it is the last line of this script")
        head.append("expect-last open=NULL")
    script = point_script(fmt, ch, sr)
    if d.get("chk") != "1":
        script = "\n".join(script.split("\n")[:2]) + "\n"
    return "\n".join(head) + "\n--- script\n" + script


def replay(ctx, path):
    """A C10 replay names a grid point (`c10-point <fmt-hex> <channels> <samplerate>`): it is run through the very
    code path of the grid (sfh grid c10 point) and judged by the same predicate.  `c10-enum` replays re-run the
    enumeration part of the check.  Anything else is a plain script with an expectation on its last line."""
    text = open(path).read()
    if re.search(r"^c10-enum", text, re.M):
        ctx.enum_only = True
        before = len(ctx.violations)
        run_checks(ctx)
        if len(ctx.violations) == before:
            print("replay: the enumeration commands satisfy C10 on this tree (no violation)")
        return
    m = re.search(r"^c10-point ([0-9a-fA-F]+) (-?[0-9]+) (-?[0-9]+)$", text, re.M)
    if not m:
        return ctx.replay_script(path)
    p = ctx.run_sfh(["grid", "c10", "point", m.group(1), m.group(2), m.group(3)], "", env=ASAN_ENV)
    pts = [l for l in p.stdout.split("\n") if l.startswith("p ")]
    print("\n".join(pts))
    if not pts:
        sys.stdout.write(p.stderr[-2000:])
        ctx.report(path)
        return
    why = predicate(parse_point(pts[0]))
    if why is None:
        print("replay: the point satisfies C10 on this tree (no violation)")
    else:
        print("replay: " + why)
        ctx.report(path)


def run_grid_impl(ctx):
    def one(k):
        p = ctx.run_sfh(["grid", "c10", "%d/%d" % (k, SLICES)], "", timeout=1500, env=ASAN_ENV)
        return p
    with concurrent.futures.ThreadPoolExecutor(max_workers=SLICES) as ex:
        return list(ex.map(one, range(SLICES)))


def run_grid_model(ctx):
    def one(k):
        return ctx.run_model(["c10grid", "%d/%d" % (k, SLICES)], "")
    with concurrent.futures.ThreadPoolExecutor(max_workers=SLICES) as ex:
        return list(ex.map(one, range(SLICES)))


def run(ctx):
    if getattr(ctx, "replay", None):
        return replay(ctx, ctx.replay)
    return run_checks(ctx)


def run_checks(ctx):
    enum_only = getattr(ctx, "enum_only", False)
    found_input = False
    mismatch = []          # correspondence differences (text)

    # ---- 1. lists from the running library -> Generated -> theorems ----
    p1 = ctx.run_sfh(["table", "formats"], "", env=ASAN_ENV)
    p2 = ctx.run_sfh(["table", "formatinfo"], "", env=ASAN_ENV)
    p3 = ctx.run_sfh(["grid", "c10", "consts"], "", env=ASAN_ENV)
    if p1.returncode or p2.returncode or p3.returncode:
        ctx.violation("tables-crash", "c10-enum\nsfh failed while reading the format lists (rc=%d/%d/%d)\n%s\n--- script\n" % (p1.returncode, p2.returncode, p3.returncode, (p1.stderr + p2.stderr + p3.stderr)[-3000:]))
        raise Violation()
    enum_impl = [l for l in p1.stdout.split("\n") if l]
    tabs = c10lists.parse_formats(enum_impl)
    info_major, info_sub = c10lists.parse_formatinfo(p2.stdout.split("\n"))
    errname = {}
    for l in p3.stdout.split("\n"):
        m = re.match(r"const (\S+) (\d+)$", l)
        if m and int(m.group(2)) not in errname:
            errname[int(m.group(2))] = m.group(1)
    failed = []
    if not enum_only:
        changed = ctx.set_generated("FormatLists.lean", c10lists.lean_lists(tabs, info_major, info_sub))
        ctx.notes["generated_lists_changed"] = changed
        failed = ctx.lean_stage(modules_for("C10"))

    # ---- 2. enumeration commands, all indices -1 .. count+1 ----
    for key in ("simple", "major", "subtype"):
        tab = tabs.get(key)
        if tab is None or tab["count_ret"] != 0 or tab["count"] < 1:
            found_input = True
            ctx.violation("enum-%s-count" % key, "c10-enum\n# C10: the %s format count command failed or returned %s\n--- script\n" % (key, tab and tab["count"]))
            continue
        seen_f, seen_n = {}, {}
        for (k, ret, f, name, ext) in tab["rows"]:
            ctx.count(1, tag="enum-" + key)
            inside = 0 <= k < tab["count"]
            bad = None
            if inside:
                if ret != 0:
                    bad = "index %d of %d is refused (ret=%d)" % (k, tab["count"], ret)
                elif not name:
                    bad = "index %d has no name" % k
                elif f in seen_f:
                    bad = "index %d repeats the format word %08x of index %d" % (k, f, seen_f[f])
                elif name in seen_n:
                    bad = "index %d repeats the name '%s' of index %d" % (k, name, seen_n[name])
                elif key == "major" and ((f & 0x0FFF0000) != f or f == 0):
                    bad = "major entry %08x is not a pure container word" % f
                elif key == "subtype" and ((f & 0xFFFF) != f or f == 0):
                    bad = "subtype entry %08x is not a pure encoding word" % f
                seen_f.setdefault(f, k)
                seen_n.setdefault(name, k)
            elif ret == 0:
                bad = "out-of-range index %d (count %d) is accepted" % (k, tab["count"])
            if bad:
                found_input = True
                cmd = {"simple": "1021", "major": "1031", "subtype": "1033"}[key]
                ctx.violation("enum-%s-%d" % (key, k), "c10-enum %s %d\n# C10: SFC_GET_%s: %s\n# (sfh table formats prints the whole enumeration)\n--- script\ncmd null %s 24 %s\n"
                              % (key, k, {"simple": "SIMPLE_FORMAT", "major": "FORMAT_MAJOR", "subtype": "FORMAT_SUBTYPE"}[key], bad, cmd, struct.pack("<i", k).hex() + "00" * 20))
    # SFC_GET_FORMAT_INFO agrees with the lists
    im, isub = dict(info_major), dict(info_sub)
    for key, info, pick in (("major", im, lambda f: f), ("subtype", isub, lambda f: f)):
        ents = c10lists.entries(tabs[key]) if key in tabs else []
        for (f, name, ext) in ents:
            ctx.count(1, tag="formatinfo-" + key)
            if info.get(f) != name:
                found_input = True
                ctx.violation("formatinfo-%s-%x" % (key, f), "c10-enum\n# C10: SFC_GET_FORMAT_INFO (%08x) answers %r, the %s list says %r\n--- script\ncmd null 1028 24 %s\n"
                              % (f, info.get(f), key, name, struct.pack("<i", f).hex() + "00" * 20))
        for f in info:
            if f not in [e[0] for e in ents]:
                found_input = True
                ctx.violation("formatinfo-extra-%s-%x" % (key, f), "c10-enum\n# C10: SFC_GET_FORMAT_INFO knows %08x (%r) which the %s list does not enumerate\n--- script\ncmd null 1028 24 %s\n"
                              % (f, info[f], key, struct.pack("<i", f).hex() + "00" * 20))
    # model transcript of the enumeration (out-of-range behaviour included)
    if "lake-build" not in failed and not enum_only:
        enum_model = [l for l in ctx.run_model(["c10enum"], "").split("\n") if l]
        enum_norm = [re.sub(r" ret=([1-9]\d*) ", " ret=E ", l) for l in enum_impl]
        ctx.coverage["traces_validated_against_impl"] += 1
        if enum_norm != enum_model:
            k = next((i for i in range(min(len(enum_norm), len(enum_model))) if enum_norm[i] != enum_model[i]), min(len(enum_norm), len(enum_model)))
            mismatch.append("enumeration transcript differs at line %d:\n  implementation: %s\n  model:          %s" %
                            (k, enum_norm[k] if k < len(enum_norm) else "<end>", enum_model[k] if k < len(enum_model) else "<end>"))

    if enum_only:
        return
    # ---- 3. the complete grid ----
    impl_runs = run_grid_impl(ctx)
    impl_lines = []
    for k, p in enumerate(impl_runs):
        pts = [l for l in p.stdout.split("\n") if l.startswith("p ")]
        if p.returncode != 0 or "grid end" not in p.stdout:
            found_input = found_input  # the harness itself died: machinery failure
            ctx.violation("grid-slice-%d" % k, "sfh grid c10 %d/%d did not run to its end (rc=%d)\n%s" % (k, SLICES, p.returncode, p.stderr[-3000:]), no_input=True)
        impl_lines.append(pts)
    majors = [e[0] for e in c10lists.entries(tabs["major"])]
    subs = [e[0] for e in c10lists.entries(tabs["subtype"])]
    expected = len(majors) * len(subs) * len(ENDIANS) * len(CHANS) * len(RATES)
    flat = [l for pts in impl_lines for l in pts]
    seen = {}
    for l in flat:
        d = parse_point(l)
        seen[(d["_fmt"] & 0xFFFFFFFF, d["_ch"], d["_sr"])] = (d, l)
    want = set((m | s | e, c, r) for m in majors for s in subs for e in ENDIANS for c in CHANS for r in RATES)
    ctx.notes["grid_points_expected"] = expected
    ctx.notes["grid_points_run"] = len(seen)
    if set(seen) != want:
        ctx.violation("grid-incomplete", "the harness grid does not cover majors x subtypes x endians x channels x rates: %d points run, %d expected, %d missing"
                      % (len(seen), expected, len(want - set(seen))), no_input=True)

    model_by_point = {}
    if "lake-build" not in failed:
        for out in run_grid_model(ctx):
            for l in out.split("\n"):
                if l.startswith("p "):
                    d = parse_point(l)
                    model_by_point[(d["_fmt"] & 0xFFFFFFFF, d["_ch"], d["_sr"])] = l.strip()
        ctx.coverage["traces_validated_against_impl"] += len(seen)

    # sf_format_check alone, EVERY channel count -1 .. 1026 of every format word (no file is opened)
    extra_points = []
    pf = ctx.run_sfh(["grid", "c10", "fcheck"], "", env=ASAN_ENV)
    sweep_impl = [l for l in pf.stdout.split("\n") if l.startswith("f ")]
    if "lake-build" not in failed:
        sweep_model = [l for l in ctx.run_model(["c10fcheck"], "").split("\n") if l.startswith("f ")]
        ctx.count(1028 * len(sweep_impl), tag="fcheck-sweep")
        ctx.coverage["traces_validated_against_impl"] += len(sweep_impl)
        ctx.notes["fcheck_sweep_lines"] = len(sweep_impl)
        if len(sweep_impl) != len(majors) * len(subs) * len(ENDIANS) or len(sweep_model) != len(sweep_impl):
            mismatch.append("sf_format_check channel sweep: %d implementation lines, %d model lines, %d expected" % (len(sweep_impl), len(sweep_model), len(majors) * len(subs) * len(ENDIANS)))
        for a, b in zip(sweep_impl, sweep_model):
            if a != b:
                ba, bb = a.split()[-1], b.split()[-1]
                k = next((i for i in range(min(len(ba), len(bb))) if ba[i] != bb[i]), 0)
                mismatch.append("sf_format_check (%s, channels=%d, samplerate=8000): implementation %s, model %s   [script: fcheck %s %d 8000]"
                                % (a.split()[1], k - 1, ba[k:k + 1], bb[k:k + 1], a.split()[1][4:], k - 1))
                # the correspondence broke here: is it also a failing input?  run the whole experiment on that point
                if len(extra_points) < 24:
                    extra_points.append((int(a.split()[1][4:], 16), k - 1, 8000))
                if len(mismatch) > 40:
                    break

    known = {e["id"]: e for e in ctx.known if e.get("status") == "known"}
    waived = {k: 0 for k in known}
    n_true = n_fail = 0
    reported = {}
    for key in sorted(seen):
        d, l = seen[key]
        ctx.count(1, tag="%06x-%04x" % (d["_fmt"] & 0x0FFF0000, d["_fmt"] & 0xFFFF) if d.get("chk") == "1" else None)
        if d.get("chk") == "1":
            n_true += 1
        why = predicate(d)
        ml = model_by_point.get(key)
        nl = normalise(l, errname)
        if why is not None:
            n_fail += 1
            kid = next((k for k in known if in_class(k, d) and has_signature(k, d, errname)), None)
            if kid is not None:
                waived[kid] += 1
            else:
                found_input = True
                group = "%06x-%04x-%s" % (d["_fmt"] & 0x0FFF0000, d["_fmt"] & 0xFFFF, re.sub(r"[^a-z]+", "-", why.split(",")[0].lower())[:40])
                reported.setdefault(group, []).append((d, why, l, ml))
        if ml is not None and ml != nl:
            mismatch.append("grid point differs:\n  implementation: %s\n  model:          %s" % (nl, ml))
    # one replay per (container, encoding, kind of failure): the most ordinary point of the group
    def ordinary(t):
        d = t[0]
        return (d["_sr"] != 44100, d["_sr"] != 8000, d["_sr"] < 1, d["_fmt"] >> 28 != 0, d["_ch"] < 1, d["_ch"])
    for group in sorted(reported)[:12]:
        d, why, l, ml = min(reported[group], key=ordinary)
        ctx.violation("point-" + group, replay_text(d, "%s  (%d grid points of this container/encoding fail this way)" % (why, len(reported[group])), l, ml))
    for (f, c, r) in extra_points:
        pp = ctx.run_sfh(["grid", "c10", "point", "%08x" % f, str(c), str(r)], "", env=ASAN_ENV)
        for l in [x for x in pp.stdout.split("\n") if x.startswith("p ")][:1]:
            d = parse_point(l)
            why = predicate(d)
            if why is not None and not any(in_class(k, d) and has_signature(k, d, errname) for k in known):
                found_input = True
                ctx.violation("point-sweep-%08x-%d" % (f, c), replay_text(d, why + "  (found by following a sf_format_check disagreement outside the channel grid)", l))
    ctx.notes["grid_check_true_points"] = n_true
    ctx.notes["grid_points_failing_predicate"] = n_fail
    ctx.notes["grid_points_waived_by_known_finding"] = waived
    ctx.notes["model_disagreements"] = len(mismatch)

    # simple formats / majors: the statements of simple_formats_pass and major_has_subtype on the implementation's lines
    def ok_point(f, ch):
        e = seen.get((f, ch, 44100))
        return e is not None and e[0].get("chk") == "1" and predicate(e[0]) is None
    for (f, name, ext) in c10lists.entries(tabs["simple"]):
        ctx.count(1, tag="simple-pass")
        passes = []
        for c in (1, 2):
            if (f, c, 44100) in seen:
                passes.append(seen[(f, c, 44100)][0].get("chk") == "1")
            else:       # a simple format built from a container / encoding the other two lists do not enumerate
                pp = ctx.run_sfh(["grid", "c10", "point", "%08x" % f, str(c), "44100"], "", env=ASAN_ENV)
                passes.append(" chk=1 " in pp.stdout)
        if not any(passes):
            found_input = True
            d = seen.get((f, 1, 44100), (None, ""))
            ctx.violation("simple-%x" % f, "# C10: simple format %08x '%s' does not pass sf_format_check with 1 or 2 channels at 44100 Hz\n# %s\nexpect-last ret=1\n--- script\nfcheck %x 1 44100\n" % (f, name, d[1], f))
    for m in majors:
        ctx.count(1, tag="major-usable")
        if not any(ok_point(m | s, 1) or ok_point(m | s, 2) for s in subs):
            found_input = True
            ctx.violation("major-%x" % m, "# C10: major format %08x has no subtype in the subtype list that is accepted and writable (1 or 2 channels, 44100 Hz)\n--- script\nfcheck %x 1 44100\n" % (m, m | 2))

    # ---- 4. known findings: replay each witness; print while it still fails with its signature ----
    ctx.run_regressions()     # script witnesses of repaired defects (expect-last lines), e.g. KF-C10-rate0-fpe
    for e in ctx.known:
        wp = e.get("witness_point")
        if not wp:
            continue
        p = ctx.run_sfh(["grid", "c10", "point", "%08x" % wp[0], str(wp[1]), str(wp[2])], "", env=ASAN_ENV)
        pts = [l for l in p.stdout.split("\n") if l.startswith("p ")]
        if not pts:
            continue
        d = parse_point(pts[0])
        still = predicate(d) is not None
        if e.get("status") == "fixed" and still:
            # a repaired defect is back (or its repair is incomplete): the regression witness is the failing input
            found_input = True
            ctx.violation("regression-" + e["id"], "c10-point %08x %d %d\n# C10: the defect %s, recorded as fixed by commit %s, is back: %s\n# implementation: %s\n# witness: %s\n%s"
                          % (wp[0], wp[1], wp[2], e["id"], e.get("commit", "?"), predicate(d), pts[0], e.get("witness", ""),
                             open(e["witness"]).read().split("\n", 1)[1] if e.get("witness") else ""))
        if e.get("status") == "known" and still and in_class(e["id"], d) and has_signature(e["id"], d, errname):
            ctx.known_finding(e, "%s [%s] witness %s: %s (%d grid points in this class)" % (e["id"], e.get("signature", ""), e.get("witness", ""), e.get("text", ""), waived.get(e["id"], 0)))
        ctx.notes.setdefault("known_witness_lines", []).append(pts[0])

    # ---- verdict for correspondence / theorems without a failing input ----
    if mismatch and not found_input:
        ctx.violation("correspondence", "model and implementation disagree on %d line(s) of the C10 transcripts, but every implementation line "
                      "satisfies the property predicate (or lies in a known finding)\n\n%s" % (len(mismatch), "\n".join(mismatch[:20])), no_input=True)
    if failed and not found_input:
        ctx.violation("lean-stage", "theorem(s) no longer check: %s\nno failing input found by the exhaustive grid and the enumeration checks\n%s"
                      % (", ".join(failed), ctx.notes.get("lean_log_tail", "")), no_input=True)
    ctx.sample({"grid": "majors x subtypes x endian x channels x rates", "majors": len(majors), "subtypes": len(subs), "points": len(seen)})
    if flat:
        ctx.sample(flat[len(flat) // 3])
        ctx.sample(flat[(2 * len(flat)) // 3])
    ctx.coverage["exhaustive"] = True
    ctx.coverage["rule"] = ("complete enumeration: every SFC_GET_FORMAT_MAJOR entry x every SFC_GET_FORMAT_SUBTYPE entry x endian {FILE,LITTLE,BIG,CPU} x "
                            "channels {0,1,2,3,8,9,256,257,1024,1025} x samplerate {-1,0,1,8000,44100,2^31-1}: sf_format_check, sf_open (write), 4 typed writes of 3 frames, "
                            "sf_close, temp-dir residue, re-open; plus all indices -1..count+1 of the three enumeration commands and SFC_GET_FORMAT_INFO for every listed entry and every code 0..0xff. "
                            "distinct_nontrivial counts (container, encoding) pairs with at least one check-TRUE point plus the enumeration streams")
