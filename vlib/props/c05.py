"""C05 — read and write calls honour their count, bounds and position contract."""
from ._handle_common import run_common
from ..core import modules_for


def run(ctx):
    q = ctx.tier == "quick"
    if not getattr(ctx, "replay", None):
        from .. import g72x as _g72x
        _g72x.pregen(ctx)
        from .. import codectab as _codectab     # NMS / GSM tables by execution -> Generated/NmsTables.lean, GsmTables.lean
        _codectab.pregen(ctx)
    run_common(ctx, "C05", modules_for("C05"), l1_scripts=400 if q else 4000, stride=3 if q else 1, nops=25 if q else 60)
    if not getattr(ctx, "replay", None):
        from .. import nms
        nms.run(ctx, "C05", 80 if q else 800)
        from .. import g72x
        g72x.run(ctx, "C05", 120 if q else 1200)
        from .. import gsm
        gsm.run(ctx, "C05", 80 if q else 800)
        from .. import adpcmenc       # IMA / MS ADPCM write contract: counts, frames after re-open, refused seeks leave no trace
        adpcmenc.run(ctx, "C05", 100 if q else 1000)
        from .. import voxcamp        # OKI/VOX: the held sample of odd item counts (lean/SfModel/Oki.lean writeBlock / closeCarry / readBlock)
        voxcamp.run(ctx, "C05", 120 if q else 1200)
        from .. import codecs20       # a table entry of the tree differs from the published one: look for an input that shows it
        codecs20.search(ctx)
        from .. import querycamp     # count / position / end-of-data clauses of reads with non-audio calls in between
        querycamp.run(ctx, "C05", parts=("r",))
        from .. import foreignread   # FOREIGN-BUT-VALID layouts (SSND offset with chunks behind it, VOC text / repeat blocks, chunks around the audio ...) judged against the CONSTRUCTION
        foreignread.run(ctx, "C05")
