"""C05 — read and write calls honour their count, bounds and position contract."""
from ._handle_common import run_common
from ..core import modules_for


def run(ctx):
    q = ctx.tier == "quick"
    if getattr(ctx, "replay", None) and "c15-wrapper-case " in open(ctx.replay).read():
        from .. import c15wrap
        return c15wrap.replay(ctx, ctx.replay, open(ctx.replay).read())
    if getattr(ctx, "replay", None):
        from .. import stagecamp
        text = open(ctx.replay).read()
        if stagecamp.is_replay(text):
            return stagecamp.replay(ctx, ctx.replay, text)
    if not getattr(ctx, "replay", None):
        from .. import g72x as _g72x
        _g72x.pregen(ctx)
        from .. import codectab as _codectab     # NMS / GSM tables by execution -> Generated/NmsTables.lean, GsmTables.lean
        _codectab.pregen(ctx)
    run_common(ctx, "C05", modules_for("C05"), l1_scripts=400 if q else 4000, stride=3 if q else 1, nops=25 if q else 60)
    if not getattr(ctx, "replay", None):
        from .. import nms
        nms.run(ctx, "C05", 80 if q else 800)
        from .. import g72x
        g72x.run(ctx, "C05", 120 if q else 1200)
        from .. import gsm
        gsm.run(ctx, "C05", 80 if q else 800)
        from .. import adpcmenc       # IMA / MS ADPCM write contract: counts, frames after re-open, refused seeks leave no trace
        adpcmenc.run(ctx, "C05", 100 if q else 1000)
        from .. import voxcamp        # OKI/VOX: the held sample of odd item counts (lean/SfModel/Oki.lean writeBlock / closeCarry / readBlock)
        voxcamp.run(ctx, "C05", 120 if q else 1200)
        from .. import codecs20       # a table entry of the tree differs from the published one: look for an input that shows it
        codecs20.search(ctx)
        from .. import querycamp     # count / position / end-of-data clauses of reads with non-audio calls in between
        querycamp.run(ctx, "C05", parts=("r",))
        from .. import c15wrap       # (round 8) whole frames under a short transfer that ends inside a frame: all 18 wrappers
        wprobs, wcorr = c15wrap.run(ctx)
        for (nm, text, sc) in wprobs[:4]:
            ctx.violation("c05-wrapper-" + nm.replace("|", "-"),
                          "# C05 violated on the implementation's own transcript (a read / write call returns a whole number of frames, the position advances by exactly that; "
                          "one byte short inside a frame): %s\n# case %s (file|side|caller type|i=items f=frames b=raw bytes)\nc15-wrapper-case %s\n--- script\n%s" % (text, nm, nm, sc))
        if wcorr and not wprobs:
            nm, k, a, b, sc = wcorr[0]
            ctx.violation("c05-wrapper-correspondence-" + nm.replace("|", "-"),
                          "# Sf.Faults (wholeFrames) and the implementation disagree on the wrapper matrix: %d scripts; first %s line %d\n# implementation: %s\n# model:          %s\n--- script\n%s"
                          % (len(wcorr), nm, k, a[:300], b[:300], sc), no_input=True)
        from .. import foreignread   # FOREIGN-BUT-VALID layouts (SSND offset with chunks behind it, VOC text / repeat blocks, chunks around the audio ...) judged against the CONSTRUCTION
        foreignread.run(ctx, "C05")
        from .. import handleg       # (round 9) the GENERIC handle machine Sf.HandleG: whole histories on AIFF / CAF / W64 / AVR / IRCAM / PAF / HTK (+ RAW / AU / WAV) byte for byte incl. store dumps
        handleg.run(ctx, "C05", 150 if q else 3000)
        from .. import seekmatrix    # (gapg) deterministic block-seek matrix: every block codec x container x channel count, read into block L, seek into the blocks around it
        seekmatrix.run(ctx, "C05")
        from .. import stagecamp      # (round 9) ONE short transfer inside the staging loop of EVERY write kernel: the return value is the whole frames that reached the file
        stagecamp.run(ctx, "C05")
        from .. import rawwrite       # (round 9) sf_write_raw as the write entry point of a file made in SFM_WRITE: every sample-granular (container, encoding), content behind the audio
        rawwrite.run(ctx, "C05")
