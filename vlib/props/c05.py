"""C05 — read and write calls honour their count, bounds and position contract."""
from ._handle_common import run_common
from ..core import modules_for


def run(ctx):
    q = ctx.tier == "quick"
    if not getattr(ctx, "replay", None):
        from .. import g72x as _g72x
        _g72x.pregen(ctx)
    run_common(ctx, "C05", modules_for("C05"), l1_scripts=400 if q else 4000, stride=3 if q else 1, nops=25 if q else 60)
    if not getattr(ctx, "replay", None):
        from .. import nms
        nms.run(ctx, "C05", 80 if q else 800)
        from .. import g72x
        g72x.run(ctx, "C05", 120 if q else 1200)
        from .. import gsm
        gsm.run(ctx, "C05", 80 if q else 800)
        from .. import querycamp     # count / position / end-of-data clauses of reads with non-audio calls in between
        querycamp.run(ctx, "C05", parts=("r",))
