"""C03 — arbitrary input bytes never cause memory errors, hangs or insane info.   (PARTIAL: see SfProps/C03.lean)

Stages
  1. constants of the tree (SFE_* numbers, masks, error-message table) -> Generated/C03Consts.lean; Lean stage + axiom audit
  2. ties between model and code
     a. header cache: parametrised AU headers and WAV chunk walks (AIFF / CAF not yet) whose chunk sizes cross the growth boundaries
        (256 … 65536, the 100 KiB cap, 2^31); the library's parse log ("Request for header allocation of N denied",
        "psf_fread returned short count") and the open result are compared with the model run on the same
        psf_binheader_readf call sequence
     b. open gate: files whose parser result is known by construction vs `openFile`
     c. read wrappers / sf_seek: scripted reads and seeks on PCM files with trailing bytes behind the audio vs `readWrap`/`sfSeekRead`
  3. monitoring (the part no theorem covers): seeds of every writable (container, encoding) with all metadata chunks,
     structure-aware mutations, bounded random API scripts, forked children under ASan with a per-call alarm;
     the C03 predicate is evaluated on every transcript.
"""
import os, struct, time, hashlib
from .. import c03gen, c03fuzz
from ..core import Violation, modules_for

WORKERS = int(os.environ.get("SFVERIF_WORKERS", "16"))
OP_TIMEOUT = 5
QUICK_FILES = int(os.environ.get("C03_QUICK_FILES", "20000"))
THOROUGH_FILES = int(os.environ.get("C03_THOROUGH_FILES", "1000000"))


# ------------------------------------------------------------------------------------------------
def run_tool(ctx, args, inp=""):
    p = ctx.run_sfh(args, inp)
    return p.stdout


def setup_consts(ctx):
    ctext = run_tool(ctx, ["c03consts"])
    c = c03gen.parse_consts(ctext)
    if "SFE_MAX_ERROR" not in c:
        ctx.violation("consts", "sfh c03consts produced no constants on this tree\n" + ctext[:2000], no_input=True)
        raise Violation()
    mx = c["SFE_MAX_ERROR"]
    el = c03gen.parse_errtable(run_tool(ctx, ["table", "errors", "-1", str(mx + 1)]))
    changed = ctx.set_generated("C03Consts.lean", c03gen.lean_consts(c, el))
    ctx.notes["generated_consts_changed"] = changed
    return c, el


def format_tables(ctx):
    out = run_tool(ctx, ["table", "formats"])
    majors, subs = [], []
    for line in out.split("\n"):
        p = line.split()
        if len(p) >= 4 and p[2] == "ret=0" and p[0] in ("major", "subtype"):
            v = int(p[3].split("=")[1], 16)
            (majors if p[0] == "major" else subs).append(v)
    return majors, subs


def header_formats():
    """container and encoding codes named by the SF_FORMAT_* enum of the tree's include/sndfile.h"""
    import re
    from .. import build
    maj, sub = set(), set()
    try:
        text = open(os.path.join(build.REPO, "include", "sndfile.h")).read()
    except OSError:
        return maj, sub
    for m in re.finditer(r"^\s*SF_FORMAT_(\w+)\s*=\s*0x([0-9A-Fa-f]+)", text, re.M):
        v = int(m.group(2), 16)
        if m.group(1).endswith("MASK"):
            continue
        if 0 < v <= 0xFFFF:
            sub.add(v)
        elif v & 0x0FFF0000 and not v & 0xF000FFFF:
            maj.add(v)
    return maj, sub


def writable_formats(ctx, majors, subs):
    """every (format word, channels) sf_format_check accepts, one or two channel counts each"""
    cands = []
    for m in majors:
        if m == 0x160000:
            continue   # SD2 keeps its header in a resource fork "._<name>": with virtual I/O the library creates "._" in the cwd
        for s in subs:
            for endian in (0, 0x10000000, 0x20000000):
                cands.append(m | s | endian)
    script = "".join("fcheck %08x %d 8000\n" % (f, ch) for f in cands for ch in (1, 2))
    lines, rc, err = ctx.script(script)
    res = []
    k = 0
    for f in cands:
        oks = []
        for ch in (1, 2):
            if k < len(lines) and lines[k].strip() == "ret=1":
                oks.append(ch)
            k += 1
        if oks:
            if f & 0x30000000 and (f & 0xFFFF) in (0x10, 0x11, 0x12, 0x13, 0x20, 0x21, 0x30, 0x31, 0x32, 0x22, 0x23, 0x24, 0x40, 0x41, 0x42, 0x50, 0x51, 0x70, 0x71, 0x72, 0x73, 1, 5):
                continue   # endianness is irrelevant for byte / compressed encodings
            res.append((f, oks[-1] if (f >> 16) % 2 else oks[0]))
    return res


def make_seeds(ctx, fmts):
    scripts = [("seed-%08x-%d" % (f, ch), c03fuzz.seed_script(f, ch, 8000)) for (f, ch) in fmts]
    out = ctx.batch(scripts, op_timeout=20, workers=min(WORKERS, 8), retry_timeouts=False)
    seeds = []
    for (name, text) in scripts:
        lines = [l for l in out.get(name, []) if l]
        if not lines or not lines[0].startswith("open=ok"):
            continue
        dump = [l for l in lines if l.startswith("len=") and "hex=" in l]
        if not dump:
            continue
        data = bytes.fromhex(dump[-1].split("hex=")[1])
        if len(data) == 0:
            continue
        f = int(name.split("-")[1], 16)
        seeds.append((f, int(name.split("-")[2]), data))
    return seeds


# ------------------------------------------------------------------------------------------------
def script_text(data, ops):
    return "store s0 %s\n%s\n" % (data.hex(), "\n".join(ops))


class Fuzz:
    def __init__(self, ctx, seeds, known):
        self.ctx = ctx
        self.seeds = seeds
        self.known = known
        self.muts = {}
        self.stats = {"files": 0, "open_ok": 0, "open_null": 0, "by_kind": {}, "by_route": {}, "err_hist": {}, "ops": 0}
        self.failures = []
        self.infos = []
        self.known_hits = []      # failures inside a known-finding class (waived only while the witness still fails)
        self.sds_hits = []
        self.svx_hits = []
        self.nist_hits = []
        self.extra_hits = {}
        self.stray = 0

    def mutator(self, k):
        if k not in self.muts:
            self.muts[k] = c03fuzz.Mutator(self.seeds[k][2], self.ctx.rng)
        return self.muts[k]

    def interaction_round(self, per_seed):
        """deterministic cross-chunk interaction files (pairs/triples of stateful foreign chunks) for one AIFF, one AIFC and two WAV seeds"""
        picks, seen = [], set()
        for k, sd in enumerate(self.seeds):
            key = (sd[2][:4], sd[2][8:12], (sd[0] & 0xFFFF) in (6, 7))
            if sd[2][:4] in (b"RIFF", b"FORM", b"RIFX") and key not in seen and len(sd[2]) < 4000:
                seen.add(key)
                picks.append(k)
        files = []
        for k in picks[:6]:
            for (label, data) in c03fuzz.interaction_files(self.seeds[k][2], per_seed):
                files.append((k, "interact", data, label))
        self._run_files(files, "ia")

    def one_round(self, count, tag):
        rng = self.ctx.rng
        files = []
        for i in range(count):
            k = rng.randrange(len(self.seeds))
            if rng.random() < 0.04:
                kind, data = "seed", self.seeds[k][2]
            else:
                kind, data = self.mutator(k).mutate()
            files.append((k, kind, data, None))
        self._run_files(files, tag)

    def _run_files(self, files, tag):
        rng = self.ctx.rng
        jobs = []
        for i, (k, kind, data, _label) in enumerate(files):
            x = rng.random()
            route = "vio" if x < 0.86 else ("fd" if x < 0.93 else "pipe")
            ops = c03fuzz.api_script(rng, route)
            name = "%s-%d" % (tag, i)
            jobs.append((name, k, kind, route, data, ["store s0 " + data.hex()] + ops))
        self._judge_jobs(jobs)

    def _judge_jobs(self, jobs):
        out = self.ctx.batch([(j[0], "\n".join(j[5]) + "\n") for j in jobs], op_timeout=OP_TIMEOUT, workers=WORKERS, retry_timeouts=False)
        if jobs and not getattr(self, "example", None):
            j = next((x for x in jobs if x[2] != "seed" and len(x[4]) <= 1200), jobs[0])
            self.example = {"kind": "mutated file + API script (monitored)", "seed_format": "%08x" % self.seeds[j[1]][0], "mutation": j[2], "route": j[3],
                            "file_bytes_hex": j[4].hex()[:2400], "api_script": j[5][1:], "implementation_transcript": (out.get(j[0]) or [])[:12]}
        for (name, k, kind, route, data, ops) in jobs:
            tr = out.get(name)
            self.stats["files"] += 1
            self.stats["ops"] += len(ops)
            self.stats["by_kind"][kind] = self.stats["by_kind"].get(kind, 0) + 1
            self.stats["by_route"][route] = self.stats["by_route"].get(route, 0) + 1
            if tr is None:
                self.failures.append((name, k, kind, route, data, ops, (0, "status:no transcript (harness died)")))
                continue
            verdict, info = c03fuzz.judge(ops, tr, self.known)
            lines, _st, stray = c03fuzz.split_transcript(tr)
            self.stray += len(stray)
            if verdict is not None and c03fuzz.in_chunk_zero_class(ops, tr, verdict):
                self.known_hits.append((name, k, kind, route, data, ops, verdict))
                verdict = None
            if verdict is not None and c03fuzz.in_sds_pipe_class(ops, data, verdict):
                self.sds_hits.append((name, k, kind, route, data, ops, verdict))
                verdict = None
            # (round 4) KF-C03-svx-backjump, KF-C03-caf-info-pipe and KF-C03-pipe-chunk-loop are repaired: no class is waived for them
            if verdict is not None and c03fuzz.in_nist_coding_class(ops, data, verdict):
                self.nist_hits.append((name, k, kind, route, data, ops, verdict))
                verdict = None
            if len(lines) > 1 and lines[1].startswith("open=ok"):
                self.stats["open_ok"] += 1
                if info is not None:
                    self.infos.append(info)
                self.ctx.count(1, tag="%08x-ok" % self.seeds[k][0])
            elif len(lines) > 1 and lines[1].startswith("open=NULL"):
                self.stats["open_null"] += 1
                e = c03fuzz.kvs(lines[1]).get("err", "?")
                self.stats["err_hist"][e] = self.stats["err_hist"].get(e, 0) + 1
                self.ctx.count(1, tag="%08x-null" % self.seeds[k][0])
            else:
                self.ctx.count(1)
            if verdict is not None:
                self.failures.append((name, k, kind, route, data, ops, verdict))


def still_fails(ctx, data, ops, known, sig):
    out = ctx.batch([("m", script_text(data, ops[1:] if ops and ops[0].startswith("store") else ops))], op_timeout=(2 if "TIMEOUT" in sig else OP_TIMEOUT), workers=1, retry_timeouts=False)
    full = ["store s0 x"] + (ops[1:] if ops and ops[0].startswith("store") else ops)
    v, _ = c03fuzz.judge(full, out.get("m", []), known)
    return v is not None and v[1].split(" ")[0].split(":")[0:2] == sig.split(" ")[0].split(":")[0:2]


def minimise(ctx, seed, data, ops, known, verdict, budget_s=15):
    """restore mutated bytes / delete byte ranges / drop operations while the same symptom persists"""
    t0 = time.time()
    sig = verdict[1]
    ops = list(ops)
    body = ops[1:]
    # 1. drop everything after the failing operation, then earlier operations one by one (keep open)
    idx = verdict[0]
    if 1 <= idx < len(ops):
        cand = body[:idx]
        if still_fails(ctx, data, cand, known, sig):
            body = cand
    i = len(body) - 2
    while i >= 1 and time.time() - t0 < budget_s:
        cand = body[:i] + body[i + 1:]
        if still_fails(ctx, data, cand, known, sig):
            body = cand
        i -= 1
    # 2. same length as the seed: revert differing bytes in halves
    if len(data) == len(seed) and data != seed:
        diff = [k for k in range(len(data)) if data[k] != seed[k]]
        while len(diff) > 1 and time.time() - t0 < budget_s:
            half = diff[:len(diff) // 2]
            cand = bytearray(data)
            for k in half:
                cand[k] = seed[k]
            if still_fails(ctx, bytes(cand), body, known, sig):
                data = bytes(cand)
                diff = diff[len(diff) // 2:]
            else:
                cand = bytearray(data)
                for k in diff[len(diff) // 2:]:
                    cand[k] = seed[k]
                if still_fails(ctx, bytes(cand), body, known, sig):
                    data = bytes(cand)
                    diff = half
                else:
                    break
    # 3. delete byte ranges from the tail, then anywhere (coarse to fine)
    size = max(1, len(data) // 2)
    while size >= 1 and time.time() - t0 < budget_s:
        pos = len(data) - size
        progressed = False
        while pos >= 0 and time.time() - t0 < budget_s:
            cand = data[:pos] + data[pos + size:]
            if still_fails(ctx, cand, body, known, sig):
                data = cand
                progressed = True
            pos -= size
        if not progressed or size == 1:
            size //= 2
    return data, body


def report_failure(ctx, fz, f, found):
    (name, k, kind, route, data, ops, verdict) = f
    seedf, seedch, seed = fz.seeds[k]
    try:
        mdata, mbody = minimise(ctx, seed, data, ops, fz.known, verdict)
    except Exception:
        mdata, mbody = data, ops[1:]
    out = ctx.batch([("final", script_text(mdata, mbody))], op_timeout=OP_TIMEOUT, workers=1, retry_timeouts=False).get("final", [])
    v2, _ = c03fuzz.judge(["store"] + mbody, out, fz.known)
    if v2 is None and "TIMEOUT" in verdict[1]:
        # A time-out that does not come back when the ORIGINAL script runs alone with three times the budget was the machine, not the library:
        # a hang is deterministic.  (Memory errors are reported even when they do not reproduce in isolation.)
        o3 = ctx.batch([("orig", script_text(data, ops[1:]))], op_timeout=3 * OP_TIMEOUT, workers=1, retry_timeouts=False).get("orig", [])
        v3, _ = c03fuzz.judge(["store"] + ops[1:], o3, fz.known)
        if v3 is None:
            st = ctx.notes.setdefault("timeouts_not_reproduced", {"count": 0, "examples": []})
            st["count"] += 1
            if len(st["examples"]) < 5:
                st["examples"].append("%s (seed format %08x, mutation '%s', route %s)" % (name, seedf, kind, route))
            return
    text = ("# C03: %s\n# seed format %08x (%d ch), mutation '%s', route %s; minimised from %d to %d bytes, %d -> %d operations\n"
            "# symptom after minimisation: %s\n# transcript of the minimised script:\n%s\n--- script\n%s"
            % (verdict[1], seedf, seedch, kind, route, len(data), len(mdata), len(ops) - 1, len(mbody),
               v2[1] if v2 else "(did not reproduce in isolation; original script kept)", "\n".join("#   " + l[:300] for l in out if l),
               script_text(mdata if v2 else data, mbody if v2 else ops[1:])))
    hid = hashlib.sha256(text.encode()).hexdigest()[:8]
    ctx.violation("fuzz-%08x-%s-%s" % (seedf, verdict[1].split(" ")[0].replace(":", "-")[:30], hid), text)


def replay(ctx, path, known):
    text = open(path).read()
    if "\nvg-replay " in text:                     # the uninitialised-memory class: re-run under valgrind (vlib/vgcheck.py)
        from .. import vgcheck
        return vgcheck.replay(ctx, path)
    if "--- script" not in text:
        print(text)
        ctx.report(path, no_input=True)
        return
    script = text.split("--- script", 1)[1].lstrip("\n")
    ops = [l for l in script.split("\n") if l.strip()]
    out = ctx.batch([("replay", script)], op_timeout=OP_TIMEOUT, workers=1, retry_timeouts=False).get("replay", [])
    for l in out:
        if l:
            print(l[:400])
    v, _ = c03fuzz.judge(ops, out, known)
    tr, status, stray = c03fuzz.split_transcript(out)
    for l in text.split("--- script", 1)[0].split("\n"):
        if v is None and l.startswith("expect-last ") and (not tr or l[len("expect-last "):].strip() not in tr[-1]):
            v = (len(tr) - 1, "last transcript line does not contain %r" % l[len("expect-last "):].strip())
    if v is not None:
        print("replay: C03 predicate fails at operation %d (%s): %s" % (v[0], ops[v[0]][:80] if 0 <= v[0] < len(ops) else "?", v[1]))
        ctx.report(path)
    else:
        print("replay: the C03 predicate holds on this transcript (no violation on this tree)")


def regression_scripts(ctx, known):
    """Witnesses of repaired findings are regression tests: they run first on every run, in a forked ASan child with the
    per-call alarm.  The C03 predicate must hold on the transcript and the `expect-last` line of the file must be met;
    otherwise the defect is back: VIOLATION with the script as the replay."""
    here = os.path.dirname(os.path.dirname(os.path.dirname(os.path.abspath(__file__))))
    n = 0
    bad = 0
    from ..c15reg import EXTRA
    entries = []
    for e in ctx.known:
        if e.get("status") == "fixed" and e.get("witness"):
            entries.append((e, e["witness"]))
            entries += [(e, w) for w in EXTRA.get(e["id"], []) if os.path.basename(w).startswith("C03")]     # second witnesses
    for (e, wit) in entries:
        path = os.path.join(here, wit)
        if not os.path.exists(path):
            continue
        text = open(path).read()
        if "--- script" not in text:
            continue
        head, script = text.split("--- script", 1)
        script = script.lstrip("\n")
        ops = [l for l in script.split("\n") if l.strip()]
        out = ctx.batch([("reg", script)], op_timeout=OP_TIMEOUT, workers=1, retry_timeouts=False).get("reg", [])
        v, _ = c03fuzz.judge(ops, out, known)
        tr, status, stray = c03fuzz.split_transcript(out)
        why = None
        if v is not None:
            why = "the C03 predicate fails at operation %d: %s" % (v[0], v[1])
        else:
            for l in head.split("\n"):
                if l.startswith("expect-last ") and (not tr or l[len("expect-last "):].strip() not in tr[-1]):
                    why = "last transcript line %r does not contain %r" % (tr[-1][:120] if tr else "", l[len("expect-last "):].strip())
        n += 1
        ctx.count(1, tag="regression-" + e["id"])
        if why:
            bad += 1
            ctx.violation("regression-" + e["id"] + ("" if wit == e["witness"] else "-" + os.path.basename(wit)[:-4]),
                          "# C03: the repaired defect %s (fixed in %s) is back: %s\n# %s\n# transcript:\n%s\n%s--- script\n%s"
                          % (e["id"], e.get("commit", "?"), why, e.get("signature", ""), "\n".join("#   " + l[:300] for l in out if l),
                             "".join(l + "\n" for l in head.split("\n") if l.startswith("expect-last ")), script))
    ctx.notes["regression_scripts_run"] = n
    ctx.notes["regression_scripts_failed"] = bad
    return bad


PIPE_KF = ("KF-C03-sds-pipe-scan",)


def replay_known(ctx):
    """replays the witness of every known finding of C03; returns {id: still failing with its signature?}"""
    res = {}
    for e in ctx.known:
        if e.get("status") != "known":
            continue
        path = os.path.join(os.path.dirname(os.path.dirname(os.path.dirname(os.path.abspath(__file__)))), e["witness"])
        text = open(path).read()
        script = text.split("--- script", 1)[1].lstrip("\n")
        lines, rc, err = ("", 0, "") if e["id"] in PIPE_KF else ctx.script(script)
        if e["id"] == "KF-C03-nist-sample-coding":
            lines, rc, err = ctx.script(script)
            active = rc != 0 and "stack-buffer-overflow" in err and "nist_read_header" in err
        elif e["id"] in PIPE_KF:
            out = ctx.batch([("w", script)], op_timeout=2, workers=1, retry_timeouts=False).get("w", [])
            active = any(l.startswith("TIMEOUT") for l in out) and not any(l.startswith("open=") for l in out)
        else:
            active = rc != 0 and "AddressSanitizer: FPE" in err and "psf_fread" in err and "_get_chunk_data" in err
        res[e["id"]] = active
        if active:
            ctx.known_finding(e)
    ctx.notes["known_findings_active"] = res
    return res


# ------------------------------------------------------------------------------------------------
def run(ctx):
    c, el = setup_consts(ctx)
    majors, subs = format_tables(ctx)
    hmaj, hsub = header_formats()
    known = (set(majors) | hmaj, set(subs) | hsub)   # "known" = named in include/sndfile.h (SF_FORMAT_DWVW_N &c. are not in the subtype table)
    if getattr(ctx, "replay", None):
        return replay(ctx, ctx.replay, known)
    from .. import c03sites
    site_consts = c03sites.gen_consts(ctx)          # Generated/SitesConsts.lean from this tree, before the Lean stage
    failed = ctx.lean_stage(modules_for("C03"))
    found_input = False

    if regression_scripts(ctx, known):
        found_input = True

    from . import c03ties
    tie_problems = c03ties.run_ties(ctx, c)
    for (name, text, has_input) in tie_problems:
        if has_input:
            found_input = True
        ctx.violation(name, text, no_input=not has_input)

    for (name, text, has_input) in c03sites.run(ctx, site_consts):
        if has_input:
            found_input = True
        ctx.violation(name, text, no_input=not has_input)

    from .. import c03detect                       # (round 9 covgap) the broken-'fmt ' detector vs Sf.AudioDetect, LIST/exif family
    det = c03detect.run(ctx, known)
    ctx.notes["detect_exif_problems"] = len(det)
    for (name, text, has_input) in det[:3]:            # one defect shows on many members of the family: three replays are enough
        if has_input:
            found_input = True
        ctx.violation(name, text, no_input=not has_input)

    kf_active = replay_known(ctx)

    fmts = writable_formats(ctx, majors, subs)
    seeds = make_seeds(ctx, fmts)
    ctx.notes["writable_formats"] = len(fmts)
    ctx.notes["seed_files"] = len(seeds)
    ctx.notes["seed_bytes_total"] = sum(len(s[2]) for s in seeds)
    if len(seeds) < 20:
        ctx.violation("seeds", "only %d of %d writable formats produced a seed file; the harness or the library's writers are broken on this tree" % (len(seeds), len(fmts)), no_input=True)
        raise Violation()

    from .. import vgcheck                         # class "uninitialised memory": truncated files of every container under valgrind memcheck
    try:
        fork = bytes.fromhex(ctx.run_model(["sd2"], "rsrc size=2 sr=44100 ch=2 name=78\n").strip())
    except Exception:
        fork = None
    if vgcheck.run(ctx, seeds, sd2_fork=fork):
        found_input = True

    fz = Fuzz(ctx, seeds, known)
    total = QUICK_FILES if ctx.tier == "quick" else THOROUGH_FILES
    budget = 150 if ctx.tier == "quick" else 3300
    chunk = 2500 if ctx.tier == "quick" else 20000
    rnd = 0
    fz.interaction_round(500 if ctx.tier == "quick" else 4000)
    ctx.notes["interaction_files"] = fz.stats["by_kind"].get("interact", 0)
    while fz.stats["files"] < total and ctx.budget_left(budget) > 0 and len(fz.failures) < 6:
        fz.one_round(min(chunk, total - fz.stats["files"]), "r%d" % rnd)
        rnd += 1
    ctx.notes["fuzz"] = {k: v for k, v in fz.stats.items() if k != "err_hist"}
    ctx.notes["fuzz_open_error_codes"] = dict(sorted(fz.stats["err_hist"].items(), key=lambda kv: -kv[1])[:40])
    ctx.notes["fuzz_budget_exhausted"] = fz.stats["files"] < total
    ctx.coverage["traces_validated_against_impl"] += fz.stats["files"]

    # the postcondition as the Lean definition sees it (validateSfinfo), on every SF_INFO a successful open returned
    if fz.infos:
        inp = "".join("%d %d %d %d %d\n" % i for i in fz.infos)
        res = ctx.run_model(["c03", "post"], inp).split("\n")
        bad = [fz.infos[k] for k in range(len(fz.infos)) if k < len(res) and res[k] != "ok"]
        ctx.notes["postcondition_checked_by_model"] = len(fz.infos)
        if bad and not fz.failures:
            ctx.violation("postcondition-model", "the Lean predicate validateSfinfo rejects SF_INFO values a successful open returned: %s" % bad[:5], no_input=True)

    ctx.notes["fuzz_known_finding_hits"] = len(fz.known_hits)
    ctx.notes["stray_stdout_lines_from_library"] = fz.stray
    if fz.known_hits and not kf_active.get("KF-C03-chunk-data-zero"):
        # the witness no longer fails with its signature, so nothing is waived
        fz.failures = fz.known_hits[:2] + fz.failures
    elif fz.known_hits:
        # signature check (sanitizer report) on a few of the waived failures
        for f in fz.known_hits[:3]:
            lines, rc, err = ctx.script(script_text(f[4], f[5][1:]))
            if not ("AddressSanitizer: FPE" in err and "psf_fread" in err and "_get_chunk_data" in err):
                fz.failures.insert(0, f)
    ctx.notes["fuzz_known_finding_hits_sds_pipe"] = len(fz.sds_hits)
    if fz.sds_hits and not kf_active.get("KF-C03-sds-pipe-scan"):
        fz.failures = fz.sds_hits[:2] + fz.failures
    ctx.notes["fuzz_known_finding_hits_nist_coding"] = len(fz.nist_hits)
    if fz.nist_hits:
        if not kf_active.get("KF-C03-nist-sample-coding"):
            fz.failures = fz.nist_hits[:2] + fz.failures
        else:
            for f in fz.nist_hits[:3]:
                lines, rc, err = ctx.script(script_text(f[4], f[5][1:]))
                if rc != 0 and not ("nist_read_header" in err and ("stack-buffer-overflow" in err or "stack-buffer-underflow" in err)):
                    fz.failures.insert(0, f)
    seen = set()
    for f in fz.failures:
        key = (fz.seeds[f[1]][0] & 0x0FFF0000, f[6][1].split(" ")[0])
        if key in seen and len(seen) >= 1:
            continue
        seen.add(key)
        if len(seen) > 3:
            break
        found_input = True
        report_failure(ctx, fz, f, found_input)
    ctx.notes["fuzz_failures"] = len(fz.failures)

    if failed and not found_input:
        ctx.violation("lean-stage", "theorem(s) no longer check: %s\nno failing input found by the ties or by %d mutated files\n%s"
                      % (", ".join(failed), fz.stats["files"], ctx.notes.get("lean_log_tail", "")), no_input=True)
    ctx.coverage["exhaustive"] = False
    ctx.coverage["rule"] = ("PARTIAL. Proved: header-cache invariant and in-bounds accesses for all op sequences and all I/O answers; open gate postcondition / "
                            "non-zero error for an arbitrary parser result; read-wrapper clamping, zero-fill bounds, seek range. "
                            "Ties (sampled, deterministic families): header-cache log events for parametrised AU/WAV/AIFF/CAF headers, gate probes, wrapper scripts. "
                            "Monitored only (ASan, %d s per-call alarm, forked children): %d mutated files of %d seed formats x random API scripts; "
                            "evaluations = files + tie cases; distinct_nontrivial = (seed format, open outcome) classes"
                            % (OP_TIMEOUT, fz.stats["files"], len(seeds)))
    from .. import alaccore       # hostile ALAC packets under ASan vs the Lean decoder core (lean/SfModel/AlacCore.lean …; theorems SfProps/C03Alac.lean)
    alaccore.run(ctx, "C03", 45 if ctx.tier == "quick" else 900)
    if getattr(fz, "example", None):
        ctx.sample(fz.example)
    ctx.sample({"seed_formats": ["%08x" % s[0] for s in seeds[:12]], "mutation_kinds": fz.stats["by_kind"], "routes": fz.stats["by_route"]})
    ctx.assumptions.append("memory safety and termination of the parsers and codecs themselves are observed (ASan, alarms), not proved")
    ctx.assumptions.append("header-cache theorems assume read sizes and SEEK_SET positions are non-negative (true at every call site; proved necessary)")
    ctx.assumptions.append("I/O callbacks honour 0 <= result <= count; the codec returns between 0 and the number of items asked for")
