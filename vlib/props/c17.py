"""C17 — sf_command never touches more than datasize bytes; string commands terminate; queries are pure.

Lean: SfModel/Command.lean (table of guards / byte ranges / return values / state step), SfProps/C17.lean
(cmd_in_bounds, string_cmds_terminate, queries_are_pure at full strength; the rules before the four repairs are
kept as `…_old_rule` theorems).  The four repaired defects are regression points (findings/C17-*.txt) run first.  Correspondence: the complete grid (every command id of include/sndfile.h + undefined ids)
x datasize x data kind x handle state x format, `sfh grid c17` (real library, ASan) against
`sfmodel c17grid` (the model), line by line; the property predicate is evaluated on the implementation's
own lines.
"""
import os, re, subprocess, concurrent.futures, time, json
from .. import build
from ..core import Violation, VERIF, modules_for

INT_MAX = 2147483647
ASAN = ("exitcode=77:detect_leaks=0:allocator_may_return_null=1:abort_on_error=0:handle_segv=0:"
        "symbolize=0:malloc_context_size=0")

FORMATS = [("wav16", 0x010002), ("wavf", 0x010006), ("wavex", 0x130002), ("rf64", 0x220002),
           ("aiff", 0x020002), ("caf", 0x180002), ("raw", 0x040002)]

# formats of the route dimension: one per command-hook family (wav_command, aiff_command, none) + a float encoding (PEAK / CALC paths)
ROUTE_FORMATS = [("wav16", 0x010002), ("wavf", 0x010006), ("aiff", 0x020002), ("raw", 0x040002)]
PIPE_FORMATS = [("raw", 0x040002), ("au", 0x030002), ("wav16", 0x010002)]

UNDEFINED = [0x0, 0x1, 0xFFF, 0x1003, 0x1004, 0x100F, 0x1016, 0x1022, 0x1029, 0x1046, 0x1052, 0x1062, 0x10F2,
             0x1102, 0x1202, 0x1211, 0x1307, 0x1402, 0x1502, 0x6000, 0x6002, 0x7FFFFFFF, 0x80000000, 0xFFFFFFFF]

# struct size behind each command (0 = the command takes no struct: datasize is a flag or ignored)
S = {"SFC_GET_LIB_VERSION": 24, "SFC_GET_LOG_INFO": 64, "SFC_GET_CURRENT_SF_INFO": 32,
     "SFC_GET_SIMPLE_FORMAT_COUNT": 4, "SFC_GET_SIMPLE_FORMAT": 24, "SFC_GET_FORMAT_INFO": 24,
     "SFC_GET_FORMAT_MAJOR_COUNT": 4, "SFC_GET_FORMAT_MAJOR": 24, "SFC_GET_FORMAT_SUBTYPE_COUNT": 4,
     "SFC_GET_FORMAT_SUBTYPE": 24, "SFC_CALC_SIGNAL_MAX": 8, "SFC_CALC_NORM_SIGNAL_MAX": 8,
     "SFC_CALC_MAX_ALL_CHANNELS": 64, "SFC_CALC_NORM_MAX_ALL_CHANNELS": 64, "SFC_GET_SIGNAL_MAX": 8,
     "SFC_GET_MAX_ALL_CHANNELS": 64, "SFC_FILE_TRUNCATE": 8, "SFC_SET_RAW_START_OFFSET": 8,
     "SFC_SET_DITHER_ON_WRITE": 24, "SFC_SET_DITHER_ON_READ": 24, "SFC_GET_DITHER_INFO_COUNT": 4,
     "SFC_GET_DITHER_INFO": 24, "SFC_GET_EMBED_FILE_INFO": 16, "SFC_GET_CUE_COUNT": 4, "SFC_GET_CUE": 284,
     "SFC_SET_CUE": 284, "SFC_GET_INSTRUMENT": 272, "SFC_SET_INSTRUMENT": 272, "SFC_GET_LOOP_INFO": 44,
     "SFC_GET_BROADCAST_INFO": 864, "SFC_SET_BROADCAST_INFO": 864, "SFC_GET_CHANNEL_MAP_INFO": 64,
     "SFC_SET_CHANNEL_MAP_INFO": 64, "SFC_SET_VBR_ENCODING_QUALITY": 8, "SFC_SET_COMPRESSION_LEVEL": 8,
     "SFC_SET_OGG_PAGE_LATENCY_MS": 8, "SFC_SET_OGG_PAGE_LATENCY": 8, "SFC_GET_OGG_STREAM_SERIALNO": 4,
     "SFC_GET_BITRATE_MODE": 4, "SFC_SET_BITRATE_MODE": 4, "SFC_SET_CART_INFO": 2308, "SFC_GET_CART_INFO": 2308,
     "SFC_SET_ORIGINAL_SAMPLERATE": 4, "SFC_GET_ORIGINAL_SAMPLERATE": 4}
DEFAULT_S = 8          # flag commands and undefined ids
NEW_ID_S = 64          # an id that appears in sndfile.h later and is not in the table yet
# commands whose behaviour depends on the *contents* of data: they get the content-bearing fills as well
READERS = {"SFC_SET_BROADCAST_INFO", "SFC_SET_CART_INFO", "SFC_SET_CUE", "SFC_SET_INSTRUMENT", "SFC_SET_CHANNEL_MAP_INFO",
           "SFC_SET_DITHER_ON_WRITE", "SFC_SET_DITHER_ON_READ", "SFC_FILE_TRUNCATE", "SFC_SET_RAW_START_OFFSET",
           "SFC_SET_VBR_ENCODING_QUALITY", "SFC_SET_OGG_PAGE_LATENCY_MS", "SFC_GET_SIMPLE_FORMAT", "SFC_GET_FORMAT_INFO",
           "SFC_GET_FORMAT_MAJOR", "SFC_GET_FORMAT_SUBTYPE", "SFC_SET_COMPRESSION_LEVEL", "SFC_SET_BITRATE_MODE",
           "SFC_SET_ORIGINAL_SAMPLERATE"}
# the length field these two read sits at a fixed offset: below it every fill behaves the same, so the
# extra fills start 8 bytes before it (the 0xA5 block and NULL cover every size)
FIXED = {"SFC_SET_BROADCAST_INFO": 608, "SFC_SET_CART_INFO": 2052}
FLAG_CMDS = {"SFC_GET_NORM_DOUBLE", "SFC_GET_NORM_FLOAT", "SFC_SET_NORM_DOUBLE", "SFC_SET_NORM_FLOAT", "SFC_SET_SCALE_FLOAT_INT_READ",
             "SFC_SET_SCALE_INT_FLOAT_WRITE", "SFC_SET_ADD_PEAK_CHUNK", "SFC_UPDATE_HEADER_NOW", "SFC_SET_UPDATE_HEADER_AUTO",
             "SFC_SET_CLIPPING", "SFC_GET_CLIPPING", "SFC_RAW_DATA_NEEDS_ENDSWAP", "SFC_WAVEX_SET_AMBISONIC", "SFC_WAVEX_GET_AMBISONIC",
             "SFC_RF64_AUTO_DOWNGRADE", "SFC_TEST_IEEE_FLOAT_REPLACE", "SFC_SET_ADD_HEADER_PAD_CHUNK", "SFC_SET_ADD_DITHER_ON_WRITE",
             "SFC_SET_ADD_DITHER_ON_READ"}
STRING_CMDS = {0x1000, 0x1001}
# (command id, datasize) of the calls the harness's state digest is made of
OBSERVERS = {(0x1002, 32), (0x1010, 0), (0x1011, 0), (0x10C1, 0), (0x1110, 0), (0x1201, 0), (0x10F0, 16000), (0x1401, 16000),
             (0x10CE, 28004), (0x10D0, 272), (0x10E0, 44), (0x1100, 8), (0x1045, 16), (0x10B0, 16)}


# commands whose struct holds a SIZE / COUNT field that a guard does arithmetic on (round 8, seed C17-cart-minsize-wrap): they also get
# the WORD fills `w<8 hex digits>` (the whole block = that little-endian 32-bit word, so every aligned field holds it) at the boundary
# sizes, with the values at which 32-bit guard arithmetic wraps: 2^31 - 1, 2^31, 2^32 - 1, 2^32 - 16, 2^32 - offsetof (variable part) + d,
# 2^32 - sizeof (struct) + d, and for SFC_SET_CUE the counts whose product with sizeof (SF_CUE_POINT) passes 2^32
SIZED = {"SFC_SET_BROADCAST_INFO", "SFC_SET_CART_INFO", "SFC_SET_CUE", "SFC_SET_INSTRUMENT", "SFC_SET_CHANNEL_MAP_INFO", "SFC_FILE_TRUNCATE",
         "SFC_SET_RAW_START_OFFSET"}


def word_fills(name, s):
    ws = {0x7FFFFFFF, 0x80000000, 0xFFFFFFFF, 0xFFFFFFF0, 0x00010000}
    for d in (-1, 0, 1):
        ws.add((1 << 32) - s + d)
    if name in FIXED:
        for d in (-1, 0, 1, 256):
            ws.add((1 << 32) - (FIXED[name] + 4) + d)
    if name == "SFC_SET_CUE":
        ws |= {15339168, 15339169, 15339170, (1 << 32) // 4}
    return ["w%08x" % (w & 0xFFFFFFFF) for w in sorted(ws)]


def word_sizes(name, s):
    zs = {4, 8, 16, s - 1, s, s + 1, s + 8, 4096}
    if name in FIXED:
        f = FIXED[name]
        zs |= {f + 3, f + 4, f + 5, f + 20}
    return sorted(z for z in zs if z >= 0)


def command_ids(repo):
    """(name, id) of every SFC_* enumerator of the public header."""
    src = open(os.path.join(repo, "include", "sndfile.h")).read()
    res = []
    for m in re.finditer(r"^\s*(SFC_[A-Z0-9_]+)\s*=\s*(0x[0-9A-Fa-f]+|\d+)", src, re.M):
        res.append((m.group(1), int(m.group(2), 0)))
    return res


def hexid(v):
    return "%x" % (v & 0xFFFFFFFF)


def grid_lines(ids, facts, full):
    """Harness input: one line per command id.  full=True: every size 0..S+8; else boundary sizes."""
    out = []
    loglen = int(facts.get("loglen", "0"))
    for (name, cid) in ids:
        s = S.get(name, DEFAULT_S if (name == "undefined" or name in FLAG_CMDS) else NEW_ID_S)
        reader = name in READERS
        extras = {4096, INT_MAX}
        if name == "SFC_GET_LOG_INFO":
            extras |= {max(0, loglen + d) for d in (-1, 0, 1, 2, 9)}
        if name in ("SFC_GET_CUE", "SFC_SET_CUE"):
            for k in (2, 3, 100):
                extras |= {4 + 280 * k - 1, 4 + 280 * k, 4 + 280 * k + 1}
            extras |= {28004 + 8}
        if name in ("SFC_GET_BROADCAST_INFO", "SFC_GET_CART_INFO"):
            st = int(facts.get("bext" if "BROADCAST" in name else "cart", "-1"))
            if st > 0:
                extras |= {st - 1, st, st + 1, st + 8}
        if full:
            top = s + 8
        else:
            top = 9
            extras |= {15, 16, 17, s - 1, s, s + 1, s + 8}
            if name in FIXED:
                f = FIXED[name]
                extras |= {f - 5, f - 4, f - 1, f, f + 1, f + 2, f + 64}
        extras = sorted(e for e in extras if e > top)
        if not reader:
            out.append("%s %d null,a5 %s" % (hexid(cid), top, " ".join(map(str, extras))))
        elif name in FIXED and full:
            f = FIXED[name]
            out.append("%s %d null,a5 %s" % (hexid(cid), f - 9, ""))
            more = list(range(f - 8, top + 1)) + extras
            out.append("%s %d null,a5,zero,one,nl %s" % (hexid(cid), -1, " ".join(map(str, more))))
        else:
            out.append("%s %d null,a5,zero,one,nl %s" % (hexid(cid), top, " ".join(map(str, extras))))
        if name in SIZED and full:
            out.append("%s %d %s %s" % (hexid(cid), -1, ",".join(word_fills(name, s)), " ".join(map(str, word_sizes(name, s)))))
    return out


def expected_points(lines):
    """The points a grid input describes (independent of the harness): list of (cmdhex, size, kind)."""
    pts = []
    for l in lines:
        t = l.split()
        cid, top, kinds, extras = t[0], int(t[1]), t[2].split(","), [int(x) for x in t[3:]]
        for s in range(0, top + 1):
            for k in kinds:
                pts.append((cid, s, k))
        for s in extras:
            for k in kinds:
                if s > 65536 and k != "null":
                    continue
                pts.append((cid, s, k))
    return pts


def kv(line):
    return dict(t.split("=", 1) for t in line.split() if "=" in t)


def parse_ranges(s):
    if s == "-":
        return []
    return [tuple(int(x) for x in r.split("-")) for r in s.split(",")]


def within(chg, wr):
    for (a, b) in chg:
        if not any(lo <= a and b <= hi for (lo, hi) in wr):
            return False
    return True


def ret_ok(spec, v):
    if spec == "undef":
        return True
    if spec.startswith("{"):
        return v in [int(x) for x in spec[1:-1].split(",")]
    return v == int(spec)


class Point:
    __slots__ = ("cmd", "size", "kind", "impl", "model", "combo")


def predicate(pt_cmd, size, kind, impl, is_query, probe0=None):
    """The property on one implementation line.  Returns None if it holds, else what is violated."""
    if impl.startswith("ABORT") or impl.startswith("CRASH") or impl.startswith("TIMEOUT"):
        if kind == "null":
            return "NULL data pointer dereferenced / process died (%s)" % impl
        return "access outside [0, datasize) through data (%s)" % impl
    d = kv(impl)
    if pt_cmd in STRING_CMDS and kind != "null" and size >= 1:
        z = int(d.get("z", "-1"))
        if not (0 <= z < size):
            return "string command did not NUL-terminate within datasize (first NUL at %d)" % z
    if is_query and not d.get("same", "1").startswith("1"):
        if "observer" in d:
            return ("query command changed the handle (%s); two state digests taken *before* the call already differ (%s): "
                    "one of the digest's own queries is the impure one" % (d.get("same"), d["observer"]))
        return "query command changed the handle (%s)" % d.get("same")
    if is_query and probe0 is not None and d.get("probe", probe0) != probe0:
        return "after the query the next frames read are %s, a fresh handle delivers %s" % (d.get("probe"), probe0)
    return None


def run_combo(ctx, sfh, fname, fmt, state, flavour, ids, full):
    """Returns dict with counts and lists of (point, why) for violations / disagreements / known."""
    env = dict(os.environ)
    env["ASAN_OPTIONS"] = ASAN
    env["SFH_C17_FASTABORT"] = "1"
    args = [sfh, "grid", "c17", "%x" % fmt, state, flavour]
    pre = subprocess.run(args, input="", capture_output=True, text=True, env=env, timeout=120)
    fl = [l for l in pre.stdout.split("\n") if l.startswith("facts")]
    res = {"combo": (fname, state, flavour), "points": 0, "aborts": 0, "viol": [], "dis": [], "facts": fl[0] if fl else "",
           "nontrivial": set(), "skipped": None, "args": ["%x" % fmt, state, flavour]}
    if not fl or "open-failed" in fl[0]:
        res["skipped"] = "handle cannot be opened in this state"
        return res
    facts = kv(fl[0])
    lines = grid_lines(ids, facts, full)
    want = expected_points(lines)
    p = subprocess.run(args, input="\n".join(lines) + "\n", capture_output=True, text=True, env=env, timeout=1800)
    impl_lines = [l for l in p.stdout.split("\n") if l.startswith("p ")]
    if p.returncode != 0 or not p.stdout.rstrip().endswith("end") or len(impl_lines) != len(want):
        res["dis"].append((None, "harness did not complete the grid: rc=%d, %d of %d points, tail=%r" % (p.returncode, len(impl_lines), len(want), p.stdout[-300:])))
        return res
    minput = ctx._c17_consts + "\n" + fl[0] + "\n" + "".join("p cmd=%s size=%d data=%s\n" % w for w in want)
    mo = subprocess.run([ctx.sfmodel(), "c17grid"], input=minput, capture_output=True, text=True, timeout=1800)
    model_lines = [l for l in mo.stdout.split("\n") if l.startswith("p ")]
    if mo.returncode != 0 or len(model_lines) != len(want):
        res["dis"].append((None, "sfmodel c17grid failed: rc=%d, %d of %d lines; %s" % (mo.returncode, len(model_lines), len(want), mo.stderr[-300:])))
        return res
    res["points"] = len(want)
    for (w, il, ml) in zip(want, impl_lines, model_lines):
        ihead, ibody = il.split(" | ", 1) if " | " in il else (il.rstrip(" |"), il.split("|", 1)[1].strip())
        mhead, mbody = ml.split(" | ", 1)
        head = "p cmd=%s size=%d data=%s" % w
        if ihead.strip() != head or mhead.strip() != head:
            res["dis"].append((w, "point order differs: expected %r, harness %r, model %r" % (head, ihead, mhead)))
            break
        ibody = ibody.strip()
        dm = re.search(r"(ABORT status=\d+|CRASH signal=\d+|TIMEOUT)", ibody)
        if dm:
            ibody = dm.group(1) + ("" if ibody.startswith(dm.group(1)) else "   (after: %s)" % ibody[:dm.start()].strip())
        m = kv(mbody)
        cmd = int(w[0], 16)
        is_query = m["q"] == "1"
        dead = ibody.startswith(("ABORT", "CRASH", "TIMEOUT"))
        if dead:
            res["aborts"] += 1
        why = predicate(cmd, w[1], w[2], ibody, is_query, facts.get("probe"))
        # --- correspondence: does the implementation line match the model's prediction? ---
        mis = None
        if dead:
            if ibody.startswith("ABORT status=77"):
                if m["oob"] != "1":
                    mis = "implementation: sanitizer abort; model: every access inside [0, datasize)"
            elif ibody.startswith("CRASH signal=11") and w[2] == "null":
                if m["nullderef"] != "1":
                    mis = "implementation: SIGSEGV with NULL data; model: NULL not dereferenced"
            else:
                mis = "implementation died (%s); model predicts a return" % ibody
        else:
            d = kv(ibody)
            if m["oob"] == "1" or m["nullderef"] == "1":
                mis = "model predicts an access outside the block (rd=%s wr=%s); implementation returned" % (m["rd"], m["wr"])
            elif not ret_ok(m["ret"], int(d["ret"])):
                mis = "return value %s, model %s" % (d["ret"], m["ret"])
            elif state != "null" and m["err"] != "?" and d["err"] != m["err"]:
                mis = "sf_error %s, model %s" % (d["err"], m["err"])
            elif not within(parse_ranges(d["chg"]), parse_ranges(m["wr"])):
                mis = "bytes %s of data changed, model allows writes only in %s" % (d["chg"], m["wr"])
            elif m["pure"] == "1" and not d["same"].startswith("1"):
                mis = "handle state changed (%s), model: unchanged" % d["same"]
            elif is_query and m["pure"] == "0" and d["same"].startswith("1"):
                mis = "model: this query moves the handle; implementation: unchanged"
            elif m["term"] == "1" and not (0 <= int(d["z"]) < w[1]):
                mis = "model: NUL-terminated inside datasize; implementation: first NUL at %s" % d["z"]
        if why is not None:
            res["viol"].append((w, why, ibody, mbody))        # the property fails on the implementation's own line
        elif mis is not None:
            res["dis"].append((w, mis, ibody, mbody))
        if not dead:
            d = kv(ibody)
            if d.get("chg", "-") != "-" or not d.get("same", "1").startswith("1") or d.get("ret", "0") != "0":
                res["nontrivial"].add((w[0], state))
    return res


def replay_text(combo_args, w, why, ibody, mbody, expect):
    return ("# C17: sf_command point  format=%s state=%s flavour=%s  cmd=0x%s datasize=%d data=%s\n"
            "# %s\n# implementation: %s\n# model:          %s\n"
            "# re-run: bin/check C17 --replay <this file>   (runs `sfh grid c17 point ...` on a fresh handle under ASan)\n"
            "c17-point %s %s %s %s %d %s\nexpect %s\n"
            % (combo_args[0], combo_args[1], combo_args[2], w[0], w[1], w[2], why, ibody, mbody,
               combo_args[0], combo_args[1], combo_args[2], w[0], w[1], w[2], expect))


def run_point(ctx, args, symbolize=False):
    """One grid point in its own process on a fresh handle; returns (line body, whole output, stderr tail)."""
    env = dict(os.environ)
    env["ASAN_OPTIONS"] = ASAN.replace("symbolize=0", "symbolize=1") if symbolize else ASAN
    p = subprocess.run([ctx.sfh(), "grid", "c17", "point"] + list(args), capture_output=True, text=True, env=env, timeout=120)
    out = p.stdout.strip()
    if p.returncode == 77:
        out += " ABORT status=77"
    elif p.returncode < 0:
        out += " CRASH signal=%d" % (-p.returncode)
    elif p.returncode == 3:
        out += " TIMEOUT"
    body = out.split("|", 1)[1].strip() if "|" in out else out
    dm = re.search(r"(ABORT status=\d+|CRASH signal=\d+|TIMEOUT)", body)
    if dm:
        body = dm.group(1)
    return body, out, p.stderr[-2500:]


POINT_RE = re.compile(r"^c17-point (\S+) (\S+) (\S+) (\S+) (\d+) (\S+)$", re.M)


def eval_points(ctx, text, symbolize=False, verbose=False):
    """Run every `c17-point` of a replay / regression file.  Returns list of (args, body, why) for the failing ones."""
    em = re.search(r"^expect (.*)$", text, re.M)
    expect = em.group(1).strip() if em else ""
    bad = []
    for m in POINT_RE.finditer(text):
        args = m.groups()
        body, out, err = run_point(ctx, args, symbolize)
        if verbose:
            print(out)
        why = predicate(int(args[3], 16), int(args[4]), args[5], body, model_is_query(ctx, args[3]))
        if why is None and expect not in ("", "property") and expect not in body:
            why = "expected `%s` on the line" % expect
        if why is not None:
            if verbose and err.strip():
                print(err)
            bad.append((args, body, why))
    return bad


def do_replay(ctx, path):
    text = open(path).read()
    if "abs-geom" in text:
        from .. import absreplay
        return absreplay.replay(ctx, path)            # a history of vlib/cmdops.py: re-judged by `sfmodel abs`
    if not POINT_RE.search(text):
        print(text)
        print("replay: this file names a theorem / correspondence stream, there is no point to run")
        ctx.report(path, no_input=True)
        return
    bad = eval_points(ctx, text, symbolize=True, verbose=True)
    for (args, body, why) in bad:
        print("replay: %s: %s" % (" ".join(args), why))
    if bad:
        ctx.report(path)
    else:
        print("replay: the property holds at every point of this file on this tree")


def model_is_query(ctx, cid):
    mo = subprocess.run([ctx.sfmodel(), "c17grid"], input="facts verlen=1 state=null loglen=0\np cmd=%s size=0 data=null\n" % cid,
                        capture_output=True, text=True, timeout=60)
    for l in mo.stdout.split("\n"):
        if l.startswith("p "):
            return kv(l).get("q") == "1"
    return False


def check_known_witnesses(ctx):
    """Entries of known_findings.jsonl: a `known` one prints KNOWN-FINDING while its witness still fails with its
    signature; a `fixed` one is a regression test — its points must satisfy the property (and the recorded
    expectation) on this tree, else VIOLATION with the witness file as the concrete replay."""
    n = 0
    for e in ctx.known:
        wpath = os.path.join(VERIF, e["witness"])
        try:
            text = open(wpath).read()
        except OSError:
            continue
        if not POINT_RE.search(text):
            continue
        bad = eval_points(ctx, text)
        n += len(POINT_RE.findall(text))
        if e.get("status") == "fixed":
            if bad:
                (args, body, why) = bad[0]
                ctx.violation("regression-" + e["id"],
                              "# C17 regression: the defect %s (repaired in %s) is back\n# %s\n# point `%s`: %s\n# implementation: %s\n"
                              "# all points of the regression file (re-run: bin/check C17 --replay <this file>):\n%s"
                              % (e["id"], e.get("commit", "?"), e.get("text", ""), " ".join(args), why, body,
                                 "\n".join(l for l in text.split("\n") if l.startswith(("c17-point", "expect")))))
        elif bad and all(e["signature"] in b[1] for b in bad):
            ctx.known_finding(e)
    return n


def run(ctx):
    if getattr(ctx, "replay", None):
        return do_replay(ctx, ctx.replay)
    repo = build.REPO
    named = command_ids(repo)
    ids = named + [("undefined", u) for u in UNDEFINED if u not in {c & 0xFFFFFFFF for (_, c) in named}]
    ctx.notes["command_ids_in_header"] = len(named)
    ctx.notes["undefined_ids"] = len(ids) - len(named)

    # ---- 1. Lean stage ----
    failed = ctx.lean_stage(modules_for("C17"))

    sfh = ctx.sfh()
    env = dict(os.environ)
    env["ASAN_OPTIONS"] = ASAN
    # ---- 2. constants of the platform vs the model's ----
    c = subprocess.run([sfh, "grid", "c17", "consts"], capture_output=True, text=True, env=env, timeout=60).stdout.strip()
    mc = subprocess.run([ctx.sfmodel(), "c17grid"], input=c + "\n", capture_output=True, text=True, timeout=60).stdout.strip()
    ctx._c17_consts = c
    ck, mk = kv(c), kv(mc)
    const_diff = [k for k in mk if k in ck and ck[k] != mk[k]]
    found_input = False
    if const_diff or not mk:
        ctx.violation("consts", "struct sizes / offsets of this build differ from the model's constants: %s\nharness: %s\nmodel:   %s\n"
                      % (const_diff, c, mc), no_input=True)

    ctx.notes["regression_points_run"] = check_known_witnesses(ctx)
    found_input = found_input or bool(ctx.violations and not ctx.violations[-1][1])

    # ---- 3. the grid ----
    jobs = []
    jobs.append(("any", 0x010002, "null", "plain", True))
    for (fname, fmt) in FORMATS:
        for st in ("r", "w", "rw"):
            jobs.append((fname, fmt, st, "plain", True))
    for (fname, fmt) in FORMATS:
        for (st, fl) in (("r", "used"), ("w", "rich"), ("w", "used"), ("rw", "rich"), ("rw", "used")):
            jobs.append((fname, fmt, st, fl, False))
    # routes (round 5): psf->virtual_io and psf->sf.seekable / is_pipe are handle state that command guards read before they
    # touch `data` (SFC_FILE_TRUNCATE returns early on SF_VIRTUAL_IO; SFC_CALC_* refuse a non-seekable handle), so every
    # mode x {fresh, used} handle also exists on a real path, on a descriptor and -- where the container can be opened on
    # one -- on a pipe (flavour suffix `@route`, harness/grid_c17.c)
    for (fname, fmt) in ROUTE_FORMATS:
        for route in ("path", "fd"):
            for st in ("r", "w", "rw"):
                for fl in ("plain", "used"):
                    jobs.append((fname, fmt, st, "%s@%s" % (fl, route), False))
    for (fname, fmt) in PIPE_FORMATS:
        for (st, fl) in (("r", "plain"), ("r", "used"), ("w", "plain"), ("w", "used")):
            jobs.append((fname, fmt, st, fl + "@pipe", False))
    # heavy ones first
    jobs.sort(key=lambda j: (0 if (j[4] and j[2] in ("w", "rw") and j[0] in ("wav16", "wavf", "rf64", "wavex")) else 1))
    results = []
    workers = int(os.environ.get("SFVERIF_C17_WORKERS", "4"))
    with concurrent.futures.ThreadPoolExecutor(max_workers=workers) as ex:
        futs = [ex.submit(run_combo, ctx, sfh, *j[:4], ids, j[4]) for j in jobs]
        for f in futs:
            results.append(f.result())

    combos_run, combos_skipped = 0, []
    nviol = ndis = 0
    dis_digest = {}
    for r in results:
        if r["skipped"]:
            combos_skipped.append("%s/%s/%s: %s" % (r["combo"] + (r["skipped"],)))
            continue
        combos_run += 1
        ctx.count(r["points"])
        ctx.coverage["traces_validated_against_impl"] += r["points"]
        ctx.distinct |= r["nontrivial"]
        for (w, why, ibody, mbody) in sorted(r["viol"], key=lambda v: 0 if (int(v[0][0], 16), v[0][1]) in OBSERVERS else 1):
            nviol += 1
            found_input = True
            if nviol <= 5:
                ctx.violation("point-%s-%s-%s-%s-%d-%s" % (r["combo"] + w),
                              replay_text(r["args"], w, why, ibody, mbody, "property"))
    # model/implementation disagreements are reported on their own only when no failing input exists
    for r in results:
        for item in r["dis"]:
            ndis += 1
            if item[0] is not None:
                key = "%s %s/%s/%s %s: %s" % (item[0][0], r["combo"][0], r["combo"][1], r["combo"][2], item[0][2], re.sub(r"\d+", "N", item[1]))
                dis_digest[key] = dis_digest.get(key, 0) + 1
            if found_input and item[0] is not None:
                continue
            if ndis <= 5 or item[0] is None:
                if item[0] is None:
                    ctx.violation("grid-%s-%s-%s" % r["combo"], "correspondence stream broken for %s/%s/%s: %s\n" % (r["combo"] + (item[1],)), no_input=True)
                else:
                    (w, mis, ibody, mbody) = item
                    ctx.violation("disagree-%s-%s-%s-%s-%d-%s" % (r["combo"] + w),
                                  "model and implementation disagree, the property predicate holds on the implementation's line\n" +
                                  replay_text(r["args"], w, mis, ibody, mbody, "property"), no_input=True)
    ctx.notes["combos_run"] = combos_run
    ctx.notes["combos_skipped"] = combos_skipped
    ctx.notes["sanitizer_aborts_observed"] = sum(r["aborts"] for r in results)
    ctx.notes["property_violations_found"] = nviol
    ctx.notes["model_disagreements"] = ndis
    if dis_digest:
        ctx.notes["model_disagreement_digest"] = dict(sorted(dis_digest.items())[:400])
    for r in results[:2]:
        ctx.sample({"combo": "/".join(r["combo"]), "points": r["points"], "facts": r["facts"][:400]})

    # ---- 4. commands as operations of read/write histories (vlib/cmdops.py): "queries leave position and audio unchanged" where only
    #         the NEXT write / read shows it (the descriptor and last_op are not in the digest)
    from .. import cmdops
    if cmdops.run(ctx, "C17", cmdops.formats_for(ctx), ctx.tier == "quick"):
        found_input = True

    if failed and not found_input:
        ctx.violation("lean-stage", "theorem(s) no longer check: %s\nno failing input found by the complete sf_command grid\n%s"
                      % (", ".join(failed), ctx.notes.get("lean_log_tail", "")), no_input=True)
    ctx.coverage["exhaustive"] = True
    ctx.coverage["rule"] = ("complete enumeration: every SFC_* id of include/sndfile.h (%d) + %d undefined ids x datasize 0..sizeof(struct)+8, 4096, INT_MAX "
                            "x data in {NULL, exact block pre-filled 0xA5; for commands that read *data also zero / 01000000 / trailing-LF fills} "
                            "x handle {NULL, r, w, rw} x {WAV pcm16, WAV float, WAVEX, RF64, AIFF, CAF, RAW}, fresh handle per point; plus the same commands at "
                            "boundary sizes on handles carrying metadata / written audio / diverging cursors, and on handles of the other ROUTES (sf_open on a path, sf_open_fd on a descriptor, "
                            "sf_open_fd on a pipe: psf->virtual_io = 0, non-seekable) x {r, w, rw} x {fresh, used} x {WAV pcm16, WAV float, AIFF, RAW; pipe: RAW, AU, WAV}. distinct_nontrivial counts (command id, handle state) "
                            "pairs on which the call wrote data, changed the handle or returned non-zero" % (len(named), len(ids) - len(named)))
