"""C03 ties between the Lean models and the code (deterministic families, no hook needed).

a. header cache  — AU headers whose data offset drives header_seek (SEEK_CUR) across every growth boundary:
   the library's parse log shows each refused allocation with its size; the model is run on the same
   psf_binheader_readf call sequence (guess_file_type "b"12, au_read_header "pm" "E44444" "j") against a file of
   the same length and must predict exactly those log lines (order, numbers) and no others.
b. open gate     — AU files whose parser result is known by construction (sample rate / channel fields) vs openFile.
c. read wrappers — WAV/PCM16 files with extra bytes behind the data chunk (so the codec can deliver more than
   sf.frames): scripted reads and seeks vs readWrap / sfSeekRead (return values, zero-filled tail, error codes).
"""
import re, struct

LOG_CMD = "1001 16384 zero"


def au_file(dataoffset, datasize, enc, sr, ch, total):
    h = b".snd" + struct.pack(">IIIII", dataoffset & 0xFFFFFFFF, datasize & 0xFFFFFFFF, enc, sr & 0xFFFFFFFF, ch & 0xFFFFFFFF)
    return h + bytes(max(0, total - len(h)))


def log_events(hexs):
    text = bytes.fromhex(hexs).split(b"\0")[0].decode("latin-1")
    ev = []
    for line in text.split("\n"):
        m = re.search(r"Request for header allocation of (\d+) denied", line)
        if m:
            ev.append("denied:" + m.group(1))
        elif "psf_fread returned short count" in line:
            ev.append("short")
    return ev, text


def tie_header_cache(ctx):
    problems = []
    offs = sorted(set([24, 25, 26, 100, 255, 256, 257, 279, 280, 281, 300, 511, 512, 513, 535, 536, 537, 1000, 1047, 1048, 1049, 4096, 8191, 8192,
                       16384, 32767, 32768, 40000, 51199, 51200, 51223, 51224, 51225, 51226, 60000, 65535, 65536, 65537, 102399, 102400, 102401,
                       102424, 102425, 131072, 200000, 1 << 20, (1 << 24) + 1, 0x7FFFFFFE, 0x7FFFFFFF] +
                      [ctx.rng.randrange(24, 120000) for _ in range(40)]))
    cases = []
    for D in offs:
        for extra in (0, 16):
            total = (D + extra) if D <= 130000 else 64 + extra
            for truncate in (False, True):
                if truncate and D <= 130000:
                    total_t = max(24, D - 7)      # the file ends before the announced data offset: short read inside header_seek
                elif truncate:
                    continue
                else:
                    total_t = total
                cases.append((D, total_t))
    scripts, model_in = [], []
    for i, (D, total) in enumerate(cases):
        data = au_file(D, 0xFFFFFFFF, 3, 8000, 1, total)
        scripts.append(("hc%d" % i, "store s0 %s\nopen h0 s0 r\ncmd h0 %s\nclose h0\ncmd null %s\n" % (data.hex(), LOG_CMD, LOG_CMD)))
        items = "b12 | p0 f4 | e f4 f4 f4 f4 f4"
        if D > 24:
            items += " | j%d" % (D - 24)
        model_in.append("%d 0 %s" % (len(data), items))
    out = ctx.batch(scripts, op_timeout=10, workers=4)
    model = ctx.run_model(["c03", "hdr"], "\n".join(model_in) + "\n").split("\n")
    agree = 0
    for i, (D, total) in enumerate(cases):
        tr = [l for l in out.get("hc%d" % i, []) if l]
        ctx.count(1, tag="hdr-tie")
        if len(tr) < 5 or any(l.startswith(("CRASH", "ABORT", "TIMEOUT")) for l in tr):
            problems.append(("tie-hdr-crash-%d" % D, "# C03 header-cache tie: the AU probe with data offset %d (file of %d bytes) did not run to completion\n%s\n--- script\n%s"
                             % (D, total, "\n".join(tr)[:2000], scripts[i][1]), True))
            continue
        logline = tr[2] if tr[1].startswith("open=ok") else tr[4]
        impl_ev, text = log_events(logline.split("data=")[1])
        toks = model[i].split()
        model_ev = [t for t in toks if t.startswith("denied:") or t == "short"]
        if "MODEL-OUT-OF-BOUNDS" in toks:
            problems.append(("tie-hdr-model-oob-%d" % D, "the executable model itself reports an out-of-bounds access for data offset %d: %s" % (D, model[i]), False))
        if impl_ev != model_ev:
            problems.append(("tie-hdr-%d-%d-%d" % (D, total, i),
                             "# C03 header-cache tie: AU file, data offset %d, file length %d\n# library log events: %s\n# model (HeaderCache.readfItem on the same call sequence): %s\n"
                             "# psf_binheader_readf sequence: %s\n# parse log:\n%s\n--- script\n%s"
                             % (D, total, impl_ev, model_ev, model_in[i], "\n".join("#   " + l for l in text.split("\n")[:40]), scripts[i][1]), False))
        else:
            agree += 1
    ctx.notes["tie_header_cache_cases"] = len(cases)
    ctx.notes["tie_header_cache_agree"] = agree
    ctx.coverage["traces_validated_against_impl"] += len(cases)
    return problems


def wav_chunked(chunks, nframes=4):
    """RIFF/WAVE, fmt (PCM16 mono 8000 Hz), the given (id, size) chunks of zeros, then `data`; returns (bytes, scenario items)"""
    fmt = b"fmt " + struct.pack("<IHHIIHH", 16, 1, 1, 8000, 16000, 2, 16)
    body = b"WAVE" + fmt
    items = ["b12", "|", "p0", "f4", "j-4", "|", "j0", "f4", "f4", "?", "|", "f4", "|",
             "j0", "f4", "f4", "?", "|", "f2", "f2", "f4", "f4", "f2", "f2", "?", "|", "j0", "?", "|"]
    prev = 16
    for (cid, size) in chunks:
        body += cid + struct.pack("<I", size) + bytes(size + (size & 1))
        items += ["j%d" % (prev & 1), "f4", "f4", "?", "|", "j%d" % size, "?", "|"]
        prev = size
    audio = bytes(range(1, 2 * nframes + 1))
    dataoffset = 8 + len(body) + 8
    body += b"data" + struct.pack("<I", len(audio)) + audio
    items += ["j%d" % (prev & 1), "f4", "f4", "?", "|", "C%d" % len(audio), "S%d" % dataoffset, "f4"]
    data = b"RIFF" + struct.pack("<I", len(body)) + body
    return data, items


def tie_header_cache_wav(ctx):
    """The WAV chunk walk (wav.c:321-660, wavlike_read_fmt_chunk) as a psf_binheader_readf sequence:
       guess_file_type "b"12 | "pmj" 0 -4 | per chunk "jm4" (jump = previous size & 1) | RIFF: "m" | fmt: "224422" "j"0 |
       unknown / JUNK chunk: "j" size | data: psf_fseek (datalength, SEEK_CUR) ... | after the loop psf_fseek (dataoffset) "4".
    Chunk sizes are chosen so that the cached header crosses 256 ... 65536 (growth by doubling, refused at 131072) and single
    chunks cross 51200 (2 x needed refused).  Compared: the refused-allocation / short-count log lines, in order."""
    problems = []
    rng = ctx.rng
    layouts = []
    for s1 in (0, 1, 7, 196, 197, 198, 199, 200, 211, 212, 213, 219, 220, 221, 228, 229, 300, 452, 453, 468, 469, 470, 1000, 4000, 25000, 51199, 51200, 51201, 51202, 60000, 102400, 150000):
        layouts.append([(b"JUNK", s1)])
        layouts.append([(b"JUNQ", s1), (b"abcd", 33)])
    for n, sz in ((3, 70), (10, 100), (40, 1000), (64, 1000), (65, 1000), (66, 1000), (70, 1000), (33, 1977), (33, 1978), (33, 1979), (130, 500), (131, 495), (20, 5000), (14, 5000), (310, 200), (313, 200), (314, 200), (315, 200), (330, 200), (345, 200), (360, 200), (400, 200), (160, 400), (200, 400)):
        layouts.append([(b"JUNK" if k % 2 else b"Padd", sz) for k in range(n)])
    for _ in range(25):
        layouts.append([(b"rnd%d" % (k % 10), rng.choice([0, 1, 2, 30, 255, 256, 257, 1000, 3000, 9000, 20000, 30000, 52000])) for k in range(rng.randrange(1, 12))])
    scripts, model_in = [], []
    for i, lay in enumerate(layouts):
        data, items = wav_chunked(lay)
        scripts.append(("wv%d" % i, "store s0 %s\nopen h0 s0 r\ncmd h0 %s\nclose h0\ncmd null %s\n" % (data.hex(), LOG_CMD, LOG_CMD)))
        model_in.append("%d 0 %s" % (len(data), " ".join(items)))
    out = ctx.batch(scripts, op_timeout=10, workers=4)
    model = ctx.run_model(["c03", "hdr"], "\n".join(model_in) + "\n").split("\n")
    agree = 0
    stopped = 0
    with_events = 0
    log_full = 0
    for i, lay in enumerate(layouts):
        tr = [l for l in out.get("wv%d" % i, []) if l]
        ctx.count(1, tag="hdr-tie-wav")
        desc = ", ".join("%s:%d" % (c.decode(), n) for (c, n) in lay[:6]) + (" ... (%d chunks)" % len(lay) if len(lay) > 6 else "")
        if len(tr) < 5 or any(l.startswith(("CRASH", "ABORT", "TIMEOUT")) for l in tr):
            problems.append(("tie-hdr-wav-crash-%d" % i, "# C03 header-cache tie (WAV): the probe with chunks %s did not run to completion\n%s\n--- script\n%s"
                             % (desc, "\n".join(tr)[:2000], scripts[i][1]), True))
            continue
        ok = tr[1].startswith("open=ok")
        logline = tr[2] if ok else tr[4]
        impl_ev, text = log_events(logline.split("data=")[1])
        toks = model[i].split()
        model_ev = [t for t in toks if t.startswith("denied:") or t == "short"]
        stop = "STOP" in toks
        if "MODEL-OUT-OF-BOUNDS" in toks:
            problems.append(("tie-hdr-wav-model-oob-%d" % i, "the executable model itself reports an out-of-bounds access for WAV layout %s: %s" % (desc, model[i][:400]), False))
        truncated = len(text) >= 2048 - 100   # SF_PARSELOG_LEN: later lines are lost, what is there must still be a prefix
        if truncated:
            good = impl_ev == model_ev[:len(impl_ev)]
        elif stop:
            good = impl_ev[:len(model_ev)] == model_ev and len(impl_ev) >= len(model_ev)
        else:
            good = impl_ev == model_ev
        if good and stop and ok:
            good = False      # a "jm4" call cut short leaves marker = 0: the walk ends before `data`, the open must fail
        if good and not stop and not model_ev and not ok:
            good = False      # nothing refused, nothing short: the walk reaches `data` and the open must succeed
        if good and not stop and ok:
            d = dict(t.split("=") for t in tr[1].split()[1:])
            if d.get("frames") != "4" or d.get("ch") != "1":
                good = False
        if not good:
            problems.append(("tie-hdr-wav-%d" % i,
                             "# C03 header-cache tie (WAV chunk walk): chunks %s, file length %d\n# library: %s ; log events %s\n# model (HeaderCache.readfItem on the call sequence): %s%s\n"
                             "# psf_binheader_readf sequence: %s\n# parse log (tail):\n%s\n--- script\n%s"
                             % (desc, len(scripts[i][1]) // 2, tr[1][:100], impl_ev, model_ev, " then STOP (a call was cut short)" if stop else "",
                                model_in[i][:600], "\n".join("#   " + l for l in text.split("\n")[-14:]), scripts[i][1][:200000]), False))
        else:
            agree += 1
            stopped += 1 if stop else 0
            with_events += 1 if model_ev else 0
            log_full += 1 if truncated else 0
    ctx.notes["tie_header_cache_wav_cases"] = len(layouts)
    ctx.notes["tie_header_cache_wav_agree"] = agree
    ctx.notes["tie_header_cache_wav_with_refusals"] = with_events
    ctx.notes["tie_header_cache_wav_cut_short"] = stopped
    ctx.notes["tie_header_cache_wav_log_truncated"] = log_full
    ctx.coverage["traces_validated_against_impl"] += len(layouts)
    return problems


def tie_gate(ctx, c):
    """AU: samplerate and channel fields go straight into psf->sf; au.c checks the channel count itself (its own
    error numbers), everything else is left to validate_sfinfo / validate_psf."""
    problems = []
    cases = []
    for sr in (0, -1, -8000, 1, 2, 8000, 0x7FFFFFFF, -0x80000000):
        for ch in (1, 2, 1024):
            for nbytes in (0, 2, 4096):
                cases.append((sr, ch, nbytes))
    scripts, model_in = [], []
    for i, (sr, ch, nbytes) in enumerate(cases):
        data = au_file(24, 0xFFFFFFFF, 3, sr, ch, 24 + nbytes)
        scripts.append(("g%d" % i, "store s0 %s\nopen h0 s0 r\nclose h0\n" % data.hex()))
        frames = nbytes // (2 * ch)
        # mode fileoffset filelength perr ch sr frames fmt sections seekable datalength dataoffset blockwidth bytewidth
        model_in.append("16 0 %d 0 %d %d %d %d 1 1 %d 24 %d 2" % (len(data), ch, sr, frames, 0x30002, nbytes, 2 * ch))
    out = ctx.batch(scripts, op_timeout=10, workers=4)
    model = ctx.run_model(["c03", "gate"], "\n".join(model_in) + "\n").split("\n")
    agree = 0
    for i, (sr, ch, nbytes) in enumerate(cases):
        tr = [l for l in out.get("g%d" % i, []) if l]
        ctx.count(1, tag="gate-tie")
        line = tr[1] if len(tr) > 1 else ""
        m = model[i].split()
        if line.startswith("open=ok"):
            d = dict(t.split("=") for t in line.split()[1:])
            impl = "ok %s %s %s %d %s %s" % (d["ch"], d["sr"], d["frames"], int(d["fmt"], 16), d["sections"], d["seekable"])
        elif line.startswith("open=NULL"):
            impl = "error " + dict(t.split("=") for t in line.split()[1:])["err"]
        else:
            impl = "?" + line
        if impl != model[i]:
            falsifies = line.startswith("open=ok") and not (sr >= 1 and 1 <= ch <= 1024)
            problems.append(("tie-gate-%d-%d-%d" % (sr, ch, nbytes),
                             "# C03 open gate: AU header with samplerate %d, channels %d, %d data bytes\n# library: %s\n# model openFile (parser result by construction): %s\n--- script\n%s"
                             % (sr, ch, nbytes, line, model[i], scripts[i][1]), falsifies))
        else:
            agree += 1
    ctx.notes["tie_gate_cases"] = len(cases)
    ctx.notes["tie_gate_agree"] = agree
    ctx.coverage["traces_validated_against_impl"] += len(cases)
    return problems


def wav_file(ch, frames, trailer):
    fmt = b"fmt " + struct.pack("<IHHIIHH", 16, 1, ch, 8000, 8000 * 2 * ch, 2 * ch, 16)
    audio = b"".join(struct.pack("<h", ((k * 7919) % 60000) - 30000 or 1) for k in range(frames * ch))
    data = b"data" + struct.pack("<I", len(audio)) + audio
    tail = (b"LIST" + struct.pack("<I", trailer - 8) + bytes([0x11] * (trailer - 8))) if trailer >= 8 else b""
    body = b"WAVE" + fmt + data + tail
    return b"RIFF" + struct.pack("<I", len(body)) + body


def tie_wrappers(ctx, c):
    problems = []
    rng = ctx.rng
    scripts, plans = [], []
    for i in range(60):
        ch = rng.choice([1, 2, 3])
        frames = rng.choice([0, 1, 5, 10, 33])
        trailer = rng.choice([0, 8 + 2 * ch * 3, 8 + 2 * ch * 40])
        data = wav_file(ch, frames, trailer)
        avail_after = (trailer // 2)           # 16-bit words behind the audio the PCM reader can still deliver
        ops, plan = [], []
        rc = 0
        for _ in range(rng.choice([3, 5, 8])):
            if rng.random() < 0.6:
                kind = rng.choice("if")
                n = rng.choice([0, 1, ch, 2 * ch, 3 * ch + 1, 7, 20 * ch, 64 * ch, -1, -ch])
                ty = rng.choice(["s16", "s32", "f32", "f64"])
                ops.append("r h0 %s %s %d" % (ty, kind, n))
                plan.append(("r", kind, n, ty))
            else:
                off = rng.choice([0, 1, -1, 2, frames, frames + 1, -frames, frames // 2, 1 << 40, -(1 << 40), (1 << 63) - 1])
                wh = rng.choice([0, 1, 2, 0x10, 0x11, 0x12, 0x20, 0x21, 0x22, 0x30, 0x31, 3, 99, -1])
                ops.append("seek h0 %d %d" % (off, wh))
                plan.append(("s", off, wh))
            ops.append("seek h0 0 1")
            plan.append(("pos",))
        scripts.append(("w%d" % i, "store s0 %s\nopen h0 s0 r\n%s\nclose h0\n" % (data.hex(), "\n".join(ops))))
        plans.append((ch, frames, avail_after, plan))
    out = ctx.batch(scripts, op_timeout=10, workers=4)
    agree = 0
    total = 0
    for i, (ch, frames, avail_after, plan) in enumerate(plans):
        tr = [l for l in out.get("w%d" % i, []) if l]
        if len(tr) < 2 + len(plan) or not tr[1].startswith("open=ok"):
            problems.append(("tie-wrap-run-%d" % i, "# C03 wrapper tie: script did not run to completion\n%s\n--- script\n%s" % ("\n".join(tr)[:1500], scripts[i][1]), True))
            continue
        rc = 0
        synced = True      # file position corresponds to rc (false after a clamped read until the next seek)
        for j, p in enumerate(plan):
            line = tr[2 + j]
            d = dict(t.split("=", 1) for t in line.split() if "=" in t)
            total += 1
            ctx.count(1, tag="wrap-tie")
            if p[0] == "r":
                _, kind, n, ty = p
                cap = n if kind == "i" else n * ch
                remaining = (frames - rc) * ch + avail_after if synced else 0
                codec = max(0, min(cap, remaining))
                m = ctx.run_model(["c03", "read"], "%s %d %d %d %d %d\n" % (kind, rc, frames, ch, n, codec)).strip()
                md = dict(t.split("=", 1) for t in m.split())
                w = {"s16": 4, "s32": 8, "f32": 8, "f64": 16}[ty]
                ok = d.get("ret") == md["ret"] and d.get("err") == md["err"]
                if ok and md["zero"]:
                    for z in md["zero"].split(","):
                        a, b = [int(x) for x in z.split(":")]
                        seg = d.get("data", "")[a * w:(a + b) * w]
                        if seg.strip("0") != "":
                            ok = False
                if not ok:
                    falsifies = int(d.get("ret", "0")) < 0 or int(d.get("ret", "0")) > max(n, 0)
                    problems.append(("tie-wrap-%d-%d" % (i, j), "# C03 wrapper tie: WAV/PCM16 %d ch, %d frames, %d bytes behind the data chunk; operation %d: %s\n"
                                     "# library: %s\n# model readWrap (rc=%d, codec delivers %d): %s\n--- script\n%s"
                                     % (ch, frames, avail_after * 2, j, scripts[i][1].split("\n")[2 + j], line[:200], rc, codec, m, scripts[i][1]), falsifies))
                    break
                if md["asked"] != "none" and codec > (frames - rc) * ch:
                    synced = False
                rc = int(md["rc"])
                agree += 1
            elif p[0] == "s":
                _, off, wh = p
                # the default seek of a PCM file returns the position it was asked for
                m0 = ctx.run_model(["c03", "seek"], "%d %d %d %d %d\n" % (rc, frames, off, wh, 0)).strip()
                asked = dict(t.split("=", 1) for t in m0.split())["asked"]
                m = ctx.run_model(["c03", "seek"], "%d %d %d %d %s\n" % (rc, frames, off, wh, asked if asked != "none" else "0")).strip()
                md = dict(t.split("=", 1) for t in m.split())
                if d.get("ret") != md["ret"] or d.get("err") != md["err"]:
                    falsifies = int(d.get("ret", "0")) > frames or int(d.get("ret", "0")) < -1
                    problems.append(("tie-seek-%d-%d" % (i, j), "# C03 seek tie: %d frames, position %d, sf_seek (%d, %d)\n# library: %s\n# model sfSeekRead: %s\n--- script\n%s"
                                     % (frames, rc, off, wh, line, m, scripts[i][1]), falsifies))
                    break
                if md["asked"] != "none":
                    synced = True
                rc = int(md["rc"])
                agree += 1
            else:
                if d.get("ret") != str(rc):
                    problems.append(("tie-pos-%d-%d" % (i, j), "# C03 wrapper tie: read position after operation %d is %s, model says %d\n--- script\n%s" % (j, d.get("ret"), rc, scripts[i][1]), False))
                    break
                agree += 1
    ctx.notes["tie_wrapper_ops"] = total
    ctx.notes["tie_wrapper_agree"] = agree
    ctx.coverage["traces_validated_against_impl"] += len(plans)
    return problems


def run_ties(ctx, c):
    problems = []
    problems += tie_header_cache(ctx)
    problems += tie_header_cache_wav(ctx)
    problems += tie_gate(ctx, c)
    problems += tie_wrappers(ctx, c)
    return problems[:6]
