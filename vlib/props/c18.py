"""C18 — PEAK chunk data and the signal-max commands equal the true maxima."""
import os
from .. import c18lib as L, c18stale, c18foreign
from ..core import Violation, VERIF, modules_for

MODULES = modules_for("C18")


def _witness(ctx, kf):
    """Replay a known finding's witness; True while the library still shows the recorded last line."""
    path = kf["witness"] if os.path.isabs(kf["witness"]) else os.path.join(VERIF, kf["witness"])
    text = open(path).read()
    script = text.split("--- script", 1)[1].lstrip("\n")
    lines, rc, err = ctx.script(script)
    obs = [l[len("observed-last "):].strip() for l in text.split("\n") if l.startswith("observed-last ")]
    ctx.count(1, "kf-witness:" + kf["id"])
    return rc == 0 and bool(lines) and any(o == lines[-1].strip() for o in obs)


def run(ctx):
    if getattr(ctx, "replay", None):
        return ctx.replay_script(ctx.replay)
    quick = ctx.tier == "quick"
    failed = ctx.lean_stage(MODULES)
    found_input = False
    ctx.run_regressions()
    if ctx.violations:
        found_input = True

    # ---- known findings: the witness is replayed every run; the class is waived only while it still fails ----
    still = {}
    for kf in ctx.known:
        if kf.get("status") == "known" and kf.get("witness"):
            still[kf["id"]] = _witness(ctx, kf)
            if still[kf["id"]]:
                ctx.known_finding(kf)
    ctx.notes["known_finding_witness_still_fails"] = dict(still)

    # ---- campaigns ----
    allf = []
    for (tag, fn) in (("peak", L.peak_campaign), ("calc", L.calc_campaign), ("l1calc", getattr(L, "l1_calc_campaign", None)),
                      ("toggle_rdwr", L.toggle_rdwr_campaign), ("stale", c18stale.stale_campaign),
                      ("foreign", c18foreign.campaign)):      # foreign-but-valid PEAK placements x SFM_RDWR sessions x close -> re-open
        if fn is None:
            continue
        fs, st = fn(ctx, quick=quick)
        ctx.notes[tag] = {k: v for k, v in sorted(dict(st).items())}
        ctx.coverage["traces_validated_against_impl"] += int(st.get("model_jobs", 0)) + int(st.get("model_scripts", 0))
        allf += [(tag, f) for f in fs]

    reported = 0
    corr = []
    for (tag, f) in allf:
        if f.kind == "corr":
            corr.append((tag, f))
            continue
        if f.kf and still.get(f.kf):
            ctx.known_finding(next(k for k in ctx.known if k["id"] == f.kf))
            continue
        found_input = True
        if reported >= 6:
            continue
        reported += 1
        why = ""
        if f.kf:
            why = "# (in the class of %s, but that entry's witness no longer fails, so nothing is waived)\n" % f.kf
        why += "".join("expect-last %s\n" % e for e in getattr(f, "expect", []))      # what the property demands of the last line (bin/check C18 --replay f)
        ctx.violation("c18-%s-%s" % (tag, f.name),
                      "# C18 violated on the implementation's own transcript (%s campaign, %s)\n# %s\n%s--- script\n%s"
                      % (tag, f.kind, f.text.replace("\n", "\n# "), why, f.script))
    if corr and not found_input:
        tag, f = corr[0]
        ctx.violation("c18-correspondence-%s-%s" % (tag, f.name),
                      "# correspondence stream '%s' (Lean model Sf.Peak vs implementation) no longer agrees: %d job(s) differ\n"
                      "# first: %s\n# %s\n# the property predicate (true maxima, restored state) held on every implementation transcript: no failing input\n--- script\n%s"
                      % (tag, len(corr), f.name, f.text.replace("\n", "\n# "), f.script), no_input=True)
        found_input = True
    if failed and not found_input:
        ctx.violation("lean-stage", "theorem(s) no longer check: %s\n%s" % (", ".join(failed), ctx.notes.get("lean_log_tail", "")), no_input=True)

    ctx.sample({"campaign": "peak", "example_job": "caf f64 3ch, sf_write_int calls split at odd sizes, maximum tied across a call boundary"})
    ctx.sample({"campaign": "calc", "example": "every writable (major, subtype, endian) x 1-3 channels: CALC x4 at a seeded read position with seeded norm flags"})
    ctx.coverage["exhaustive"] = False
    ctx.coverage["rule"] = (
        "peak: PEAK containers (WAV, RIFX, WAVEX, AIFF, CAF, RF64+ADD_PEAK) x FLOAT/DOUBLE x 1-6 channels x value shapes (random, ties, +x/-x, first/last frame, "
        "call boundary, negative maximum, zeros, >24-bit doubles, binary32-exact doubles) x caller types (same, other float type, s32, s16, scaled or not) x partitions "
        "(one call, per frame, odd sizes, longer than the staging buffer); chunk bytes + SFC_GET_* on the write handle and after re-open vs exact maxima and vs sfmodel c18 peak. "
        "calc: every writable format x channels, 4 CALC commands at seeded positions/norm flags vs the maximum of the sequential reference stream, state probes before/after, "
        "vs sfmodel c18 calc; stale: PEAK containers x FLOAT/DOUBLE x histories that leave the PEAK chunk stale (seek back + overwrite in write mode, overwrite and "
        "SFC_FILE_TRUNCATE through SFM_RDWR, chunk patched in the file bytes) -> CALC x4 == maxima of the stored samples (r and rw handles), GET == the chunk in the file; l1calc: RAW/AU/WAV transcripts vs sfmodel c18 script; toggle_rdwr: SFC_SET_ADD_PEAK_CHUNK off/on/late, RDWR extension. "
        "distinct_nontrivial = distinct (container, encoding, channels, caller, shape, partition) peak tags + distinct calc formats + witnesses")
