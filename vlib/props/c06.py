"""C06 — decoded audio depends only on frame position (partition and seek consistency)."""
from ._handle_common import run_common


def run(ctx):
    q = ctx.tier == "quick"
    run_common(ctx, "C06", ["SfProps.C06"], l1_scripts=300 if q else 3000, stride=2 if q else 1, nops=40 if q else 80)
