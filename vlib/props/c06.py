"""C06 — decoded audio depends only on frame position (partition and seek consistency)."""
from ._handle_common import run_common
from ..core import modules_for


def run(ctx):
    q = ctx.tier == "quick"
    if not getattr(ctx, "replay", None):
        from .. import g72x as _g72x
        _g72x.pregen(ctx)
        from .. import codectab as _codectab     # NMS / GSM tables by execution -> Generated/NmsTables.lean, GsmTables.lean
        _codectab.pregen(ctx)
    run_common(ctx, "C06", modules_for("C06"), l1_scripts=300 if q else 3000, stride=2 if q else 1, nops=40 if q else 80)
    if not getattr(ctx, "replay", None):
        from .. import blockcamp
        blockcamp.run(ctx, "C06", 160 if q else 1600)
        from .. import dwvw
        dwvw.run(ctx, "C06", 120 if q else 1200)
        from .. import nms
        nms.run(ctx, "C06", 120 if q else 1200)
        from .. import g72x
        g72x.run(ctx, "C06", 120 if q else 1200)
        from .. import gsm
        gsm.run(ctx, "C06", 120 if q else 1200)
        from .. import alac           # CAF/ALAC: packet staging, pakt / kuki chunks, read / seek around the codec core (lean/SfModel/AlacFile.lean)
        alac.run(ctx, "C06", 96 if q else 960)
        from .. import voxcamp        # OKI/VOX: the held sample of odd item counts (lean/SfModel/Oki.lean writeBlock / closeCarry / readBlock)
        voxcamp.run(ctx, "C06", 120 if q else 1200)
        from .. import codecs20       # a table entry of the tree differs from the published one: look for an input that shows it
        codecs20.search(ctx)
        from .. import querycamp     # interleaved non-audio calls (chunk / string / metadata queries, SFC_CALC_*, …) do not move the audio position
        querycamp.run(ctx, "C06")
        from .. import queryfix; queryfix.run(ctx, "C06")      # a chunk query between two reads at a position != 0, EVERY codec of every chunk-carrying container (deterministic)
        from .. import foreignread   # FOREIGN-BUT-VALID layouts: seeks and partitions on files whose data offset / data end come from parser steps the library's writer never exercises
        foreignread.run(ctx, "C06")
        from .. import handleg       # (round 9) the GENERIC handle machine Sf.HandleG: whole histories on AIFF / CAF / W64 / AVR / IRCAM / PAF / HTK (+ RAW / AU / WAV) byte for byte incl. store dumps
        handleg.run(ctx, "C06", 150 if q else 3000)
        from .. import seekmatrix    # DETERMINISTIC block-seek matrix: every block codec x container x channel count x (stand in block L; seek into each of L+1..L+3, 2L+1, 2L+2, L, L-1, 0, last; read across its end)
        seekmatrix.run(ctx, "C06")
