"""C01 / C04 / C07 / C11 share the all-format write campaign (vlib/writecamp.py) and the L1 correspondence."""
from .. import writecamp as W, handlecheck as HC, geometry as G, abswrite as AW
import os
from ..core import Violation, VERIF

CATS = {
    "C01": {"roundtrip", "crash"},
    "C04": {"info", "rate", "frames", "eof", "reopen", "close", "stale", "open", "write", "crash"},
    "C07": {"partition", "crash"},
    "C11": {"snapshot", "crash"},
}


def known_class(j, cat, text):
    f = j.fmt
    # KF-VOX-ODD (OKI/VOX, a write call with an odd item count returned count + 1 and stored a pad sample) is repaired: no class is left for it
    if f.major == 0x04 and f.codec in (0x40, 0x41, 0x42) and cat in ("frames", "eof"):
        return "KF-RAW-DWVW-FRAMES"      # headerless: the frame count is an estimate F >= N (more frames reported / delivered than written); the first N are exact
    if f.major in (0x01, 0x13) and f.codec == 0x20 and cat in ("frames", "eof", "snapshot"):
        return "KF-WAV-GSM-PAD"
    if f.major == 0x0F and cat in ("partition", "frames", "eof", "stale"):
        return "KF-XI-HEADER"
    if f.major == 0x02 and f.codec in (0x40, 0x41, 0x42) and cat == "snapshot":
        return "KF-DWVW-BUFFERED"
    return None


def in_scope(prop, j, cat):
    if prop == "C11" and cat == "snapshot":
        # containers without a rewritable header, and ALAC in CAF (excluded by the statement)
        if j.fmt.major == 0x04 or j.fmt.codec in (0x70, 0x71, 0x72, 0x73):
            return False
    return True


def run_common(ctx, prop, modules, stride, l1_scripts, l1_gen=None):
    if getattr(ctx, "replay", None):
        if AW.is_replay(ctx.replay):      # a write-side record: re-run its scripts, re-judge with `sfmodel abs-write`
            return AW.replay(ctx, ctx.replay, CATS[prop])
        return ctx.replay_script(ctx.replay)
    failed = ctx.lean_stage(modules)
    found = False
    ctx.run_regressions()
    if ctx.violations:
        found = True
    still = {}
    for kf in ctx.known:
        if kf.get("status") == "known" and kf.get("witness"):
            r = ctx.witness_still_fails(kf)
            if r is None:
                continue
            still[kf["id"]] = r
            if r:
                ctx.known_finding(kf)
    # ---- A: L1 correspondence (byte exact incl. header bytes) ----
    fa, sa = HC.l1_campaign(ctx, l1_scripts, modes=("w", "r"), gen=l1_gen)
    ctx.count(sa["ops"])
    ctx.coverage["traces_validated_against_impl"] += sa["scripts"]
    ctx.notes["l1"] = dict(sa)
    # ---- B: every writable format ----
    jobs = W.make_jobs(ctx, stride=stride)
    res = W.run_jobs(ctx, jobs, updates=True)
    AW.decide(ctx, res)       # the LEAN predicate (Sf.AbsWrite.judge) decides; the Python predicate may only add ("python predicate only")
    ctx.count(sum(len(r["job"].parts) + 4 + 3 * len(r["job"].snaps) for r in res))
    ctx.notes["allformat"] = {"jobs": len(jobs), "snapshots": sum(len(r["job"].snaps) for r in res)}
    for r in res:
        ctx.distinct.add("fmt:" + r["job"].fmt.name)
    reported = set()
    for r in res:
        j = r["job"]
        for (cat, text, which, line) in r["problems"]:
            if cat not in CATS[prop] or not in_scope(prop, j, cat):
                continue
            kf = known_class(j, cat, text)
            ent = next((k for k in ctx.known if k["id"] == kf and k.get("status") == "known" and prop in k.get("properties", [])), None) if kf else None
            if ent and still.get(kf, True):
                ctx.known_finding(ent)      # inside a listed class, and the class's witness still fails on this tree
                continue
            key = (j.fmt.name, cat)
            if key in reported or sum(1 for k in reported if k[1] == cat) >= 3:
                continue
            reported.add(key)
            found = True
            ctx.violation("%s-%s-%s" % (prop.lower(), j.fmt.name, cat), AW.replay_text(prop, r, cat, text))
    corr = [f for f in fa if f.kind == "corr"]
    crashes = [f for f in fa if f.kind == "crash"]
    for f in crashes[:2]:
        found = True
        ctx.violation("%s-l1-crash-%s" % (prop.lower(), f.name), "# implementation died on an L1 history: %s\n--- script\n%s" % (f.text, HC.script_prefix(f.script, f.line)))
    if corr and not found:
        # failing-input search: the formats of the disagreeing scripts, with lengths beyond every staging buffer
        import re as _re
        words = []
        for f in corr:
            m = _re.search(r"fmt=([0-9a-fA-F]+)", f.script)
            if m and int(m.group(1), 16) not in words:
                words.append(int(m.group(1), 16))
        for w in words[:3]:
            for r in AW.decide(ctx, W.run_jobs(ctx, W.focused_jobs(ctx, w), updates=True)):
                j = r["job"]
                for (cat, text, which, line) in r["problems"]:
                    if cat not in CATS[prop] or not in_scope(prop, j, cat) or known_class(j, cat, text) or found:
                        continue
                    found = True
                    ctx.violation("%s-%s-%s-search" % (prop.lower(), j.fmt.name, cat),
                                  AW.replay_text(prop, r, cat, "(found by the search started after the model/implementation correspondence broke on %s) %s" % (corr[0].name, text)))
            if found:
                break
    if corr and not found:
        f = corr[0]
        sl = f.script.strip().split("\n")
        ctx.violation("%s-correspondence-%s" % (prop.lower(), f.name),
                      "# correspondence stream 'container/handle model vs implementation' (RAW/AU/WAV write histories incl. file bytes) no longer agrees: %d of %d scripts differ\n"
                      "# first: %s, script line %d: %s\n# implementation: %s\n# model: %s\n# the %s predicate on the implementation's transcripts found no failing input\nobserved-last %s\n--- script\n%s"
                      % (len(corr), sa["scripts"], f.name, f.line, sl[f.line][:120] if f.line < len(sl) else "", (f.impl or "")[:300], (f.model or "")[:300],
                         prop, (f.impl or "").strip(), HC.script_prefix(f.script, f.line)), no_input=True)
        found = True
    if failed and not found:
        ctx.violation("lean-stage", "theorem(s) no longer check: %s\n%s" % (", ".join(failed), ctx.notes.get("lean_log_tail", "")), no_input=True)
    ctx.sample({"kind": "L1 write history with file dump", "scripts": sa["scripts"]})
    if res:
        ctx.sample({"kind": "all-format job", "format": res[0]["job"].fmt.name, "script": res[0]["script2"][:500]})
    ctx.coverage["rule"] = ("A: seeded write/close/re-open histories on every RAW/AU/WAV encoding, file bytes and transcripts compared with the Lean model; "
                            "B: for every (major, subtype, endian) the library accepts x channel counts x sample rates x lengths around block boundaries: the same samples "
                            "written in one call and split over mixed item/frame calls with header updates and crash-point snapshots, plus a run with another stale frames "
                            "value; re-open info, read-back, byte comparison. distinct_nontrivial = distinct formats in B plus (container, op, type) kinds in A")
