"""C02 — sample-type conversions follow the documented rules exactly."""
from fractions import Fraction
from .. import kernels as K
from ..core import Violation, modules_for

PCM = {"pcm8s": (8, False, False), "pcm8u": (8, True, False), "pcm16le": (16, False, False), "pcm16be": (16, False, True),
       "pcm24le": (24, False, False), "pcm24be": (24, False, True), "pcm32le": (32, False, False), "pcm32be": (32, False, True)}


def sext(v, bits):
    v &= (1 << bits) - 1
    return v - (1 << bits) if v >> (bits - 1) else v


def code_of_bytes(enc, hx):
    w, uns, big = PCM[enc]
    b = bytes.fromhex(hx)
    u = int.from_bytes(b, "big" if big else "little")
    return u - 128 if uns else sext(u, w)


def frac_of_bits(ty, b):
    """exact rational value of a finite bit pattern"""
    if ty == "f32":
        s, e, f, bias, mb = b >> 31, (b >> 23) & 0xFF, b & 0x7FFFFF, 127, 23
    else:
        s, e, f, bias, mb = b >> 63, (b >> 52) & 0x7FF, b & ((1 << 52) - 1), 1023, 52
    if e == 0:
        v = Fraction(f, 1 << mb) * Fraction(2) ** (1 - bias)
    else:
        v = (1 + Fraction(f, 1 << mb)) * Fraction(2) ** (e - bias)
    return -v if s else v


def rule_ok(c, k):
    """The documented rule, evaluated on the implementation's own output for input k of campaign c.
    Returns (True|False|None, text); None = the statement does not determine this case."""
    x = c.inputs[k]
    out = c.out_at("impl", k)
    if not out:
        return False, "no output"
    if c.enc in PCM:
        w, uns, big = PCM[c.enc]
        if c.dir == "enc":
            code = code_of_bytes(c.enc, out)
            if c.ty in ("s16", "s32"):
                tb = 16 if c.ty == "s16" else 32
                xv = sext(x, tb)
                want = xv >> (tb - w) if tb >= w else xv << (w - tb)      # keep the most significant bits
                return code == want, "integer move keeps the most significant bits: want code %d, stored %d" % (want, code)
            fv = frac_of_bits(c.ty, x)
            norm = c.flags.get("normF" if c.ty == "f32" else "normD", 1)
            clip = c.flags.get("clip", 0)
            mx, mn = (1 << (w - 1)) - 1, -(1 << (w - 1))
            if clip:
                scaled = fv * (1 << (w - 1)) if norm else fv
                if scaled >= mx:
                    return code == mx, "clipping on: out-of-range input must saturate at %d, stored %d" % (mx, code)
                if scaled <= mn:
                    return code == mn, "clipping on: out-of-range input must saturate at %d, stored %d" % (mn, code)
                if not (mn <= code <= mx):
                    return False, "clipping on: stored code outside the integer range"
                # in range: within 1 of the scaled value (the product is rounded in the caller's type first)
                return abs(code - scaled) <= Fraction(1, 2) + abs(scaled) * Fraction(1, 1 << 22), "clipping on, in range: |stored - scaled| too large (%s vs %d)" % (float(scaled), code)
            if norm:
                if not (-1 <= fv < 1):
                    return None, "no clipping and |x| >= 1: wraps, not determined by the statement"
                target = fv * mx
                tol = Fraction(1, 2) + abs(target) * (Fraction(1, 1 << 23) if c.ty == "f32" else Fraction(1, 1 << 52))
                return abs(code - target) <= tol, "norm on: nearest integer to x*(2^(w-1)-1) = %s, stored %d" % (float(target), code)
            # norm off: unscaled pass-through
            if not (mn <= fv <= mx):
                return None, "norm off and value outside the integer range"
            return abs(code - fv) <= Fraction(1, 2), "norm off: integers pass through unscaled (x = %s, stored %d)" % (float(fv), code)
        else:
            nb = w // 8
            code = code_of_bytes(c.enc, "%0*x" % (2 * nb, x))
            if c.ty in ("s16", "s32"):
                tb = 16 if c.ty == "s16" else 32
                got = sext(int(out, 16), tb)
                want = code << (tb - w) if tb >= w else code >> (w - tb)
                return got == want, "integer read keeps the most significant bits: want %d, got %d" % (want, got)
            got = int(out, 16)
            norm = c.flags.get("normF" if c.ty == "f32" else "normD", 1)
            fin = K.finite32(got) if c.ty == "f32" else K.finite64(got)
            if not fin:
                return False, "non-finite result"
            gv = frac_of_bits(c.ty, got)
            want = Fraction(code, 1 << (w - 1)) if norm else Fraction(code)
            if c.ty == "f32" and w == 32:
                # a 32-bit integer does not fit a binary32 significand: nearest representable
                return abs(gv - want) <= abs(want) * Fraction(1, 1 << 24), "float read of 32-bit data: nearest binary32 to value/2^31"
            return gv == want, "float read: want exactly %s, got %s" % (want, gv)
    return None, "rule for this encoding is evaluated through the model only"


def run(ctx):
    if getattr(ctx, "replay", None):
        if "c02-crosstype " in open(ctx.replay).read():
            from .. import crosstype
            return crosstype.replay(ctx, ctx.replay)
        return ctx.replay_script(ctx.replay)
    failed = ctx.lean_stage(modules_for("C02"))
    ctx.run_regressions()
    quick = ctx.tier == "quick"
    nrand = 20000 if quick else 400000
    rng = ctx.rng
    camps = []
    f32v = K.float_boundaries("f32", rng, nrand)
    f64v = K.float_boundaries("f64", rng, nrand)
    i32v = K.ints_from_shorts(rng)
    for enc in K.ENCODINGS:
        is_float_data = enc.startswith("f")
        # ---- write kernels ----
        camps.append(K.Campaign("enc", enc, "s16", {}, K.shorts()))
        camps.append(K.Campaign("enc", enc, "s32", {}, i32v))
        if is_float_data:
            camps.append(K.Campaign("enc", enc, "s16", {"scaleIF": 1}, K.shorts()))
            camps.append(K.Campaign("enc", enc, "s32", {"scaleIF": 1}, i32v))
            camps.append(K.Campaign("enc", enc, "f32", {}, f32v))
            camps.append(K.Campaign("enc", enc, "f64", {}, f64v))
        elif enc in ("ulaw", "alaw"):
            # |x| > 1 (normalised) would index past the G.711 table: outside the statement ("x in [-1,1)")
            in1 = lambda ty, vs: [b for b in vs if abs(K.bits_f32(b) if ty == "f32" else K.bits_f64(b)) <= 1.0]
            camps.append(K.Campaign("enc", enc, "f32", {"normF": 1}, in1("f32", f32v)))
            camps.append(K.Campaign("enc", enc, "f64", {"normD": 1}, in1("f64", f64v)))
        else:
            for norm in (1, 0):
                for clip in (0, 1):
                    camps.append(K.Campaign("enc", enc, "f32", {"normF": norm, "clip": clip}, f32v))
                    camps.append(K.Campaign("enc", enc, "f64", {"normD": norm, "clip": clip}, f64v))
        # ---- read kernels ----
        codes = K.codes_for(enc, rng, 30000 if quick else 300000)
        for ty in ("s16", "s32"):
            if is_float_data:
                for clip in (0, 1):
                    camps.append(K.Campaign("dec", enc, ty, {"clip": clip}, codes))
                # SFC_SET_SCALE_FLOAT_INT_READ: scale by the measured signal maximum (values kept small so the maximum is sane)
                small = [c for c in codes if _small(enc, c)]
                camps.append(K.Campaign("dec", enc, ty, {"clip": 0, "fiMult": 1}, small, "fimult"))
                camps.append(K.Campaign("dec", enc, ty, {"clip": 1, "fiMult": 1}, small, "fimult"))
            else:
                camps.append(K.Campaign("dec", enc, ty, {}, codes))
        for norm in (1, 0):
            camps.append(K.Campaign("dec", enc, "f32", {"normF": norm}, codes))
            camps.append(K.Campaign("dec", enc, "f64", {"normD": norm}, codes))

    variants = [("sse2", "asan")]
    if not quick:
        variants.append(("lrint", "asan-lrint"))
    found = False
    for (mv, lv) in variants:
        K.run_campaigns(ctx, camps, variant=mv, libvariant=lv)
        for c in camps:
            ctx.count(len(c.inputs), tag=c.name() + "/" + mv)
            ctx.coverage["traces_validated_against_impl"] += 1
            if c.rc != 0:
                found = True
                ctx.violation("crash-" + c.name(), "harness exit %d in campaign %s\n%s\n--- script\n%s" % (c.rc, c.name(), c.err[-3000:], c.script()[:20000]))
                continue
            d = c.diffs()
            # the documented rule, evaluated on the implementation output of every input (cheap for the integer moves)
            bad_rule = None
            idxs = d if d else ([] if len(c.inputs) > 70000 else range(0, len(c.inputs), max(1, len(c.inputs) // 3000)))
            for k in idxs:
                ok, why = rule_ok(c, k)
                if ok is False:
                    bad_rule = (k, why)
                    break
            if bad_rule:
                found = True
                k, why = bad_rule
                one = c.single(k)
                ctx.violation("rule-" + c.name(), "# C02 (%s build): %s\n# input 0x%x -> implementation %s ; model %s\n--- script\n%s"
                              % (mv, why, c.inputs[k], c.out_at("impl", k), c.out_at("model", k), one.script()))
            elif d:
                k = d[0]
                one = c.single(k)
                ctx.violation("corr-" + c.name(), "# C02 (%s build): model and implementation disagree in campaign %s on %d+ inputs; the documented rule is not falsified by them\n"
                              "# first: input 0x%x -> implementation %s ; model (Sf.Enc.%s) %s\n--- script\n%s"
                              % (mv, c.name(), len(d), c.inputs[k], c.out_at("impl", k), "encode" if c.dir == "enc" else "decode", c.out_at("model", k), one.script()), no_input=True)
                found = True
        # ---- "results agree ... in every byte order": the LE and BE write kernels of one width must store the same code for the same input ----
        byname = {c.name(): c for c in camps if c.dir == "enc" and c.rc == 0 and c.impl}
        npairs = 0
        for nm, cl in sorted(byname.items()):
            if "le-" not in nm and not nm.split("-")[1].endswith("le"):
                continue
            cb = byname.get(nm.replace(cl.enc, cl.enc[:-2] + "be", 1))
            if cb is None or cl.enc[:-2] != cb.enc[:-2] or cl.inputs is not cb.inputs and cl.inputs != cb.inputs:
                continue
            npairs += 1
            nb = K.ENCODINGS[cl.enc][1]
            hl, hb = cl.impl, cb.impl
            if len(hl) != len(hb):
                continue
            for k in range(len(cl.inputs)):
                bl = bytes.fromhex(hl[2 * nb * k:2 * nb * (k + 1)])
                bb = bytes.fromhex(hb[2 * nb * k:2 * nb * (k + 1)])
                if bl[::-1] != bb:
                    found = True
                    ctx.violation("byteorder-" + cl.name(), "# C02 (%s build): the little- and big-endian kernels store different values for the same input and settings\n"
                                  "# campaign %s vs %s, input 0x%x: little-endian file bytes %s, big-endian file bytes %s\n--- script\n%s# --- and the big-endian twin:\n%s"
                                  % (mv, cl.name(), cb.name(), cl.inputs[k], bl.hex(), bb.hex(), cl.single(k).script(), cb.single(k).script()))
                    break
        ctx.notes["byte_order_pairs_compared/" + mv] = npairs
    found = _crosstype(ctx) or found
    from .. import labelcamp          # codec LABELS (Sf.Label.spec) of every container, foreign G.711 files through the four read types, the width rule Sf.Label.keepOk of every exact integer codec
    found = labelcamp.run(ctx) or found
    ctx.sample({"campaign": camps[0].name(), "n_inputs": len(camps[0].inputs), "first_inputs": ["%x" % (v & 0xFFFF) for v in camps[0].inputs[:4]]})
    ctx.sample({"campaign": camps[-1].name(), "n_inputs": len(camps[-1].inputs)})
    if failed and not found:
        ctx.violation("lean-stage", "theorem(s) no longer check: %s\n%s" % (", ".join(failed), ctx.notes.get("lean_log_tail", "")), no_input=True)
    ctx.coverage["exhaustive"] = False
    ctx.notes["exhaustive_subdomains"] = "all 2^8/2^16 stored codes x 4 read types x norm on/off; all 2^16 shorts x every encoding; s32 = 4 low-word patterns x all high words"
    ctx.coverage["rule"] = ("every RAW encoding (8 PCM layouts, float/double LE/BE, u-law, A-law) x write from 4 caller types x read to 4 caller types x "
                            "norm/clip/scale flags; 8- and 16-bit domains exhaustive; 24/32-bit and floating inputs = boundary dictionary (±1, ±(1-ulp), halves for every width, "
                            "extremes) + seeded random bit patterns; thorough tier repeats everything on the lrint (-U__SSE2__) build. distinct_nontrivial = distinct "
                            "(direction, encoding, caller type, flags, build) streams run")
    from .. import adpcmenc           # IMA / MS ADPCM write entry points: int -> short keeps the top 16 bits, normalised double -> nearest integer to x * 32767
    adpcmenc.run(ctx, "C02", 60 if quick else 600)


def _crosstype(ctx):
    """C02 for every codec and for type switching (vlib/crosstype.py; Sf.CrossType decides)"""
    from .. import crosstype
    jobs, verdicts, stats, wall = crosstype.run(ctx)
    nbad = crosstype.report(ctx, jobs, verdicts)
    okv = [v for v in verdicts.values() if v.startswith("ok")]
    for v in okv:
        kv = dict(t.split("=") for t in v.split()[1:])
        stats["W_records"] += int(kv["W"])
        stats["R_items"] += int(kv["R"])
        stats["S_calls"] += int(kv["S"])
    stats["judged"] = len(verdicts)
    stats["accepted"] = len(okv)
    stats["formats"] = len({j.fmt.word for j in jobs if j.ok})
    stats["wall_s"] = round(wall, 1)
    ctx.count(stats["R_items"] + stats["S_calls"] + stats["W_records"])
    for j in jobs:
        if j.ok:
            ctx.distinct.add("crosstype:%s" % j.fmt.name)
    ctx.coverage["traces_validated_against_impl"] += len(okv)
    ctx.notes["crosstype"] = stats
    ctx.notes["crosstype_rule"] = ("every writable (major, subtype, endian) except SD2: twin files int vs short (narrowing, sample <= 16 bits; G.711 by magnitude), short vs int << 16, "
                                   "float / double vs Sf.CrossType.floatTwin; the four sequential reference streams item by item, normalisation on and off; two seeded "
                                   "type-switching read plans per file (seeks where the handle seeks). Sf.CrossType (`sfmodel crosstype`) decides every record.")
    if jobs:
        j = jobs[len(jobs) // 2]
        ctx.sample({"crosstype_job": j.name, "ints": len(j.xs), "first_ints": ["%08x" % (x & 0xFFFFFFFF) for x in j.xs[:4]],
                    "verdict": verdicts.get(j.name + "/on", "")[:80]})
    return nbad > 0


def _small(enc, code):
    nb = K.ENCODINGS[enc][1]
    b = int.from_bytes(code.to_bytes(nb, "big"), "little") if enc.endswith("le") else code
    v = K.bits_f32(b) if nb == 4 else K.bits_f64(b)
    return abs(v) <= 4.0
