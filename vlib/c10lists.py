"""C10: the three format enumeration lists and SFC_GET_FORMAT_INFO, extracted from the running library,
and their rendering as lean/SfModel/Generated/FormatLists.lean."""
import re

LINE = re.compile(r"^(simple|major|subtype) (-?\d+) ret=(\d+) fmt=([0-9a-f]{8}) name=(\S+) ext=(\S+)$")
COUNT = re.compile(r"^(simple|major|subtype) count=(-?\d+) ret=(\d+)$")


def unhex(s):
    return None if s == "null" else bytes.fromhex(s).decode("latin-1")


def parse_formats(lines):
    """-> {'simple': {'count': n, 'count_ret': r, 'rows': [(k, ret, fmt, name, ext)]}, ...}"""
    res = {}
    for l in lines:
        m = COUNT.match(l)
        if m:
            res[m.group(1)] = {"count": int(m.group(2)), "count_ret": int(m.group(3)), "rows": []}
            continue
        m = LINE.match(l)
        if m:
            res[m.group(1)]["rows"].append((int(m.group(2)), int(m.group(3)), int(m.group(4), 16), unhex(m.group(5)), unhex(m.group(6))))
    return res


def entries(tab):
    """in-range entries (format word, name, ext) in index order"""
    return [(f, n, e) for (k, r, f, n, e) in tab["rows"] if 0 <= k < tab["count"] and r == 0]


def parse_formatinfo(lines):
    maj, sub = [], []
    for l in lines:
        m = re.match(r"^(major|subtype) ([0-9a-f]+) name=(\S+)$", l)
        if m:
            (maj if m.group(1) == "major" else sub).append((int(m.group(2), 16), unhex(m.group(3))))
    return maj, sub


def lean_str(s):
    return '"' + s.replace("\\", "\\\\").replace('"', '\\"') + '"'


def lean_lists(tabs, info_major, info_sub):
    out = ["/- GENERATED on every check run from the running library (`sfh table formats`, `sfh table formatinfo`),",
           "   not edited by hand.  (format word, name, extension) in index order, exactly what",
           "   SFC_GET_SIMPLE_FORMAT / SFC_GET_FORMAT_MAJOR / SFC_GET_FORMAT_SUBTYPE return for 0 ≤ k < count;",
           "   formatInfo*: every code 0..0xff (majors: code << 16) for which SFC_GET_FORMAT_INFO succeeds. -/",
           "namespace Sf.Generated", ""]
    for nm, key in (("simpleFormats", "simple"), ("majorFormats", "major"), ("subtypeFormats", "subtype")):
        rows = ["(0x%06x, %s, %s)" % (f, lean_str(n or ""), ("some " + lean_str(e)) if e is not None else "none") for (f, n, e) in entries(tabs[key])]
        out.append("def %s : List (Int × String × Option String) :=\n  [%s]\n" % (nm, ",\n   ".join(rows)))
    for nm, rows in (("formatInfoMajor", info_major), ("formatInfoSubtype", info_sub)):
        out.append("def %s : List (Int × String) :=\n  [%s]\n" % (nm, ",\n   ".join("(0x%06x, %s)" % (f, lean_str(n or "")) for (f, n) in rows)))
    out.append("end Sf.Generated\n")
    return "\n".join(out)
