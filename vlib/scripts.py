"""Script generation for handle-level campaigns, transcript comparison, shrinking."""
import re, struct

from . import kernels as K

LE, BE, CPU = 0x10000000, 0x20000000, 0x30000000
# codec code -> (name, bytes per sample)
CODECS = {0x01: ("pcm_s8", 1), 0x05: ("pcm_u8", 1), 0x02: ("pcm_16", 2), 0x03: ("pcm_24", 3), 0x04: ("pcm_32", 4),
          0x06: ("float", 4), 0x07: ("double", 8), 0x10: ("ulaw", 1), 0x11: ("alaw", 1)}
# containers whose header bytes the Lean model describes (L1)
L1 = {
    "raw": (0x040000, [0x01, 0x05, 0x02, 0x03, 0x04, 0x06, 0x07, 0x10, 0x11], [0, LE, BE, CPU]),
    "au": (0x030000, [0x01, 0x02, 0x03, 0x04, 0x06, 0x07, 0x10, 0x11], [0, LE, BE, CPU]),
    "wav": (0x010000, [0x05, 0x02, 0x03, 0x04, 0x06, 0x07, 0x10, 0x11], [0, LE, BE, CPU]),
}
TYS = ["s16", "s32", "f32", "f64"]
DIG = K.TY_DIGITS


def l1_formats():
    out = []
    for name, (major, codecs, endians) in L1.items():
        for c in codecs:
            for e in endians:
                out.append((name, major | c | e, c))
    return out


def rand_values(rng, ty, n, mode="mixed"):
    """n caller values (as unsigned bit patterns)"""
    out = []
    for _ in range(n):
        r = rng.random()
        if ty == "s16":
            v = rng.choice([0, 1, -1, 32767, -32768, 0x100, -0x100]) if r < 0.2 else rng.randrange(-32768, 32768)
            out.append(v & 0xFFFF)
        elif ty == "s32":
            v = rng.choice([0, 1, -1, 2**31 - 1, -2**31, 0x10000, -0x10000, 0x7FFF0000]) if r < 0.2 else rng.randrange(-2**31, 2**31)
            out.append(v & 0xFFFFFFFF)
        else:
            if r < 0.15:
                x = rng.choice([0.0, -0.0, 1.0, -1.0, 0.5, -0.5, 0.999969482421875, 1e-5, 3.0517578125e-05] + ([2.0, -2.0] if mode == "mixed" else []))
            elif r < 0.9:
                x = rng.uniform(-1.0, 1.0)
            else:
                x = rng.uniform(-40000.0, 40000.0) if mode == "mixed" else rng.uniform(-1.0, 1.0)
            out.append(K.f32bits(x) if ty == "f32" else K.f64bits(x))
    return out


def w_line(h, ty, unit, count, vals):
    return "w %s %s %s %d %s" % (h, ty, unit, count, K.hex_items(vals, DIG[ty]))


def normalise(line):
    line = re.sub(r"err=(?!0\b)-?\d+", "err=E", line)
    line = re.sub(r"msglen=\d+", "", line).rstrip()
    line = re.sub(r" fd_open=\d", "", line)         # descriptor hygiene is C14's business
    return line


def first_diff(impl, model):
    """index of the first differing line, or None. 'unmodelled' in the model ends the comparison."""
    for k in range(max(len(impl), len(model))):
        m = model[k] if k < len(model) else "<missing>"
        if m == "unmodelled":
            return None
        i = impl[k] if k < len(impl) else "<missing>"
        if normalise(i) != normalise(m):
            return k
    return None


def modelled_prefix(model):
    for k, m in enumerate(model):
        if m == "unmodelled":
            return k
    return len(model)


def run_model_batch(ctx, scripts):
    """scripts: list of (name, text) -> dict name -> lines"""
    inp = "".join("== %s\n%s%s" % (n, t, "" if t.endswith("\n") else "\n") for (n, t) in scripts)
    out = ctx.run_model(["script"], inp, timeout=3600)
    res, cur = {}, None
    for line in out.split("\n"):
        if line.startswith("== end"):
            cur = None
        elif line.startswith("== "):
            cur = line[3:]
            res[cur] = []
        elif cur is not None:
            res[cur].append(line)
    return res


def run_model_parallel(ctx, scripts, workers=12):
    import concurrent.futures
    chunks = [scripts[i::workers] for i in range(workers)]
    chunks = [c for c in chunks if c]
    out = {}
    with concurrent.futures.ThreadPoolExecutor(max_workers=len(chunks) or 1) as ex:
        for r in ex.map(lambda c: run_model_batch(ctx, c), chunks):
            out.update(r)
    return out


def shrink(script_lines, still_fails, max_rounds=200):
    """delta-debugging over script lines: remove lines while `still_fails(lines)` stays true"""
    lines = list(script_lines)
    n = 2
    rounds = 0
    while len(lines) >= 2 and rounds < max_rounds:
        rounds += 1
        chunk = max(1, len(lines) // n)
        removed = False
        for start in range(0, len(lines), chunk):
            cand = lines[:start] + lines[start + chunk:]
            if cand and still_fails(cand):
                lines = cand
                n = max(n - 1, 2)
                removed = True
                break
        if not removed:
            if chunk == 1:
                break
            n = min(n * 2, len(lines))
    return lines


# ---------------------------------------------------------------------------------------------------
# generators
# ---------------------------------------------------------------------------------------------------

def gen_rw_script(rng, fmt_entry, max_ops=24, modes=("w", "r", "rw"), ch=None, allow_cmd=True):
    """a random but mostly valid history on one store: write a file, re-open, read/seek, rdwr edits …"""
    name, fmt, codec = fmt_entry
    ch = ch or rng.choice([1, 1, 2, 2, 3, 6])
    sr = rng.choice([8000, 44100, 48000, 1, 96000])
    lines = []
    hcount = [0]

    def newh():
        hcount[0] += 1
        return "h%d" % (hcount[0] % 8)

    def opn(mode):
        h = newh()
        extra = " frames=%d" % rng.choice([0, 7, 123456]) if rng.random() < 0.3 else ""
        if mode == "r" and name != "raw":
            lines.append("open %s s0 r" % h)
        else:
            lines.append("open %s s0 %s fmt=%08x ch=%d sr=%d%s" % (h, mode, fmt, ch, sr, extra))
        return h

    def rnd_count():
        return rng.choice([0, 1, 1, 2, 3, 5, 7, 16, 33, 100, 1365, 2048, 2049, 2731, 4097]) if rng.random() < 0.9 else rng.choice([-1, 8193, 20000])

    def do_write(h):
        ty = rng.choice(TYS)
        unit = rng.choice("if")
        n = rnd_count()
        if n > 5000:
            n = rng.choice([4097, 2731])
        # float/double files with a PEAK chunk: the staging loop of the non-native write paths restarts channel counting at
        # every 2048-item (1024 for double) chunk and looks at buffer[chan] even when the last chunk is shorter than one frame
        # (known finding KF-PEAK-STAGING); keep such calls inside one chunk so the model (which has no stale buffer) applies
        if name == "wav" and codec in (0x06, 0x07) and 1024 % ch != 0:
            n = min(n, 1000 // ch if unit == "f" else 1000 // ch)
        if unit == "f":
            items = max(n, 0) * ch
            cnt = n
        else:
            cnt = n * ch if rng.random() < 0.9 else n      # sometimes not a multiple of channels
            items = max(cnt, 0)
        # G.711 float entry points index a table with lrint(normfact*x): |x| > 1 reads past it (outside every property's quantifier)
        vmode = "unit" if codec in (0x10, 0x11) else "mixed"
        lines.append(w_line(h, ty, unit, cnt, rand_values(rng, ty, items + (ch if cnt % ch else 0), vmode)))

    def do_read(h):
        ty = rng.choice(TYS)
        unit = rng.choice("if")
        n = rnd_count()
        if n > 6000:
            n = 4097
        cnt = n if unit == "f" else (n * ch if rng.random() < 0.9 else n)
        lines.append("r %s %s %s %d" % (h, ty, unit, cnt))

    def do_seek(h):
        wh = rng.choice([0, 1, 2])
        q = rng.choice([0, 0, 0x10, 0x20, 0x30]) if rng.random() < 0.8 else rng.choice([3, 0x40, 7])
        off = rng.choice([0, 0, 1, -1, 2, 5, -5, 100, -100, 1000, 4096])
        lines.append("seek %s %d %d" % (h, off, wh | q))

    def do_cmd(h):
        c = rng.choice(["1013", "1012", "10c0", "1015", "1061", "1060", "1060", "trunc"])
        if c == "trunc":
            n = rng.choice([0, 1, 5, 50, 1000])
            lines.append("cmd %s 1080 8 %s" % (h, struct.pack("<q", n).hex()))
        elif c == "1060":
            lines.append("cmd %s 1060 0 null" % h)
        else:
            lines.append("cmd %s %s %d null" % (h, c, rng.choice([0, 1])))

    # phase 1: create the file
    h = opn("w" if "w" in modes else "rw")
    for _ in range(rng.randrange(1, max_ops // 2)):
        r = rng.random()
        if r < 0.7:
            do_write(h)
        elif r < 0.8 and allow_cmd:
            do_cmd(h)
        elif r < 0.9:
            do_seek(h)
        else:
            do_read(h)
    lines.append("close %s" % h)
    lines.append("dump s0")
    # phase 2: re-open in another mode and exercise
    for mode in [m for m in modes if m != "w"]:
        if rng.random() < 0.8:
            h = opn(mode)
            lines.append("info %s" % h)
            for _ in range(rng.randrange(1, max_ops)):
                r = rng.random()
                if r < 0.45:
                    do_read(h)
                elif r < 0.7:
                    do_seek(h)
                elif r < 0.9:
                    do_write(h)
                elif allow_cmd:
                    do_cmd(h)
            lines.append("close %s" % h)
            lines.append("dump s0")
    return "\n".join(lines) + "\n"
