"""C15 building blocks: representative formats, the three workloads, the complete fault-point enumeration and the
predicate evaluated on each implementation transcript."""
import re, struct

KIND_NAME = {1: "zero", 2: "short", 3: "seekfail", 4: "lenbig", 5: "lensmall", 6: "tellbad", 7: "short1", 8: "all"}
# which fault kinds can alter a callback of a given type (harness/vio.c)
APPLIES = {"L": (4, 5, 8), "S": (3, 8), "R": (1, 2, 7, 8), "W": (1, 2, 7, 8), "T": (6,)}

# (name, format word, channels, frames written, quick tier?)  -- one per container and one per codec family; vio route only (SD2 needs a path)
REPS = [
    ("wav-pcm16", 0x010002, 2, 40, True),
    ("wav-float", 0x010006, 2, 24, True),
    ("wav-ulaw", 0x010010, 1, 40, False),
    ("wav-ima", 0x010012, 1, 600, True),
    ("wav-ms", 0x010013, 2, 600, True),
    ("wav-gsm", 0x010020, 1, 700, False),
    ("aiff-pcm16", 0x020002, 2, 40, True),
    ("aiff-ima", 0x020012, 1, 200, False),
    ("aiff-dwvw16", 0x020041, 1, 300, False),
    ("aiff-gsm", 0x020020, 1, 400, False),
    ("au-pcm16", 0x030002, 2, 40, True),
    ("au-g721", 0x030030, 1, 400, True),
    ("raw-pcm16", 0x10040002, 2, 40, True),
    ("raw-alaw", 0x040011, 1, 40, False),
    ("raw-vox", 0x040021, 1, 200, False),
    ("raw-nms16", 0x040022, 1, 400, False),
    ("raw-gsm", 0x040020, 1, 400, True),
    ("paf-pcm16", 0x050002, 2, 40, False),
    ("paf-pcm24", 0x050003, 2, 40, True),
    ("svx-pcm8", 0x060001, 1, 40, False),
    ("nist-pcm16", 0x070002, 2, 40, False),
    ("voc-pcm16", 0x080002, 2, 40, False),
    ("ircam-pcm16", 0x0A0002, 2, 40, False),
    ("w64-pcm16", 0x0B0002, 2, 40, False),
    ("mat4-float", 0x0C0006, 2, 24, False),
    ("mat5-double", 0x0D0007, 2, 24, False),
    ("pvf-pcm16", 0x0E0002, 2, 40, False),
    ("xi-dpcm16", 0x0F0051, 1, 40, False),
    ("htk-pcm16", 0x100002, 1, 40, False),
    ("sds-pcm16", 0x110002, 1, 100, True),
    ("avr-pcm16", 0x120002, 2, 40, False),
    ("wavex-pcm16", 0x130002, 2, 40, False),
    ("caf-pcm16", 0x180002, 2, 40, False),
    ("caf-alac16", 0x180070, 2, 5000, True),
    ("wve-alaw", 0x190011, 1, 40, False),
    ("mpc2k-pcm16", 0x210002, 2, 40, False),
    ("rf64-pcm16", 0x220002, 2, 40, False),
]


def s16_items(n, seed=1):
    out = []
    x = seed * 7919 + 13
    for k in range(n):
        x = (x * 1103515245 + 12345) & 0x7FFFFFFF
        out.append(((x >> 8) % 20001) - 10000)
    return out


def hex_s16(vals):
    return "".join("%04x" % (v & 0xFFFF) for v in vals)


def hex_s32(vals):
    return "".join("%08x" % ((v << 16) & 0xFFFFFFFF) for v in vals)


def hex_f32(vals):
    return "".join("%08x" % struct.unpack("<I", struct.pack("<f", v / 32768.0))[0] for v in vals)


def fault_line(i, kind, single):
    return "fault at=%d kind=%d%s\n" % (i, kind, " single=1" if single else "")


class Rep:
    def __init__(self, name, word, ch, frames, quick):
        self.name, self.word, self.ch, self.frames, self.quick = name, word, ch, frames, quick
        self.sr = 8000
        self.filehex = None
        self.dataoffset = {}     # workload -> fault-free dataoffset
        self.audio_end = -1      # end of the audio bytes of the prepared file (sample-granular layouts), else -1

    @property
    def raw(self):
        return (self.word >> 16) & 0xFFF == 0x04

    def open_args(self, mode):
        if mode == "w" or self.raw:
            return "fmt=%x ch=%d sr=%d" % (self.word, self.ch, self.sr)
        return "fmt=0 ch=0 sr=0"

    # ---- file used by the read and rdwr workloads ----
    def prep_script(self):
        v = s16_items(self.frames * self.ch, 3)
        return "open h0 s0 w %s\nw h0 s16 i %d %s\nclose h0\ndump s0\n" % (self.open_args("w"), len(v), hex_s16(v))

    # ---- the three workloads; the body is the same for every fault point ----
    def body(self, wl, fault_after_open=False, probes=True):
        ch, F = self.ch, self.frames
        vox = (self.word & 0xFFFF) == 0x21
        L = []
        pre = []
        if wl != "w":
            pre.append("store s0 %s" % self.filehex)
        op = "open h0 s0 %s %s" % ({"w": "w", "r": "r", "rw": "rw"}[wl], self.open_args(wl))
        rp, wp = "seek h0 0 17", "seek h0 0 33"

        def P(kind):
            if probes:
                L.append(rp if kind == "r" else wp)

        if wl == "w":
            # odd counts on OKI/VOX (two samples per byte: the odd sample is held across calls and written by codec_close -- one more
            # write callback at close; KF-VOX-ODD repaired), the even counts of before elsewhere
            n1 = max(2, (F // 3) & ~1) + (1 if vox else 0)
            n2 = max(2, (F // 3) & ~1)
            n3 = max(2, (F - n1 - n2) & ~1)
            P("w")
            L.append("w h0 s16 i %d %s" % (n1 * ch, hex_s16(s16_items(n1 * ch, 5))))
            P("w")
            L.append("cmd h0 1060 0 null")
            L.append("w h0 f32 f %d %s" % (n2, hex_f32(s16_items(n2 * ch, 6))))
            P("w")
            L.append("w h0 s32 i %d %s" % (n3 * ch, hex_s32(s16_items(n3 * ch, 7))))
            P("w")
        elif wl == "r":
            n1 = max(2, (F // 4) & ~1) + (1 if vox else 0)
            P("r")
            L.append("r h0 s16 i %d" % (n1 * ch))
            P("r")
            L.append("seek h0 %d 0" % (F // 2))
            P("r")
            L.append("r h0 f32 f %d" % n1)
            P("r")
            L.append("seek h0 -%d 2" % max(1, F // 5))
            P("r")
            L.append("r h0 s32 i %d" % (F * ch))
            P("r")
            L.append("seek h0 1 0")
            P("r")
            L.append("r h0 s16 f 4")
            P("r")
        else:
            n1 = max(2, (F // 4) & ~1)
            P("r"); P("w")
            L.append("r h0 s16 i %d" % (n1 * ch))
            P("r"); P("w")
            L.append("seek h0 %d 32" % F)
            P("r"); P("w")
            L.append("w h0 s16 i %d %s" % (n1 * ch, hex_s16(s16_items(n1 * ch, 8))))
            P("r"); P("w")
            L.append("r h0 f32 f %d" % n1)
            P("r"); P("w")
            L.append("seek h0 1 16")
            P("r"); P("w")
            L.append("r h0 s32 i %d" % (2 * ch))
            P("r"); P("w")
            L.append("w h0 s16 i %d %s" % (2 * ch, hex_s16(s16_items(2 * ch, 9))))     # item call: the fault may have changed the channel count the library believes
            P("r"); P("w")
        return pre, op, L

    def script(self, wl, fault, after_open=False, peek=False, dump_full=False):
        """fault = (i, kind, single) or None"""
        pre, op, L = self.body(wl)
        fl = fault_line(*fault) if fault else "fault at=0 kind=0\n"
        lines = list(pre)
        if after_open:
            lines += ["iolog on", op, fl.strip(), "iolog on"]     # the first wraps the callbacks (the library copies them at open), the second restarts the log
        else:
            lines += ["ledger begin", fl.strip(), "iolog on", op, "iolog dump"]      # the dump tells how many callbacks the open made
        lines += L
        if peek:
            lines.append("iolog peek h0")
        lines.append("close h0")
        lines.append("iolog dump")
        if not after_open:
            lo = 0 if wl == "r" else max(self.dataoffset.get(wl, 0), self.dataoffset.get("r", 0))
            hi = self.audio_end if wl == "rw" else -1
            lines.append("iolog verdict s0 %d %d" % (lo, hi))
        lines.append("dump s0" if dump_full else "dump s0 sum")
        if not after_open:
            lines.append("ledger end")      # heap / descriptor / temp-file balance of the whole scenario (failing opens included)
        return "\n".join(lines) + "\n"


def fault_points(kinds, after=0):
    """complete, redundancy-free enumeration: for callback i of type t every kind that can alter it, persistent and
    single-shot.  (A persistent fault armed at a callback it cannot alter is the same run as the one armed at the next
    callback it can alter; single-shot FK_ALL equals the single-shot specific kind.)"""
    out = []
    for i, t in enumerate(kinds, 1):
        if i <= after:
            continue
        for k in APPLIES.get(t, ()):
            out.append((i, k, False))
            if k != 8:
                out.append((i, k, True))
    return out


KV = re.compile(r"(\w+)=(\S*)")


def kvs(line):
    return dict(KV.findall(line))


def parse_ops(script):
    return [l for l in script.split("\n") if l.strip()]


class Problem:
    def __init__(self, cat, line, text):
        self.cat, self.line, self.text = cat, line, text


TRACE_EV = re.compile(r"([LSRWT])(-?\d+)?(?:/(\d+))?@(-?\d+):(-?\d+)(!?)$")


def parse_trace(lines):
    """the `iolog trace` line of a transcript -> list of (kind, request, store position before, answer, altered)"""
    tr = next((l for l in reversed(lines) if l.startswith("ok trace=")), "")
    out = []
    for tok in tr[len("ok trace="):].split(","):
        m = TRACE_EV.match(tok.strip())
        if m:
            out.append((m.group(1), int(m.group(2) or 0), int(m.group(4)), int(m.group(5)), m.group(6) == "!"))
    return out


def torn_regions(ev, dataoffset, bw):
    """byte ranges [lo, hi) of TORN FRAMES: a write callback accepted a byte count that ends inside a frame.  Since the repair of
    KF-C15-PARTIAL-FRAME the call reports whole frames only (the fragment is NOT part of what the caller was told has been written)
    and the next write seeks back to the frame boundary, so the fragment is overwritten by the frame the caller supplies next.
    Only these bytes are exempt from the `prefix` clause; sample-granular layouts only (bw > 0)."""
    out = []
    if bw <= 1:
        return out
    for (k, req, pos, ans, alt) in ev:
        if k == "W" and 0 < ans < req:
            end = pos + ans
            if end > dataoffset and (end - dataoffset) % bw != 0:
                out.append((end - (end - dataoffset) % bw, end))
    return out


def changed_ranges(d):
    """ranges= field of `iolog verdict` -> list of (lo, hi) inclusive, or None when the list is incomplete / absent"""
    r = d.get("ranges")
    if r is None or r.endswith("+"):
        return None
    if r == "-":
        return []
    return [tuple(int(x) for x in t.split("-")) for t in r.split(",")]


def judge(rep, wl, script, lines, ff):
    """evaluate the C15 predicate on one implementation transcript.  ff = dict of the fault-free run (sum, kinds).
    returns (problems, info) ; info: fired, calls, first, trace kinds"""
    ops = parse_ops(script)
    probs = []
    info = {"fired": 0, "calls": 0, "first": 0}
    for k, l in enumerate(lines):
        if l.startswith(("TIMEOUT", "CRASH", "ABORT")):
            probs.append(Problem("hang" if l.startswith("TIMEOUT") else "memory", min(k, len(ops) - 1),
                                 "%s during `%s`" % (l.strip(), ops[min(k, len(ops) - 1)][:60])))
            return probs, info
    if len(lines) != len(ops):
        probs.append(Problem("transcript", 0, "transcript has %d lines for %d operations" % (len(lines), len(ops))))
        return probs, info
    ch = rep.ch
    info["seek_only"] = any(o.startswith("fault ") and "kind=3" in o.split() for o in ops)
    reads = []                       # (read position before, ret, data) of every read call
    info["reads"] = reads
    seen_dump = False
    pos = {"r": None, "w": None}     # last probe values
    pending = None                   # (kind, ret, framecall, positions before, line, extra)
    opened = False
    for k, (op, l) in enumerate(zip(ops, lines)):
        t = op.split()
        d = kvs(l)
        if t[0] == "open":
            if l.startswith("open=ok"):
                opened = True
                if "ch" in d:
                    ch = int(d["ch"]) or ch
            elif l.startswith("open=NULL"):
                if int(d.get("err", "0")) == 0:
                    probs.append(Problem("open", k, "sf_open returned NULL with error 0"))
            else:
                probs.append(Problem("transcript", k, "unexpected open line " + l[:80]))
        elif not opened and t[0] in ("r", "w", "seek", "cmd", "close"):
            continue        # NULL handle: these calls are C09's business
        elif t[0] in ("r", "w"):
            req = int(t[4])
            ret = int(d.get("ret", "-99"))
            if not (0 <= ret <= req):
                probs.append(Problem("range", k, "%s of %d returned %d" % (t[0], req, ret)))
            pending = (t[0], ret, t[3] == "f", dict(pos), k, None)
            if t[0] == "r":
                reads.append((pos["r"], ret, d.get("data", ""), k))
        elif t[0] in ("rraw", "wraw"):
            # sf_read_raw / sf_write_raw: byte counts; the position moves by ret / blockwidth frames
            req = int(t[2])
            ret = int(d.get("ret", "-99"))
            if not (0 <= ret <= req):
                probs.append(Problem("range", k, "%s of %d bytes returned %d" % (t[0], req, ret)))
            bw = getattr(rep, "bpf", 0) or getattr(rep, "blockwidth", 0)
            same_view = ff is None or lines[ops.index(next(o for o in ops if o.startswith("open ")))].strip() == ff.get("open", "").strip()
            if t[0] == "rraw":
                reads.append((pos["r"], ret, d.get("data", "")[:2 * max(ret, 0)], k))      # judged by the `data` clause like the typed reads
            if bw > 0 and ret >= 0 and ret % bw == 0 and same_view:     # (a fault inside the open may leave the library with another frame width)
                pending = ("r" if t[0] == "rraw" else "w", ret // bw, True, dict(pos), k, None)
            else:
                pending = None
        elif t[0] == "seek":
            ret = int(d.get("ret", "-99"))
            wh = int(t[3])
            off = int(t[2])
            if off == 0 and wh in (17, 33):
                # position probe (makes no callback)
                which = "r" if wh == 17 else "w"
                pos[which] = ret
                if pending and opened:
                    kind, lret, fcall, before, lk, extra = pending
                    pb = before[which]
                    if pb is None or pb < 0 or ret < 0:
                        pass
                    elif kind in ("r", "w"):
                        if kind != which:
                            if ret != pb:
                                probs.append(Problem("position", lk, "a %s call moved the %s position %d -> %d" % (kind, which, pb, ret)))
                        elif fcall:
                            if ret - pb != lret:
                                probs.append(Problem("position", lk, "%s returned %d frames but the position went %d -> %d" % (kind, lret, pb, ret)))
                        elif lret % ch != 0:
                            probs.append(Problem("partial-frame", lk, "%s returned %d items with %d channels; position went %d -> %d" % (kind, lret, ch, pb, ret)))
                        elif ret - pb != lret // ch:
                            probs.append(Problem("position", lk, "%s returned %d items (%d ch) but the position went %d -> %d" % (kind, lret, ch, pb, ret)))
                    elif kind == "seek":
                        if lret == -1:
                            if ret != pb:
                                probs.append(Problem("seek-position", lk, "sf_seek returned -1 but the %s position went %d -> %d" % (which, pb, ret)))
                        elif which in extra:
                            if ret != lret:
                                probs.append(Problem("seek-position", lk, "sf_seek returned %d but the %s position is %d" % (lret, which, ret)))
                        elif ret != pb:
                            probs.append(Problem("seek-position", lk, "sf_seek in the other mode moved the %s position %d -> %d" % (which, pb, ret)))
            else:
                if ret < -1:
                    probs.append(Problem("range", k, "sf_seek returned %d" % ret))
                if wh & 3 == 0 and ret not in (-1, off):
                    probs.append(Problem("range", k, "sf_seek (%d, SEEK_SET) returned %d" % (off, ret)))
                moved = "r" if (wh & 0x30) == 0x10 else "w" if (wh & 0x30) == 0x20 else {"r": "r", "w": "w", "rw": "rw"}[wl]
                pending = ("seek", ret, False, dict(pos), k, moved)
        elif t[0] == "iolog" and t[1] == "dump" and not seen_dump and k < len(ops) - 4:
            seen_dump = True
            info["kopen"] = int(d.get("calls", 0))
        elif t[0] == "iolog" and t[1] == "dump":
            info["calls"] = int(d.get("calls", 0))
            info["fired"] = int(d.get("fired", 0))
            info["first"] = int(d.get("first", 0))
            info["kinds"] = d.get("kinds", "")
        elif t[0] == "iolog" and t[1] == "trace":
            info["torn"] = torn_regions(parse_trace(lines), rep.dataoffset.get(wl, 0), getattr(rep, "blockwidth", 0)) if wl != "r" else []
        elif t[0] == "iolog" and t[1] == "verdict":
            if wl == "rw" and ff is not None and lines[ops.index(next(o for o in ops if o.startswith("open ")))].strip() != ff.get("open", "").strip():
                continue      # the fault made the library describe the file differently: where the caller's writes land is not comparable
            if int(d.get("changed", 0)) > 0 or int(d.get("shrunk", 0)) > 0 and wl == "r":
                # a torn frame (a fragment the write call did not report) may be completed by the next write; nothing else may change
                cr = changed_ranges(d)
                torn = info.get("torn", [])
                if cr and int(d.get("shrunk", 0)) == 0 and all(any(lo <= a and b < hi for (lo, hi) in torn) for (a, b) in cr):
                    info["torn_rewritten"] = sum(b - a + 1 for (a, b) in cr)
                    continue
                probs.append(Problem("prefix", k, "bytes the I/O layer had accepted when the fault began were changed later: %s" % l))
        elif t[0] == "ledger" and t[1] == "end":
            if int(d.get("blocks", 0)) != 0 or int(d.get("fds", "0").split(":")[0]) != 0 or int(d.get("tmp", "0").split(":")[0]) != 0:
                probs.append(Problem("leak", k, "after the scenario (%s) the library still holds resources: %s" % ("open failed" if not opened else "handle closed", l.strip())))
        elif t[0] == "dump":
            # a seek that was REPORTED as done must have been done: when only seeks fail, and only after the open, a read that
            # starts at the same reported position and returns the same count as in the fault-free run delivers the same data
            # (sample-granular layouts only: the block codecs' own seek functions do not check psf_fseek either -- recorded in the
            # report as a finding outside what is judged here)
            if ff is not None and ff.get("reads") and info.get("first", 0) > ff.get("kopen", 1 << 30) and info.get("seek_only") \
                    and getattr(rep, "blockwidth", 0) > 0:
                for (a, b) in zip(reads, ff["reads"]):
                    if a[0] is not None and a[0] == b[0] and a[1] == b[1] and a[1] > 0 and a[2] != b[2]:
                        probs.append(Problem("data", a[3], "only seek callbacks were failed, sf_seek reported position %d, but the read from there does not deliver the file's data" % a[0]))
                        break
            if wl == "r" and ff is not None and l.strip() != ff.get("sum"):
                probs.append(Problem("prefix", k, "a read-only scenario changed the store: %s (fault-free %s)" % (l.strip(), ff.get("sum"))))
    return probs, info


# ---- L1: byte-for-byte comparison with `sfmodel faults` (faults armed after the open) ----
L1_REPS = [
    ("raw-pcm16le", 0x10040002, 2, 40), ("raw-pcm16be", 0x20040002, 1, 40), ("raw-pcm24", 0x10040003, 2, 24),
    ("raw-pcm32", 0x10040004, 2, 24), ("raw-u8", 0x040005, 3, 30), ("raw-float", 0x10040006, 2, 24),
    ("raw-double-be", 0x20040007, 1, 24), ("raw-ulaw", 0x040010, 2, 40), ("raw-alaw", 0x040011, 1, 40),
    ("au-pcm16", 0x030002, 2, 40), ("au-pcm24", 0x030003, 1, 24), ("au-float", 0x030006, 2, 24), ("au-ulaw", 0x030010, 1, 40),
    ("au-pcm16le", 0x10030002, 2, 40),
    ("wav-pcm16", 0x010002, 2, 40), ("wav-u8", 0x010005, 1, 40), ("wav-pcm24", 0x010003, 2, 24), ("wav-float", 0x010006, 2, 24),
    ("wav-double", 0x010007, 1, 24), ("wav-alaw", 0x010011, 2, 40), ("wav-pcm32", 0x010004, 3, 21),
]


def normalise_l1(script, lines):
    """cut `r` lines to the delivered items, errors to 0/E"""
    ops = parse_ops(script)
    out = []
    ch = 1
    for op, l in zip(ops, lines):
        t = op.split()
        d = kvs(l)
        if t[0] == "open" and "ch" in d:
            ch = int(d["ch"]) or 1
        if "err" in d and t[0] in ("r", "w", "seek", "cmd", "rraw", "wraw"):
            l = re.sub(r"err=-?\d+", "err=0" if d["err"] == "0" else "err=E", l)
        if t[0] == "r" and "data" in d:
            ret = max(0, int(d.get("ret", 0)))
            items = ret * (ch if t[3] == "f" else 1)
            w = {"s16": 4, "s32": 8, "f32": 8, "f64": 16}[t[2]]
            l = l.split("data=")[0] + "data=" + d["data"][:items * w]
        if t[0] == "rraw" and "data" in d:
            l = l.split("data=")[0] + "data=" + d["data"][:2 * max(0, int(d.get("ret", 0)))]
        if t[0] == "iolog" and t[1] == "dump":
            l = "calls=%s fired=%s first=%s kinds=%s" % (d.get("calls"), d.get("fired"), d.get("first"), d.get("kinds", ""))
        out.append(l.strip())
    return out
