"""Relational check of a read/seek transcript against the reference stream of the file
(the C05 / C06 contract evaluated on the implementation's own output, for every format incl. opaque codecs).

A *reference stream* per caller type is obtained by one sequential read of the whole file through a separate handle.
"""
import re
from . import kernels as K

DIG = K.TY_DIGITS
SEEK_SET, SEEK_CUR, SEEK_END = 0, 1, 2


def parse_kv(line):
    return dict(m.groups() for m in re.finditer(r"(\w+)=(\S*)", line))


def split_items(hexs, ty):
    d = DIG[ty]
    return [hexs[i:i + d] for i in range(0, len(hexs), d)]


class ReadChecker:
    """tracks the read position of a read-mode handle and checks every op's transcript line"""

    def __init__(self, ch, frames, ref, strict_tail=False):
        self.ch, self.F, self.ref = ch, frames, ref      # ref: ty -> list of item hex strings (len = frames*ch)
        self.pos = 0
        self.problems = []
        self.bw = None            # bytes per frame (sample-granular encodings) for sf_read_raw
        self.filebytes = None     # the file, to locate the raw bytes
        self.rawbase = None       # offset of frame 0 in the file, learnt from the first raw read

    def bad(self, k, what, cat="count"):
        self.problems.append((k, what, cat))

    def op(self, k, opline, outline):
        t = opline.split()
        kv = parse_kv(outline)
        if t[0] == "r":
            ty, unit, n = t[2], t[3], int(t[4])
            req = n if unit == "i" else n * self.ch
            ret = int(kv.get("ret", "-999"))
            err = kv.get("err", "?")
            data = split_items(kv.get("data", ""), ty) if req > 0 else []
            items = ret if unit == "i" else ret * self.ch
            valid = n >= 0 and (unit == "f" or n % self.ch == 0)
            if not valid:
                if n != 0 and (ret != 0 or err == "0"):
                    self.bad(k, "invalid read request (count %d) must return 0 with an error set: ret=%d err=%s" % (n, ret, err), "invalid")
                return
            if n == 0:
                if ret != 0:
                    self.bad(k, "zero-length read returned %d" % ret, "count")
                return
            if ret < 0 or ret > n:
                self.bad(k, "read returned %d for a request of %d" % (ret, n), "count")
                return
            if unit == "i" and ret % self.ch:
                self.bad(k, "items read returned %d, not a whole number of %d-channel frames" % (ret, self.ch), "count")
            want = self.ref[ty][self.pos * self.ch: self.pos * self.ch + items]
            if data[:items] != want:
                j = next((i for i in range(min(len(want), items)) if i >= len(data) or data[i] != want[i]), min(len(want), items))
                self.bad(k, "data differs from the sequential stream at frame %d (item %d of the call): got %s want %s"
                         % (self.pos + j // self.ch, j, data[j] if j < len(data) else None, want[j] if j < len(want) else None), "data")
            if len(data) != req:
                self.bad(k, "harness buffer length mismatch", "count")
            newpos = self.pos + items // self.ch
            if ret < n and newpos != self.F:
                self.bad(k, "short read (%d of %d) although data does not end here (frame %d of %d)" % (ret, n, newpos, self.F), "short")
            if self.pos >= self.F:
                if ret != 0 or err != "0":
                    self.bad(k, "read at end of data: ret=%d err=%s (want 0, no error)" % (ret, err), "eof")
                if any(int(x, 16) != 0 for x in data):
                    self.bad(k, "read at end of data must zero-fill the requested region", "eof")
            if err != "0" and ret > 0:
                self.bad(k, "successful read left error %s" % err, "count")
            self.pos = min(newpos, self.F) if newpos > self.F else newpos
        elif t[0] == "rraw":
            n = int(t[2])
            ret = int(kv.get("ret", "-999"))
            err = kv.get("err", "?")
            bw = self.bw
            if not bw:
                return
            if n >= 0 and self.pos >= self.F:
                # sf_read_raw tests end-of-data before the alignment of the request
                if ret != 0 or err != "0":
                    self.bad(k, "sf_read_raw at end of data: ret=%d err=%s (want 0, no error)" % (ret, err), "eof")
                return
            if n % bw != 0 or n < 0:
                if ret != 0 or err == "0":
                    self.bad(k, "sf_read_raw with %d bytes (frame size %d) must return 0 with an error set: ret=%d err=%s" % (n, bw, ret, err), "invalid")
                return
            want = min(n // bw, max(self.F - self.pos, 0)) * bw
            if ret != want:
                self.bad(k, "sf_read_raw of %d bytes at frame %d of %d (frame size %d) returned %d, want %d" % (n, self.pos, self.F, bw, ret, want), "count")
                if ret < 0 or ret > n or ret % bw:
                    return
            data = bytes.fromhex(kv.get("data", ""))[:max(ret, 0)]
            if ret > 0 and self.filebytes is not None:
                # the offset of frame 0 in the file is not known here: keep the set of offsets consistent with every raw read so far
                cands, j = set(), self.filebytes.find(data)
                while j >= 0 and len(cands) < 4096:
                    if j - self.pos * bw >= 0:
                        cands.add(j - self.pos * bw)
                    j = self.filebytes.find(data, j + 1)
                if self.rawbase is not None:
                    cands &= self.rawbase
                if not cands:
                    self.bad(k, "sf_read_raw at frame %d delivered %d bytes that are not the file's bytes at any offset consistent with the earlier raw reads" % (self.pos, ret), "data")
                else:
                    self.rawbase = cands
            if err != "0" and ret > 0:
                self.bad(k, "successful sf_read_raw left error %s" % err, "count")
            self.pos += ret // bw
        elif t[0] == "seek":
            off, wh = int(t[2]), int(t[3], 0)
            ret = int(kv.get("ret", "-999"))
            err = kv.get("err", "?")
            base = wh & 0x0F
            mq = wh & 0xF0
            if base == SEEK_SET:
                target = off
            elif base == SEEK_CUR:
                target = self.pos + off
            elif base == SEEK_END:
                target = self.F + off
            else:
                target = None
            must_fail = (wh & ~0x3F) != 0 or base > 2 or mq == 0x20 or (mq == 0x30 and base != SEEK_SET) \
                or target is None or not (0 <= target <= self.F)
            if ret == -1:
                if err == "0":
                    self.bad(k, "seek failed (-1) but no error is set", "seek")
                return      # position unchanged
            if must_fail:
                self.bad(k, "seek with whence 0x%x offset %d (position %d of %d frames) must fail, returned %d" % (wh, off, self.pos, self.F, ret), "seek")
                return
            if ret != target:
                self.bad(k, "seek returned %d, requested absolute frame %d" % (ret, target), "seek")
                return
            if not (0 <= ret <= self.F):
                self.bad(k, "seek accepted frame %d outside 0..%d" % (ret, self.F), "seek")
            if err != "0":
                self.bad(k, "successful seek left error %s" % err, "seek")
            self.pos = ret
